"""Engine D (part 2): abstract evaluator.

Turns the repository's own code into algebraic normal forms.  It walks statement lists, inlines
package functions / methods / properties / closures from their source, keeps ``if`` as guarded
cases (a gated-SSA "gamma" node keyed by the normal form of the guard) and treats a loop as a
havoc of what it assigns.  There is no feasibility reasoning and no search: a guard whose operands
are concrete (an enum member, a string literal) folds, any other guard stays symbolic.

Values
  Scalar(rf)          number in normal form
  Const(v)            str / None / bool
  EnumVal             member of an IntEnum read from source (Unit.Foot = 11)
  Inst                instance of a repository class (NamedTuple, quantity, dataclass); fields in the heap
  Tup / Lst           sequences (lists live in the heap, they are mutable)
  SymObj(path)        an unknown object; attribute and item access extend the path, arithmetic
                      turns it into the symbol named by the path
  Cond(test, a, b)    guarded value
  Raised              the path raises
"""
from __future__ import annotations

import ast
import itertools
from fractions import Fraction
from typing import Any, Callable, Dict, List, Optional, Tuple

from . import algebra as A
from .algebra import RF
from .loader import AnalysisError, ClassInfo, Func, Module, Program, deco_name, dotted, norm


_KEY_OBJ: Dict[Any, Any] = {}


class Undecided(Exception):
    """The evaluator met a construct outside its vocabulary."""


# --------------------------------------------------------------------------------------
# values
# --------------------------------------------------------------------------------------

class AV:
    pass


class Scalar(AV):
    __slots__ = ('rf',)

    def __init__(self, rf):
        self.rf = A.rf(rf)

    def __repr__(self):
        return f'{self.rf!r}'


class Const(AV):
    __slots__ = ('value',)

    def __init__(self, value):
        self.value = value

    def __repr__(self):
        return f'Const({self.value!r})'


class EnumVal(AV):
    __slots__ = ('cls', 'name', 'value')

    def __init__(self, cls: ClassInfo, name: str, value: int):
        self.cls, self.name, self.value = cls, name, value

    def __repr__(self):
        return f'{self.cls.name}.{self.name}'


class Inst(AV):
    __slots__ = ('cls', 'oid')

    def __init__(self, cls: ClassInfo, oid: int):
        self.cls, self.oid = cls, oid

    def __repr__(self):
        return f'<{self.cls.name}#{self.oid}>'


class Tup(AV):
    __slots__ = ('items',)

    def __init__(self, items):
        self.items = list(items)

    def __repr__(self):
        return f'Tup{self.items!r}'


class Lst(AV):
    __slots__ = ('oid',)

    def __init__(self, oid: int):
        self.oid = oid

    def __repr__(self):
        return f'<list#{self.oid}>'


class DictVal(AV):
    __slots__ = ('items',)

    def __init__(self, items: Optional[Dict[Any, AV]] = None):
        self.items = dict(items or {})

    def __repr__(self):
        return f'Dict{self.items!r}'


class GSeq(AV):
    """A lazily filtered sequence over known items whose filter conditions may be symbolic: (condition, element) pairs in
    order (generator expressions with `if`, filter()).  Read by next(); any other consumer needs every condition decided."""
    __slots__ = ('entries',)

    def __init__(self, entries):
        self.entries = list(entries)

    def __repr__(self):
        return f'<guarded sequence of {len(self.entries)}>'


class ClassRef(AV):
    __slots__ = ('ci',)

    def __init__(self, ci: ClassInfo):
        self.ci = ci

    def __repr__(self):
        return f'<class {self.ci.name}>'


class FuncRef(AV):
    __slots__ = ('func', 'self_val', 'closure', 'lam', 'module', 'raw')

    def __init__(self, func: Optional[Func], self_val: Optional[AV] = None, closure=None, lam=None, module=None, raw=False):
        self.func, self.self_val, self.closure, self.lam, self.module = func, self_val, closure, lam, module
        self.raw = raw          # the bare function as a decorator receives it: its own decorators are not applied again

    def __repr__(self):
        return f'<func {self.func.qualname if self.func else "lambda"}>'


class ExtRef(AV):
    __slots__ = ('mod', 'attr')

    def __init__(self, mod: str, attr: Optional[str]):
        self.mod, self.attr = mod, attr

    def __repr__(self):
        return f'<ext {self.mod}.{self.attr}>'


class ModRef(AV):
    __slots__ = ('module',)

    def __init__(self, module: Module):
        self.module = module


class SymObj(AV):
    __slots__ = ('path', 'cls', 'domain')

    def __init__(self, path: str, cls: Optional[ClassInfo] = None, domain: Optional[tuple] = None):
        # domain: the integer values this unknown (an enum member) can take, when the rule knows them
        self.path, self.cls, self.domain = path, cls, domain

    def __repr__(self):
        return f'${self.path}'


class Cond(AV):
    __slots__ = ('test', 'a', 'b')

    def __init__(self, test: 'Test', a: AV, b: AV):
        self.test, self.a, self.b = test, a, b

    def __repr__(self):
        return f'({self.a!r} if {self.test!r} else {self.b!r})'


class Raised(AV):
    __slots__ = ('what',)

    def __init__(self, what: str = ''):
        self.what = what

    def __repr__(self):
        return f'Raised({self.what})'


class Test:
    """kind: 'nz' (rf != 0) | 'pos' (rf > 0) | 'nonneg' (rf >= 0) | 'truthy' (key) | 'opaque' (key)."""
    __slots__ = ('kind', 'rf', 'key')

    def __init__(self, kind: str, rf: Optional[RF] = None, key: str = ''):
        self.kind, self.rf, self.key = kind, rf, key

    def same(self, other: 'Test') -> bool:
        if self.kind != other.kind:
            return False
        if self.rf is not None:
            return other.rf is not None and self.rf.equals(other.rf)
        return self.key == other.key

    def __repr__(self):
        if self.rf is not None:
            op = {'nz': '!= 0', 'pos': '> 0', 'nonneg': '>= 0'}[self.kind]
            return f'[{self.rf!r} {op}]'
        return f'[{self.kind}:{self.key}]'


TRUE, FALSE, NONE = Const(True), Const(False), Const(None)


class State:
    def __init__(self, env: Optional[Dict[str, AV]] = None, heap: Optional[Dict[int, Dict[str, Any]]] = None,
                 facts: Optional[List[Tuple['Test', bool]]] = None):
        self.env = env if env is not None else {}
        self.heap = heap if heap is not None else {}
        self.facts = facts if facts is not None else []     # guards already decided on this path

    def copy(self) -> 'State':
        heap = {}
        for oid, attrs in self.heap.items():
            d = dict(attrs)
            if '$items' in d:
                d['$items'] = list(d['$items'])
            heap[oid] = d
        return State(dict(self.env), heap, list(self.facts))

    def fact(self, test: 'Test') -> Optional[bool]:
        for t, pol in self.facts:
            if t.same(test):
                return pol
            # x > 0  is the negation of  -x >= 0  (same normal form up to sign)
            if test.rf is not None and t.rf is not None and {t.kind, test.kind} == {'pos', 'nonneg'} \
                    and t.rf.equals(-test.rf):
                return not pol
        return None


class Leaf:
    __slots__ = ('kind', 'value', 'state', 'node')

    def __init__(self, kind: str, value: Optional[AV], state: State, node=None):
        self.kind, self.value, self.state, self.node = kind, value, state, node


class Branch:
    __slots__ = ('test', 'then', 'orelse')

    def __init__(self, test: Test, then, orelse):
        self.test, self.then, self.orelse = test, then, orelse


def leaves(tree, path=()):
    """Yield (path, leaf): path is a tuple of (test, polarity)."""
    if isinstance(tree, Leaf):
        yield path, tree
    else:
        yield from leaves(tree.then, path + ((tree.test, True),))
        yield from leaves(tree.orelse, path + ((tree.test, False),))


def cond_leaves(av: AV, path=()):
    if isinstance(av, Cond):
        yield from cond_leaves(av.a, path + ((av.test, True),))
        yield from cond_leaves(av.b, path + ((av.test, False),))
    else:
        yield path, av


_OID = itertools.count(1)


class Ctx:
    __slots__ = ('module', 'func', 'closure', 'depth')

    def __init__(self, module: Module, func: Optional[Func], closure: Optional[State], depth: int):
        self.module, self.func, self.closure, self.depth = module, func, closure, depth


# decorators that leave the body's meaning to the evaluator's own handling (binding, memoisation is checked by C08/C10)
TRANSPARENT_DECORATORS = {'property', 'staticmethod', 'classmethod', 'setter', 'getter', 'dataclass', 'abstractmethod',
                          'override', 'overload', 'final', 'wraps', 'lru_cache', 'cache', 'cached_property', 'no_type_check',
                          'total_ordering', 'deprecated'}

MATH_FUNCS = {'sin', 'cos', 'tan', 'atan', 'atan2', 'exp', 'log', 'sqrt', 'fabs', 'pow', 'asin', 'radians',
              'degrees', 'floor', 'copysign', 'hypot', 'acos', 'ceil'}


class Evaluator:
    def __init__(self, prog: Program, opaque: Optional[set] = None, max_depth: int = 14,
                 hooks: Optional[Dict[str, Callable]] = None, pref_slots: Optional[Dict[str, str]] = None):
        self.prog = prog
        self.opaque = set(opaque or ())        # qualnames / method names never inlined
        self.max_depth = max_depth
        self.hooks = hooks or {}
        self.notes: List[str] = []
        self.calls_inlined: List[str] = []
        self.calls_opaque: List[str] = []
        self.loop_counter = itertools.count(1)
        self.pref_slots = pref_slots or {}
        # work budget: a refactoring that multiplies paths must end in Undecided (loud), never in a hang
        self.budget = 60000
        self.max_evals = 300000

    # ----------------------------------------------------------------------------------
    # helpers on values
    # ----------------------------------------------------------------------------------
    def new_inst(self, st: State, cls: ClassInfo, attrs: Optional[Dict[str, AV]] = None) -> Inst:
        oid = next(_OID)
        st.heap[oid] = dict(attrs or {})
        return Inst(cls, oid)

    def hp(self, st: State, oid: int) -> Dict[str, Any]:
        """Fields of an object: in the current heap, or among the objects built while folding module / class level
        constants (UnitPropsDict[...] holds NamedTuple instances)."""
        h = st.heap.get(oid)
        if h is None:
            h = self.__dict__.setdefault('const_heap', {}).get(oid)
            if h is None:
                raise Undecided(f'object #{oid} is not in scope')
        return h

    def new_list(self, st: State, items) -> Lst:
        oid = next(_OID)
        st.heap[oid] = {'$items': list(items)}
        return Lst(oid)

    def items(self, st: State, v: AV) -> Optional[List[AV]]:
        if isinstance(v, Tup):
            return v.items
        if isinstance(v, Lst):
            return self.hp(st, v.oid)['$items']
        if isinstance(v, Inst) and self.prog.is_namedtuple(v.cls):
            return [self.hp(st, v.oid).get(f, NONE) for f in self.prog.namedtuple_fields(v.cls)]
        if isinstance(v, DictVal):
            return [self.key_value(k) for k in v.items]
        if isinstance(v, GSeq):
            out = []
            for c_, x_ in v.entries:
                if not isinstance(c_, Const):
                    return None
                if c_.value:
                    out.append(x_)
            return out
        return None

    def scalar(self, v: AV) -> RF:
        if isinstance(v, Scalar):
            return v.rf
        if isinstance(v, SymObj):
            return A.sym(v.path)
        if isinstance(v, EnumVal):
            return A.rf(v.value)
        if isinstance(v, Const) and isinstance(v.value, bool):
            return A.rf(int(v.value))
        raise Undecided(f'not a number: {v!r}')

    def is_concrete_number(self, v: AV) -> bool:
        return (isinstance(v, Scalar) and v.rf.is_const()) or isinstance(v, EnumVal) or \
               (isinstance(v, Const) and isinstance(v.value, bool))

    def mk_cond(self, test: Test, a: AV, b: AV) -> AV:
        if a is b:
            return a
        if isinstance(a, Scalar) and isinstance(b, Scalar) and a.rf.equals(b.rf):
            return a
        if isinstance(a, Const) and isinstance(b, Const) and type(a.value) is type(b.value) and a.value == b.value:
            return a
        if isinstance(a, EnumVal) and isinstance(b, EnumVal) and a.cls is b.cls and a.name == b.name:
            return a
        if isinstance(a, Raised) and isinstance(b, Raised):
            return a
        if test.kind == 'nz' and isinstance(a, Scalar) and isinstance(b, Scalar) and test.rf is not None:
            # (a if s != 0 else b) is a when b is what a takes at s = 0  (`x if x else 0`)
            at = test.rf.as_atom()
            if at is not None and at.kind == 'sym':
                try:
                    if a.rf.subs({at.name: A.rf(0)}).equals(b.rf.subs({at.name: A.rf(0)})):
                        return a
                except (ZeroDivisionError, ValueError, ArithmeticError):
                    pass
        return Cond(test, a, b)

    def restrict(self, v: AV, test: Test, pol: bool) -> AV:
        if isinstance(v, Cond):
            if v.test.same(test):
                return self.restrict(v.a if pol else v.b, test, pol)
            a, b = self.restrict(v.a, test, pol), self.restrict(v.b, test, pol)
            if a is v.a and b is v.b:
                return v
            return self.mk_cond(v.test, a, b)
        return v

    def lift(self, f: Callable[..., AV], *vals: AV) -> AV:
        for v in vals:
            if isinstance(v, Raised):
                return v
        for v in vals:
            if isinstance(v, Cond):
                t = v.test
                a = self.restrict(self.lift(f, *[self.restrict(x, t, True) for x in vals]), t, True)
                b = self.restrict(self.lift(f, *[self.restrict(x, t, False) for x in vals]), t, False)
                return self.mk_cond(t, a, b)
        return f(*vals)

    # ----------------------------------------------------------------------------------
    # truth
    # ----------------------------------------------------------------------------------
    def truth(self, v: AV, st: State):
        """-> True | False | Test  (Cond values must be split by the caller through lift).
        A guard already decided on the current path (same normal form) folds to that decision."""
        r = self._truth(v, st)
        if isinstance(r, Test):
            known = st.fact(r)
            if known is not None:
                return known
        return r

    def _truth(self, v: AV, st: State):
        if isinstance(v, Const):
            return bool(v.value)
        if isinstance(v, Scalar):
            if v.rf.is_const():
                return v.rf.const_value() != 0
            return self.test_nz(v.rf)
        if isinstance(v, EnumVal):
            return v.value != 0
        if isinstance(v, Inst):
            for dunder in ('__bool__', '__len__'):
                if self.prog.find_method(v.cls, dunder) is not None:
                    raise Undecided(f'{v.cls.name} defines {dunder}')
            if self.prog.is_namedtuple(v.cls):
                return len(self.prog.namedtuple_fields(v.cls)) > 0
            return True
        if isinstance(v, Tup):
            return len(v.items) > 0
        if isinstance(v, Lst):
            return len(self.hp(st, v.oid)['$items']) > 0
        if isinstance(v, (ClassRef, FuncRef, ExtRef, ModRef)):
            return True
        if isinstance(v, SymObj):
            return Test('truthy', key=v.path)
        raise Undecided(f'truth of {v!r}')

    @staticmethod
    def test_nz(rf: RF):
        if A._negative_lead(rf):
            rf = -rf
        return Test('nz', rf)

    def compare(self, op: ast.cmpop, l: AV, r: AV, st: State, ctx: Ctx):
        """-> AV (Const bool, or Cond(test, TRUE, FALSE))."""
        def on(lv: AV, rv: AV) -> AV:
            return self._compare1(op, lv, rv, st, ctx)
        return self.lift(on, l, r)

    def _bool_from(self, t, negate=False) -> AV:
        if t is True or t is False:
            return Const(t != negate)
        return Cond(t, FALSE, TRUE) if negate else Cond(t, TRUE, FALSE)

    def _compare1(self, op, l: AV, r: AV, st: State, ctx: Ctx) -> AV:
        if isinstance(op, (ast.Is, ast.IsNot)):
            neg = isinstance(op, ast.IsNot)
            if isinstance(r, Const) and r.value is None:
                if isinstance(l, Const):
                    return Const((l.value is None) != neg)
                if isinstance(l, SymObj):
                    return self._bool_from(Test('opaque', key=f'{l.path} is None'), neg)
                return Const(neg)
            if isinstance(l, Const) and isinstance(r, Const):
                return Const((l.value is r.value) != neg)
            if isinstance(l, Inst) and isinstance(r, Inst):
                return Const((l.oid == r.oid) != neg)
            if isinstance(l, (Inst, SymObj, Lst, ClassRef, EnumVal)) and isinstance(r, (Inst, SymObj, Lst, ClassRef, EnumVal)):
                if isinstance(l, EnumVal) and isinstance(r, EnumVal):
                    return Const((l.cls is r.cls and l.name == r.name) != neg)
                if isinstance(l, ClassRef) and isinstance(r, ClassRef):
                    return Const((l.ci is r.ci) != neg)
                if type(l) is not type(r) and not isinstance(l, SymObj) and not isinstance(r, SymObj):
                    return Const(neg)
                return self._bool_from(Test('opaque', key=f'{self.describe(l)} is {self.describe(r)}'), neg)
            if isinstance(l, Const) or isinstance(r, Const):
                c_, o_ = (l, r) if isinstance(l, Const) else (r, l)
                if isinstance(o_, (Inst, Lst, Tup, ClassRef, EnumVal, Scalar)):
                    return Const(neg)
                if isinstance(o_, SymObj):
                    return self._bool_from(Test('opaque', key=f'{o_.path} is {c_.value!r}'), neg)
            raise Undecided('is-comparison')
        if isinstance(op, (ast.In, ast.NotIn)):
            neg = isinstance(op, ast.NotIn)
            if isinstance(r, DictVal):
                k = self.dict_key(l)
                if k is not None:
                    return Const((k in r.items) != neg)
            its = self.items(st, r)
            if its is not None and all(isinstance(x, (Const, EnumVal)) for x in its) and isinstance(l, (Const, EnumVal)):
                hit = any(self._same_concrete(l, x) for x in its)
                return Const(hit != neg)

            def _num(x):
                if isinstance(x, EnumVal):
                    return x.value
                if isinstance(x, Scalar) and x.rf.is_const():
                    return x.rf.const_value()
                return None
            if its is not None and _num(l) is not None and all(_num(x) is not None for x in its):
                return Const(any(_num(l) == _num(x) for x in its) != neg)
            return self._bool_from(Test('opaque', key=f'{self.describe(l)} in {self.describe(r)}'), neg)
        # quantity (or any class with comparison dunders) on the left
        if isinstance(l, Inst):
            name = {ast.Eq: '__eq__', ast.NotEq: '__ne__', ast.Lt: '__lt__', ast.LtE: '__le__',
                    ast.Gt: '__gt__', ast.GtE: '__ge__'}[type(op)]
            m = self.prog.find_method(l.cls, name)
            if m is None and name == '__ne__':
                m = self.prog.find_method(l.cls, '__eq__')
                if m is not None:
                    res = self.call_func(m, [r], {}, st, ctx, self_val=l)
                    return self.lift(lambda x: Const(not x.value) if isinstance(x, Const) else self._not(x), res)
            if m is not None:
                return self.call_func(m, [r], {}, st, ctx, self_val=l)
            # a comparison method bound in the class body to a function object (built by a factory, an alias)
            for nm in ((name,) if name != '__ne__' else ('__ne__', '__eq__')):
                ca = self.class_attr(l.cls, nm, ctx)
                if isinstance(ca, FuncRef) and ca.self_val is None:
                    res = self.call(ca, [l, r], {}, st, ctx)
                    if nm != name:
                        return self.lift(lambda x: Const(not x.value) if isinstance(x, Const) else self._not(x), res)
                    return res
            raise Undecided(f'comparison on {l.cls.name}')
        if isinstance(r, Inst) and not isinstance(l, Inst):
            swap = {ast.Eq: ast.Eq, ast.NotEq: ast.NotEq, ast.Lt: ast.Gt, ast.LtE: ast.GtE, ast.Gt: ast.Lt,
                    ast.GtE: ast.LtE}[type(op)]
            return self._compare1(swap(), r, l, st, ctx)
        if isinstance(l, Const) and isinstance(r, Const) and not isinstance(l.value, bool) and \
                not isinstance(r.value, bool):
            if isinstance(op, ast.Eq):
                return Const(l.value == r.value)
            if isinstance(op, ast.NotEq):
                return Const(l.value != r.value)
        if isinstance(op, (ast.Eq, ast.NotEq)) and (isinstance(l, Const) or isinstance(r, Const)):
            c, o = (l, r) if isinstance(l, Const) else (r, l)
            if isinstance(c.value, str) or c.value is None:
                neg = isinstance(op, ast.NotEq)
                if isinstance(o, SymObj):
                    return self._bool_from(Test('opaque', key=f'{o.path} == {c.value!r}'), neg)
                if isinstance(o, (Scalar, EnumVal, Inst, Tup, Lst)):
                    return Const(neg)
        if isinstance(op, (ast.Eq, ast.NotEq)) and (isinstance(l, (Tup, Lst, DictVal)) or isinstance(r, (Tup, Lst, DictVal))):
            # structural equality of containers with unknown parts: an opaque test
            if isinstance(l, Tup) and isinstance(r, Tup) and len(l.items) != len(r.items):
                return Const(isinstance(op, ast.NotEq))
            return self._bool_from(Test('opaque', key=f'{self.describe(l)} == {self.describe(r)}'), isinstance(op, ast.NotEq))
        # an unknown member of a known finite set against a number: decided when every member agrees
        for sym, other, flip in ((l, r, False), (r, l, True)):
            if isinstance(sym, SymObj) and sym.domain and isinstance(other, (Scalar, EnumVal)):
                o = Scalar(other.value).rf if isinstance(other, EnumVal) else other.rf
                if o.is_const():
                    k = o.const_value()
                    import operator as _op
                    f = {ast.Eq: _op.eq, ast.NotEq: _op.ne, ast.Lt: _op.lt, ast.LtE: _op.le, ast.Gt: _op.gt,
                         ast.GtE: _op.ge}[type(op)]
                    verdicts = {(f(k, v) if flip else f(v, k)) for v in sym.domain}
                    if len(verdicts) == 1:
                        return Const(verdicts.pop())
        a, b = self.scalar(l), self.scalar(r)
        d = a - b
        if d.is_const():
            v = d.const_value()
            res = {ast.Eq: v == 0, ast.NotEq: v != 0, ast.Lt: v < 0, ast.LtE: v <= 0, ast.Gt: v > 0,
                   ast.GtE: v >= 0}[type(op)]
            return Const(res)
        if isinstance(op, ast.Eq):
            return self._bool_from(self.test_nz(d), True)
        if isinstance(op, ast.NotEq):
            return self._bool_from(self.test_nz(d), False)
        if isinstance(op, ast.Gt):
            return self._bool_from(Test('pos', d))
        if isinstance(op, ast.GtE):
            return self._bool_from(Test('nonneg', d))
        if isinstance(op, ast.Lt):
            return self._bool_from(Test('pos', -d))
        if isinstance(op, ast.LtE):
            return self._bool_from(Test('nonneg', -d))
        raise Undecided(f'compare {type(op).__name__}')

    @staticmethod
    def _same_concrete(a: AV, b: AV) -> bool:
        if isinstance(a, EnumVal) and isinstance(b, EnumVal):
            return a.value == b.value
        if isinstance(a, Const) and isinstance(b, Const):
            return a.value == b.value
        return False

    def _not(self, v: AV) -> AV:
        if isinstance(v, Const):
            return Const(not v.value)
        if isinstance(v, Cond):
            return self.mk_cond(v.test, self._not(v.a), self._not(v.b))
        raise Undecided('not')

    def describe(self, v: AV) -> str:
        if isinstance(v, SymObj):
            return v.path
        return repr(v)

    # ----------------------------------------------------------------------------------
    # expressions
    # ----------------------------------------------------------------------------------
    def eval(self, node: ast.AST, st: State, ctx: Ctx) -> AV:
        self.evals = getattr(self, 'evals', 0) + 1
        if self.evals > self.max_evals:
            raise Undecided(f'evaluation budget exhausted (path explosion) in {ctx.func.qualname if ctx.func else ctx.module.path}')
        m = getattr(self, 'e_' + type(node).__name__, None)
        if m is None:
            raise Undecided(f'expression {type(node).__name__} at {ctx.module.path}:{getattr(node, "lineno", 0)}')
        return m(node, st, ctx)

    def e_Constant(self, node, st, ctx):
        v = node.value
        if isinstance(v, bool) or v is None or isinstance(v, (str, bytes)) or v is Ellipsis:
            return Const(v)
        if isinstance(v, (int, float)):
            return Scalar(A.F(v))
        raise Undecided(f'constant {v!r}')

    def e_JoinedStr(self, node, st, ctx):
        return Const('<f-string>')

    def lookup(self, name: str, st: State, ctx: Ctx) -> AV:
        if name in st.env:
            return st.env[name]
        c = ctx.closure
        if c is not None and name in c.env:
            return c.env[name]
        return self.global_name(ctx.module, name, ctx)

    def global_name(self, module: Module, name: str, ctx: Ctx) -> AV:
        hook = self.hooks.get(f'global:{name}')
        if hook is not None:
            return hook(self, module, name)
        r = self.prog.resolve(module, name)
        if r is None:
            if name in ('True', 'False', 'None'):
                return Const({'True': True, 'False': False, 'None': None}[name])
            builtins = ('float', 'int', 'abs', 'min', 'max', 'len', 'isinstance', 'bool', 'range', 'enumerate',
                        'round', 'tuple', 'list', 'sorted', 'reversed', 'object', 'super', 'str', 'hasattr',
                        'getattr', 'print', 'type', 'sum', 'zip', 'ValueError', 'TypeError', 'RuntimeError',
                        'AttributeError', 'ArithmeticError', 'ZeroDivisionError', 'KeyError', 'RuntimeWarning',
                        'UserWarning', 'next', 'any', 'all', 'map', 'filter', 'dict', 'set', 'iter', 'id', 'setattr', 'delattr',
                        'callable', 'frozenset', 'divmod', 'pow', 'repr', 'format', 'LookupError', 'IndexError', 'Exception')
            if name in builtins:
                return ExtRef('builtins', name)
            raise Undecided(f'unresolved name {name} in {module.path}')
        kind = r[0]
        if kind == 'class':
            return ClassRef(r[1])
        if kind == 'func':
            return FuncRef(r[1])
        if kind == 'module':
            return ModRef(r[1])
        if kind == 'external':
            if r[1] == 'math' and r[2] in ('pi', 'e', 'inf'):
                return Scalar(A.sym(r[2]))
            return ExtRef(r[1], r[2])
        if kind == 'const':
            _, m, n = r
            entries = m.assigns[n]
            if len(entries) != 1 or entries[0][1] is None or n in m.global_writes():
                return SymObj(f'{m.name.split(".")[-1]}.{n}')       # reassigned global: opaque
            val = entries[0][1]
            key = ('const', m.name, n)
            cache = self.__dict__.setdefault('_const_cache', {})
            if key in cache:
                return cache[key]
            if isinstance(val, ast.Subscript) and (dotted(val.value) or '').split('.')[-1] == 'Literal':
                elts = val.slice.elts if isinstance(val.slice, ast.Tuple) else [val.slice]
                if all(isinstance(e, ast.Constant) for e in elts):
                    v = Tup([Const(e.value) for e in elts])
                    cache[key] = v
                    return v
            tmp = State()
            try:
                v = self.eval(val, tmp, Ctx(m, None, None, ctx.depth + 1))
            except Undecided:
                v = SymObj(f'{m.name.split(".")[-1]}.{n}')
            self.__dict__.setdefault('const_heap', {}).update(tmp.heap)
            if isinstance(v, (Scalar, Const, EnumVal, Tup, DictVal)) or (isinstance(v, FuncRef) and v.func is None
                                                                       and isinstance(v.lam, tuple)):
                cache[key] = v
            return v
        raise Undecided(f'name {name}')

    def e_Name(self, node, st, ctx):
        return self.lookup(node.id, st, ctx)

    def e_Tuple(self, node, st, ctx):
        return Tup([self.eval(e, st, ctx) for e in node.elts])

    def e_List(self, node, st, ctx):
        return self.new_list(st, [self.eval(e, st, ctx) for e in node.elts])

    def e_Dict(self, node, st, ctx):
        items: Dict[Any, AV] = {}
        for k, v in zip(node.keys, node.values):
            if k is None:
                raise Undecided('dict unpacking')
            kv = self.eval(k, st, ctx)
            key: Any = self.dict_key(kv)
            if key is None:
                return SymObj(f'<dict at line {node.lineno}>')
            items[key] = self.eval(v, st, ctx)
        return DictVal(items)

    def e_DictComp(self, node, st, ctx):
        # {k: f(k, v) for k, v in d.items()} over a dict whose keys are known
        if len(node.generators) == 1 and not node.generators[0].ifs and not node.generators[0].is_async:
            g = node.generators[0]
            try:
                src = self.eval(g.iter, st, ctx)
            except Undecided:
                src = None
            if isinstance(src, Tup) and all(isinstance(x, Tup) for x in src.items):
                out: Dict[Any, AV] = {}
                for it in src.items:
                    sub = State(dict(st.env), st.heap, list(st.facts))
                    self.assign(g.target, it, sub, ctx)
                    k = self.dict_key(self.eval(node.key, sub, ctx))
                    if k is None:
                        return SymObj(f'<dict comprehension at line {node.lineno}>')
                    out[k] = self.eval(node.value, sub, ctx)
                return DictVal(out)
        return SymObj(f'<dict comprehension at line {node.lineno}>')

    def e_Set(self, node, st, ctx):
        return Tup([self.eval(e, st, ctx) for e in node.elts])

    @staticmethod
    def dict_key(v: AV):
        k = Evaluator._dict_key(v)
        if k is not None and k[0] not in ('c', 'n'):
            _KEY_OBJ[k] = v          # state-independent values: the key can be turned back into the value
        return k

    @staticmethod
    def _dict_key(v: AV):
        if isinstance(v, Const):
            return ('c', v.value)
        if isinstance(v, EnumVal):
            return ('e', v.cls.name, v.name)
        if isinstance(v, Scalar) and v.rf.is_const():
            return ('n', v.rf.const_value())
        if isinstance(v, ExtRef):
            return ('x', v.mod, v.attr)
        if isinstance(v, FuncRef) and v.func is not None and v.self_val is None:
            return ('f', v.func.fq)
        if isinstance(v, ClassRef):
            return ('k', v.ci.module.name, v.ci.name)
        if isinstance(v, Tup):
            ks = [Evaluator._dict_key(x_) for x_ in v.items]
            return None if any(k_ is None for k_ in ks) else ('t',) + tuple(ks)
        return None

    @staticmethod
    def key_value(k) -> AV:
        if k[0] == 'c':
            return Const(k[1])
        if k[0] == 'n':
            return Scalar(k[1])
        return _KEY_OBJ.get(k) or Const(str(k))

    def e_NamedExpr(self, node, st, ctx):
        v = self.eval(node.value, st, ctx)
        st.env[node.target.id] = v
        return v

    def e_Lambda(self, node, st, ctx):
        return FuncRef(None, None, closure=st, lam=node, module=ctx.module)

    def e_IfExp(self, node, st, ctx):
        t = self.eval(node.test, st, ctx)

        def pick(tv: AV) -> AV:
            tr = self.truth(tv, st)
            if tr is True:
                return self.eval(node.body, st, ctx)
            if tr is False:
                return self.eval(node.orelse, st, ctx)
            return self.mk_cond(tr, self.eval(node.body, st, ctx), self.eval(node.orelse, st, ctx))
        return self.lift(pick, t)

    def e_BoolOp(self, node, st, ctx):
        is_or = isinstance(node.op, ast.Or)

        def go(i: int) -> AV:
            v = self.eval(node.values[i], st, ctx)
            if i == len(node.values) - 1:
                return v

            def pick(x: AV) -> AV:
                tr = self.truth(x, st)
                if tr is True:
                    return x if is_or else go(i + 1)
                if tr is False:
                    return go(i + 1) if is_or else x
                rest = go(i + 1)
                return self.mk_cond(tr, x, rest) if is_or else self.mk_cond(tr, rest, x)
            return self.lift(pick, v)
        return go(0)

    def e_UnaryOp(self, node, st, ctx):
        v = self.eval(node.operand, st, ctx)
        if isinstance(node.op, ast.Not):
            def f(x):
                tr = self.truth(x, st)
                if tr is True or tr is False:
                    return Const(not tr)
                return Cond(tr, FALSE, TRUE)
            return self.lift(f, v)
        if isinstance(node.op, ast.USub):
            def g(x):
                if isinstance(x, Inst):
                    m = self.prog.find_method(x.cls, '__neg__')
                    if m is None:
                        raise Undecided('neg')
                    return self.call_func(m, [], {}, st, ctx, self_val=x)
                return Scalar(-self.scalar(x))
            return self.lift(g, v)
        if isinstance(node.op, ast.UAdd):
            return v
        raise Undecided('unary op')

    BINOPS = {ast.Add: ('__add__', '__radd__'), ast.Sub: ('__sub__', '__rsub__'), ast.Mult: ('__mul__', '__rmul__'),
              ast.Div: ('__truediv__', '__rtruediv__'), ast.RShift: ('__rshift__', '__rrshift__'),
              ast.LShift: ('__lshift__', '__rlshift__'), ast.Pow: ('__pow__', '__rpow__'),
              ast.BitOr: ('__or__', '__ror__'), ast.BitAnd: ('__and__', '__rand__'),
              ast.FloorDiv: ('__floordiv__', '__rfloordiv__'), ast.Mod: ('__mod__', '__rmod__')}

    def binop(self, op: ast.operator, l: AV, r: AV, st: State, ctx: Ctx, inplace: bool = False) -> AV:
        def f(a: AV, b: AV) -> AV:
            return self._binop1(op, a, b, st, ctx, inplace)
        return self.lift(f, l, r)

    def _binop1(self, op, a: AV, b: AV, st: State, ctx: Ctx, inplace: bool) -> AV:
        names = self.BINOPS.get(type(op))
        if names is None:
            raise Undecided(f'operator {type(op).__name__}')
        if isinstance(a, Inst):
            cands = [names[0]]
            if inplace:
                cands.insert(0, '__i' + names[0][2:])
            for n in cands:
                m = self.prog.find_method(a.cls, n)
                if m is not None:
                    return self.call_func(m, [b], {}, st, ctx, self_val=a)
            if self.prog.is_namedtuple(a.cls) and isinstance(op, ast.Add):
                raise Undecided('tuple concatenation')
        if isinstance(b, Inst):
            m = self.prog.find_method(b.cls, names[1])
            if m is not None:
                return self.call_func(m, [a], {}, st, ctx, self_val=b)
            raise Undecided(f'{names[1]} on {b.cls.name}')
        if isinstance(a, Inst):
            raise Undecided(f'{names[0]} on {a.cls.name}')
        if isinstance(op, ast.Mult) and not inplace:
            # sequence repetition / concatenation on known items
            for seq, k_ in ((a, b), (b, a)):
                if isinstance(seq, (Lst, Tup)) and self.is_concrete_number(k_):
                    its_ = self.items(st, seq) or []
                    out_ = list(its_) * max(0, int(self.scalar(k_).const_value()))
                    return self.new_list(st, out_) if isinstance(seq, Lst) else Tup(out_)
        if isinstance(op, ast.Add) and not inplace and isinstance(a, (Lst, Tup)) and type(a) is type(b):
            out_ = list(self.items(st, a) or []) + list(self.items(st, b) or [])
            return self.new_list(st, out_) if isinstance(a, Lst) else Tup(out_)
        if isinstance(a, EnumVal) and isinstance(op, ast.LShift):
            raise Undecided('enum << x')
        if isinstance(op, ast.RShift) and isinstance(a, SymObj) and isinstance(b, (EnumVal, SymObj)):
            # an unknown quantity read in a unit: a symbol of its own
            return Scalar(A.sym(f'{a.path} >> {b.name if isinstance(b, EnumVal) else b.path}'))
        if isinstance(op, ast.LShift) and isinstance(a, SymObj):
            return a
        if isinstance(op, (ast.Add, ast.Mod, ast.Mult)) and (
                (isinstance(a, Const) and isinstance(a.value, str)) or (isinstance(b, Const) and isinstance(b.value, str))):
            return Const('<str>')
        if isinstance(op, (ast.BitOr, ast.BitAnd)):
            x, y = self.scalar(a), self.scalar(b)
            if x.is_const() and y.is_const():
                xi, yi = int(x.const_value()), int(y.const_value())
                return Scalar(xi | yi if isinstance(op, ast.BitOr) else xi & yi)
            return Scalar(A.fn('bitor' if isinstance(op, ast.BitOr) else 'bitand', x, y))
        x, y = self.scalar(a), self.scalar(b)
        if isinstance(op, ast.Add):
            return Scalar(x + y)
        if isinstance(op, ast.Sub):
            return Scalar(x - y)
        if isinstance(op, ast.Mult):
            return Scalar(x * y)
        if isinstance(op, ast.Div):
            if y.is_zero():
                return Raised('ZeroDivisionError')
            if not y.is_const():
                self.__dict__.setdefault('divisors', []).append(y)      # partiality: the value exists only where y != 0
            return Scalar(x / y)
        if isinstance(op, ast.Pow):
            return Scalar(x ** y)
        if isinstance(op, ast.FloorDiv):
            if x.is_const() and y.is_const() and y.const_value() != 0:
                return Scalar(x.const_value() // y.const_value())
            return Scalar(A.fn('floordiv', x, y))
        if isinstance(op, ast.Mod):
            if x.is_const() and y.is_const() and y.const_value() != 0:
                return Scalar(x.const_value() % y.const_value())
            return Scalar(A.fn('mod', x, y))
        raise Undecided(f'operator {type(op).__name__}')

    def e_BinOp(self, node, st, ctx):
        l = self.eval(node.left, st, ctx)
        r = self.eval(node.right, st, ctx)
        return self.binop(node.op, l, r, st, ctx)

    def e_Compare(self, node, st, ctx):
        left = self.eval(node.left, st, ctx)
        result: Optional[AV] = None
        for op, comp in zip(node.ops, node.comparators):
            right = self.eval(comp, st, ctx)
            c = self.compare(op, left, right, st, ctx)
            result = c if result is None else self._and(result, c)
            left = right
        return result  # type: ignore[return-value]

    def _and(self, a: AV, b: AV) -> AV:
        def f(x: AV, y: AV) -> AV:
            if isinstance(x, Const) and isinstance(y, Const):
                return Const(bool(x.value) and bool(y.value))
            raise Undecided('and')
        return self.lift(f, a, b)

    # -- attributes ----------------------------------------------------------------------
    def e_Attribute(self, node, st, ctx):
        base = self.eval(node.value, st, ctx)
        return self.lift(lambda b: self.getattr(b, node.attr, st, ctx, node), base)

    def rebound_attrs(self) -> set:
        """Attribute names that some statement of the package stores on an object other than a function's own
        first parameter (``Dimension._table = ...``, ``cls.x = ...`` is excluded: classmethods of the owner)."""
        if not hasattr(self, '_rebound'):
            out = set()
            for mod in self.prog.modules.values():
                if mod.name.endswith('.example'):
                    continue
                for n in ast.walk(mod.tree):
                    if isinstance(n, ast.Attribute) and isinstance(n.ctx, ast.Store) and isinstance(n.value, ast.Name) \
                            and n.value.id not in ('self', 'cls', 'd'):
                        out.add(n.attr)
                    elif isinstance(n, ast.Call) and isinstance(n.func, ast.Name) and n.func.id == 'setattr' \
                            and len(n.args) >= 2 and isinstance(n.args[1], ast.Constant):
                        out.add(n.args[1].value)
            self._rebound = out
        return self._rebound

    def class_attr(self, ci: ClassInfo, attr: str, ctx: Ctx) -> Optional[AV]:
        if self.is_enum(ci) and attr in ci.attrs:
            _ann, val = ci.attrs[attr]
            if isinstance(val, ast.Constant) and isinstance(val.value, int):
                return EnumVal(ci, attr, val.value)
        hit = self.prog.find_class_attr(ci, attr)
        if hit is not None:
            owner, (_ann, val) = hit
            if val is None:
                return None
            hook = self.hooks.get(f'classattr:{owner.name}.{attr}')
            if hook is not None:
                return hook(self, owner, attr)
            if isinstance(val, ast.Name) and val.id in owner.methods:
                return FuncRef(owner.methods[val.id])
            if attr in self.rebound_attrs() and isinstance(val, (ast.Dict, ast.List, ast.Set, ast.Call, ast.DictComp,
                                                                  ast.ListComp)):
                # a class-level container that other code assigns / fills at import or at run time
                return SymObj(f'{owner.name}.{attr}')
            # a class body sees the names defined earlier in the same body (ALL = RANGE | ZERO_UP | ...)
            scope = State()
            used = {n.id for n in ast.walk(val) if isinstance(n, ast.Name)}
            for other in owner.attr_order:
                if other == attr:
                    break
                if other in used and owner.attrs[other][1] is not None:
                    try:
                        scope.env[other] = self.class_attr(owner, other, ctx)
                    except Undecided:
                        pass
            for other in used:
                if other not in scope.env and other in owner.methods:
                    scope.env[other] = FuncRef(owner.methods[other])          # a table of the class's own functions
            v_ = self.eval(val, scope, Ctx(owner.module, None, None, ctx.depth + 1))
            self.__dict__.setdefault('const_heap', {}).update(scope.heap)
            return v_
        m = self.prog.find_method(ci, attr)
        if m is not None:
            return FuncRef(m)
        return None

    def is_enum(self, ci: ClassInfo) -> bool:
        return any(n in ('IntEnum', 'Enum', 'enum.IntEnum', 'enum.Enum') for c in self.prog.mro(ci)
                   for n in self.prog.base_names(c))

    def getattr(self, base: AV, attr: str, st: State, ctx: Ctx, node=None) -> AV:
        if isinstance(base, Inst):
            attrs = self.hp(st, base.oid)
            if attr in attrs:
                return attrs[attr]
            m = self.prog.find_method(base.cls, attr)
            if m is not None:
                if m.is_property:
                    return self.call_func(m, [], {}, st, ctx, self_val=base)
                if m.is_static:
                    return FuncRef(m)
                return FuncRef(m, self_val=base)
            v = self.class_attr(base.cls, attr, ctx)
            if v is not None:
                return v
            if attr == '__class__':
                return ClassRef(base.cls)
            if attr == '__dict__':
                if 'inst_dict' in self.hooks:
                    return self.hooks['inst_dict'](self, base, st)
                return DictVal({})      # slots-only quantities / records: no instance dictionary entries are ever stored
            # an attribute the rule did not provide (added by a later version of the code): an unknown value
            self.notes.append(f'attribute {attr} of a {base.cls.name} instance is not known to the rule: symbolic')
            return SymObj(f'{base.cls.name}#{base.oid}.{attr}')
        if isinstance(base, ClassRef):
            hook = self.hooks.get(f'classattr:{base.ci.name}.{attr}')
            if hook is not None:
                return hook(self, base.ci, attr)
            v = self.class_attr(base.ci, attr, ctx)
            if v is not None:
                return v
            if attr == '__name__':
                return Const(base.ci.name)
            if attr == '__new__':
                return ExtRef('object', '__new__')
            if self.prog.is_namedtuple(base.ci) and attr == '_make':
                return FuncRef(None, self_val=base, lam=('ntmake', base.ci))
            if self.prog.is_namedtuple(base.ci) and attr == '_fields':
                return Tup([Const(f_) for f_ in self.prog.namedtuple_fields(base.ci)])
            raise Undecided(f'class attribute {base.ci.name}.{attr}')
        if isinstance(base, EnumVal):
            m = self.prog.find_method(base.cls, attr)
            if m is not None:
                if m.is_property:
                    return self.call_func(m, [], {}, st, ctx, self_val=base)
                return FuncRef(m, self_val=base)
            if attr == 'value':
                return Scalar(base.value)
            if attr == 'name':
                return Const(base.name)
            raise Undecided(f'enum attribute {attr}')
        if isinstance(base, SymObj):
            if base.cls is not None:
                m = self.prog.find_method(base.cls, attr)
                if m is not None and not self.is_opaque(m):
                    if m.is_property:
                        return self.call_func(m, [], {}, st, ctx, self_val=base)
                    if m.is_static:
                        return FuncRef(m)
                    return FuncRef(m, self_val=base)
                cls2 = self.attr_class(base.cls, attr)
                return SymObj(f'{base.path}.{attr}', cls2)
            return SymObj(f'{base.path}.{attr}')
        if isinstance(base, ModRef):
            return self.global_name(base.module, attr, ctx)
        if isinstance(base, ExtRef):
            if base.attr is None:
                if base.mod == 'math' and attr == 'pi':
                    return Scalar(A.sym('pi'))
                if base.mod == 'math' and attr in ('e', 'inf'):
                    return Scalar(A.sym(attr))
                return ExtRef(base.mod, attr)
            if base.mod == 'builtins' and base.attr == 'object' and attr == '__new__':
                return ExtRef('object', '__new__')
            if base.mod == 'builtins' and base.attr == 'object' and attr == '__repr__':
                return ExtRef('object', '__repr__')
            return ExtRef(base.mod, f'{base.attr}.{attr}')
        if isinstance(base, DictVal):
            return FuncRef(None, self_val=base, lam=('dictmethod', attr))
        if isinstance(base, Lst):
            return FuncRef(None, self_val=base, lam=('listmethod', attr))
        if isinstance(base, Const) and isinstance(base.value, str):
            return FuncRef(None, self_val=base, lam=('strmethod', attr))
        if isinstance(base, Tup):
            raise Undecided(f'tuple attribute {attr}')
        if isinstance(base, Scalar):
            at = base.rf.as_atom()
            if at is not None and at.kind == 'sym' and at.name.startswith('$'):
                # a name the rule bound as an unknown number is used as an object: an unknown object
                return SymObj(f'{at.name[1:]}.{attr}')
        raise Undecided(f'attribute {attr} on {base!r}')

    def attr_class(self, ci: ClassInfo, attr: str) -> Optional[ClassInfo]:
        """Class of attribute ``attr`` from the class-level annotation (dataclass fields)."""
        hit = self.prog.find_class_attr(ci, attr)
        if hit is None:
            return None
        owner, (ann, _val) = hit
        if ann is None:
            return None
        names = [n.id for n in ast.walk(ann) if isinstance(n, ast.Name)]
        for n in names:
            c = self.prog.resolve_class(owner.module, n)
            if c is not None:
                return c
        return None

    def is_opaque(self, f: Func) -> bool:
        return f.qualname in self.opaque or f.name in self.opaque or f.fq in self.opaque

    # -- subscripts ----------------------------------------------------------------------
    def e_Subscript(self, node, st, ctx):
        base = self.eval(node.value, st, ctx)
        if isinstance(node.slice, ast.Slice):
            def sl(b: AV) -> AV:
                if isinstance(b, SymObj):
                    return SymObj(f'{b.path}[{norm(node.slice)}]')
                its = self.items(st, b)
                if its is not None:
                    bounds = []
                    for part in (node.slice.lower, node.slice.upper, node.slice.step):
                        if part is None:
                            bounds.append(None)
                            continue
                        pv = self.eval(part, st, ctx)
                        if not self.is_concrete_number(pv):
                            raise Undecided('slice of a concrete sequence with a symbolic bound')
                        bounds.append(int(self.scalar(pv).const_value()))
                    out = its[slice(*bounds)]
                    return Tup(list(out)) if isinstance(b, Tup) else self.new_list(st, list(out))
                raise Undecided('slice')
            return self.lift(sl, base)
        idx = self.eval(node.slice, st, ctx)
        return self.lift(lambda b, i: self.getitem(b, i, st, ctx), base, idx)

    def getitem(self, b: AV, i: AV, st: State, ctx: Ctx) -> AV:
        if isinstance(b, DictVal):
            k = self.dict_key(i)
            if k is not None and k in b.items:
                return b.items[k]
            if k is not None:
                return Raised('KeyError')
            raise Undecided('symbolic key into a literal dict')
        its = self.items(st, b)
        if its is not None:
            if self.is_concrete_number(i):
                k = int(self.scalar(i).const_value())
                if -len(its) <= k < len(its):
                    return its[k]
                return Raised('IndexError')
            raise Undecided('symbolic index into a concrete sequence')
        if isinstance(b, SymObj):
            if isinstance(i, Const):
                return SymObj(f'{b.path}[{i.value!r}]')
            return SymObj(f'{b.path}[{self.scalar(i)!r}]')
        if isinstance(b, Inst):
            m = self.prog.find_method(b.cls, '__getitem__')
            if m is not None:
                return self.call_func(m, [i], {}, st, ctx, self_val=b)
        raise Undecided(f'subscript of {b!r}')

    # -- comprehension (concrete iterables only) -----------------------------------------
    def e_ListComp(self, node, st, ctx):
        if len(node.generators) != 1:
            raise Undecided('comprehension shape')
        gen = node.generators[0]
        it = self.eval(gen.iter, st, ctx)
        if isinstance(it, Cond):
            return self.lift(lambda x: self._comp(node, gen, x, st, ctx), it)
        return self._comp(node, gen, it, st, ctx)

    def _comp(self, node, gen, it: AV, st: State, ctx: Ctx) -> AV:
        its = self.items(st, it)
        if its is None:
            if isinstance(it, SymObj):
                # element-wise map over an unknown sequence: keep it symbolic through a generic element
                sub = State(dict(st.env), st.heap, list(st.facts))
                self.assign(gen.target, SymObj(f'{it.path}[*]'), sub, ctx)
                elt = self.eval(node.elt, sub, ctx)
                flt = ' if ' + ' and '.join(norm(c) for c in gen.ifs) if gen.ifs else ''
                return SymObj(f'[{self.describe(elt)} for {it.path}{flt}]')
            raise Undecided('comprehension over unknown iterable')
        out = []
        guarded = []
        symbolic = False
        for x in its:
            sub = State(dict(st.env), st.heap, list(st.facts))
            self.assign(gen.target, x, sub, ctx)
            keep: AV = TRUE
            for c in gen.ifs:
                cv = self.eval(c, sub, ctx)
                tr = self.truth(cv, sub) if not isinstance(cv, Cond) else None
                if tr is False:
                    keep = FALSE
                    break
                if tr is not True:
                    if not isinstance(node, ast.GeneratorExp):
                        raise Undecided('comprehension filter on a symbolic condition')
                    symbolic = True
                    cb = self.call_ext(ExtRef('builtins', 'bool'), [cv], {}, sub, ctx)
                    keep = cb if keep is TRUE else self._and(keep, cb)
            if keep is FALSE:
                continue
            elt = self.eval(node.elt, sub, ctx)
            guarded.append((keep, elt))
            out.append(elt)
        if symbolic:
            return GSeq(guarded)
        return self.new_list(st, out)

    def e_GeneratorExp(self, node, st, ctx):
        # consumed at once by tuple(...), unpacking, next(...): same value as the list
        return self.e_ListComp(node, st, ctx)

    # ----------------------------------------------------------------------------------
    # calls
    # ----------------------------------------------------------------------------------
    def e_Call(self, node, st, ctx):
        # super().m(...)
        if isinstance(node.func, ast.Attribute) and isinstance(node.func.value, ast.Call) and \
                isinstance(node.func.value.func, ast.Name) and node.func.value.func.id == 'super':
            if ctx.func is None or ctx.func.cls is None:
                raise Undecided('super() outside a method')
            selfv = st.env.get('self')
            cls = selfv.cls if isinstance(selfv, (Inst, SymObj)) and selfv.cls is not None else ctx.func.cls
            m = self.prog.find_method(cls, node.func.attr, start_after=ctx.func.cls)
            args = [self.eval(a, st, ctx) for a in node.args]
            kwargs = {k.arg: self.eval(k.value, st, ctx) for k in node.keywords}
            if m is None:
                if node.func.attr == '__init__':
                    return NONE
                raise Undecided(f'super().{node.func.attr} not found')
            return self.call_func(m, args, kwargs, st, ctx, self_val=selfv)
        fv = self.eval(node.func, st, ctx)
        args: List[AV] = []
        for a in node.args:
            if isinstance(a, ast.Starred):
                sv = self.eval(a.value, st, ctx)
                its = self.items(st, sv) if not isinstance(sv, Cond) else None
                if its is None:
                    raise Undecided('star-args')
                args.extend(its)
                continue
            args.append(self.eval(a, st, ctx))
        kwargs: Dict[str, AV] = {}
        for k in node.keywords:
            if k.arg is None:
                dv = self.eval(k.value, st, ctx)
                if isinstance(dv, DictVal) and all(isinstance(x, tuple) and x[0] == 'c' and isinstance(x[1], str)
                                                   for x in dv.items):
                    kwargs.update({x[1]: v_ for x, v_ in dv.items.items()})
                    continue
                raise Undecided('**kwargs')
            kwargs[k.arg] = self.eval(k.value, st, ctx)
        return self.lift(lambda f: self.call(f, args, kwargs, st, ctx, node), fv)

    def call(self, fv: AV, args: List[AV], kwargs: Dict[str, AV], st: State, ctx: Ctx, node=None) -> AV:
        if isinstance(fv, FuncRef):
            if fv.func is None and isinstance(fv.lam, tuple):
                return self.builtin_method(fv, args, kwargs, st, ctx)
            if fv.func is None:
                return self.call_lambda(fv, args, kwargs, st, ctx)
            if any(d.split('(')[0].split('.')[-1] in ('lru_cache', 'cache') for d in fv.func.decorators):
                # a memoised function hands back whatever an earlier call with equal arguments produced
                return SymObj(f'{fv.func.qualname}({", ".join(self.describe(a_) for a_ in args)})@memo')
            return self.call_func(fv.func, args, kwargs, st, ctx, self_val=fv.self_val, closure=fv.closure, raw=fv.raw)
        if isinstance(fv, ClassRef):
            return self.construct(fv.ci, args, kwargs, st, ctx)
        if isinstance(fv, ExtRef):
            return self.call_ext(fv, args, kwargs, st, ctx, node)
        if isinstance(fv, EnumVal):
            m = self.prog.find_method(fv.cls, '__call__')
            if m is None:
                raise Undecided('enum member called')
            return self.call_func(m, args, kwargs, st, ctx, self_val=fv)
        if isinstance(fv, SymObj):
            hook = self.hooks.get('symcall')
            if hook is not None:
                r = hook(self, fv, args, kwargs, st)
                if r is not None:
                    return r
            return self.sym_call(fv.path, args, kwargs)
        raise Undecided(f'call of {fv!r}')

    def sym_call(self, path: str, args: List[AV], kwargs: Dict[str, AV]) -> AV:
        self.calls_opaque.append(path)
        parts = []
        for a in list(args) + [kwargs[k] for k in sorted(kwargs)]:
            try:
                parts.append(self.scalar(a))
            except Undecided:
                parts.append(A.sym(f'<{self.describe(a)}>'))
        if not parts:
            return SymObj(f'{path}()')
        return SymObj(repr(A.fn(path, *parts)))

    def call_lambda(self, fv: FuncRef, args, kwargs, st: State, ctx: Ctx) -> AV:
        lam = fv.lam
        sub = State({}, st.heap, list(st.facts))
        names = [a.arg for a in lam.args.args]
        for n, v in zip(names, args):
            sub.env[n] = v
        for k, v in kwargs.items():
            sub.env[k] = v
        return self.eval(lam.body, sub, Ctx(fv.module or ctx.module, ctx.func, fv.closure, ctx.depth + 1))

    def builtin_method(self, fv: FuncRef, args, kwargs, st: State, ctx: Ctx) -> AV:
        kind, name = fv.lam
        base = fv.self_val
        if kind == 'partial':
            f0, a0, k0 = name
            return self.lift(lambda f: self.call(f, list(a0) + list(args), {**k0, **kwargs}, st, ctx), f0)
        if kind == 'attrgetter':
            if len(args) != 1 or kwargs:
                raise Undecided('attrgetter call')

            def _get(path_: str) -> AV:
                v_ = args[0]
                for part in path_.split('.'):
                    v_ = self.lift(lambda o, part=part: self.getattr(o, part, st, ctx), v_)
                return v_
            return _get(name[0]) if len(name) == 1 else Tup([_get(n_) for n_ in name])
        if kind == 'ntmake':
            its = self.items(st, args[0]) if len(args) == 1 and not kwargs else None
            if its is None:
                raise Undecided('_make of an unknown iterable')
            return self.construct(name, list(its), {}, st, ctx)
        if kind == 'itemgetter':
            if len(args) != 1 or kwargs:
                raise Undecided('itemgetter call')
            got = [self.lift(lambda b_, i_=i_: self.getitem(b_, i_, st, ctx), args[0]) for i_ in name]
            return got[0] if len(got) == 1 else Tup(got)
        if kind == 'listmethod' and name == 'sort' and not args:
            items = self.hp(st, base.oid)['$items']
            items[:] = self.sort_items(items, kwargs, st, ctx)
            return NONE
        if kind == 'listmethod':
            items = self.hp(st, base.oid)['$items']
            if name == 'append':
                items.append(args[0])
                return NONE
            if name == 'extend':
                its = self.items(st, args[0])
                if its is None:
                    raise Undecided('extend with unknown iterable')
                items.extend(its)
                return NONE
            raise Undecided(f'list.{name}')
        if kind == 'dictmethod':
            if name == 'values' and not args:
                return Tup(list(base.items.values()))
            if name == 'keys' and not args:
                return Tup([self.key_value(k) for k in base.items])
            if name == 'items' and not args:
                return Tup([Tup([self.key_value(k), v]) for k, v in base.items.items()])
            if name == 'copy' and not args:
                return DictVal(dict(base.items))
            if name == 'clear' and not args:
                base.items.clear()
                return NONE
            if name == 'update' and len(args) <= 1:
                # in-place: the value object is shared by every alias of the dict (straight-line use only)
                if args:
                    if not isinstance(args[0], DictVal):
                        raise Undecided('dict.update with an unknown mapping')
                    base.items.update(args[0].items)
                base.items.update({('c', k): v for k, v in kwargs.items()})
                return NONE
            if name == 'setdefault' and len(args) == 2:
                k = self.dict_key(args[0])
                if k is None:
                    raise Undecided('dict.setdefault with a symbolic key')
                return base.items.setdefault(k, args[1])
            if name == 'get' and args:
                k = self.dict_key(args[0])
                if k is None:
                    if not base.items:
                        return args[1] if len(args) > 1 else NONE
                    raise Undecided('dict.get with a symbolic key')
                return base.items.get(k, args[1] if len(args) > 1 else NONE)
            raise Undecided(f'dict.{name}')
        if kind == 'strmethod':
            if name in ('lower', 'upper', 'strip') and not args:
                return Const(getattr(base.value, name)())
            raise Undecided(f'str.{name}')
        raise Undecided('builtin method')

    def bind(self, func: Func, args: List[AV], kwargs: Dict[str, AV], st: State, ctx: Ctx,
             skip_self: bool) -> Dict[str, AV]:
        a = func.node.args
        pos = [x.arg for x in a.posonlyargs + a.args]
        if skip_self and pos:
            pos = pos[1:]
        env: Dict[str, AV] = {}
        if len(args) > len(pos) and a.vararg is None:
            raise Undecided(f'too many arguments for {func.qualname}')
        for n, v in zip(pos, args):
            env[n] = v
        if a.vararg is not None:
            env[a.vararg.arg] = Tup(args[len(pos):])
        allp = pos + [x.arg for x in a.kwonlyargs]
        extra: Dict[Any, AV] = {}
        for k, v in kwargs.items():
            if k in env:
                raise Undecided(f'duplicate argument {k}')
            if k not in allp and a.kwarg is not None:
                extra[('c', k)] = v
                continue
            env[k] = v
        if a.kwarg is not None:
            env[a.kwarg.arg] = DictVal(extra)
        for n in allp:
            if n not in env:
                d = func.default_of(n)
                if d is None:
                    raise Undecided(f'missing argument {n} for {func.qualname}')
                env[n] = self.eval(d, State(), Ctx(func.module, None, None, ctx.depth + 1))
        return env

    def call_func(self, func: Func, args: List[AV], kwargs: Dict[str, AV], st: State, ctx: Ctx,
                  self_val: Optional[AV] = None, closure: Optional[State] = None, raw: bool = False) -> AV:
        hook = self.hooks.get(f'call:{func.qualname}')
        if hook is not None:
            r = hook(self, func, args, kwargs, st, self_val)
            if r is not None:
                return r
        if self.is_opaque(func):
            path = func.qualname if self_val is None else f'{self.describe(self_val)}.{func.name}'
            return self.sym_call(path, args, kwargs)
        if not raw and any(d_.split('.')[-1] not in TRANSPARENT_DECORATORS for d_ in func.decorators):
            # a wrapper around the body: reading the bare body would misread the function.  The decorators of the package
            # are applied as Python does - innermost first, each called on the function object it receives - and the
            # result is what gets called; anything else about the definition (static / class method, property) declines
            if func.is_static or func.is_classmethod or func.is_property or func.is_setter or closure is not None \
                    or ctx.depth + 2 >= self.max_depth:
                raise Undecided(f'{func.qualname} is wrapped by a decorator in a position the evaluator does not apply')
            wrapped: AV = FuncRef(func, raw=True)
            dctx = Ctx(func.module, None, None, ctx.depth + 1)
            for d_node in reversed(func.node.decorator_list):
                if deco_name(d_node).split('.')[-1] in TRANSPARENT_DECORATORS:
                    continue
                dv = self.eval(d_node, State({}, st.heap, []), dctx)
                wrapped = self.lift(lambda w_, dv=dv: self.call(dv, [w_], {}, st, dctx), wrapped)
            if isinstance(wrapped, FuncRef) and wrapped.func is func and wrapped.raw:
                raise Undecided(f'{func.qualname}: decorator returned the function itself in a way not followed')
            full = ([self_val] if self_val is not None else []) + list(args)
            return self.lift(lambda w_: self.call(w_, full, kwargs, st, Ctx(ctx.module, ctx.func, ctx.closure, ctx.depth + 1)), wrapped)
        if ctx.depth >= self.max_depth:
            raise Undecided(f'inlining depth exceeded at {func.qualname}')
        needs_self = func.cls is not None and func.outer is None and not func.is_static
        env: Dict[str, AV]
        if needs_self:
            if func.is_classmethod:
                selfv: AV = ClassRef(func.cls)
            elif self_val is None:
                # unbound call Class.method(obj, ...)
                if not args:
                    raise Undecided(f'unbound call of {func.qualname} without instance')
                selfv, args = args[0], args[1:]
            else:
                selfv = self_val
            env = self.bind(func, args, kwargs, st, ctx, skip_self=True)
            first = (func.node.args.posonlyargs + func.node.args.args)[0].arg
            env[first] = selfv
        else:
            env = self.bind(func, args, kwargs, st, ctx, skip_self=False)
        self.calls_inlined.append(func.qualname)
        sub = State(env, st.heap, list(st.facts))
        tree = self.exec_block(func.node.body, sub, Ctx(func.module, func, closure if closure is not None else
                                                         (ctx.closure if func.outer is not None else None),
                                                         ctx.depth + 1))
        result = self.merge_outcome(tree, st)
        post = self.hooks.get(f'post:{func.qualname}')
        if post is not None:
            result = post(self, result)
        return result

    def merge_outcome(self, tree, st: State) -> AV:
        """Collapse the outcome tree of an inlined call into one guarded value and one heap."""
        def val(t) -> AV:
            if isinstance(t, Leaf):
                if t.kind == 'return':
                    return t.value if t.value is not None else NONE
                if t.kind == 'raise':
                    return Raised(t.value.what if isinstance(t.value, Raised) else 'raise')
                if t.kind == 'fall':
                    return NONE
                raise Undecided(f'{t.kind} outside loop')
            return self.mk_cond(t.test, val(t.then), val(t.orelse))
        result = val(tree)
        # heap merge
        lv = [l for _p, l in leaves(tree)]
        live = [l for l in lv if l.kind != 'raise']
        if len(lv) == 1 or not live:
            src = (live or lv)[0].state.heap
            if src is not st.heap:
                src = dict(src)
                st.heap.clear()
                st.heap.update(src)
            return result
        oids = set()
        for l in live:
            oids |= set(l.state.heap)
        merged: Dict[int, Dict[str, Any]] = {}

        def attr_tree(t, oid, attr):
            if isinstance(t, Leaf):
                if t.kind == 'raise':
                    return None
                h = t.state.heap.get(oid)
                if h is None or attr not in h:
                    return None
                return h[attr]
            a, b = attr_tree(t.then, oid, attr), attr_tree(t.orelse, oid, attr)
            if a is None:
                return b
            if b is None:
                return a
            if attr == '$items':
                if len(a) == len(b):
                    return [self.mk_cond(t.test, x, y) for x, y in zip(a, b)]
                raise Undecided('list length depends on a symbolic guard')
            return self.mk_cond(t.test, a, b)
        for oid in oids:
            names = set()
            for l in live:
                names |= set(l.state.heap.get(oid, {}))
            merged[oid] = {}
            for n in names:
                v = attr_tree(tree, oid, n)
                if v is not None:
                    merged[oid][n] = v
        st.heap.clear()
        st.heap.update(merged)
        return result

    def construct(self, ci: ClassInfo, args, kwargs, st: State, ctx: Ctx) -> AV:
        hook = self.hooks.get(f'construct:{ci.name}')
        if hook is not None:
            r = hook(self, ci, args, kwargs, st)
            if r is not None:
                return r
        if self.prog.is_namedtuple(ci):
            fields = self.prog.namedtuple_fields(ci)
            attrs: Dict[str, AV] = {}
            if len(args) > len(fields):
                raise Undecided(f'too many fields for {ci.name}')
            for f, v in zip(fields, args):
                attrs[f] = v
            for k, v in kwargs.items():
                if k not in fields or k in attrs:
                    raise Undecided(f'bad field {k} for {ci.name}')
                attrs[k] = v
            for f in fields:
                if f not in attrs:
                    _ann, dv = ci.attrs[f]
                    if dv is None:
                        raise Undecided(f'missing field {f} for {ci.name}')
                    attrs[f] = self.eval(dv, State(), Ctx(ci.module, None, None, ctx.depth + 1))
            return self.new_inst(st, ci, attrs)
        if self.is_enum(ci):
            raise Undecided('enum lookup by value')
        init = self.prog.find_method(ci, '__init__')
        obj = self.new_inst(st, ci, {})
        if init is not None:
            r = self.call_func(init, args, kwargs, st, ctx, self_val=obj)
            if isinstance(r, Raised):
                return r
            if isinstance(r, Cond):
                return self.lift(lambda x: x if isinstance(x, Raised) else obj, r)
            return obj
        if self.prog.is_dataclass(ci):
            fields = [n for n in ci.attr_order if ci.attrs[n][0] is not None]
            for f, v in zip(fields, args):
                st.heap[obj.oid][f] = v
            for k, v in kwargs.items():
                st.heap[obj.oid][k] = v
            return obj
        if any(b.split('.')[-1] == 'TypedDict' for b in self.prog.base_names(ci)):
            # a TypedDict class called with keywords builds a plain dict
            if args:
                raise Undecided(f'TypedDict {ci.name} called with positional arguments')
            return DictVal({('c', k): v for k, v in kwargs.items()})
        if args or kwargs:
            raise Undecided(f'constructor of {ci.name} with arguments but no __init__')
        return obj

    def call_ext(self, fv: ExtRef, args, kwargs, st: State, ctx: Ctx, node=None) -> AV:
        mod, name = fv.mod, fv.attr
        hook = self.hooks.get(f'ext:{mod}.{name}')
        if hook is not None:
            r = hook(self, fv, args, kwargs, st)
            if r is not None:
                return r
        if mod == 'builtins' and name in ('min', 'max') and len(args) == 1 and not kwargs:
            x = args[0]
            its = self.items(st, x)
            if its is not None and its:
                return self.lift(lambda *xs: self.math_call(mod, name, list(xs), st, ctx), *its)
            if isinstance(x, SymObj):
                return SymObj(f'{name}({x.path})')
        if mod == 'math' or (mod == 'builtins' and name in ('abs', 'min', 'max', 'float', 'int', 'round')):
            extra = [kwargs[k] for k in sorted(kwargs)] if name == 'round' else []
            return self.lift(lambda *xs: self.math_call(mod, name, list(xs), st, ctx), *(list(args) + extra))
        if mod == 'bisect' and name in ('bisect_left', 'bisect_right', 'bisect') and 2 <= len(args) <= 4 and not kwargs \
                and not isinstance(args[0], Cond):
            its = self.items(st, args[0])
            if its is not None and all(self.is_concrete_number(x_) for x_ in list(its) + list(args[1:])):
                import bisect as _bs
                keys = [self.scalar(x_).const_value() for x_ in its]
                extra = [int(self.scalar(a_).const_value()) for a_ in args[2:]]
                f_ = _bs.bisect_left if name == 'bisect_left' else _bs.bisect_right
                return Scalar(f_(keys, self.scalar(args[1]).const_value(), *extra))
        if mod == 'itertools' and name == 'islice' and 2 <= len(args) <= 4 and not kwargs and not isinstance(args[0], Cond):
            its = self.items(st, args[0])
            bounds = [None if (isinstance(a_, Const) and a_.value is None) else
                      (int(self.scalar(a_).const_value()) if self.is_concrete_number(a_) else '?') for a_ in args[1:]]
            if its is not None and '?' not in bounds:
                return Tup(list(its[slice(*bounds)]))
        if mod == 'itertools' and name == 'chain' and not kwargs:
            seqs = [self.items(st, a_) if not isinstance(a_, Cond) else None for a_ in args]
            if all(s_ is not None for s_ in seqs):
                return Tup([x_ for s_ in seqs for x_ in s_])
        if mod == 'functools' and name == 'partial' and args:
            return FuncRef(None, lam=('partial', (args[0], list(args[1:]), dict(kwargs))))
        if mod == 'operator':
            if name == 'attrgetter' and args and not kwargs and all(isinstance(a_, Const) and isinstance(a_.value, str)
                                                                    for a_ in args):
                return FuncRef(None, lam=('attrgetter', tuple(a_.value for a_ in args)))
            if name == 'itemgetter' and args and not kwargs:
                return FuncRef(None, lam=('itemgetter', tuple(args)))
            cmp_ = {'lt': ast.Lt, 'le': ast.LtE, 'gt': ast.Gt, 'ge': ast.GtE, 'eq': ast.Eq, 'ne': ast.NotEq,
                    'is_': ast.Is, 'is_not': ast.IsNot}
            bin_ = {'add': ast.Add, 'sub': ast.Sub, 'mul': ast.Mult, 'truediv': ast.Div, 'floordiv': ast.FloorDiv,
                    'mod': ast.Mod, 'pow': ast.Pow, 'rshift': ast.RShift, 'lshift': ast.LShift}
            if name in cmp_ and len(args) == 2 and not kwargs:
                return self.compare(cmp_[name](), args[0], args[1], st, ctx)
            if name in bin_ and len(args) == 2 and not kwargs:
                return self.binop(bin_[name](), args[0], args[1], st, ctx)
            if name in ('neg', 'not_', 'truth', 'abs') and len(args) == 1 and not kwargs:
                if name == 'neg':
                    return self.lift(lambda x_: Scalar(-self.scalar(x_)), args[0])
                if name == 'abs':
                    return self.lift(lambda x_: self.math_call('builtins', 'abs', [x_], st, ctx), args[0])

                def tr_(x_: AV) -> AV:
                    t_ = self.truth(x_, st)
                    v_ = Const(t_) if isinstance(t_, bool) else Cond(t_, TRUE, FALSE)
                    return self._not(v_) if name == 'not_' else v_
                return self.lift(tr_, args[0])
        if mod == 'object' and name == '__new__':
            if isinstance(args[0], ClassRef):
                return self.new_inst(st, args[0].ci, {})
            raise Undecided('object.__new__ of unknown class')
        if mod == 'builtins':
            if name == 'isinstance':
                return self.lift(lambda x: self.isinstance_(x, args[1], st), args[0])
            if name == 'len':
                def _len(x: AV) -> AV:
                    its = self.items(st, x)
                    if its is not None:
                        return Scalar(len(its))
                    if isinstance(x, SymObj):
                        return Scalar(A.sym(f'len({x.path})'))
                    if isinstance(x, DictVal):
                        return Scalar(len(x.items))
                    if isinstance(x, Inst):
                        m_ = self.prog.find_method(x.cls, '__len__')
                        if m_ is not None:
                            return self.call_func(m_, [], {}, st, ctx, self_val=x)
                    raise Undecided('len')
                return self.lift(_len, args[0])
            if name == 'bool':
                def b(x):
                    tr = self.truth(x, st)
                    return Const(tr) if isinstance(tr, bool) else Cond(tr, TRUE, FALSE)
                return self.lift(b, args[0])
            if name == 'sorted' and len(args) == 1 and not isinstance(args[0], Cond):
                its = self.items(st, args[0])
                if its is not None:
                    return self.new_list(st, self.sort_items(its, kwargs, st, ctx) if len(its) > 1 else list(its))
            if name in ('all', 'any') and len(args) == 1 and not kwargs and not isinstance(args[0], Cond):
                its = self.items(st, args[0])
                if its is not None:
                    def fold(i_: int) -> AV:
                        if i_ == len(its):
                            return TRUE if name == 'all' else FALSE

                        def pick(x_: AV) -> AV:
                            tr = self.truth(x_, st)
                            if isinstance(tr, bool):
                                return fold(i_ + 1) if tr == (name == 'all') else (FALSE if name == 'all' else TRUE)
                            rest_ = fold(i_ + 1)
                            return self.mk_cond(tr, rest_, FALSE) if name == 'all' else self.mk_cond(tr, TRUE, rest_)
                        return self.lift(pick, its[i_])
                    return fold(0)
            if name in ('tuple', 'list', 'sorted', 'reversed', 'set', 'frozenset') and args:
                def _seq(x: AV) -> AV:
                    its = self.items(st, x)
                    if its is not None and name in ('tuple', 'list'):
                        return Tup(its) if name == 'tuple' else self.new_list(st, its)
                    if its is not None and name == 'reversed':
                        return Tup(list(reversed(its)))
                    if its is not None and not its:
                        return Tup([])
                    if isinstance(x, SymObj):
                        return x if name in ('tuple', 'list') else SymObj(f'{name}({x.path})')
                    raise Undecided(f'{name}() of {x!r}')
                return self.lift(_seq, args[0])
            if name == 'next' and 1 <= len(args) <= 2 and not kwargs and isinstance(args[0], GSeq):
                result: AV = args[1] if len(args) == 2 else Raised('StopIteration')
                for c_, x_ in reversed(args[0].entries):
                    def pick(cv, x_=x_, rest_=result):
                        tr = self.truth(cv, st)
                        if isinstance(tr, bool):
                            return x_ if tr else rest_
                        return self.mk_cond(tr, x_, rest_)
                    result = self.lift(pick, c_)
                return result
            if name == 'filter' and len(args) == 2 and not kwargs and not isinstance(args[1], Cond):
                its = self.items(st, args[1])
                if its is not None:
                    ent = []
                    for x_ in its:
                        cv = x_ if (isinstance(args[0], Const) and args[0].value is None) else self.call(args[0], [x_], {}, st, ctx)
                        ent.append((self.call_ext(ExtRef('builtins', 'bool'), [cv], {}, st, ctx), x_))
                    g = GSeq(ent)
                    done = self.items(st, g)
                    return Tup(done) if done is not None else g
            if name == 'map' and len(args) == 2 and not kwargs and not isinstance(args[1], Cond):
                its = self.items(st, args[1])
                if its is not None:
                    return Tup([self.call(args[0], [x_], {}, st, ctx) for x_ in its])
            if name == 'next' and 1 <= len(args) <= 2 and not kwargs:
                # next(<generator / list built from a known sequence>[, default])
                its = self.items(st, args[0]) if not isinstance(args[0], Cond) else None
                if its is not None:
                    if its:
                        return its[0]
                    return args[1] if len(args) == 2 else Raised('StopIteration')
            if name == 'zip' and args and not kwargs:
                seqs = [self.items(st, a_) if not isinstance(a_, Cond) else None for a_ in args]
                if all(s_ is not None for s_ in seqs):
                    return Tup([Tup(list(t_)) for t_ in zip(*seqs)])
            if name == 'enumerate' and len(args) == 1 and not kwargs:
                its = self.items(st, args[0]) if not isinstance(args[0], Cond) else None
                if its is not None:
                    return Tup([Tup([Scalar(i_), x_]) for i_, x_ in enumerate(its)])
            if name == 'range' and 1 <= len(args) <= 3 and all(self.is_concrete_number(a_) for a_ in args):
                return Tup([Scalar(k_) for k_ in range(*[int(self.scalar(a_).const_value()) for a_ in args])])
            if name == 'getattr' and len(args) >= 2 and isinstance(args[1], Const) and isinstance(args[1].value, str):
                def _ga(o: AV) -> AV:
                    if isinstance(o, Inst):
                        h_ = self.hp(st, o.oid)
                        if args[1].value in h_:
                            return h_[args[1].value]
                        if self.prog.find_method(o.cls, args[1].value) is not None or \
                                self.prog.find_class_attr(o.cls, args[1].value) is not None:
                            return self.getattr(o, args[1].value, st, ctx)
                        if len(args) > 2:
                            # not set by the rule: either the default or an unknown later value
                            return Cond(Test('opaque', key=f'hasattr({o.cls.name}, {args[1].value})'),
                                        SymObj(f'{o.cls.name}#{o.oid}.{args[1].value}'), args[2])
                        return SymObj(f'{o.cls.name}#{o.oid}.{args[1].value}')
                    return self.getattr(o, args[1].value, st, ctx)
                return self.lift(_ga, args[0])
            if name == 'hasattr' and len(args) == 2 and isinstance(args[1], Const):
                o = args[0]
                if isinstance(o, Inst) and args[1].value in self.hp(st, o.oid):
                    return TRUE
                return Cond(Test('opaque', key=f'hasattr({self.describe(o)}, {args[1].value})'), TRUE, FALSE)
            if name in ('min', 'max', 'sum', 'any', 'all') and len(args) == 1:
                x = args[0]
                if isinstance(x, SymObj):
                    return SymObj(f'{name}({x.path})')
            if name == 'object' and not args and not kwargs:
                # a sentinel: an object with identity only (kept per module constant by the constant cache)
                return Const(f'<object #{next(_OID)}>')
            if name in ('tuple', 'list') and not args:
                return Tup([]) if name == 'tuple' else self.new_list(st, [])
            if name in ('ValueError', 'TypeError', 'RuntimeError', 'AttributeError', 'ArithmeticError',
                        'ZeroDivisionError', 'KeyError'):
                return Const(f'<{name}>')
            if name == 'str':
                return Const('<str>')
            if name == 'print':
                return NONE
            if name == 'id' and len(args) == 1:
                return Scalar(A.sym(f'id({self.describe(args[0])})'))
        if (mod or '').startswith('logging') or 'logger' in (mod or ''):
            return ExtRef('logging', '<object>')        # loggers, handlers: calls on them have no value we use
        if mod == 'warnings':
            return NONE
        if mod == 'object' and name == '__repr__':
            return Const('<repr>')
        if mod in ('typing_extensions', 'typing'):
            if name == 'get_args' and args and isinstance(args[0], Tup):
                return args[0]          # get_args(Literal[...]) read from the source of the alias
            raise Undecided(f'typing call {name}')
        raise Undecided(f'external call {mod}.{name}')

    def sort_items(self, its: List[AV], kwargs: Dict[str, AV], st: State, ctx: Ctx) -> List[AV]:
        """sorted()/list.sort() on known items whose keys are concrete numbers (stable, as the real one)."""
        key = kwargs.get('key')
        rev = kwargs.get('reverse', FALSE)
        if set(kwargs) - {'key', 'reverse'} or not (isinstance(rev, Const) and isinstance(rev.value, bool)):
            raise Undecided('sort arguments')
        keys = []
        for it in its:
            kv = it if key is None or key is NONE or (isinstance(key, Const) and key.value is None) \
                else self.call(key, [it], {}, st, ctx)
            if isinstance(kv, Inst):
                # quantities order by their raw magnitude when the class says so
                lt = self.prog.find_method(kv.cls, '__lt__')
                raw = self.hp(st, kv.oid).get('_value')
                if lt is None or raw is None:
                    raise Undecided('sort key is an object')
                kv = raw
            if isinstance(kv, Tup) and all(self.is_concrete_number(x_) for x_ in kv.items):
                keys.append(tuple(self.scalar(x_).const_value() for x_ in kv.items))
                continue
            if not self.is_concrete_number(kv):
                raise Undecided('sort key is not a concrete number')
            keys.append(self.scalar(kv).const_value())
        order = sorted(range(len(its)), key=lambda i_: keys[i_], reverse=rev.value)
        return [its[i_] for i_ in order]

    def isinstance_(self, x: AV, spec: AV, st: State) -> AV:
        specs = spec.items if isinstance(spec, Tup) else [spec]
        verdicts = []
        for s in specs:
            if isinstance(s, ClassRef):
                if isinstance(x, Inst):
                    verdicts.append(s.ci in self.prog.mro(x.cls))
                elif isinstance(x, EnumVal):
                    verdicts.append(s.ci in self.prog.mro(x.cls))
                elif isinstance(x, (Scalar, Const, Tup, Lst, DictVal)):
                    verdicts.append(False)
                elif isinstance(x, SymObj) and x.cls is not None:
                    verdicts.append(s.ci in self.prog.mro(x.cls))
                else:
                    verdicts.append(None)
            elif isinstance(s, ExtRef) and s.mod == 'builtins':
                if isinstance(x, Scalar):
                    verdicts.append(s.attr in ('float', 'int'))
                elif isinstance(x, EnumVal):
                    verdicts.append(s.attr == 'int')
                elif isinstance(x, Const):
                    verdicts.append({'str': str, 'bool': bool, 'int': int, 'float': float, 'dict': dict}.get(
                        s.attr, type(None)) is type(x.value) if x.value is not None else False)
                elif isinstance(x, (Inst,)):
                    verdicts.append(False)
                elif isinstance(x, DictVal):
                    verdicts.append(s.attr == 'dict')
                elif isinstance(x, Tup):
                    verdicts.append(s.attr == 'tuple')
                elif isinstance(x, Lst):
                    verdicts.append(s.attr == 'list')
                else:
                    verdicts.append(None)
            else:
                verdicts.append(None)
        if any(v is True for v in verdicts):
            return TRUE
        if all(v is False for v in verdicts):
            return FALSE
        return Cond(Test('opaque', key=f'isinstance({self.describe(x)}, {self.describe(spec)})'), TRUE, FALSE)

    def math_call(self, mod: str, name: str, xs: List[AV], st: State, ctx: Ctx) -> AV:
        if name in ('float', 'int') and xs and isinstance(xs[0], Inst):
            m = self.prog.find_method(xs[0].cls, f'__{name}__')
            if m is None:
                raise Undecided(f'{name}() of {xs[0].cls.name}')
            return self.call_func(m, [], {}, st, ctx, self_val=xs[0])
        if name in ('float', 'int') and xs and isinstance(xs[0], Const) and isinstance(xs[0].value, str):
            if xs[0].value.strip().lower() in ('nan', 'inf', '-inf', '+inf'):
                return Const(f'<float {xs[0].value.strip().lower()}>')
            raise Undecided('number from string')
        v = [self.scalar(x) for x in xs]
        if name == 'isclose':
            return Cond(Test('opaque', key=f'isclose({v[0]!r}, {v[1]!r})'), TRUE, FALSE)
        if name == 'isnan':
            return Cond(Test('opaque', key=f'isnan({v[0]!r})'), TRUE, FALSE)
        if name == 'float':
            return Scalar(v[0])
        if name == 'int':
            if v[0].is_const():
                return Scalar(int(v[0].const_value()))
            return Scalar(A.fn('int', v[0]))
        if name in ('fabs', 'abs'):
            return Scalar(A.fn('abs', v[0]))
        if name == 'pow':
            return Scalar(v[0] ** v[1])
        if name == 'sqrt':
            return Scalar(v[0] ** Fraction(1, 2))
        if name == 'radians':
            return Scalar(v[0] * A.sym('pi') / 180)
        if name == 'degrees':
            return Scalar(v[0] * 180 / A.sym('pi'))
        if name in ('min', 'max'):
            if len(v) == 1:
                raise Undecided('min/max of an iterable')
            return Scalar(A.fn(name, *v))
        if name == 'round':
            return Scalar(A.fn('round', *v))
        if name in MATH_FUNCS:
            return Scalar(A.fn(name, *v))
        raise Undecided(f'math.{name}')

    # ----------------------------------------------------------------------------------
    # statements
    # ----------------------------------------------------------------------------------
    def assign(self, target: ast.AST, v: AV, st: State, ctx: Ctx) -> Optional[AV]:
        if isinstance(target, ast.Name):
            st.env[target.id] = v
        elif isinstance(target, (ast.Tuple, ast.List)):
            def unpack(val: AV) -> List[AV]:
                its = self.items(st, val)
                if its is not None:
                    if len(its) != len(target.elts):
                        raise Undecided('unpack length')
                    return its
                if isinstance(val, SymObj):
                    return [SymObj(f'{val.path}[{i}]') for i in range(len(target.elts))]
                raise Undecided(f'unpack of {val!r}')
            if isinstance(v, Cond):
                parts = [[] for _ in target.elts]
                alts = list(cond_leaves(v))
                # rebuild one Cond per element
                def rebuild(val, i):
                    if isinstance(val, Cond):
                        return self.mk_cond(val.test, rebuild(val.a, i), rebuild(val.b, i))
                    return unpack(val)[i]
                for i, t in enumerate(target.elts):
                    self.assign(t, rebuild(v, i), st, ctx)
                return
            for t, x in zip(target.elts, unpack(v)):
                self.assign(t, x, st, ctx)
        elif isinstance(target, ast.Attribute):
            base = self.eval(target.value, st, ctx)
            if isinstance(base, Inst):
                setter = base.cls and self._find_setter(base.cls, target.attr)
                if setter is not None:
                    r = self.call_func(setter, [v], {}, st, ctx, self_val=base)
                    if isinstance(r, Raised) or (isinstance(r, Cond) and any(isinstance(x, Raised) for _p, x in cond_leaves(r))):
                        return r            # the setter raises: the statement does
                    return
                st.heap[base.oid][target.attr] = v
            elif isinstance(base, SymObj):
                st.env[f'$store:{base.path}.{target.attr}'] = v
            elif isinstance(base, FuncRef) and target.attr in ('__name__', '__qualname__', '__doc__', '__module__'):
                pass                # cosmetic attributes of a function object
            else:
                raise Undecided(f'attribute store on {base!r}')
        elif isinstance(target, ast.Subscript) and isinstance(target.slice, ast.Slice):
            # xs[a:b] = ys on a list of known items with concrete bounds and known new items
            base = self.eval(target.value, st, ctx)
            new_items = self.items(st, v) if not isinstance(v, Cond) else None
            if not isinstance(base, Lst) or new_items is None or target.slice.step is not None:
                raise Undecided('slice store')
            bounds = []
            for part in (target.slice.lower, target.slice.upper):
                if part is None:
                    bounds.append(None)
                    continue
                pv = self.eval(part, st, ctx)
                if not self.is_concrete_number(pv):
                    raise Undecided('slice store with a symbolic bound')
                bounds.append(int(self.scalar(pv).const_value()))
            self.hp(st, base.oid)['$items'][slice(*bounds)] = list(new_items)
        elif isinstance(target, ast.Subscript):
            base = self.eval(target.value, st, ctx)
            idx = self.eval(target.slice, st, ctx)
            if isinstance(base, Lst) and self.is_concrete_number(idx):
                self.hp(st, base.oid)['$items'][int(self.scalar(idx).const_value())] = v
            elif isinstance(base, SymObj):
                st.env[f'$store:{base.path}[{self.describe(idx)}]'] = v
            elif isinstance(base, DictVal):
                k = self.dict_key(idx)
                base.items[k if k is not None else ('s', self.describe(idx))] = v
            else:
                raise Undecided('subscript store')
        else:
            raise Undecided(f'assignment target {type(target).__name__}')

    def _find_setter(self, ci: ClassInfo, attr: str) -> Optional[Func]:
        for c in self.prog.mro(ci):
            if attr in c.setters:
                return c.setters[attr]
        return None

    def exec_block(self, stmts: List[ast.stmt], st: State, ctx: Ctx):
        """Continuation-passing walk: returns an outcome tree (Leaf | Branch)."""
        self.budget -= 1
        if self.budget < 0:
            raise Undecided(f'evaluation budget exhausted (path explosion) in {ctx.func.qualname if ctx.func else ctx.module.path}')
        for i, s in enumerate(stmts):
            rest = stmts[i + 1:]
            if isinstance(s, (ast.Assign, ast.AnnAssign, ast.AugAssign, ast.Expr)):
                r = self.exec_simple(s, st, ctx)
                if isinstance(r, Raised):
                    return Leaf('raise', r, st, s)
                if isinstance(r, Cond) and any(isinstance(x, Raised) for _p, x in cond_leaves(r)):
                    # the statement raises under a symbolic guard: split there
                    return self.split_on_raise(r, s, rest, st, ctx)
                continue
            if isinstance(s, ast.Return):
                v = self.eval(s.value, st, ctx) if s.value is not None else NONE
                if isinstance(v, Raised):
                    return Leaf('raise', v, st, s)
                return Leaf('return', v, st, s)
            if isinstance(s, ast.Raise):
                return Leaf('raise', Raised(norm(s.exc)[:80] if s.exc is not None else 're-raise'), st, s)
            if isinstance(s, ast.If):
                tv = self.eval(s.test, st, ctx)
                return self.branch(tv, s.body, s.orelse, rest, st, ctx)
            if isinstance(s, ast.For) and getattr(self, 'unroll', False):
                try:
                    itv = self.eval(s.iter, st, ctx)
                    its_ = self.items(st, itv) if not isinstance(itv, Cond) else None
                except Undecided:
                    its_ = None
                if its_ is not None:
                    return self.unroll_for(s, list(its_), 0, rest, st, ctx)
            if isinstance(s, ast.For) and not getattr(self, 'unroll', False):
                # a scan over a constant table (tuple of literals / enum members) is read iteration by iteration
                try:
                    itv = self.eval(s.iter, st, ctx)
                except Undecided:
                    itv = None
                if isinstance(itv, Tup) and len(itv.items) <= 40 and all(self._is_literal(x_, st) for x_ in itv.items):
                    return self.unroll_for(s, list(itv.items), 0, rest, st, ctx)
            if isinstance(s, ast.While) and getattr(self, 'unroll', False):
                # opt-in: a while loop whose condition is decided at every pass (concrete counters) is run pass by pass
                t_w = self.unroll_while(s, rest, st, ctx, 0)
                if t_w is not None:
                    return t_w
            if isinstance(s, (ast.While, ast.For)):
                self.havoc_loop(s, st, ctx)
                early = self.loop_early_exits(s, st, ctx)
                if early is not None:
                    # the body can return / raise: either it does in some iteration, or the loop is left normally
                    tst = Test('opaque', key=f'loop at line {s.lineno} returns or raises from its body')
                    s2 = st.copy()
                    return Branch(tst, early, self.exec_block(rest, s2, ctx))
                if isinstance(s, ast.While) and not s.orelse and not any(
                        isinstance(b, (ast.Break, ast.Return)) for b in ast.walk(s)):
                    # a while loop without break/return is left exactly when its condition is false
                    try:
                        tv = self.eval(s.test, st, ctx)
                        if isinstance(tv, Cond) and isinstance(tv.a, Const) and isinstance(tv.b, Const) \
                                and tv.a.value is True and tv.b.value is False:
                            self.assume(st, tv.test, False)
                    except Undecided:
                        pass
                continue
            if isinstance(s, ast.Pass):
                continue
            if isinstance(s, (ast.FunctionDef, ast.AsyncFunctionDef)):
                f = ctx.func.nested.get(s.name) if ctx.func is not None else None
                if f is None:
                    raise Undecided(f'nested def {s.name}')
                if ctx.closure is not None:
                    # free variables of the enclosing function's own enclosing scope stay readable from the inner one
                    for k_, v_ in ctx.closure.env.items():
                        st.env.setdefault(k_, v_)
                st.env[s.name] = FuncRef(f, closure=st)
                continue
            if isinstance(s, ast.Assert):
                continue
            if isinstance(s, ast.Break):
                return Leaf('break', None, st, s)
            if isinstance(s, ast.Continue):
                return Leaf('continue', None, st, s)
            if isinstance(s, ast.Try):
                # the no-exception path; handlers are reported, not explored
                self.notes.append(f'try at {ctx.module.path}:{s.lineno}: only the non-raising path is evaluated')
                return self.exec_block(list(s.body) + list(s.orelse) + list(s.finalbody) + rest, st, ctx)
            if isinstance(s, ast.With):
                return self.exec_block(list(s.body) + rest, st, ctx)
            if isinstance(s, (ast.Global, ast.Nonlocal)):
                continue
            if isinstance(s, (ast.Import, ast.ImportFrom)):
                self.local_import(s, st, ctx)
                continue
            raise Undecided(f'statement {type(s).__name__} at {ctx.module.path}:{s.lineno}')
        return Leaf('fall', None, st)

    def local_import(self, s, st: State, ctx: Ctx) -> None:
        if isinstance(s, ast.Import):
            for a in s.names:
                name = a.asname or a.name.split('.')[0]
                target = a.name if a.asname else a.name.split('.')[0]
                st.env[name] = ModRef(self.prog.modules[target]) if target in self.prog.modules else ExtRef(target, None)
            return
        mod = ctx.module._abs_module(s.level, s.module)
        for a in s.names:
            name = a.asname or a.name
            if mod in self.prog.modules:
                sub = f'{mod}.{a.name}'
                if sub in self.prog.modules:
                    st.env[name] = ModRef(self.prog.modules[sub])
                else:
                    st.env[name] = self.global_name(self.prog.modules[mod], a.name, ctx)
            else:
                st.env[name] = ExtRef(mod, a.name)

    def split_on_raise(self, r: AV, s, rest, st: State, ctx: Ctx):
        if isinstance(r, Cond):
            s1, s2 = st.copy(), st.copy()
            self.assume(s1, r.test, True)
            self.assume(s2, r.test, False)
            return Branch(r.test, self.split_on_raise(r.a, s, rest, s1, ctx),
                          self.split_on_raise(r.b, s, rest, s2, ctx))
        if isinstance(r, Raised):
            return Leaf('raise', r, st, s)
        return self.exec_block(rest, st, ctx)

    def branch(self, tv: AV, body, orelse, rest, st: State, ctx: Ctx):
        if isinstance(tv, Raised):
            return Leaf('raise', tv, st)
        if isinstance(tv, Cond):
            known = st.fact(tv.test)
            if known is not None:
                return self.branch(self.restrict(tv.a if known else tv.b, tv.test, known), body, orelse, rest, st, ctx)
            s1, s2 = st.copy(), st.copy()
            self.assume(s1, tv.test, True)
            self.assume(s2, tv.test, False)
            return Branch(tv.test,
                          self.branch(self.restrict(tv.a, tv.test, True), body, orelse, rest, s1, ctx),
                          self.branch(self.restrict(tv.b, tv.test, False), body, orelse, rest, s2, ctx))
        tr = self.truth(tv, st)
        if tr is True:
            return self.exec_block(list(body) + rest, st, ctx)
        if tr is False:
            return self.exec_block(list(orelse) + rest, st, ctx)
        s1, s2 = st.copy(), st.copy()
        self.assume(s1, tr, True)
        self.assume(s2, tr, False)
        return Branch(tr, self.exec_block(list(body) + rest, s1, ctx),
                      self.exec_block(list(orelse) + rest, s2, ctx))

    def assume(self, st: State, test: Test, pol: bool) -> None:
        """Inside a branch, values guarded by the same test collapse to the branch's side."""
        st.facts.append((test, pol))
        for k, v in list(st.env.items()):
            if isinstance(v, Cond):
                st.env[k] = self.restrict(v, test, pol)
        for attrs in st.heap.values():
            for k, v in list(attrs.items()):
                if isinstance(v, Cond):
                    attrs[k] = self.restrict(v, test, pol)

    def exec_simple(self, s: ast.stmt, st: State, ctx: Ctx) -> Optional[AV]:
        if isinstance(s, ast.Expr):
            return self.eval(s.value, st, ctx)
        if isinstance(s, ast.Assign):
            v = self.eval(s.value, st, ctx)
            if isinstance(v, Raised):
                return v
            for t in s.targets:
                r = self.assign(t, v, st, ctx)
                if r is not None:
                    return r
            return v
        if isinstance(s, ast.AnnAssign):
            if s.value is None:
                return None
            v = self.eval(s.value, st, ctx)
            if isinstance(v, Raised):
                return v
            r = self.assign(s.target, v, st, ctx)
            return r if r is not None else v
        if isinstance(s, ast.AugAssign):
            cur = self.eval(s.target, st, ctx)
            rhs = self.eval(s.value, st, ctx)
            v = self.binop(s.op, cur, rhs, st, ctx, inplace=True)
            if isinstance(v, Raised):
                return v
            self.assign(s.target, v, st, ctx)
            return v
        return None

    def _is_literal(self, v: AV, st: Optional[State] = None) -> bool:
        if isinstance(v, (Const, EnumVal, FuncRef, ClassRef, ExtRef)):
            return True
        if isinstance(v, Scalar):
            return v.rf.is_const()
        if isinstance(v, Tup):
            return all(self._is_literal(x_, st) for x_ in v.items)
        if isinstance(v, Inst) and st is not None and self.prog.is_namedtuple(v.cls):
            return all(self._is_literal(x_, st) for x_ in self.items(st, v))
        return False

    def unroll_for(self, loop: ast.For, its: List[AV], i: int, rest, st: State, ctx: Ctx):
        """`for` over a sequence whose items are known (opt-in, self.unroll): iteration by iteration."""
        if i >= len(its):
            return self.exec_block(list(loop.orelse) + list(rest), st, ctx)
        self.assign(loop.target, its[i], st, ctx)
        tree = self.exec_block(list(loop.body), st, ctx)

        def cont(t):
            if isinstance(t, Branch):
                return Branch(t.test, cont(t.then), cont(t.orelse))
            if t.kind in ('fall', 'continue'):
                return self.unroll_for(loop, its, i + 1, rest, t.state, ctx)
            if t.kind == 'break':
                return self.exec_block(list(rest), t.state, ctx)
            return t
        return cont(tree)

    def unroll_while(self, loop: ast.While, rest, st: State, ctx: Ctx, depth: int):
        """`while` with a condition that evaluates to a constant at every pass (opt-in, self.unroll).  None when the
        condition is not decided at the first pass (the caller falls back to the havoc reading); Undecided when it stops
        being decided later or the pass limit is hit."""
        probe = st.copy() if depth == 0 else st
        try:
            tv = self.eval(loop.test, probe, ctx)
            tr = self.truth(tv, probe) if not isinstance(tv, Cond) else None
        except Undecided:
            tr = None
        if not isinstance(tr, bool):
            if depth == 0:
                return None
            raise Undecided(f'while at line {loop.lineno}: the condition is not decided after {depth} passes')
        if depth > 200:
            raise Undecided(f'while at line {loop.lineno}: more than 200 passes')
        if not tr:
            return self.exec_block(list(loop.orelse) + list(rest), st, ctx)       # `else` runs when the condition fails
        tree = self.exec_block(list(loop.body), st, ctx)

        def cont(t):
            if isinstance(t, Branch):
                return Branch(t.test, cont(t.then), cont(t.orelse))
            if t.kind in ('fall', 'continue'):
                return self.unroll_while(loop, rest, t.state, ctx, depth + 1)
            if t.kind == 'break':
                return self.exec_block(list(rest), t.state, ctx)                  # ... not after a break
            return t
        return cont(tree)

    def loop_early_exits(self, loop, st: State, ctx: Ctx):
        """Outcome tree of the ways the loop body leaves the function (return / raise), evaluated once on the havocked
        state with the loop variables as unknowns; None when the body has no such statement."""
        def own(n):
            # statements of this loop, not of functions / lambdas defined inside it
            todo = list(ast.iter_child_nodes(n))
            while todo:
                x = todo.pop()
                if isinstance(x, (ast.FunctionDef, ast.AsyncFunctionDef, ast.Lambda, ast.ClassDef)):
                    continue
                yield x
                todo.extend(ast.iter_child_nodes(x))
        if not any(isinstance(x, (ast.Return, ast.Raise)) for x in own(loop)):
            return None
        sub = st.copy()
        if isinstance(loop, ast.For):
            try:
                it = self.eval(loop.iter, sub, ctx)
            except Undecided:
                it = SymObj(f'<iterable at line {loop.lineno}>')
            elem = SymObj(f'{it.path}[*]') if isinstance(it, SymObj) else SymObj(f'<element at line {loop.lineno}>')
            try:
                self.assign(loop.target, elem, sub, ctx)
            except Undecided:
                pass
        unknown = Leaf('return', SymObj(f'<value returned from the loop at line {loop.lineno}>'), sub, loop)
        try:
            tree = self.exec_block(list(loop.body), sub, ctx)
        except Undecided:
            return unknown

        def prune(t):
            if isinstance(t, Leaf):
                return t if t.kind in ('return', 'raise') else None
            a, b = prune(t.then), prune(t.orelse)
            if a is None:
                return b
            if b is None:
                return a
            return Branch(t.test, a, b)
        return prune(tree) or unknown

    def havoc_loop(self, loop, st: State, ctx: Ctx) -> None:
        n = next(self.loop_counter)
        assigned_names, assigned_attrs = set(), set()
        for node in ast.walk(loop):
            targets = []
            if isinstance(node, ast.Assign):
                targets = node.targets
            elif isinstance(node, (ast.AugAssign, ast.AnnAssign, ast.NamedExpr)):
                targets = [node.target]
            elif isinstance(node, ast.For):
                targets = [node.target]
            for t in targets:
                for x in ast.walk(t):
                    if isinstance(x, ast.Name) and isinstance(x.ctx, ast.Store):
                        assigned_names.add(x.id)
                    elif isinstance(x, ast.Attribute) and isinstance(x.ctx, ast.Store):
                        assigned_attrs.add(norm(x))
            if isinstance(node, ast.Call) and isinstance(node.func, ast.Attribute) and \
                    node.func.attr in ('append', 'extend', 'insert', 'pop', 'remove', 'sort', 'clear'):
                b = node.func.value
                if isinstance(b, ast.Name):
                    assigned_names.add(b.id)
        for name in assigned_names:
            st.env[name] = SymObj(f'{name}@loop{n}')
        for text in assigned_attrs:
            try:
                tgt = ast.parse(text, mode='eval').body
                base = self.eval(tgt.value, st, ctx)
                if isinstance(base, Inst):
                    st.heap[base.oid][tgt.attr] = SymObj(f'{text}@loop{n}')
            except Undecided:
                pass
        self.notes.append(f'loop at {ctx.module.path}:{loop.lineno} treated as havoc of '
                          f'{sorted(assigned_names | assigned_attrs)}')

    # ----------------------------------------------------------------------------------
    # entry points for rules
    # ----------------------------------------------------------------------------------
    def run_func(self, func: Func, env: Dict[str, AV], st: Optional[State] = None):
        st = st or State()
        st.env.update(env)
        for p in func.params:
            if p not in st.env:
                d = func.default_of(p)
                if d is not None:
                    st.env[p] = self.eval(d, State(), Ctx(func.module, None, None, 1))
        return self.exec_block(func.node.body, st, Ctx(func.module, func, None, 0)), st

    def call_value(self, func: Func, args: List[AV], kwargs: Optional[Dict[str, AV]] = None,
                   self_val: Optional[AV] = None, st: Optional[State] = None) -> Tuple[AV, State]:
        st = st or State()
        v = self.call_func(func, args, kwargs or {}, st, Ctx(func.module, None, None, 0), self_val=self_val)
        return v, st

    def eval_text(self, text: str, env: Dict[str, AV], module: Module, st: Optional[State] = None) -> AV:
        st = st or State()
        st.env.update(env)
        node = ast.parse(text, mode='eval').body
        return self.eval(node, st, Ctx(module, None, None, 0))


def S(name: str) -> Scalar:
    return Scalar(A.sym(name))
