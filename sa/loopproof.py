"""Engine F: index-search loops decided by inductive invariants in a linear-constraint domain.

A function body over integer index variables, sorted sequences and real queries is translated once from the Python
syntax tree into a small IR.  Two readers of that IR exist:

* the *abstract* reader walks every path with integer variables as linear forms over immutable symbols and with the
  facts known on the path as linear constraints (integers and reals mixed, `arr[e]` a real symbol keyed by its
  normalised index form).  A loop is entered with its assigned variables havocked and a set of candidate invariants
  (templates over the loop's own variables, bounds and compared terms) that is pruned Houdini-style until what is
  left holds at entry and is preserved by every path through the body.  An obligation raised at an emit / return
  site is discharged when `facts and not goal` is refuted: disjunctions are split, the order of every pair of index
  forms of one sorted sequence is split three ways (the monotonicity axiom), and each leaf is a Fourier-Motzkin
  refutation over the rationals with integer tightening.  The procedure is sound and incomplete: `proved` quantifies
  over every length and every real value.

* the *concrete* reader is used only to turn an obligation that could not be proved into a certificate: it reads the
  same IR on a small finite family of inputs (short sorted sequences, the query at every ordering position) with the
  payload sequences left symbolic, and the rule's concrete oracle names the input for which the emitted value is
  wrong.  Such an input is a real counterexample of the source as written, so a VIOLATION carries a witness; an
  obligation neither proved nor refuted is `unknown` and never becomes a violation.  The same reader supplies loop-
  head snapshots that cheaply discard false candidate invariants before any proof is attempted.

Nothing of /repo is imported or executed: both readers interpret the IR built from the syntax tree.
"""
from __future__ import annotations

import ast
import copy
import itertools
from fractions import Fraction
from math import gcd
from typing import Any, Callable, Dict, Iterable, List, Optional, Sequence, Tuple

from . import algebra as A


class Unsupported(Exception):
    """The construct is outside the fragment the IR can express faithfully."""


# ======================================================================================
# linear forms and formulas
# ======================================================================================

class Lin:
    __slots__ = ('t', 'c')

    def __init__(self, t: Optional[Dict[str, Fraction]] = None, c=0):
        self.t = {k: Fraction(v) for k, v in (t or {}).items() if v}
        self.c = Fraction(c)

    @staticmethod
    def const(c) -> 'Lin':
        return Lin(None, c)

    @staticmethod
    def var(name: str) -> 'Lin':
        return Lin({name: Fraction(1)})

    def __add__(self, o: 'Lin') -> 'Lin':
        t = dict(self.t)
        for k, v in o.t.items():
            t[k] = t.get(k, 0) + v
        return Lin(t, self.c + o.c)

    def __neg__(self) -> 'Lin':
        return Lin({k: -v for k, v in self.t.items()}, -self.c)

    def __sub__(self, o: 'Lin') -> 'Lin':
        return self + (-o)

    def scale(self, k) -> 'Lin':
        k = Fraction(k)
        return Lin({n: v * k for n, v in self.t.items()}, self.c * k)

    def plus(self, k) -> 'Lin':
        return Lin(self.t, self.c + Fraction(k))

    def is_const(self) -> bool:
        return not self.t

    def key(self) -> str:
        parts = [f'{v}*{k}' for k, v in sorted(self.t.items())]
        if self.c or not parts:
            parts.append(str(self.c))
        return '+'.join(parts)

    def __repr__(self) -> str:
        return self.key()


def pretty(text: str) -> str:
    """Internal symbol names (`1*i:left#20`, `a:xp[...]`) as the source spells them."""
    import re
    text = re.sub(r'(?<![\d/])1\*(?=[irna]:)', '', text)
    text = re.sub(r'\b[irna]:', '', text)
    return re.sub(r'#\d+', '', text)


def is_int_term(name: str) -> bool:
    return name[:2] in ('i:', 'n:')


# formulas: ('le', Lin) Lin <= 0 | ('lt', Lin) Lin < 0 | ('and', tuple) | ('or', tuple) | ('T',) | ('F',) | ('op', id, pol)
T, F_ = ('T',), ('F',)


def f_le(a: Lin, b: Lin):
    return _atom('le', a - b)


def f_lt(a: Lin, b: Lin):
    return _atom('lt', a - b)


def _atom(kind: str, d: Lin):
    if d.is_const():
        return T if (d.c <= 0 if kind == 'le' else d.c < 0) else F_
    return (kind, d)


def f_eq(a: Lin, b: Lin):
    return f_and(f_le(a, b), f_le(b, a))


def f_ne(a: Lin, b: Lin):
    return f_or(f_lt(a, b), f_lt(b, a))


def f_and(*fs):
    out = []
    for f in fs:
        if f == F_:
            return F_
        if f == T:
            continue
        if f[0] == 'and':
            out.extend(f[1])
        else:
            out.append(f)
    if not out:
        return T
    return out[0] if len(out) == 1 else ('and', tuple(out))


def f_or(*fs):
    out = []
    for f in fs:
        if f == T:
            return T
        if f == F_:
            continue
        if f[0] == 'or':
            out.extend(f[1])
        else:
            out.append(f)
    if not out:
        return F_
    return out[0] if len(out) == 1 else ('or', tuple(out))


def f_not(f):
    k = f[0]
    if k == 'T':
        return F_
    if k == 'F':
        return T
    if k == 'le':
        return ('lt', -f[1])
    if k == 'lt':
        return ('le', -f[1])
    if k == 'and':
        return f_or(*[f_not(x) for x in f[1]])
    if k == 'or':
        return f_and(*[f_not(x) for x in f[1]])
    if k == 'op':
        return ('op', f[1], not f[2])
    raise ValueError(f)


def f_implies(a, b):
    return f_or(f_not(a), b)


def f_terms(f, acc: Optional[set] = None) -> set:
    acc = set() if acc is None else acc
    if f[0] in ('le', 'lt'):
        acc.update(f[1].t)
    elif f[0] in ('and', 'or'):
        for x in f[1]:
            f_terms(x, acc)
    return acc


# ======================================================================================
# Fourier-Motzkin refutation over the rationals, integer constraints tightened
# ======================================================================================

def _row(d: Lin, strict: bool):
    """Lin (<=|<) 0 as an integer row (coefficients, constant, strict), tightened when every term is an integer:
    sum(a_i x_i) + c <= 0 with the a_i coprime becomes sum + ceil(c) <= 0, a strict one sum + floor(c) + 1 <= 0."""
    den = d.c.denominator
    for v in d.t.values():
        den = den * v.denominator // gcd(den, v.denominator)
    co = {k: int(v * den) for k, v in d.t.items()}
    c = int(d.c * den)
    return _norm_row(co, c, strict)


def _norm_row(co: Dict[str, int], c: int, strict: bool):
    co = {k: v for k, v in co.items() if v}
    if not co:
        return co, c, strict
    g = 0
    for v in co.values():
        g = gcd(g, v)
    if all(k[0] in 'in' and k[1] == ':' for k in co):
        if g > 1:
            co = {k: v // g for k, v in co.items()}
        # sum + c/g (<=|<) 0 over the integers
        if strict:
            c = c // g + 1          # floor(c/g) + 1
            strict = False
        else:
            c = -((-c) // g)        # ceil(c/g)
    else:
        g = gcd(g, c)
        if g > 1:
            co = {k: v // g for k, v in co.items()}
            c //= g
    return co, c, strict


def fm_infeasible(cons: Sequence[tuple], budget: int = 1500) -> bool:
    """True when the conjunction of integer rows (see _row) has no rational solution (hence no solution).
    Fourier-Motzkin elimination on integer rows; giving up (budget) answers False: not refuted."""
    cur: Dict[tuple, Tuple[Dict[str, int], int, bool]] = {}

    def add(store, co, c, strict) -> bool:
        if not co:
            return c > 0 or (strict and c >= 0)
        k = tuple(sorted(co.items()))
        old = store.get(k)
        if old is None or c > old[1] or (c == old[1] and strict and not old[2]):
            store[k] = (co, c, strict)
        return False

    for row in cons:
        if add(cur, *row):
            return True
    while True:
        count: Dict[str, List[int]] = {}
        for co, _c, _s in cur.values():
            for n, v in co.items():
                p = count.get(n)
                if p is None:
                    p = count[n] = [0, 0]
                p[0 if v > 0 else 1] += 1
        if not count:
            return False
        x = min(count, key=lambda n: (count[n][0] * count[n][1], n))
        pos, neg, rest = [], [], {}
        for k, row in cur.items():
            v = row[0].get(x, 0)
            if v > 0:
                pos.append(row)
            elif v < 0:
                neg.append(row)
            else:
                rest[k] = row
        if len(pos) * len(neg) + len(rest) > budget:
            return False
        for cp, kp, sp in pos:
            ap = cp[x]
            for cn, kn, sn in neg:
                an = -cn[x]
                co = {}
                for n, v in cp.items():
                    if n != x:
                        co[n] = v * an
                for n, v in cn.items():
                    if n != x:
                        co[n] = co.get(n, 0) + v * ap
                if add(rest, *_norm_row(co, kp * an + kn * ap, sp or sn)):
                    return True
        cur = rest


class Prover:
    """Refutation of `facts and not goal` with case splits on disjunctions and on the order of index forms."""

    def __init__(self):
        self.elem: Dict[str, Tuple[str, Lin]] = {}        # term name of arr[e]  ->  (arr, index form)
        self.sorted: Dict[str, str] = {}                  # arr -> 'strict' | 'nonstrict'   (absent: unordered)
        self.same_order: Dict[str, str] = {}              # attribute arrays share the order of their base
        self.calls = 0
        self.leaves = 0

    def elem_term(self, arr: str, idx: Lin) -> str:
        name = f'a:{arr}[{idx.key()}]'
        self.elem[name] = (arr, idx)
        return name

    # -- entry points ------------------------------------------------------------------
    def refute(self, formulas: Iterable[Any], max_leaves: int = 3000) -> bool:
        self.calls += 1
        self._left = max_leaves
        atoms: List[tuple] = []
        ors: List[tuple] = []
        for f in formulas:
            if not self._push(f, atoms, ors):
                return True
        return self._search(atoms, ors, frozenset())

    def proves(self, facts: Iterable[Any], goal) -> bool:
        if goal == T:
            return True
        return self.refute(self.relevant(list(facts), f_not(goal)) + [f_not(goal)])

    def relevant(self, facts: List[Any], seed) -> List[Any]:
        """The facts connected to the seed through shared terms (an element is connected to its index terms and to
        the other elements of its sequence).  Dropping unconnected facts cannot make a refutation unsound."""
        def group(f) -> set:
            ts = set(f_terms(f))
            for n in list(ts):
                if n in self.elem:
                    arr, idx = self.elem[n]
                    ts.add('@' + arr)
                    ts.update(idx.t)
            return ts
        uniq, seen = [], set()
        for f in facts:
            k = repr(f)
            if k not in seen:
                seen.add(k)
                uniq.append((f, group(f)))
        reach = group(seed)
        todo = uniq
        kept: List[Any] = []
        changed = True
        while changed:
            changed = False
            rest = []
            for f, g in todo:
                if not g or g & reach:
                    kept.append(f)
                    reach |= g
                    changed = True
                else:
                    rest.append((f, g))
            todo = rest
        return kept

    # -- search ------------------------------------------------------------------------
    def _push(self, f, atoms, ors) -> bool:
        k = f[0]
        if k == 'T' or k == 'op':
            return True
        if k == 'F':
            return False
        if k == 'le':
            atoms.append(_row(f[1], False))
        elif k == 'lt':
            atoms.append(_row(f[1], True))
        elif k == 'and':
            for x in f[1]:
                if not self._push(x, atoms, ors):
                    return False
        elif k == 'or':
            if any(x[0] == 'op' or x == T for x in f[1]):
                return True             # an opaque disjunct may hold: the disjunction constrains nothing
            ors.append(f[1])
        return True

    def _search(self, atoms, ors, decided) -> bool:
        self._left -= 1
        if self._left < 0:
            return False
        if fm_infeasible(atoms):
            return True
        if ors:
            ors = sorted(ors, key=len)
            first, rest = ors[0], ors[1:]
            for d in first:
                a2, o2 = list(atoms), list(rest)
                if not self._push(d, a2, o2):
                    continue
                if not self._search(a2, o2, decided):
                    return False
            return True
        # monotonicity / functional consistency of sequence elements: the order of every pair of index forms of one
        # sequence is fixed from the integer constraints alone where they decide it, split three ways where not
        atoms = list(atoms)
        decided = set(decided)
        while True:
            ints = [r for r in atoms if all(is_int_term(n) for n in r[0])]
            present = sorted({n for r in atoms for n in r[0] if n in self.elem})
            open_pair = None
            grew = False
            for i, t1 in enumerate(present):
                a1, e1 = self.elem[t1]
                for t2 in present[i + 1:]:
                    a2, e2 = self.elem[t2]
                    if a1 != a2 or (t1, t2) in decided:
                        continue
                    d12 = e1 - e2
                    if d12.is_const():
                        feas = [d12.c < 0, d12.c == 0, d12.c > 0]
                    else:
                        lt, le, ge, gt = _row(d12, True), _row(d12, False), _row(-d12, False), _row(-d12, True)
                        feas = [not fm_infeasible(ints + [lt]), not fm_infeasible(ints + [le, ge]),
                                not fm_infeasible(ints + [gt])]
                    cases = self._cases(a1, t1, e1, t2, e2)
                    live = [c for c, f in zip(cases, feas) if f]
                    if not live:
                        return True
                    if len(live) == 1:
                        decided.add((t1, t2))
                        o3: List[tuple] = []
                        if not self._push(live[0], atoms, o3):
                            return True
                        grew = True
                    elif open_pair is None:
                        open_pair = (t1, t2, live)
            if grew:
                if fm_infeasible(atoms):
                    return True
                continue
            break
        if open_pair is None:
            self.leaves += 1
            return False
        t1, t2, live = open_pair
        dec2 = frozenset(decided | {(t1, t2)})
        for cse in live:
            a3, o3 = list(atoms), []
            if not self._push(cse, a3, o3):
                continue
            if not self._search(a3, o3, dec2):
                return False
        return True

    def _cases(self, arr: str, t1: str, e1: Lin, t2: str, e2: Lin):
        v1, v2 = Lin.var(t1), Lin.var(t2)
        kind = self.sorted.get(arr)
        if kind == 'strict':
            return [f_and(f_lt(e1, e2), f_lt(v1, v2)), f_and(f_eq(e1, e2), f_eq(v1, v2)), f_and(f_lt(e2, e1), f_lt(v2, v1))]
        if kind == 'nonstrict':
            return [f_and(f_lt(e1, e2), f_le(v1, v2)), f_and(f_eq(e1, e2), f_eq(v1, v2)), f_and(f_lt(e2, e1), f_le(v2, v1))]
        return [f_lt(e1, e2), f_and(f_eq(e1, e2), f_eq(v1, v2)), f_lt(e2, e1)]


# ======================================================================================
# IR
# ======================================================================================
# expressions
#   ('int', k) ('num', Fraction) ('var', name) ('len', arr) ('elem', arr, idx) ('obj', arr, idx) ('attr', objexpr, name)
#   ('add', a, b) ('sub', a, b) ('neg', a) ('mul', a, b) ('div', a, b) ('fdiv', a, b) ('opaque', text)
#   ('cmp', op, a, b) ('and', [..]) ('or', [..]) ('not', x) ('bool', v)
# statements
#   ('assign', name, expr) ('if', cond, then, orelse) ('while', cond, body, node) ('foreach', var, seq, body, node)
#   ('break',) ('continue',) ('return', expr|None, node) ('emit', tag, expr, node) ('assume', cond) ('havoc', names)

class Roles:
    """What the rule knows about the function's parameters."""

    def __init__(self, arrays: Dict[str, Optional[str]], reals: Sequence[str] = (), ints: Sequence[str] = (),
                 record_arrays: Optional[Dict[str, Sequence[str]]] = None, same_length: Sequence[Sequence[str]] = (),
                 min_len: Optional[Dict[str, int]] = None, emit_lists: Sequence[str] = (),
                 real_seqs: Sequence[str] = (), len_offset: Optional[Dict[str, Tuple[str, int]]] = None,
                 compare_hook: Optional[Callable[[ast.Compare, 'Translator'], Optional[tuple]]] = None,
                 array_of: Optional[Callable[[ast.AST], Optional[str]]] = None,
                 scalar_of: Optional[Callable[[ast.AST, 'Translator'], Optional[tuple]]] = None,
                 skip_assign: Sequence[str] = ()):
        self.arrays = dict(arrays)            # name -> 'strict' | 'nonstrict' | None (payload / unordered)
        self.reals = set(reals)
        self.ints = set(ints)
        self.record_arrays = {k: tuple(v) for k, v in (record_arrays or {}).items()}   # arr -> attribute names
        self.same_length = [tuple(g) for g in same_length]
        self.min_len = dict(min_len or {})
        self.emit_lists = set(emit_lists)     # local lists whose .append(...) is an emit
        self.real_seqs = set(real_seqs)       # sequences of reals only iterated over (for x in xs)
        self.len_offset = dict(len_offset or {})   # derived sequence -> (base sequence, k): len(derived) = len(base) + k
        self.compare_hook = compare_hook      # predicate abstraction: a comparison of the source as an IR condition
        self.array_of = array_of              # expression of the source -> name of the (abstract) sequence it denotes
        self.scalar_of = scalar_of            # expression of the source -> IR expression (the query in another spelling)
        self.skip_assign = set(skip_assign)   # locals that only name a derived sequence (array_of resolves their uses)


class Translator:
    def __init__(self, func_node: ast.FunctionDef, roles: Roles):
        self.fn = func_node
        self.roles = roles
        # generator expressions kept in a local: assigned once, loaded once (by the next() that consumes it)
        self.gen_locals: Dict[str, ast.GeneratorExp] = {}
        for n in ast.walk(func_node):
            if isinstance(n, ast.Assign) and len(n.targets) == 1 and isinstance(n.targets[0], ast.Name) \
                    and isinstance(n.value, ast.GeneratorExp):
                nm = n.targets[0].id
                stores = [x for x in ast.walk(func_node) if isinstance(x, ast.Name) and x.id == nm and isinstance(x.ctx, ast.Store)]
                loads = [x for x in ast.walk(func_node) if isinstance(x, ast.Name) and x.id == nm and isinstance(x.ctx, ast.Load)]
                if len(stores) == 1 and len(loads) == 1:
                    self.gen_locals[nm] = n.value
        self.int_vars = self._infer_int_vars()

    # -- which locals are integers -------------------------------------------------------
    def _infer_int_vars(self) -> set:
        ints = set(self.roles.ints)
        assigns: Dict[str, List[ast.AST]] = {}
        for n in ast.walk(self.fn):
            if isinstance(n, ast.Assign):
                for t in n.targets:
                    if isinstance(t, ast.Name):
                        assigns.setdefault(t.id, []).append(n.value)
                    elif isinstance(t, (ast.Tuple, ast.List)) and isinstance(n.value, (ast.Tuple, ast.List)) \
                            and len(t.elts) == len(n.value.elts):
                        for a, b in zip(t.elts, n.value.elts):
                            if isinstance(a, ast.Name):
                                assigns.setdefault(a.id, []).append(b)
                    else:
                        for a in ast.walk(t):
                            if isinstance(a, ast.Name):
                                assigns.setdefault(a.id, []).append(None)
            elif isinstance(n, ast.AugAssign) and isinstance(n.target, ast.Name):
                assigns.setdefault(n.target.id, []).append(ast.BinOp(left=ast.Name(id=n.target.id, ctx=ast.Load()), op=n.op, right=n.value))
            elif isinstance(n, ast.AnnAssign) and isinstance(n.target, ast.Name) and n.value is not None:
                assigns.setdefault(n.target.id, []).append(n.value)
            elif isinstance(n, ast.For) and isinstance(n.target, ast.Name):
                it = n.iter
                if isinstance(it, ast.Call) and isinstance(it.func, ast.Name) and it.func.id == 'range':
                    assigns.setdefault(n.target.id, []).append(ast.Constant(value=0))
                else:
                    assigns.setdefault(n.target.id, []).append(None)
            elif isinstance(n, (ast.NamedExpr,)) and isinstance(n.target, ast.Name):
                assigns.setdefault(n.target.id, []).append(n.value)

        def is_int(e, known) -> bool:
            if e is None:
                return False
            if isinstance(e, ast.Constant):
                return isinstance(e.value, int) and not isinstance(e.value, bool)
            if isinstance(e, ast.Name):
                return e.id in known
            if isinstance(e, ast.UnaryOp) and isinstance(e.op, (ast.USub, ast.UAdd)):
                return is_int(e.operand, known)
            if isinstance(e, ast.BinOp) and isinstance(e.op, (ast.Add, ast.Sub, ast.Mult, ast.FloorDiv, ast.Mod, ast.RShift,
                                                              ast.LShift)):
                return is_int(e.left, known) and is_int(e.right, known)
            if isinstance(e, ast.Call) and isinstance(e.func, ast.Name) and e.func.id == 'len':
                return True
            if isinstance(e, ast.Call) and isinstance(e.func, ast.Name) and e.func.id in ('min', 'max') and e.args:
                return all(is_int(a, known) for a in e.args)
            if isinstance(e, ast.Call) and isinstance(e.func, ast.Name) and e.func.id == 'int':
                return True
            return False

        # greatest fixed point: start optimistic, remove what is assigned a non-integer
        cand = set(assigns) | ints
        changed = True
        while changed:
            changed = False
            for v in sorted(cand - ints):
                if not all(is_int(e, cand) for e in assigns.get(v, [None])):
                    cand.discard(v)
                    changed = True
        return cand

    # -- expressions -------------------------------------------------------------------
    def arr_name(self, e) -> Optional[str]:
        if self.roles.array_of is not None:
            a = self.roles.array_of(e)
            if a is not None:
                return a
        if isinstance(e, ast.Name) and e.id in self.roles.arrays:
            return e.id
        return None

    def first_index(self, e) -> Optional[tuple]:
        """next((i for i in range(..) if cond), default): the least index of the range satisfying cond, else default."""
        if not (isinstance(e, ast.Call) and isinstance(e.func, ast.Name) and e.func.id == 'next' and len(e.args) == 2):
            return None
        g = e.args[0]
        if isinstance(g, ast.Name) and g.id in self.gen_locals:
            g = self.gen_locals[g.id]            # a generator expression kept in a local that is consumed here only
        if not (isinstance(g, ast.GeneratorExp) and len(g.generators) == 1):
            return None
        c = g.generators[0]
        if c.is_async or len(c.ifs) != 1:
            return None
        if isinstance(c.target, ast.Name) and isinstance(g.elt, ast.Name) and g.elt.id == c.target.id \
                and isinstance(c.iter, ast.Call) and isinstance(c.iter.func, ast.Name) and c.iter.func.id == 'range' \
                and 1 <= len(c.iter.args) <= 2:
            args = [self.expr(a) for a in c.iter.args]
            lo, hi = (('int', 0), args[0]) if len(args) == 1 else (args[0], args[1])
            self.int_vars.add(c.target.id)
            return ('first', c.target.id, lo, hi, self.expr(c.ifs[0]), self.expr(e.args[1]))
        # (i for i, x in enumerate(seq) if cond(x)): the element name stands for seq[i]
        if isinstance(c.target, ast.Tuple) and len(c.target.elts) == 2 and all(isinstance(t_, ast.Name) for t_ in c.target.elts) \
                and isinstance(g.elt, ast.Name) and g.elt.id == c.target.elts[0].id \
                and isinstance(c.iter, ast.Call) and isinstance(c.iter.func, ast.Name) and c.iter.func.id == 'enumerate' \
                and len(c.iter.args) == 1 and not c.iter.keywords and self.arr_name(c.iter.args[0]):
            i_name, x_name = c.target.elts[0].id, c.target.elts[1].id
            seq = c.iter.args[0]

            class _Sub(ast.NodeTransformer):
                def visit_Name(self, n):
                    if n.id == x_name and isinstance(n.ctx, ast.Load):
                        return ast.copy_location(ast.Subscript(value=copy.deepcopy(seq), slice=ast.Name(id=i_name, ctx=ast.Load()),
                                                               ctx=ast.Load()), n)
                    return n
            cond = ast.fix_missing_locations(_Sub().visit(copy.deepcopy(c.ifs[0])))
            self.int_vars.add(i_name)
            return ('first', i_name, ('int', 0), ('len', self.arr_name(seq)), self.expr(cond), self.expr(e.args[1]))
        return None

    def truth(self, e) -> tuple:
        """An expression in a boolean position: a sequence is true when it is not empty."""
        a = self.arr_name(e)
        if a is not None:
            return ('cmp', '>', ('len', a), ('int', 0))
        return self.expr(e)

    def expr(self, e) -> tuple:
        if self.roles.scalar_of is not None:
            hit = self.roles.scalar_of(e, self)
            if hit is not None:
                return hit
        fi = self.first_index(e)
        if fi is not None:
            return fi
        if isinstance(e, ast.Constant):
            if isinstance(e.value, bool):
                return ('bool', e.value)
            if isinstance(e.value, int):
                return ('int', e.value)
            if isinstance(e.value, float):
                return ('num', Fraction(str(e.value)))
            return ('opaque', ast.unparse(e))
        if isinstance(e, ast.Name):
            return ('var', e.id)
        if isinstance(e, ast.UnaryOp):
            if isinstance(e.op, ast.USub):
                return ('neg', self.expr(e.operand))
            if isinstance(e.op, ast.UAdd):
                return self.expr(e.operand)
            if isinstance(e.op, ast.Not):
                return ('not', self.truth(e.operand))
        if isinstance(e, ast.BinOp):
            ops = {ast.Add: 'add', ast.Sub: 'sub', ast.Mult: 'mul', ast.Div: 'div', ast.FloorDiv: 'fdiv'}
            for k, v in ops.items():
                if isinstance(e.op, k):
                    return (v, self.expr(e.left), self.expr(e.right))
            if isinstance(e.op, (ast.RShift, ast.LShift)) and isinstance(e.right, ast.Constant) \
                    and isinstance(e.right.value, int) and 0 <= e.right.value <= 16:
                # shifts of integers by a constant: floor division / multiplication by a power of two
                return ('fdiv' if isinstance(e.op, ast.RShift) else 'mul', self.expr(e.left), ('int', 2 ** e.right.value))
        if isinstance(e, ast.Call) and isinstance(e.func, ast.Name) and e.func.id == 'len' and len(e.args) == 1:
            a = self.arr_name(e.args[0])
            if a:
                return ('len', a)
            if isinstance(e.args[0], ast.Name) and e.args[0].id in self.roles.real_seqs:
                return ('opaque', ast.unparse(e))
        if isinstance(e, ast.Call) and isinstance(e.func, ast.Name) and not e.keywords:
            if e.func.id in ('min', 'max') and len(e.args) == 2:
                return (e.func.id, self.expr(e.args[0]), self.expr(e.args[1]))
            if e.func.id == 'abs' and len(e.args) == 1:
                return ('abs', self.expr(e.args[0]))
            if e.func.id in ('int', 'float') and len(e.args) == 1 and isinstance(e.args[0], ast.Call) \
                    and isinstance(e.args[0].func, ast.Name) and e.args[0].func.id == 'len':
                return self.expr(e.args[0])
        if isinstance(e, ast.Call) and not e.keywords and 2 <= len(e.args) <= 4:
            fn = e.func.attr if isinstance(e.func, ast.Attribute) else e.func.id if isinstance(e.func, ast.Name) else ''
            if fn in ('bisect_left', 'bisect_right', 'bisect') and self.arr_name(e.args[0]) \
                    and self.roles.arrays.get(self.arr_name(e.args[0])):
                a = self.arr_name(e.args[0])
                lo = self.expr(e.args[2]) if len(e.args) > 2 else ('int', 0)
                hi = self.expr(e.args[3]) if len(e.args) > 3 else ('len', a)
                return ('bisect', 'left' if fn == 'bisect_left' else 'right', a, self.expr(e.args[1]), lo, hi)
        if isinstance(e, ast.Subscript) and not isinstance(e.slice, ast.Slice):
            a = self.arr_name(e.value)
            if a:
                if a in self.roles.record_arrays:
                    return ('obj', a, self.expr(e.slice))
                return ('elem', a, self.expr(e.slice))
        if isinstance(e, ast.Attribute):
            base = self.expr(e.value)
            if base[0] in ('obj', 'var'):
                return ('attr', base, e.attr)
        if isinstance(e, ast.Compare) and self.roles.compare_hook is not None:
            hooked = self.roles.compare_hook(e, self)
            if hooked is not None:
                return hooked
        if isinstance(e, ast.Compare):
            parts = []
            left = self.expr(e.left)
            for op, right in zip(e.ops, e.comparators):
                r = self.expr(right)
                o = {ast.Lt: '<', ast.LtE: '<=', ast.Gt: '>', ast.GtE: '>=', ast.Eq: '==', ast.NotEq: '!='}.get(type(op))
                if o is None:
                    return ('opaque', ast.unparse(e))
                parts.append(('cmp', o, left, r))
                left = r
            return parts[0] if len(parts) == 1 else ('and', parts)
        if isinstance(e, ast.BoolOp):
            return ('and' if isinstance(e.op, ast.And) else 'or', [self.truth(v) for v in e.values])
        if isinstance(e, ast.IfExp):
            return ('ite', self.truth(e.test), self.expr(e.body), self.expr(e.orelse))
        return ('opaque', ast.unparse(e))

    # -- statements --------------------------------------------------------------------
    def block(self, stmts: Sequence[ast.stmt]) -> List[tuple]:
        out: List[tuple] = []
        for s in stmts:
            out.extend(self.stmt(s))
        return out

    def _writes(self, s: ast.AST) -> List[str]:
        names = []
        for n in ast.walk(s):
            if isinstance(n, ast.Name) and isinstance(n.ctx, (ast.Store, ast.Del)):
                names.append(n.id)
        return sorted(set(names))

    def stmt(self, s: ast.stmt) -> List[tuple]:
        if isinstance(s, ast.Expr) and isinstance(s.value, ast.Constant):
            return []
        if isinstance(s, ast.Pass):
            return []
        if isinstance(s, ast.Assign) and len(s.targets) == 1:
            t = s.targets[0]
            if isinstance(t, ast.Name) and (t.id in self.roles.skip_assign or t.id in self.gen_locals):
                return []
            if isinstance(t, ast.Name):
                if isinstance(s.value, (ast.List, ast.ListComp)) and t.id in self.roles.emit_lists:
                    if isinstance(s.value, ast.List) and not s.value.elts:
                        return []
                    raise Unsupported(f'result list `{t.id}` is not started empty')
                return [('assign', t.id, self.expr(s.value))]
            if isinstance(t, (ast.Tuple, ast.List)) and isinstance(s.value, (ast.Tuple, ast.List)) \
                    and len(t.elts) == len(s.value.elts) and all(isinstance(a, ast.Name) for a in t.elts):
                # simultaneous assignment: evaluate all right-hand sides first
                tmp = [('assign', f'$t{i}', self.expr(v)) for i, v in enumerate(s.value.elts)]
                return tmp + [('assign', a.id, ('var', f'$t{i}')) for i, a in enumerate(t.elts)]
            return [('havoc', self._writes(s))]
        if isinstance(s, ast.AnnAssign) and isinstance(s.target, ast.Name):
            if s.value is None:
                return []
            return [('assign', s.target.id, self.expr(s.value))]
        if isinstance(s, ast.AugAssign) and isinstance(s.target, ast.Name):
            ops = {ast.Add: 'add', ast.Sub: 'sub', ast.Mult: 'mul', ast.Div: 'div', ast.FloorDiv: 'fdiv'}
            for k, v in ops.items():
                if isinstance(s.op, k):
                    return [('assign', s.target.id, (v, ('var', s.target.id), self.expr(s.value)))]
            return [('havoc', [s.target.id])]
        if isinstance(s, ast.If):
            return [('if', self.truth(s.test), self.block(s.body), self.block(s.orelse))]
        if isinstance(s, ast.While):
            if s.orelse:
                raise Unsupported('while/else')
            return [('while', self.truth(s.test), self.block(s.body), s)]
        if isinstance(s, ast.For):
            if s.orelse:
                raise Unsupported('for/else')
            if isinstance(s.target, (ast.Tuple, ast.List)) and len(s.target.elts) == 2 \
                    and all(isinstance(t_, ast.Name) for t_ in s.target.elts) and isinstance(s.iter, ast.Call) \
                    and isinstance(s.iter.func, ast.Name) and s.iter.func.id == 'enumerate' and len(s.iter.args) == 1 \
                    and not s.iter.keywords and isinstance(s.iter.args[0], (ast.Name, ast.Attribute)):
                # for i, x in enumerate(seq)  ==  for i in range(len(seq)): x = seq[i]
                seq = s.iter.args[0]
                i_, x_ = s.target.elts
                new = ast.For(
                    target=ast.Name(id=i_.id, ctx=ast.Store()),
                    iter=ast.Call(func=ast.Name(id='range', ctx=ast.Load()),
                                  args=[ast.Call(func=ast.Name(id='len', ctx=ast.Load()), args=[seq], keywords=[])], keywords=[]),
                    body=[ast.Assign(targets=[ast.Name(id=x_.id, ctx=ast.Store())],
                                     value=ast.Subscript(value=seq, slice=ast.Name(id=i_.id, ctx=ast.Load()), ctx=ast.Load()))]
                    + list(s.body), orelse=[])
                ast.copy_location(new, s)
                ast.fix_missing_locations(new)
                return self.stmt(new)
            if not isinstance(s.target, ast.Name):
                raise Unsupported('for with a structured target')
            it = s.iter
            if isinstance(it, ast.Call) and isinstance(it.func, ast.Name) and it.func.id == 'range' and 1 <= len(it.args) <= 3:
                args = [self.expr(a) for a in it.args]
                lo, hi = (('int', 0), args[0]) if len(args) == 1 else (args[0], args[1])
                step = args[2] if len(args) == 3 else ('int', 1)
                if step not in (('int', 1), ('neg', ('int', 1)), ('int', -1)):
                    raise Unsupported('range step other than +-1')
                up = step == ('int', 1)
                v = s.target.id
                cnt = f'$r{s.lineno}'
                # i is assigned from a hidden counter at the head of each iteration, so `continue` is sound
                cond = ('cmp', '<' if up else '>', ('var', cnt), hi)
                body = [('assign', v, ('var', cnt)),
                        ('assign', cnt, ('add' if up else 'sub', ('var', cnt), ('int', 1)))] + self.block(s.body)
                self.int_vars.add(cnt)
                return [('assign', cnt, lo), ('while', cond, body, s)]
            if isinstance(it, ast.Name) and it.id in self.roles.real_seqs:
                return [('foreach', s.target.id, it.id, self.block(s.body), s)]
            raise Unsupported(f'for over `{ast.unparse(it)}`')
        if isinstance(s, ast.Break):
            return [('break',)]
        if isinstance(s, ast.Continue):
            return [('continue',)]
        if isinstance(s, ast.Return):
            if isinstance(s.value, ast.Name) and s.value.id in self.roles.emit_lists:
                return [('return', None, s)]
            return [('return', self.expr(s.value) if s.value is not None else None, s)]
        if isinstance(s, ast.Assert):
            return [('assume', self.expr(s.test))]
        if isinstance(s, ast.Expr) and isinstance(s.value, ast.Call):
            c = s.value
            if isinstance(c.func, ast.Attribute) and c.func.attr == 'append' and isinstance(c.func.value, ast.Name) \
                    and c.func.value.id in self.roles.emit_lists and len(c.args) == 1:
                return [('emit', c.func.value.id, self.expr(c.args[0]), s)]
            # another call statement: it may not touch the emit lists
            for n in ast.walk(c):
                if isinstance(n, ast.Name) and n.id in self.roles.emit_lists:
                    raise Unsupported(f'the result list is used in `{ast.unparse(c)}`')
            return []
        if isinstance(s, ast.Raise):
            return [('raise', s)]
        raise Unsupported(f'statement {type(s).__name__} at line {getattr(s, "lineno", 0)}')


def ir_assigned(stmts: Sequence[tuple], acc: Optional[set] = None) -> set:
    acc = set() if acc is None else acc
    for s in stmts:
        if s[0] == 'assign':
            acc.add(s[1])
        elif s[0] == 'havoc':
            acc.update(s[1])
        elif s[0] == 'if':
            ir_assigned(s[2], acc)
            ir_assigned(s[3], acc)
        elif s[0] == 'while':
            ir_assigned(s[2], acc)
        elif s[0] == 'foreach':
            acc.add(s[1])
            ir_assigned(s[3], acc)
    return acc


def ir_walk_exprs(x, f) -> None:
    """Call f on every expression tuple reachable from statement list / expression x."""
    if isinstance(x, list):
        for y in x:
            ir_walk_exprs(y, f)
    elif isinstance(x, tuple):
        if x and isinstance(x[0], str) and x[0] in ('int', 'num', 'var', 'len', 'elem', 'obj', 'attr', 'add', 'sub', 'neg', 'mul', 'div',
                                                    'fdiv', 'opaque', 'cmp', 'and', 'or', 'not', 'bool', 'ite', 'bisect', 'min', 'max', 'abs', 'first'):
            f(x)
        for y in x[1:]:
            if isinstance(y, (tuple, list)):
                ir_walk_exprs(y, f)


# ======================================================================================
# the concrete reader
# ======================================================================================

class ConcreteStop(Exception):
    def __init__(self, kind: str, value=None, node=None):
        self.kind, self.value, self.node = kind, value, node


class Concrete:
    """Reads the IR on one concrete input.  Index variables and ordered sequences are exact numbers; payload
    sequences are symbolic atoms so that an emitted value tells which entries it was built from."""

    def __init__(self, roles: Roles, inputs: Dict[str, Any], max_steps: int = 4000):
        self.roles = roles
        self.env: Dict[str, Any] = dict(inputs)
        self.steps = max_steps
        self.emits: List[Tuple[str, Any, Any, Dict[str, Any]]] = []   # (tag, value, node, env snapshot)
        self.heads: List[Tuple[Any, Dict[str, Any], Dict[str, Any]]] = []   # (loop node, env at the head, env at loop entry)

    def arr(self, name: str):
        return self.env[name]

    def ev(self, e):
        k = e[0]
        if k == 'int':
            return e[1]
        if k == 'num':
            return e[1]
        if k == 'bool':
            return e[1]
        if k == 'var':
            if e[1] not in self.env:
                raise ConcreteStop('error', f'unbound {e[1]}')
            return self.env[e[1]]
        if k == 'len':
            return len(self.env[e[1]])
        if k in ('elem', 'obj'):
            i = self.ev(e[2])
            seq = self.env[e[1]]
            n = len(seq)
            if not isinstance(i, int):
                raise ConcreteStop('error', 'non-integer index')
            if not -n <= i < n:
                raise ConcreteStop('raise', f'IndexError {e[1]}[{i}] (len {n})')
            i = i % n if i < 0 else i
            if k == 'obj':
                return ('obj', e[1], i)
            return seq[i]
        if k == 'attr':
            b = self.ev(e[1])
            if isinstance(b, tuple) and b and b[0] == 'obj':
                if f'{b[1]}.{e[2]}' in self.env:
                    return self.env[f'{b[1]}.{e[2]}'][b[2]]        # an ordered field given as numbers
                return A.sym(f'{b[1]}.{e[2]}[{b[2]}]')
            raise ConcreteStop('unknown', 'attribute of a non-record')
        if k in ('add', 'sub', 'mul', 'div', 'fdiv'):
            a, b = self.ev(e[1]), self.ev(e[2])
            if isinstance(a, A.RF) or isinstance(b, A.RF):
                a = a if isinstance(a, A.RF) else A.RF.const(Fraction(a))
                b = b if isinstance(b, A.RF) else A.RF.const(Fraction(b))
                if k == 'fdiv':
                    raise ConcreteStop('unknown', 'floor division of a payload value')
                if k == 'div' and b.is_zero():
                    raise ConcreteStop('raise', 'ZeroDivisionError')
                return {'add': lambda: a + b, 'sub': lambda: a - b, 'mul': lambda: a * b, 'div': lambda: a / b}[k]()
            if k == 'add':
                return a + b
            if k == 'sub':
                return a - b
            if k == 'mul':
                return a * b
            if k == 'div':
                if b == 0:
                    raise ConcreteStop('raise', 'ZeroDivisionError')
                return Fraction(a) / Fraction(b)
            if b == 0:
                raise ConcreteStop('raise', 'ZeroDivisionError')
            r = a // b
            return int(r) if isinstance(a, int) and isinstance(b, int) else r
        if k == 'neg':
            return -self.ev(e[1])
        if k == 'cmp':
            a, b = self.ev(e[2]), self.ev(e[3])
            if isinstance(a, A.RF) or isinstance(b, A.RF) or isinstance(a, tuple) or isinstance(b, tuple):
                raise ConcreteStop('unknown', 'comparison of a payload value')
            return {'<': a < b, '<=': a <= b, '>': a > b, '>=': a >= b, '==': a == b, '!=': a != b}[e[1]]
        if k == 'and':
            for x in e[1]:
                if not self.truth(x):
                    return False
            return True
        if k == 'or':
            for x in e[1]:
                if self.truth(x):
                    return True
            return False
        if k == 'not':
            return not self.truth(e[1])
        if k == 'ite':
            return self.ev(e[2]) if self.truth(e[1]) else self.ev(e[3])
        if k == 'first':
            lo, hi = self.ev(e[2]), self.ev(e[3])
            if not isinstance(lo, int) or not isinstance(hi, int):
                raise ConcreteStop('unknown', 'range bounds')
            saved = self.env.get(e[1], None)
            try:
                for j in range(lo, hi):
                    self.env[e[1]] = j
                    if self.truth(e[4]):
                        return j
            finally:
                if saved is None:
                    self.env.pop(e[1], None)
                else:
                    self.env[e[1]] = saved
            return self.ev(e[5])
        if k in ('min', 'max'):
            a, b = self.ev(e[1]), self.ev(e[2])
            if isinstance(a, (A.RF, tuple)) or isinstance(b, (A.RF, tuple)):
                raise ConcreteStop('unknown', 'min/max of a payload value')
            return min(a, b) if k == 'min' else max(a, b)
        if k == 'abs':
            a = self.ev(e[1])
            if isinstance(a, (A.RF, tuple)):
                raise ConcreteStop('unknown', 'abs of a payload value')
            return abs(a)
        if k == 'bisect':
            import bisect as _b
            seq, q, lo, hi = self.env[e[2]], self.ev(e[3]), self.ev(e[4]), self.ev(e[5])
            if isinstance(q, (A.RF, tuple)) or not isinstance(lo, int) or not isinstance(hi, int) or lo < 0:
                raise ConcreteStop('unknown', 'bisect arguments')
            if hi > len(seq):
                raise ConcreteStop('raise', 'IndexError in bisect')
            return (_b.bisect_left if e[1] == 'left' else _b.bisect_right)(seq, q, lo, hi)
        raise ConcreteStop('unknown', f'opaque expression {e[1] if len(e) > 1 else e}')

    def truth(self, e) -> bool:
        v = self.ev(e)
        if isinstance(v, (A.RF, tuple)):
            raise ConcreteStop('unknown', 'truth of a payload value')
        return bool(v)

    def snapshot(self) -> Dict[str, Any]:
        return {k: v for k, v in self.env.items()}

    def emits_since(self, seen: set, key) -> bool:
        """False when this loop-head state (numbers only; the loop is deterministic in them) was seen before with the
        same number of emitted values."""
        k = (key, len(self.emits))
        if k in seen:
            return False
        seen.add(k)
        return True

    def run(self, stmts) -> Tuple[str, Any]:
        """-> ('fall'|'return'|'raise'|'unknown'|'error', value)"""
        try:
            self.block(stmts)
            return ('fall', None)
        except ConcreteStop as st:
            if st.kind in ('break', 'continue'):
                return ('error', 'break outside a loop')
            return (st.kind, st.value)

    def block(self, stmts) -> None:
        for s in stmts:
            self.steps -= 1
            if self.steps < 0:
                raise ConcreteStop('unknown', 'step budget exhausted (non-terminating on this input?)')
            k = s[0]
            if k == 'assign':
                self.env[s[1]] = self.ev(s[2])
            elif k == 'havoc':
                raise ConcreteStop('unknown', f'statement outside the fragment writes {s[1]}')
            elif k == 'if':
                self.block(s[2] if self.truth(s[1]) else s[3])
            elif k == 'while':
                entry = self.snapshot()
                seen_states = set()
                while True:
                    snap = self.snapshot()
                    self.heads.append((s[3], snap, entry))
                    try:
                        key = tuple(sorted((k_, v_) for k_, v_ in snap.items() if isinstance(v_, (int, Fraction, bool))))
                    except TypeError:
                        key = None
                    if key is not None and not self.emits_since(seen_states, key):
                        raise ConcreteStop('hang', f'the loop at line {getattr(s[3], "lineno", 0)} returns to a state it was '
                                                   f'already in: it never terminates')
                    if not self.truth(s[1]):
                        break
                    try:
                        self.block(s[2])
                    except ConcreteStop as st:
                        if st.kind == 'break':
                            break
                        if st.kind != 'continue':
                            raise
                    self.steps -= 1
                    if self.steps < 0:
                        raise ConcreteStop('unknown', 'step budget exhausted (non-terminating on this input?)')
            elif k == 'foreach':
                entry = self.snapshot()
                for item in self.env[s[2]]:
                    self.heads.append((s[4], self.snapshot(), entry))
                    self.env[s[1]] = item
                    try:
                        self.block(s[3])
                    except ConcreteStop as st:
                        if st.kind == 'break':
                            break
                        if st.kind != 'continue':
                            raise
                self.heads.append((s[4], self.snapshot(), entry))
            elif k == 'break':
                raise ConcreteStop('break')
            elif k == 'continue':
                raise ConcreteStop('continue')
            elif k == 'return':
                v = self.ev(s[1]) if s[1] is not None else None
                self.emits.append(('return', v, s[2], self.snapshot()))
                raise ConcreteStop('return', v, s[2])
            elif k == 'emit':
                self.emits.append((s[1], self.ev(s[2]), s[3], self.snapshot()))
            elif k == 'assume':
                if not self.truth(s[1]):
                    raise ConcreteStop('raise', 'AssertionError')
            elif k == 'raise':
                raise ConcreteStop('raise', 'raise statement')


# ======================================================================================
# the abstract reader
# ======================================================================================

class AVal:
    """kind: 'int' (lin), 'real' (lin or None, rf or None), 'bool' (formula), 'obj' (arr, idx lin), 'unk'."""
    __slots__ = ('kind', 'lin', 'rf', 'f', 'arr')

    def __init__(self, kind, lin=None, rf=None, f=None, arr=None):
        self.kind, self.lin, self.rf, self.f, self.arr = kind, lin, rf, f, arr


class AState:
    def __init__(self, env: Optional[Dict[str, AVal]] = None, facts: Optional[List[Any]] = None):
        self.env = dict(env or {})
        self.facts = list(facts or [])

    def copy(self) -> 'AState':
        return AState(self.env, self.facts)

    def add(self, f) -> 'AState':
        if f != T:
            self.facts.append(f)
        return self


class Obligation:
    def __init__(self, node, text: str, goal, state: AState, tag: str):
        self.node, self.text, self.goal, self.state, self.tag = node, text, goal, state, tag
        self.status = 'unknown'
        self.witness: Optional[str] = None


class Template:
    """A candidate invariant: an IR boolean over program variables (evaluated by both readers), optionally
    weakened by `var == its value at loop entry`."""

    def __init__(self, ir: tuple, or_entry_of: Optional[str] = None):
        self.ir = ir
        self.or_entry_of = or_entry_of

    def __repr__(self) -> str:
        s = show(self.ir)
        return f'{s} or {self.or_entry_of} == entry' if self.or_entry_of else s


def show(e) -> str:
    k = e[0]
    if k in ('int', 'num', 'bool'):
        return str(e[1])
    if k == 'var':
        return e[1]
    if k == 'len':
        return f'len({e[1]})'
    if k in ('elem', 'obj'):
        return f'{e[1]}[{show(e[2])}]'
    if k == 'attr':
        return f'{show(e[1])}.{e[2]}'
    if k in ('add', 'sub', 'mul', 'div', 'fdiv'):
        return f'({show(e[1])} {dict(add="+", sub="-", mul="*", div="/", fdiv="//")[k]} {show(e[2])})'
    if k == 'neg':
        return f'-{show(e[1])}'
    if k == 'cmp':
        return f'{show(e[2])} {e[1]} {show(e[3])}'
    if k in ('and', 'or'):
        return '(' + f' {k} '.join(show(x) for x in e[1]) + ')'
    if k == 'not':
        return f'not {show(e[1])}'
    if k in ('min', 'max'):
        return f'{k}({show(e[1])}, {show(e[2])})'
    if k == 'abs':
        return f'abs({show(e[1])})'
    if k == 'first':
        return f'first {e[1]} in range({show(e[2])}, {show(e[3])}) with {show(e[4])}, else {show(e[5])}'
    if k == 'bisect':
        return f'bisect_{e[1]}({e[2]}, {show(e[3])}, {show(e[4])}, {show(e[5])})'
    return str(e[1]) if len(e) > 1 else k


class Abstract:
    def __init__(self, roles: Roles, translator: Translator, prover: Prover,
                 goal_cb: Callable[['Abstract', AState, str, AVal, Any], List[Tuple[Any, str]]],
                 snapshots: Optional[Dict[int, List[Dict[str, Any]]]] = None):
        self.roles = roles
        self.tr = translator
        self.pr = prover
        self.goal_cb = goal_cb
        self.snapshots = snapshots or {}
        self.fresh = itertools.count()
        self.record = True
        self.obligations: List[Obligation] = []
        self.invariants: Dict[int, List[str]] = {}
        self.loop_info: List[str] = []
        for a, kind in roles.arrays.items():
            if kind:
                prover.sorted[a] = kind

    # -- symbols -----------------------------------------------------------------------
    def new_int(self, hint: str) -> Lin:
        return Lin.var(f'i:{hint}#{next(self.fresh)}')

    def new_real(self, hint: str) -> Lin:
        return Lin.var(f'r:{hint}#{next(self.fresh)}')

    def len_of(self, arr: str) -> Lin:
        if arr in self.roles.len_offset:
            base, k = self.roles.len_offset[arr]
            return self.len_of(base).plus(k)
        for g in self.roles.same_length:
            if arr in g:
                arr = g[0]
                break
        return Lin.var(f'n:{arr}')

    def lin_rf(self, lin: Lin) -> A.RF:
        out = A.RF.const(lin.c)
        for k, v in lin.t.items():
            out = out + A.RF.const(v) * A.sym(k)
        return out

    def initial_state(self) -> AState:
        st = AState()
        for p in self.roles.reals:
            lin = Lin.var(f'r:{p}')
            st.env[p] = AVal('real', lin=lin, rf=self.lin_rf(lin))
        for p in self.roles.ints:
            st.env[p] = AVal('int', lin=Lin.var(f'i:{p}'))
        seen = set()
        for a in self.roles.arrays:
            n = self.len_of(a)
            if n.key() in seen:
                continue
            seen.add(n.key())
            st.add(f_le(Lin.const(self.roles.min_len.get(a, 0)), n))
        for a, m in self.roles.min_len.items():
            st.add(f_le(Lin.const(m), self.len_of(a)))
        return st

    # -- expressions -------------------------------------------------------------------
    def elem(self, st: AState, arr: str, idx: AVal, node_text: str) -> Tuple[str, Lin]:
        """The term for arr[idx]; raises the index-safety obligation and assumes it afterwards."""
        if idx.kind != 'int':
            raise Unsupported(f'index of {arr} is not an integer form: {node_text}')
        n = self.len_of(arr)
        i = idx.lin
        if i.is_const() and i.c < 0:
            i = n.plus(i.c)                    # a literal negative index counts from the end
            goal = f_le(Lin.const(0), i)
        else:
            goal = f_and(f_le(Lin.const(0), i), f_le(i, n.plus(-1)))
        if self.record:
            self.obligations.append(Obligation(None, f'index in range: {node_text}', goal, st.copy(), 'index'))
        st.add(goal)
        return self.pr.elem_term(arr, i), i

    def ev(self, e, st: AState) -> AVal:
        k = e[0]
        if k == 'int':
            return AVal('int', lin=Lin.const(e[1]))
        if k == 'num':
            return AVal('real', lin=Lin.const(e[1]), rf=A.RF.const(e[1]))
        if k == 'bool':
            return AVal('bool', f=T if e[1] else F_)
        if k == 'var':
            v = st.env.get(e[1])
            if v is None:
                return AVal('unk')
            return v
        if k == 'len':
            return AVal('int', lin=self.len_of(e[1]))
        if k == 'elem':
            term, _i = self.elem(st, e[1], self.ev(e[2], st), show(e))
            lin = Lin.var(term)
            return AVal('real', lin=lin, rf=A.sym(term))
        if k == 'obj':
            _term, i = self.elem(st, e[1], self.ev(e[2], st), show(e))
            return AVal('obj', lin=i, arr=e[1])
        if k == 'attr':
            b = self.ev(e[1], st)
            if b.kind == 'obj':
                term = self.pr.elem_term(f'{b.arr}.{e[2]}', b.lin)
                return AVal('real', lin=Lin.var(term), rf=A.sym(term))
            return AVal('unk')
        if k in ('add', 'sub'):
            a, b = self.ev(e[1], st), self.ev(e[2], st)
            if a.kind == 'int' and b.kind == 'int':
                return AVal('int', lin=a.lin + b.lin if k == 'add' else a.lin - b.lin)
            if a.kind in ('int', 'real') and b.kind in ('int', 'real'):
                la, lb = a.lin, b.lin
                lin = None if la is None or lb is None else (la + lb if k == 'add' else la - lb)
                ra, rb = self.rf_of(a), self.rf_of(b)
                rf = None if ra is None or rb is None else (ra + rb if k == 'add' else ra - rb)
                return self.real(lin, rf)
            return AVal('unk')
        if k == 'neg':
            a = self.ev(e[1], st)
            if a.kind == 'int':
                return AVal('int', lin=-a.lin)
            if a.kind == 'real':
                return self.real(None if a.lin is None else -a.lin, None if a.rf is None else -a.rf)
            return AVal('unk')
        if k == 'mul':
            a, b = self.ev(e[1], st), self.ev(e[2], st)
            if a.kind not in ('int', 'real') or b.kind not in ('int', 'real'):
                return AVal('unk')
            for x, y in ((a, b), (b, a)):
                if x.lin is not None and x.lin.is_const():
                    if y.kind == 'int' and x.kind == 'int':
                        return AVal('int', lin=y.lin.scale(x.lin.c))
                    lin = None if y.lin is None else y.lin.scale(x.lin.c)
                    ry = self.rf_of(y)
                    return self.real(lin, None if ry is None else ry * A.RF.const(x.lin.c))
            if a.kind == 'int' and b.kind == 'int':
                return AVal('int', lin=self.new_int('prod'))
            ra, rb = self.rf_of(a), self.rf_of(b)
            return self.real(None, None if ra is None or rb is None else ra * rb)
        if k == 'div':
            a, b = self.ev(e[1], st), self.ev(e[2], st)
            if a.kind not in ('int', 'real') or b.kind not in ('int', 'real'):
                return AVal('unk')
            if b.lin is not None and b.lin.is_const() and b.lin.c != 0:
                lin = None if a.lin is None else a.lin.scale(1 / b.lin.c)
                ra = self.rf_of(a)
                return self.real(lin, None if ra is None else ra / A.RF.const(b.lin.c))
            ra, rb = self.rf_of(a), self.rf_of(b)
            return self.real(None, None if ra is None or rb is None else ra / rb)
        if k == 'fdiv':
            a, b = self.ev(e[1], st), self.ev(e[2], st)
            if a.kind == 'int' and b.kind == 'int' and b.lin.is_const() and b.lin.c > 0:
                d = b.lin.c
                q = self.new_int('q')
                # d*q <= a <= d*q + d - 1
                st.add(f_le(q.scale(d), a.lin))
                st.add(f_le(a.lin, q.scale(d).plus(d - 1)))
                return AVal('int', lin=q)
            if a.kind == 'int' and b.kind == 'int':
                return AVal('int', lin=self.new_int('q'))
            return AVal('unk')
        if k == 'ite':
            c = self.cond(e[1], st)
            a, b = self.ev(e[2], st), self.ev(e[3], st)
            if a.kind == 'int' and b.kind == 'int':
                r = self.new_int('ite')
                st.add(f_or(f_and(c, f_eq(r, a.lin)), f_and(f_not(c), f_eq(r, b.lin))))
                return AVal('int', lin=r)
            if a.kind in ('int', 'real') and b.kind in ('int', 'real') and a.lin is not None and b.lin is not None:
                r = self.new_real('ite')
                st.add(f_or(f_and(c, f_eq(r, a.lin)), f_and(f_not(c), f_eq(r, b.lin))))
                return AVal('real', lin=r, rf=self.lin_rf(r))
            return AVal('unk')
        if k in ('cmp', 'and', 'or', 'not'):
            return AVal('bool', f=self.cond(e, st))
        if k == 'first':
            # r = the least j in [lo, hi) with cond(j), else the default.  Consequences used (instances of the exact
            # meaning at j = r, r - 1 and hi - 1): lo <= r < hi and cond(r) and (r = lo or not cond(r-1)), or
            # r = default and (hi <= lo or not cond(hi-1)) and (hi <= lo or not cond(lo)).
            lo, hi, dflt = self.ev(e[2], st), self.ev(e[3], st), self.ev(e[5], st)
            if lo.kind != 'int' or hi.kind != 'int' or dflt.kind != 'int':
                return AVal('int', lin=self.new_int('first'))
            r = self.new_int('first')

            def cond_at(lin: Lin):
                probe = st.copy()
                probe.env[e[1]] = AVal('int', lin=lin)
                n0 = len(probe.facts)
                rec, self.record = self.record, False
                try:
                    f = self.cond(e[4], probe)
                finally:
                    self.record = rec
                side = probe.facts[n0:]
                return f, (f_and(*side) if side else T)
            one = Lin.const(1)
            c_r, s_r = cond_at(r)
            c_p, s_p = cond_at(r - one)
            c_l, s_l = cond_at(hi.lin - one)
            c_0, s_0 = cond_at(lo.lin)
            found = f_and(f_le(lo.lin, r), f_lt(r, hi.lin), s_r, c_r, f_or(f_eq(r, lo.lin), f_and(s_p, f_not(c_p))))
            none = f_and(f_eq(r, dflt.lin), f_or(f_le(hi.lin, lo.lin), f_and(s_l, f_not(c_l), s_0, f_not(c_0))))
            if self.record:
                # every index the scan can touch must be in range: lo and hi - 1
                self.obligations.append(Obligation(None, f'index in range over the scan: {show(e)}',
                                                   f_or(f_le(hi.lin, lo.lin), f_and(s_0, s_l)), st.copy(), 'index'))
            st.add(f_or(found, none))
            return AVal('int', lin=r)
        if k in ('min', 'max'):
            a, b = self.ev(e[1], st), self.ev(e[2], st)
            if a.kind not in ('int', 'real') or b.kind not in ('int', 'real') or a.lin is None or b.lin is None:
                return AVal('unk')
            both_int = a.kind == 'int' and b.kind == 'int'
            r = self.new_int(k) if both_int else self.new_real(k)
            lo_, hi_ = (a.lin, b.lin)
            if k == 'min':
                st.add(f_or(f_and(f_eq(r, lo_), f_le(lo_, hi_)), f_and(f_eq(r, hi_), f_le(hi_, lo_))))
            else:
                st.add(f_or(f_and(f_eq(r, lo_), f_le(hi_, lo_)), f_and(f_eq(r, hi_), f_le(lo_, hi_))))
            return AVal('int', lin=r) if both_int else AVal('real', lin=r, rf=self.lin_rf(r))
        if k == 'abs':
            a = self.ev(e[1], st)
            if a.kind not in ('int', 'real') or a.lin is None:
                return AVal('unk')
            r = self.new_int('abs') if a.kind == 'int' else self.new_real('abs')
            zero = Lin.const(0)
            st.add(f_or(f_and(f_le(zero, a.lin), f_eq(r, a.lin)), f_and(f_lt(a.lin, zero), f_eq(r, -a.lin))))
            return AVal('int', lin=r) if a.kind == 'int' else AVal('real', lin=r, rf=self.lin_rf(r))
        if k == 'bisect':
            q, lo, hi = self.ev(e[3], st), self.ev(e[4], st), self.ev(e[5], st)
            if q.kind not in ('int', 'real') or q.lin is None or lo.kind != 'int' or hi.kind != 'int':
                return AVal('int', lin=self.new_int('bisect'))
            r = self.new_int('bisect')
            n = self.len_of(e[2])
            if self.record:
                self.obligations.append(Obligation(None, f'bisect bounds in range: {show(e)}',
                                                   f_and(f_le(Lin.const(0), lo.lin), f_le(hi.lin, n)), st.copy(), 'index'))
            st.add(f_and(f_le(Lin.const(0), lo.lin), f_le(hi.lin, n)))
            one = Lin.const(1)
            below = Lin.var(self.pr.elem_term(e[2], r - one))
            at = Lin.var(self.pr.elem_term(e[2], r))
            if e[1] == 'left':
                f_b, f_a = f_lt(below, q.lin), f_le(q.lin, at)
            else:
                f_b, f_a = f_le(below, q.lin), f_lt(q.lin, at)
            # lo <= r <= max(lo, hi); everything in [lo, r) is below the query, everything in [r, hi) is not
            st.add(f_le(lo.lin, r))
            st.add(f_or(f_le(r, hi.lin), f_eq(r, lo.lin)))
            st.add(f_or(f_le(r, lo.lin), f_b))
            st.add(f_or(f_le(hi.lin, r), f_a))
            return AVal('int', lin=r)
        return AVal('unk')

    def rf_of(self, v: AVal) -> Optional[A.RF]:
        if v.kind == 'int':
            return self.lin_rf(v.lin)
        return v.rf

    def real(self, lin: Optional[Lin], rf: Optional[A.RF]) -> AVal:
        if lin is None:
            # a non-linear value: a fresh real symbol stands for it in the constraints
            return AVal('real', lin=None, rf=rf)
        return AVal('real', lin=lin, rf=rf if rf is not None else self.lin_rf(lin))

    def opaque_cond(self):
        return ('op', next(self.fresh), True)

    def cond(self, e, st: AState):
        k = e[0]
        if k == 'bool':
            return T if e[1] else F_
        if k == 'cmp':
            a, b = self.ev(e[2], st), self.ev(e[3], st)
            if a.kind not in ('int', 'real') or b.kind not in ('int', 'real') or a.lin is None or b.lin is None:
                return self.opaque_cond()
            op = e[1]
            la, lb = a.lin, b.lin
            return {'<': lambda: f_lt(la, lb), '<=': lambda: f_le(la, lb), '>': lambda: f_lt(lb, la), '>=': lambda: f_le(lb, la),
                    '==': lambda: f_eq(la, lb), '!=': lambda: f_ne(la, lb)}[op]()
        if k == 'and':
            # short circuit: facts raised by evaluating a later operand (index safety) hold only if it is reached;
            # they are assumed here as in straight-line code, which is sound for proving the goals raised later
            return f_and(*[self.cond(x, st) for x in e[1]])
        if k == 'or':
            return f_or(*[self.cond(x, st) for x in e[1]])
        if k == 'not':
            return f_not(self.cond(e[1], st))
        if k == 'var':
            v = st.env.get(e[1])
            if v is not None and v.kind == 'bool':
                return v.f
            if v is not None and v.kind == 'int':
                return f_ne(v.lin, Lin.const(0))
            return self.opaque_cond()
        v = self.ev(e, st)
        if v.kind == 'int':
            return f_ne(v.lin, Lin.const(0))
        return self.opaque_cond()

    # -- statements --------------------------------------------------------------------
    def feasible(self, st: AState) -> bool:
        return not self.pr.refute(st.facts, max_leaves=400)

    def havoc(self, st: AState, names: Iterable[str]) -> None:
        for n in names:
            old = st.env.get(n)
            if n in self.tr.int_vars:
                st.env[n] = AVal('int', lin=self.new_int(n))
            elif old is not None and old.kind == 'real' or n in self.roles.reals:
                lin = self.new_real(n)
                st.env[n] = AVal('real', lin=lin, rf=self.lin_rf(lin))
            else:
                st.env.pop(n, None)

    def assign(self, st: AState, name: str, v: AVal) -> None:
        if v.kind == 'real' and v.lin is None:
            # keep the rational form for the goal callback; constraints see a fresh symbol
            st.env[name] = AVal('real', lin=None, rf=v.rf)
        elif v.kind == 'unk':
            if name in self.tr.int_vars:
                st.env[name] = AVal('int', lin=self.new_int(name))
            else:
                st.env[name] = v
        else:
            st.env[name] = v

    def exec_block(self, stmts, st: AState) -> List[Tuple[str, AState, Any]]:
        """-> outcomes (kind, state, payload) with kind in fall / break / continue / return / raise."""
        live = [st]
        outs: List[Tuple[str, AState, Any]] = []
        for s in stmts:
            nxt: List[AState] = []
            for cur in live:
                for kind, s2, pay in self.exec_stmt(s, cur):
                    if kind == 'fall':
                        nxt.append(s2)
                    else:
                        outs.append((kind, s2, pay))
            live = nxt
            if not live:
                break
        outs.extend(('fall', s2, None) for s2 in live)
        return outs

    def exec_stmt(self, s, st: AState) -> List[Tuple[str, AState, Any]]:
        k = s[0]
        if k == 'assign':
            self.assign(st, s[1], self.ev(s[2], st))
            return [('fall', st, None)]
        if k == 'havoc':
            self.havoc(st, s[1])
            return [('fall', st, None)]
        if k == 'assume':
            st.add(self.cond(s[1], st))
            return [('fall', st, None)]
        if k == 'if':
            c = self.cond(s[1], st)
            outs = []
            for f, body in ((c, s[2]), (f_not(c), s[3])):
                b = st.copy().add(f)
                if f == F_ or not self.feasible(b):
                    continue
                outs.extend(self.exec_block(body, b))
            return outs
        if k == 'break':
            return [('break', st, None)]
        if k == 'continue':
            return [('continue', st, None)]
        if k == 'raise':
            return [('raise', st, s[1])]
        if k == 'return':
            v = self.ev(s[1], st) if s[1] is not None else None
            self.raise_goals(st, 'return', v, s[2])
            return [('return', st, v)]
        if k == 'emit':
            v = self.ev(s[2], st)
            self.raise_goals(st, s[1], v, s[3])
            return [('fall', st, None)]
        if k == 'while':
            return self.exec_loop(s, st, s[1], s[2], s[3], None)
        if k == 'foreach':
            return self.exec_loop(s, st, None, s[3], s[4], s[1])
        raise Unsupported(f'IR statement {k}')

    def raise_goals(self, st: AState, tag: str, v, node) -> None:
        if not self.record:
            return
        for goal, text in self.goal_cb(self, st, tag, v, node):
            self.obligations.append(Obligation(node, text, goal, st.copy(), tag))

    # -- loops -------------------------------------------------------------------------
    def candidates(self, s, st: AState, cond, body, item: Optional[str]) -> List[Template]:
        mod = sorted(v for v in ir_assigned(body) if v in self.tr.int_vars and not v.startswith('$t'))
        arrays_idx: Dict[str, set] = {}
        cmp_terms: List[Tuple[str, tuple]] = []     # (sorted array, other side expression)

        def visit(e):
            if e[0] in ('elem', 'obj'):
                arrays_idx.setdefault(e[1], set())
            if e[0] == 'cmp':
                for a, b in ((e[2], e[3]), (e[3], e[2])):
                    if a[0] == 'elem' and self.roles.arrays.get(a[1]):
                        if (b[0] == 'var' and b[1] not in self.tr.int_vars) or b[0] in ('int', 'num'):
                            if (a[1], b) not in cmp_terms:
                                cmp_terms.append((a[1], b))
        ir_walk_exprs(self.whole_ir, visit)
        bounds: List[tuple] = [('int', 0)]
        for a in sorted(arrays_idx):
            for off in (1, 2):
                b = ('sub', ('len', a), ('int', off))
                if b not in bounds:
                    bounds.append(b)
        read_ints = set()

        def visit2(e):
            if e[0] == 'var' and e[1] in self.tr.int_vars and e[1] not in mod and not e[1].startswith('$t'):
                read_ints.add(e[1])
        ir_walk_exprs([cond] if cond is not None else [], visit2)
        ir_walk_exprs(body, visit2)
        for r in sorted(read_ints):
            bounds.append(('var', r))
        out: List[Template] = []
        for v in mod:
            others = bounds + [('var', w) for w in mod if w != v]
            for b in others:
                for c in (-1, 0, 1):
                    lhs = ('add', ('var', v), ('int', c)) if c else ('var', v)
                    out.append(Template(('cmp', '<=', lhs, b)))
                    out.append(Template(('cmp', '<=', b, lhs)))
        seen = set()
        for arr, q in cmp_terms:
            if item is not None and q == ('var', item):
                continue                                   # the item changes every iteration
            for v in mod:
                for c in (-1, 0, 1):
                    idx = ('add', ('var', v), ('int', c)) if c else ('var', v)
                    el = ('elem', arr, idx)
                    for op, x, y in (('<=', el, q), ('<', el, q), ('<=', q, el), ('<', q, el)):
                        key = (op, show(x), show(y))
                        if key in seen:
                            continue
                        seen.add(key)
                        out.append(Template(('cmp', op, x, y)))
                        out.append(Template(('cmp', op, x, y), or_entry_of=v))
        return out

    def inst(self, t: Template, st: AState, entry: AState):
        """The candidate as a formula over the symbols current in `st`.  Index-safety facts raised by reading the
        candidate's own elements are not assumed: an out-of-range element makes the candidate unusable."""
        probe = st.copy()
        n0 = len(probe.facts)
        rec, self.record = self.record, False
        try:
            f = self.cond(t.ir, probe)
        finally:
            self.record = rec
        side = probe.facts[n0:]
        if f[0] == 'op':
            return None
        # the candidate only means something when its elements are in range
        guard = f_and(*side) if side else T
        f = f_and(guard, f)
        if t.or_entry_of:
            cur, ent = st.env.get(t.or_entry_of), entry.env.get(t.or_entry_of)
            if cur is None or ent is None or cur.kind != 'int' or ent.kind != 'int':
                return None
            f = f_or(f, f_eq(cur.lin, ent.lin))
        return f

    def concrete_ok(self, t: Template, node) -> bool:
        snaps = self.snapshots.get(id(node))
        if not snaps:
            return True
        for env, entry_env in snaps:
            c = Concrete(self.roles, env)
            try:
                v = c.truth(t.ir)
            except ConcreteStop:
                v = False
            if not v and t.or_entry_of:
                v = env.get(t.or_entry_of) == entry_env.get(t.or_entry_of) and t.or_entry_of in env
            if not v:
                return False
        return True

    def exec_loop(self, s, st: AState, cond, body, node, item: Optional[str]) -> List[Tuple[str, AState, Any]]:
        mod = sorted(ir_assigned(body) | ({item} if item else set()))
        entry = st
        cands = [t for t in self.candidates(s, st, cond, body, item) if self.concrete_ok(t, node)]
        rec, self.record = self.record, False
        try:
            inv: List[Template] = []
            for t in cands:
                f = self.inst(t, entry, entry)
                if f is not None and self.pr.proves(entry.facts, f):
                    inv.append(t)
            rounds = 0
            while True:
                rounds += 1
                head, body_in = self.loop_head(entry, mod, inv, cond, item)
                backs = []
                if body_in is not None:
                    backs = [s2 for kind, s2, _p in self.exec_block(body, body_in) if kind in ('fall', 'continue')]
                keep = []
                for t in inv:
                    ok = True
                    for b in backs:
                        f = self.inst(t, b, entry)
                        if f is None or not self.pr.proves(b.facts, f):
                            ok = False
                            break
                    if ok:
                        keep.append(t)
                if len(keep) == len(inv):
                    break
                inv = keep
        finally:
            self.record = rec
        self.invariants[id(node)] = [repr(t) for t in inv]
        self.loop_info.append(f'line {getattr(node, "lineno", 0)}: {len(cands)} candidates after snapshots, {len(inv)} inductive '
                              f'after {rounds} round(s)')
        # final pass: obligations recorded under the inductive invariant
        head, body_in = self.loop_head(entry, mod, inv, cond, item)
        outs: List[Tuple[str, AState, Any]] = []
        if body_in is not None:
            for kind, s2, pay in self.exec_block(body, body_in):
                if kind == 'break':
                    outs.append(('fall', s2, None))
                elif kind in ('return', 'raise'):
                    outs.append((kind, s2, pay))
        ex = head.copy()
        if cond is not None:
            ex.add(f_not(self.cond(cond, ex)))
        if self.feasible(ex):
            outs.append(('fall', ex, None))
        return outs

    def loop_head(self, entry: AState, mod, inv, cond, item):
        head = entry.copy()
        self.havoc(head, mod)
        for t in inv:
            f = self.inst(t, head, entry)
            if f is not None:
                head.add(f)
        body_in = head.copy()
        if cond is not None:
            body_in.add(self.cond(cond, body_in))
        if item is not None:
            lin = self.new_real(item)
            body_in.env[item] = AVal('real', lin=lin, rf=self.lin_rf(lin))
        if not self.feasible(body_in):
            return head, None
        return head, body_in

    # -- driver ------------------------------------------------------------------------
    def run(self, ir: List[tuple]) -> List[Obligation]:
        self.whole_ir = ir
        st = self.initial_state()
        self.outcomes = self.exec_block(ir, st)
        for ob in self.obligations:
            ob.status = 'proved' if self.pr.proves(ob.state.facts, ob.goal) else 'unknown'
        return self.obligations


# ======================================================================================
# driving both readers
# ======================================================================================

class SearchResult:
    def __init__(self):
        self.obligations: List[Obligation] = []
        self.invariants: Dict[int, List[str]] = {}
        self.loop_info: List[str] = []
        self.witnesses: List[str] = []
        self.concrete_runs = 0
        self.concrete_unknown = 0
        self.prover_calls = 0


def analyse_search(func_node: ast.FunctionDef, roles: Roles,
                   abstract_goal: Callable[[Abstract, AState, str, AVal, Any], List[Tuple[Any, str]]],
                   concrete_inputs: Iterable[Dict[str, Any]],
                   concrete_oracle: Callable[[Dict[str, Any], Concrete, Tuple[str, Any]], Optional[str]]) -> SearchResult:
    """Translate, collect loop-head snapshots and counterexamples on the finite input family, then prove."""
    tr = Translator(func_node, roles)
    body = [s for s in func_node.body]
    ir = tr.block(body)
    res = SearchResult()
    snapshots: Dict[int, List[Tuple[Dict[str, Any], Dict[str, Any]]]] = {}
    for inp in concrete_inputs:
        c = Concrete(roles, inp)
        outcome = c.run(ir)
        res.concrete_runs += 1
        if outcome[0] in ('unknown', 'error'):
            res.concrete_unknown += 1
            continue
        for node, env, entry in c.heads:
            lst = snapshots.setdefault(id(node), [])
            if len(lst) < 400:
                lst.append((env, entry))
        msg = concrete_oracle(inp, c, outcome)
        if msg and len(res.witnesses) < 5:
            res.witnesses.append(msg)
    pr = Prover()
    ab = Abstract(roles, tr, pr, abstract_goal, snapshots)
    res.obligations = ab.run(ir)
    res.invariants = ab.invariants
    res.loop_info = ab.loop_info
    res.prover_calls = pr.calls
    return res
