"""Engine A: load /repo's sources into memory, index and resolve names.

The repository is never imported.  Everything is derived from ``ast`` trees of the
files as they are on disk now (or of an in-memory variant for the self-test).
"""
from __future__ import annotations

import ast
import hashlib
import os
from typing import Dict, Iterator, List, Optional, Tuple

REPO = os.environ.get('VERIF_REPO', '/repo')
PKG = 'py_ballisticcalc'


class AnalysisError(Exception):
    """An anchor vanished or a construct is outside what a rule can read (exit 2)."""


# ------------------------------------------------------------------------------------
# sources
# ------------------------------------------------------------------------------------

class SourceSet:
    """path (relative to the repository root) -> text."""

    def __init__(self, files: Dict[str, str], root: str = REPO, label: str = 'working-tree'):
        self.files = dict(files)
        self.root = root
        self.label = label

    @classmethod
    def load(cls, root: str = REPO) -> 'SourceSet':
        files: Dict[str, str] = {}
        pkg_dir = os.path.join(root, PKG)
        if not os.path.isdir(pkg_dir):
            raise AnalysisError(f'package directory {pkg_dir} not found')
        for dirpath, dirnames, filenames in os.walk(pkg_dir):
            dirnames[:] = sorted(d for d in dirnames if d != '__pycache__')
            for fn in sorted(filenames):
                if fn.endswith('.py') or fn.endswith('.toml'):
                    full = os.path.join(dirpath, fn)
                    rel = os.path.relpath(full, root)
                    with open(full, encoding='utf-8') as fh:
                        files[rel] = fh.read()
        top = os.path.join(root, '.pybc.toml')
        if os.path.exists(top):
            with open(top, encoding='utf-8') as fh:
                files['.pybc.toml'] = fh.read()
        return cls(files, root)

    def replace(self, path: str, text: str, label: str = 'variant') -> 'SourceSet':
        if path not in self.files:
            raise AnalysisError(f'variant edits unknown file {path}')
        files = dict(self.files)
        files[path] = text
        return SourceSet(files, self.root, label)

    def digest(self) -> str:
        h = hashlib.sha256()
        for p in sorted(self.files):
            h.update(p.encode())
            h.update(b'\0')
            h.update(self.files[p].encode())
            h.update(b'\0')
        return h.hexdigest()[:16]

    def python_files(self) -> List[str]:
        return [p for p in sorted(self.files) if p.endswith('.py')]

    def toml_files(self) -> List[str]:
        return [p for p in sorted(self.files) if p.endswith('.toml')]


# ------------------------------------------------------------------------------------
# program model
# ------------------------------------------------------------------------------------

class Func:
    def __init__(self, module: 'Module', qualname: str, node: ast.AST, cls: Optional['ClassInfo'],
                 outer: Optional['Func']):
        self.module = module
        self.qualname = qualname
        self.node = node
        self.cls = cls
        self.outer = outer
        decos = [deco_name(d) for d in getattr(node, 'decorator_list', [])]
        self.decorators = decos
        self.is_property = 'property' in decos
        self.is_setter = any(d.endswith('.setter') for d in decos)
        self.is_static = 'staticmethod' in decos
        self.is_classmethod = 'classmethod' in decos
        self.nested: Dict[str, 'Func'] = {}

    @property
    def name(self) -> str:
        return self.node.name  # type: ignore[attr-defined]

    @property
    def params(self) -> List[str]:
        a = self.node.args  # type: ignore[attr-defined]
        return [x.arg for x in (a.posonlyargs + a.args + a.kwonlyargs)]

    @property
    def positional(self) -> List[str]:
        a = self.node.args  # type: ignore[attr-defined]
        return [x.arg for x in (a.posonlyargs + a.args)]

    def arg_nodes(self) -> List[ast.arg]:
        a = self.node.args  # type: ignore[attr-defined]
        return list(a.posonlyargs + a.args + a.kwonlyargs)

    def default_of(self, pname: str) -> Optional[ast.AST]:
        a = self.node.args  # type: ignore[attr-defined]
        pos = a.posonlyargs + a.args
        defaults = [None] * (len(pos) - len(a.defaults)) + list(a.defaults)
        for p, d in zip(pos, defaults):
            if p.arg == pname:
                return d
        for p, d in zip(a.kwonlyargs, a.kw_defaults):
            if p.arg == pname:
                return d
        return None

    @property
    def fq(self) -> str:
        return f'{self.module.name}:{self.qualname}'

    @property
    def where(self) -> str:
        return f'{self.module.path}:{self.node.lineno}'

    def __repr__(self) -> str:
        return f'<Func {self.fq}>'


class ClassInfo:
    def __init__(self, module: 'Module', name: str, node: ast.ClassDef):
        self.module = module
        self.name = name
        self.node = node
        self.base_exprs = list(node.bases)
        self.methods: Dict[str, Func] = {}
        self.setters: Dict[str, Func] = {}
        # class-level statements: name -> (annotation node | None, value node | None)
        self.attrs: Dict[str, Tuple[Optional[ast.AST], Optional[ast.AST]]] = {}
        self.attr_order: List[str] = []
        self.decorators = [deco_name(d) for d in node.decorator_list]

    @property
    def fq(self) -> str:
        return f'{self.module.name}:{self.name}'

    def __repr__(self) -> str:
        return f'<Class {self.fq}>'


class Module:
    def __init__(self, name: str, path: str, src: str):
        self.name = name
        self.path = path
        self.src = src
        try:
            self.tree = ast.parse(src, filename=path)
        except SyntaxError as exc:
            raise AnalysisError(f'{path}: does not parse: {exc}') from exc
        # private helpers the pinned tree does not have are inlined into their callers (sa/inline.py): the anchored
        # functions then read as they did before such a helper was extracted
        from .inline import normalise
        self.tree, self.inlined = normalise(self.tree, path)
        self.funcs: Dict[str, Func] = {}
        self.classes: Dict[str, ClassInfo] = {}
        # local name -> (module name, attribute or None)
        self.imports: Dict[str, Tuple[str, Optional[str]]] = {}
        self.star_imports: List[str] = []
        # module level simple assignments: name -> list of (annotation, value) in order
        self.assigns: Dict[str, List[Tuple[Optional[ast.AST], Optional[ast.AST], ast.AST]]] = {}
        self.all_: Optional[List[str]] = None
        self.is_pkg = path.endswith('__init__.py')
        self._index()

    # -- indexing -------------------------------------------------------------------
    def _index(self) -> None:
        for node in ast.walk(self.tree):
            for child in ast.iter_child_nodes(node):
                child._parent = node  # type: ignore[attr-defined]
        self.tree._parent = None  # type: ignore[attr-defined]
        self._index_block(self.tree.body, None, None, '')

    def _pkg_name(self) -> str:
        return self.name if self.is_pkg else self.name.rsplit('.', 1)[0]

    def _abs_module(self, level: int, mod: Optional[str]) -> str:
        if level == 0:
            return mod or ''
        base = self._pkg_name().split('.')
        if level > 1:
            base = base[:-(level - 1)]
        return '.'.join(base + ([mod] if mod else []))

    def _index_block(self, body, cls: Optional[ClassInfo], outer: Optional[Func], prefix: str) -> None:
        for st in body:
            self._index_stmt(st, cls, outer, prefix)

    def _index_stmt(self, st, cls, outer, prefix) -> None:
        if isinstance(st, (ast.FunctionDef, ast.AsyncFunctionDef)):
            qn = prefix + st.name
            f = Func(self, qn, st, cls, outer)
            if cls is not None and outer is None:
                if f.is_setter:
                    cls.setters[st.name] = f
                    qn = qn + '.setter'
                    f.qualname = qn
                else:
                    cls.methods[st.name] = f
            self.funcs[qn] = f
            if outer is not None:
                outer.nested[st.name] = f
            # nested functions at any statement depth (closures keep the method's class)
            todo = list(st.body)
            while todo:
                s = todo.pop(0)
                if isinstance(s, (ast.FunctionDef, ast.AsyncFunctionDef)):
                    self._index_stmt(s, None, f, qn + '.')
                    continue
                if isinstance(s, ast.ClassDef):
                    continue
                for fld in ('body', 'orelse', 'finalbody'):
                    todo += [x for x in getattr(s, fld, []) if isinstance(x, ast.stmt)]
                for h in getattr(s, 'handlers', []):
                    todo += h.body
            for sub in f.nested.values():
                sub.cls = cls
        elif isinstance(st, ast.ClassDef) and outer is None:
            ci = ClassInfo(self, prefix + st.name, st)
            self.classes[prefix + st.name] = ci
            for s in st.body:
                if isinstance(s, ast.AnnAssign) and isinstance(s.target, ast.Name):
                    ci.attrs[s.target.id] = (s.annotation, s.value)
                    ci.attr_order.append(s.target.id)
                elif isinstance(s, ast.Assign):
                    for t in s.targets:
                        if isinstance(t, ast.Name):
                            ci.attrs[t.id] = (None, s.value)
                            ci.attr_order.append(t.id)
            self._index_block(st.body, ci, None, prefix + st.name + '.')
        elif outer is None and cls is None:
            if isinstance(st, ast.Import):
                for a in st.names:
                    self.imports[a.asname or a.name.split('.')[0]] = (a.name if a.asname else a.name.split('.')[0], None)
            elif isinstance(st, ast.ImportFrom):
                mod = self._abs_module(st.level, st.module)
                for a in st.names:
                    if a.name == '*':
                        self.star_imports.append(mod)
                    else:
                        self.imports[a.asname or a.name] = (mod, a.name)
            elif isinstance(st, ast.Assign):
                for t in st.targets:
                    if isinstance(t, ast.Name):
                        self.assigns.setdefault(t.id, []).append((None, st.value, st))
                        if t.id == '__all__':
                            self._read_all(st.value, False)
            elif isinstance(st, ast.AnnAssign) and isinstance(st.target, ast.Name):
                self.assigns.setdefault(st.target.id, []).append((st.annotation, st.value, st))
            elif isinstance(st, ast.AugAssign) and isinstance(st.target, ast.Name):
                if st.target.id == '__all__':
                    self._read_all(st.value, True)
                else:
                    self.assigns.setdefault(st.target.id, []).append((None, None, st))
            elif isinstance(st, (ast.Try, ast.If)):
                # imports under try/except or if (version switch, cython fallback)
                blocks = [st.body, getattr(st, 'orelse', [])]
                if isinstance(st, ast.Try):
                    blocks += [h.body for h in st.handlers] + [st.finalbody]
                for b in blocks:
                    for s in b:
                        if isinstance(s, (ast.Import, ast.ImportFrom)):
                            self._index_stmt(s, None, None, prefix)

    def _read_all(self, value, extend: bool) -> None:
        names = []
        if isinstance(value, (ast.Tuple, ast.List)):
            for e in value.elts:
                if isinstance(e, ast.Constant) and isinstance(e.value, str):
                    names.append(e.value)
        if extend and self.all_ is not None:
            self.all_ += names
        else:
            self.all_ = names

    def global_writes(self) -> set:
        """Module-level names whose value changes at run time: declared ``global`` in some function (rebound), or a
        module-level container that a function of the module mutates in place (``N[k] = v``, ``N.update(..)``, ...)."""
        if not hasattr(self, '_gw'):
            gw = {n for g in ast.walk(self.tree) if isinstance(g, ast.Global) for n in g.names}
            mut = {'append', 'extend', 'insert', 'remove', 'pop', 'clear', 'sort', 'reverse', 'update', 'setdefault',
                   'add', 'discard', 'popitem', 'move_to_end', 'appendleft'}
            for fn in ast.walk(self.tree):
                if not isinstance(fn, (ast.FunctionDef, ast.AsyncFunctionDef)):
                    continue
                local = {a.arg for a in ast.walk(fn.args) if isinstance(a, ast.arg)} | \
                        {x.id for x in ast.walk(fn) if isinstance(x, ast.Name) and isinstance(x.ctx, ast.Store)}
                for x in ast.walk(fn):
                    tgt = None
                    if isinstance(x, ast.Call) and isinstance(x.func, ast.Attribute) and x.func.attr in mut \
                            and isinstance(x.func.value, ast.Name):
                        tgt = x.func.value.id
                    elif isinstance(x, ast.Subscript) and isinstance(x.ctx, (ast.Store, ast.Del)) and isinstance(x.value, ast.Name):
                        tgt = x.value.id
                    if tgt and tgt not in local and tgt in self.assigns:
                        gw.add(tgt)
            self._gw = gw
        return self._gw

    def public_names(self) -> List[str]:
        if self.all_ is not None:
            return list(self.all_)
        names = set(self.funcs) | set(self.classes) | set(self.assigns) | set(self.imports)
        return [n for n in names if not n.startswith('_') and '.' not in n]

    def where(self, node) -> str:
        return f'{self.path}:{getattr(node, "lineno", 0)}'


def deco_name(d: ast.AST) -> str:
    if isinstance(d, ast.Call):
        d = d.func
    return dotted(d) or ast.unparse(d)


def dotted(node: ast.AST) -> Optional[str]:
    """``a.b.c`` -> 'a.b.c' for Name/Attribute chains, else None."""
    parts = []
    while isinstance(node, ast.Attribute):
        parts.append(node.attr)
        node = node.value
    if isinstance(node, ast.Name):
        parts.append(node.id)
        return '.'.join(reversed(parts))
    return None


def norm(node: ast.AST) -> str:
    """Normalised text of a node (independent of formatting and comments)."""
    return ast.unparse(node)


def parent(node):
    return getattr(node, '_parent', None)


def enclosing_stmt(node):
    while node is not None and not isinstance(node, ast.stmt):
        node = parent(node)
    return node


def ancestors(node) -> Iterator[ast.AST]:
    node = parent(node)
    while node is not None:
        yield node
        node = parent(node)


class Program:
    def __init__(self, ss: SourceSet):
        self.ss = ss
        self.modules: Dict[str, Module] = {}
        # method names defined in more than one class of the package: a call `self._m(...)` may dispatch to an override,
        # so the front end must not expand it (sa/inline.py)
        from . import inline as _inline
        seen_names: Dict[str, int] = {}
        for path in ss.python_files():
            try:
                t_ = ast.parse(ss.files[path], filename=path)
            except SyntaxError:
                continue
            for c_ in ast.walk(t_):
                if isinstance(c_, ast.ClassDef):
                    for m_ in c_.body:
                        if isinstance(m_, (ast.FunctionDef, ast.AsyncFunctionDef)):
                            seen_names[m_.name] = seen_names.get(m_.name, 0) + 1
        _inline.POLYMORPHIC = {n_ for n_, k_ in seen_names.items() if k_ > 1}
        _inline.SLOT_RENAMES = _inline.slot_renames(ss.files)
        for path in ss.python_files():
            name = path[:-3].replace(os.sep, '.')
            if name.endswith('.__init__'):
                name = name[:-len('.__init__')]
            self.modules[name] = Module(name, path, ss.files[path])

    # -- lookups ----------------------------------------------------------------------
    def module(self, name: str) -> Module:
        if name in self.modules:
            return self.modules[name]
        full = f'{PKG}.{name}'
        if full in self.modules:
            return self.modules[full]
        raise AnalysisError(f'anchor vanished: module {name}')

    def func(self, module: str, qualname: str) -> Func:
        m = self.module(module)
        if qualname not in m.funcs:
            raise AnalysisError(f'anchor vanished: function {qualname} in {m.path}')
        return m.funcs[qualname]

    def has_func(self, module: str, qualname: str) -> bool:
        try:
            self.func(module, qualname)
            return True
        except AnalysisError:
            return False

    def cls(self, module: str, name: str) -> ClassInfo:
        m = self.module(module)
        if name not in m.classes:
            raise AnalysisError(f'anchor vanished: class {name} in {m.path}')
        return m.classes[name]

    def all_funcs(self) -> Iterator[Func]:
        for m in self.modules.values():
            yield from m.funcs.values()

    def all_classes(self) -> Iterator[ClassInfo]:
        for m in self.modules.values():
            yield from m.classes.values()

    # -- name resolution --------------------------------------------------------------
    def resolve(self, module: Module, name: str, _seen=None):
        """Resolve a module-level name to ('class', ClassInfo) | ('func', Func) |
        ('const', Module, name) | ('module', Module) | ('external', modname, attr) | None."""
        _seen = _seen or set()
        key = (module.name, name)
        if key in _seen:
            return None
        _seen.add(key)
        if name in module.classes:
            return ('class', module.classes[name])
        if name in module.funcs and '.' not in name:
            return ('func', module.funcs[name])
        if name in module.assigns:
            # alias of another resolvable name?  (basicConfig = _basic_config)
            ann, val, _st = module.assigns[name][-1]
            if isinstance(val, ast.Name) and val.id != name:
                r = self.resolve(module, val.id, _seen)
                if r is not None and r[0] in ('class', 'func'):
                    return r
            return ('const', module, name)
        if name in module.imports:
            modname, attr = module.imports[name]
            if attr is None:
                if modname in self.modules:
                    return ('module', self.modules[modname])
                return ('external', modname, None)
            if modname in self.modules:
                target = self.modules[modname]
                r = self.resolve(target, attr, _seen)
                if r is not None:
                    return r
                sub = f'{modname}.{attr}'
                if sub in self.modules:
                    return ('module', self.modules[sub])
                return None
            sub = f'{modname}.{attr}'
            if sub in self.modules:
                return ('module', self.modules[sub])
            return ('external', modname, attr)
        for modname in module.star_imports:
            if modname in self.modules:
                target = self.modules[modname]
                if name in target.public_names():
                    r = self.resolve(target, name, _seen)
                    if r is not None:
                        return r
        return None

    def resolve_class(self, module: Module, name: str) -> Optional[ClassInfo]:
        r = self.resolve(module, name)
        if r and r[0] == 'class':
            return r[1]
        return None

    def const_value(self, module: Module, name: str) -> Optional[ast.AST]:
        """The value expression of a module constant, following imports."""
        r = self.resolve(module, name)
        if r and r[0] == 'const':
            _, m, n = r
            entries = m.assigns[n]
            if len(entries) != 1:
                return None
            return entries[0][1]
        return None

    def const_home(self, module: Module, name: str):
        r = self.resolve(module, name)
        if r and r[0] == 'const':
            return r[1], r[2]
        return None

    # -- classes ------------------------------------------------------------------------
    def bases(self, ci: ClassInfo) -> List[ClassInfo]:
        out = []
        for b in ci.base_exprs:
            if isinstance(b, ast.Name):
                c = self.resolve_class(ci.module, b.id)
                if c is not None:
                    out.append(c)
        return out

    def base_names(self, ci: ClassInfo) -> List[str]:
        return [dotted(b) or norm(b) for b in ci.base_exprs]

    def mro(self, ci: ClassInfo) -> List[ClassInfo]:
        out, todo = [], [ci]
        while todo:
            c = todo.pop(0)
            if c in out:
                continue
            out.append(c)
            todo += self.bases(c)
        return out

    def subclasses(self, ci: ClassInfo) -> List[ClassInfo]:
        return [c for c in self.all_classes() if c is not ci and ci in self.mro(c)]

    def find_method(self, ci: ClassInfo, name: str, start_after: Optional[ClassInfo] = None) -> Optional[Func]:
        mro = self.mro(ci)
        if start_after is not None and start_after in mro:
            mro = mro[mro.index(start_after) + 1:]
        for c in mro:
            if name in c.methods:
                return c.methods[name]
            if name in c.attrs:
                _ann, val = c.attrs[name]
                if isinstance(val, ast.Name) and val.id in c.methods:   # __rshift__ = get_in
                    return c.methods[val.id]
        return None

    def find_class_attr(self, ci: ClassInfo, name: str):
        for c in self.mro(ci):
            if name in c.attrs:
                return c, c.attrs[name]
        return None

    def is_namedtuple(self, ci: ClassInfo) -> bool:
        return any(n in ('NamedTuple', 'typing.NamedTuple') for c in self.mro(ci) for n in self.base_names(c))

    def is_dataclass(self, ci: ClassInfo) -> bool:
        return any(d == 'dataclass' or d.endswith('.dataclass') for d in ci.decorators)

    def namedtuple_fields(self, ci: ClassInfo) -> List[str]:
        return [n for n in ci.attr_order if ci.attrs[n][0] is not None]


def func_of(node) -> Optional[ast.AST]:
    """Innermost enclosing FunctionDef/Lambda node of ``node``."""
    for a in ancestors(node):
        if isinstance(a, (ast.FunctionDef, ast.AsyncFunctionDef, ast.Lambda)):
            return a
    return None


def find_func_for_node(prog: Program, module: Module, node) -> Optional[Func]:
    fn = node if isinstance(node, (ast.FunctionDef, ast.AsyncFunctionDef)) else None
    if fn is None:
        for a in ancestors(node):
            if isinstance(a, (ast.FunctionDef, ast.AsyncFunctionDef)):
                fn = a
                break
    if fn is None:
        return None
    for f in module.funcs.values():
        if f.node is fn:
            return f
    return None


def walk_no_nested(node) -> Iterator[ast.AST]:
    """ast.walk that does not descend into nested function/class definitions (lambdas are descended)."""
    todo = list(ast.iter_child_nodes(node))
    while todo:
        n = todo.pop()
        yield n
        if isinstance(n, (ast.FunctionDef, ast.AsyncFunctionDef, ast.ClassDef)):
            continue
        todo.extend(ast.iter_child_nodes(n))


def body_nodes(fn_node) -> Iterator[ast.AST]:
    """All nodes of a function body including nested defs and lambdas."""
    for st in fn_node.body:
        yield from ast.walk(st)
