"""Entry point:  cd /verif && /venv/bin/python -m sa.check <ID> --tier quick|thorough

exit 0  every obligation discharged (or matched by a KNOWN-FINDING line)
exit 1  VIOLATION property=<id> replay=<path>   for each refuted obligation not in known_findings.json
exit 2  ANALYSIS-ERROR ...   anchor vanished / construct unreadable / rule below its instance floor
"""
from __future__ import annotations

import argparse
import importlib
import json
import multiprocessing
import os
import sys
import traceback
from typing import Any, Dict, List, Optional

from .abseval import Undecided
from .loader import AnalysisError, Program, SourceSet
from .report import EXIT_ANALYSIS_ERROR, Report, finish

ALL_IDS = [f'C{n:02d}' for n in range(1, 21)]


def load_prop(prop_id: str):
    return importlib.import_module(f'sa.props.{prop_id.lower()}')


def analyse(prop_id: str, ss: SourceSet, tier: str, imports: bool = True) -> Report:
    mod = load_prop(prop_id)
    rep = Report(prop_id, tier, ss.label)
    rep.decided = list(getattr(mod, 'DECIDED', []))
    rep.not_decided = list(getattr(mod, 'NOT_DECIDED', []))
    prog = Program(ss)
    try:
        mod.run(prog, rep, tier == 'thorough')
    except Undecided as exc:
        # a construct outside the evaluator's vocabulary reached a rule unguarded: loud, never a silent pass
        raise AnalysisError(f'abstract evaluator: {exc}') from exc
    if imports:
        _run_imports(prop_id, ss, tier, rep)
    return rep


_SIBLING_CACHE: Dict[Any, Any] = {}


def _sibling_report(sib: str, ss: SourceSet, tier: str):
    """The sibling's own analysis of the same sources (without its imports), or the reason it could not be made."""
    key = (sib, id(ss), tier)
    if key not in _SIBLING_CACHE:
        if len(_SIBLING_CACHE) > 64:
            _SIBLING_CACHE.clear()
        try:
            _SIBLING_CACHE[key] = (ss, analyse(sib, ss, tier, imports=False), None)
        except (AnalysisError, Undecided) as exc:
            _SIBLING_CACHE[key] = (ss, None, str(exc)[:300])
        except RecursionError as exc:
            _SIBLING_CACHE[key] = (ss, None, f'RecursionError {exc}'[:300])
        except Exception as exc:      # pylint: disable=broad-except
            _SIBLING_CACHE[key] = (ss, None, f'internal error in the sibling\'s rules: {type(exc).__name__}: {exc}'[:300])
    return _SIBLING_CACHE[key][1:]


def _run_imports(prop_id: str, ss: SourceSet, tier: str, rep: Report) -> None:
    """Re-report, under this property, the findings of sibling rules that are necessary conditions of it."""
    import re as _re
    from .props.imports import IMPORTS, decided_lines
    from .report import load_known
    table = IMPORTS.get(prop_id, [])
    if not table:
        return
    rep.decided.extend(decided_lines(prop_id))
    known = load_known().get('findings', [])
    imported = []
    for sib, rules, where, reason in table:
        srep, err = _sibling_report(sib, ss, 'quick')
        tag = f'{prop_id}<-{sib}'
        if srep is None:
            for rname in rules:
                rep.rule(rname, f'[imported from {sib}] not decided here', 0)
                rep.undecided(rname, sib, f'{tag} {rname}', f'the rules of {sib} could not read the tree ({err}); '
                              f'{sib}\'s own check reports that')
            continue
        sib_known = {k['key'] for k in known if k.get('property') == sib}
        for rname in rules:
            sr = srep.rules.get(rname)
            info = rep.rule(rname, f'[imported from {sib}{"" if where is None else ", at /" + where + "/"}] '
                            + (sr.text if sr else ''), 0)
            if sr is None:
                continue
            got = [f for f in srep.findings if f.rule == rname and f.key not in sib_known
                   and (where is None or _re.search(where, f'{f.path}|{f.func}|{f.construct}'))]
            info.instances += sr.discharged + sr.undecided + len(got)
            info.discharged += sr.discharged
            info.undecided += sr.undecided
            for s in sr.samples[:2]:
                if s.get('verdict') == 'discharged' and len(info.samples) < 3:
                    info.samples.append(dict(s))
            for f in got:
                if all(g.key != f.key for g in rep.findings):
                    f.chain = list(f.chain) + [f'imported into {prop_id}: {reason}']
                    rep.findings.append(f)
                    info.refuted += 1
                    info.samples.insert(0, {'where': f'{f.path}:{f.line}', 'obligation': f'{f.func} [{f.construct}]',
                                            'verdict': 'refuted', 'why': f.message})
            imported.append({'from': sib, 'rule': rname, 'where': where, 'findings': len(got)})
        rep.analysed_functions |= srep.analysed_functions
        rep.analysed_modules |= srep.analysed_modules
    rep.extra['imported_rules'] = imported


# ---------------------------------------------------------------------------------------
# self-test: breaking variants must fire, benign twins must stay silent
# ---------------------------------------------------------------------------------------

class Variant:
    """One single-edit variant of the current tree, built in memory.

    ``edits`` is a list of (path, old, new[, count]).  ``old`` must occur exactly ``count`` times
    (default 1) in the current text of ``path``; otherwise the variant is not applicable to this
    tree (the code it edits has changed) and is skipped, never failed.
    """

    def __init__(self, name: str, kind: str, edits, expect: Optional[str] = None, note: str = '',
                 tests: str = ''):
        assert kind in ('break', 'twin')
        self.name = name
        self.kind = kind
        self.edits = edits
        self.expect = expect        # rule name (prefix) expected to fire
        self.note = note
        self.tests = tests          # 'pass' | 'caught' | '' : what the repository's own test-suite says

    def build(self, ss: SourceSet) -> Optional[SourceSet]:
        out = ss
        for e in self.edits:
            path, old, new = e[0], e[1], e[2]
            count = e[3] if len(e) > 3 else 1
            text = out.files.get(path)
            if text is None or text.count(old) != count:
                return None
            out = out.replace(path, text.replace(old, new), label=f'variant:{self.name}')
        for p in out.python_files():
            if out.files[p] is not ss.files[p]:
                try:
                    compile(out.files[p], p, 'exec')
                except SyntaxError:
                    return None
        return out


def apply_unified_diff(files: Dict[str, str], diff: str) -> Optional[Dict[str, str]]:
    """Apply a git unified diff to an in-memory {path: text} map.  Every hunk must match its context exactly (searched
    near its stated position); returns the changed files, or None when a hunk does not apply to this tree."""
    out: Dict[str, str] = {}
    cur_path = None
    hunks: Dict[str, list] = {}
    lines = diff.splitlines()
    i = 0
    while i < len(lines):
        ln = lines[i]
        if ln.startswith('+++ '):
            cur_path = ln[4:].strip()
            cur_path = cur_path[2:] if cur_path.startswith('b/') else cur_path
            hunks.setdefault(cur_path, [])
        elif ln.startswith('@@') and cur_path is not None:
            import re as _re
            m = _re.match(r'@@ -(\d+)(?:,(\d+))? \+(\d+)(?:,(\d+))? @@', ln)
            if not m:
                return None
            start = int(m.group(1))
            body = []
            i += 1
            while i < len(lines) and not lines[i].startswith(('@@', 'diff --git', '--- ', '+++ ')):
                if lines[i].startswith('\\'):
                    i += 1
                    continue
                body.append(lines[i])
                i += 1
            hunks[cur_path].append((start, body))
            continue
        i += 1
    for path, hs in hunks.items():
        if path == '/dev/null':
            return None
        text = files.get(path)
        if text is None:
            return None
        src = text.split('\n')
        delta = 0
        for start, body in hs:
            old = [b[1:] for b in body if b[:1] in (' ', '-')]
            new = [b[1:] for b in body if b[:1] in (' ', '+')]
            old = [o for o in old]
            pos = None
            guess = start - 1 + delta
            for off in sorted(range(-40, 41), key=abs):
                k = guess + off
                if 0 <= k <= len(src) - len(old) and src[k:k + len(old)] == old:
                    pos = k
                    break
            if pos is None:
                return None
            src[pos:pos + len(old)] = new
            delta += len(new) - len(old)
        out[path] = '\n'.join(src)
    return out


class PatchVariant(Variant):
    """A breaking variant given as a unified diff (the independently seeded changes under /verif/seeded)."""

    def __init__(self, name: str, diff_path: str, expect: Optional[str], note: str = ''):
        super().__init__(name, 'break', [], expect, note, 'pass')
        self.diff_path = diff_path

    def build(self, ss: SourceSet) -> Optional[SourceSet]:
        try:
            with open(self.diff_path, encoding='utf-8') as fh:
                diff = fh.read()
        except OSError:
            return None
        changed = apply_unified_diff(ss.files, diff)
        if not changed:
            return None
        out = ss
        for path, text in changed.items():
            out = out.replace(path, text, label=f'variant:{self.name}')
            if path.endswith('.py'):
                try:
                    compile(text, path, 'exec')
                except SyntaxError:
                    return None
        return out


def seeded_variants(prop_id: str) -> List[Variant]:
    """The seeded changes this property's check is recorded (meta.json: checks_fired) to report.  The expectation is the
    table committed with the change; a change whose patch no longer applies to the tree is skipped."""
    import glob
    import json as _json
    out: List[Variant] = []
    root = os.path.join(os.path.dirname(os.path.dirname(os.path.abspath(__file__))), 'seeded')
    for mp in sorted(glob.glob(os.path.join(root, 'C*', '*', 'meta.json'))):
        try:
            with open(mp, encoding='utf-8') as fh:
                meta = _json.load(fh)
        except (OSError, ValueError):
            continue
        if prop_id not in meta.get('checks_fired', []):
            continue
        d = os.path.dirname(mp)
        name = 'seeded-' + os.path.relpath(d, root).replace(os.sep, '-')
        out.append(PatchVariant(name, os.path.join(d, 'patch.diff'), prop_id, meta.get('summary', '')[:100]))
    return out


def twin_variants(prop_id: str) -> List[Variant]:
    """The independently written behaviour-preserving refactorings under /verif/twins that are a regression case for this
    property: those written against this property, and those on which this property's check once raised a false alarm
    (meta.json: false_alarms_raised_while_hardening).  Each must stay silent; one the check cannot read (recorded in
    checks_analysis_error) is left out."""
    import glob
    import json as _json
    out: List[Variant] = []
    root = os.path.join(os.path.dirname(os.path.dirname(os.path.abspath(__file__))), 'twins')
    for mp in sorted(glob.glob(os.path.join(root, 'C*', '*', 'meta.json'))):
        try:
            with open(mp, encoding='utf-8') as fh:
                meta = _json.load(fh)
        except (OSError, ValueError):
            continue
        if prop_id != meta.get('property') and prop_id not in meta.get('false_alarms_raised_while_hardening', []):
            continue
        if prop_id in meta.get('checks_analysis_error', []):
            continue
        d = os.path.dirname(mp)
        v = PatchVariant('refactoring-' + os.path.relpath(d, root).replace(os.sep, '-'), os.path.join(d, 'patch.diff'), None,
                         meta.get('title', '')[:100])
        v.kind = 'twin'
        out.append(v)
    return out


def _run_variant(args):
    prop_id, ss, v, base_keys = args
    try:
        vs = v.build(ss)
        if vs is None:
            return (v.name, v.kind, 'skipped', [], '')
        try:
            rep = analyse(prop_id, vs, 'quick')
        except AnalysisError as exc:
            # a rule that cannot read the variant: for a breaking variant that is a loud (exit 2) answer,
            # for a twin it is a false alarm of the analysis-error kind
            return (v.name, v.kind, 'analysis-error', [], str(exc))
        floor = rep.floor_errors()
        new = [f for f in rep.findings if f.key not in base_keys]
        if floor and not new:
            return (v.name, v.kind, 'analysis-error', [], '; '.join(floor))
        # `expect` is a rule name for the hand-written variants; for a seeded change it is the property itself, and a
        # finding re-reported from a borrowed sibling rule (imports.py) is a report by this property's check all the same
        fired = [f.rule for f in new if v.expect is None or f.rule.startswith(v.expect) or '.' not in v.expect]
        other = [f.rule for f in new if f.rule not in fired]
        if v.kind == 'break':
            return (v.name, v.kind, 'fired' if fired else ('fired-other' if other else 'silent'),
                    sorted(set(fired + other)), '; '.join(f.text().strip() for f in new[:2]))
        return (v.name, v.kind, 'silent' if not new else 'fired', sorted(set(f.rule for f in new)),
                '; '.join(f.text().strip() for f in new[:2]))
    except Exception:  # pylint: disable=broad-except
        return (v.name, v.kind, 'crash', [], traceback.format_exc(limit=4))


def selftest(prop_id: str, ss: SourceSet, base: Report, jobs: int = 16) -> Dict[str, Any]:
    mod = load_prop(prop_id)
    variants: List[Variant] = list(getattr(mod, 'VARIANTS', [])) + seeded_variants(prop_id) + twin_variants(prop_id)
    base_keys = {f.key for f in base.findings}
    work = [(prop_id, ss, v, base_keys) for v in variants]
    if not work:
        return {'breaking': 0, 'twins': 0, 'breaking_fired': 0, 'twins_silent': 0, 'skipped': 0,
                'errors': [], 'results': []}
    if jobs > 1 and len(work) > 1:
        with multiprocessing.Pool(min(jobs, len(work))) as pool:
            results = pool.map(_run_variant, work)
    else:
        results = [_run_variant(w) for w in work]
    out: Dict[str, Any] = {'breaking': 0, 'twins': 0, 'breaking_fired': 0, 'twins_silent': 0, 'skipped': 0,
                           'errors': [], 'results': []}
    byname = {v.name: v for v in variants}
    for name, kind, status, rules, detail in results:
        v = byname[name]
        out['results'].append({'variant': name, 'kind': kind, 'status': status, 'rules': rules,
                               'expect': v.expect, 'repo_tests': v.tests, 'note': v.note, 'detail': detail[:300]})
        if status == 'skipped':
            out['skipped'] += 1
            continue
        if kind == 'break':
            out['breaking'] += 1
            if status in ('fired', 'analysis-error'):
                # analysis-error = the checker refuses to pass the variant (exit 2): loud, not blind
                out['breaking_fired'] += 1
            else:
                out['errors'].append(f'self-test: breaking variant {name!r} -> {status} (expected {v.expect}); '
                                     f'the rule is blind to it')
        else:
            out['twins'] += 1
            if status == 'silent':
                out['twins_silent'] += 1
            else:
                out['errors'].append(f'self-test: benign twin {name!r} -> {status} {rules} {detail[:160]}')
    return out


# ---------------------------------------------------------------------------------------

def main(argv=None) -> int:
    ap = argparse.ArgumentParser()
    ap.add_argument('prop')
    ap.add_argument('--tier', default=os.environ.get('VERIF_TIER', 'quick'), choices=['quick', 'thorough'])
    ap.add_argument('--replay')
    ap.add_argument('--repo', default=None)
    ap.add_argument('--no-write', action='store_true')
    ap.add_argument('--jobs', type=int, default=16)
    ap.add_argument('--selftest', action='store_true', help='run the variants in the quick tier too')
    args = ap.parse_args(argv)
    prop_id = args.prop.upper()
    if prop_id not in ALL_IDS:
        print(f'ANALYSIS-ERROR unknown property {prop_id}')
        return EXIT_ANALYSIS_ERROR
    try:
        ss = SourceSet.load(args.repo) if args.repo else SourceSet.load()
        rep = analyse(prop_id, ss, args.tier)
        st = None
        if args.tier == 'thorough' or args.selftest:
            st = selftest(prop_id, ss, rep, args.jobs)
        code = finish(rep, st, write=not args.no_write)
        if args.replay:
            with open(args.replay, encoding='utf-8') as fh:
                want = json.load(fh)['finding']['key']
            still = any(f.key == want for f in rep.findings)
            print(f'REPLAY {want}: {"still present" if still else "no longer reported"}')
        return code
    except AnalysisError as exc:
        print(f'ANALYSIS-ERROR property={prop_id} {exc}')
        _write_error_evidence(prop_id, args.tier, str(exc), not args.no_write)
        return EXIT_ANALYSIS_ERROR
    except Exception:  # pylint: disable=broad-except
        tb = traceback.format_exc()
        print(f'ANALYSIS-ERROR property={prop_id} internal error in the checker:\n{tb}')
        _write_error_evidence(prop_id, args.tier, tb, not args.no_write)
        return EXIT_ANALYSIS_ERROR


def _write_error_evidence(prop_id: str, tier: str, text: str, write: bool) -> None:
    if not write:
        return
    from .report import EVIDENCE_DIR
    os.makedirs(EVIDENCE_DIR, exist_ok=True)
    ev = {'property_id': prop_id, 'tier': tier, 'seed': int(os.environ.get('VERIF_SEED', '0') or 0),
          'level': 'other',
          'coverage': {'explanation': 'analysis error: the check could not read the tree; nothing is claimed. '
                       + text[:2000]},
          'assumptions': [], 'wall_s': 0.0, 'violations': 0}
    with open(os.path.join(EVIDENCE_DIR, f'{prop_id}.json'), 'w', encoding='utf-8') as fh:
        json.dump(ev, fh, indent=1)


if __name__ == '__main__':
    sys.exit(main())
