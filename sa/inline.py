"""Source normalisation: private helpers that the pinned tree does not have are inlined into their callers.

The rules are written against the functions the property anchors name (`_integrate`, `should_record`, `zero_angle`, ...).
A maintainer who extracts part of such a function into a new private helper (`_make_row`, `_termination_reason`,
`_euler_step`, a nested closure, a module-level `_lerp`) has not changed what the anchored function does, but the statements
the rules read are no longer in it.  Before a module is indexed, every call of a *new* private helper - a function whose
qualified name is not in `spec/known_functions.json`, the inventory of the pinned tree - is replaced by the helper's body:

* a helper whose body is one `return <expr>` is substituted in place (parameters replaced by the argument expressions, or
  by temporaries when an argument is not a plain name / attribute / constant and is used more than once);
* any other helper is hoisted: its parameters are bound, its body - with every local renamed apart - is inserted before
  the statement that contains the call, `return e` becomes an assignment to a result variable (early returns are turned
  into if / else nests, which is exact for returns in tail position of an `if` chain), and the call is replaced by that
  variable;
* helpers with returns inside loops or `try`, generators, `*args`, recursion, and calls in positions that are evaluated
  conditionally or repeatedly (lambda, comprehension, `and` / `or` right operands, conditional expressions, `while`
  tests) are left alone - the rules then see a call, as before.

Helper definitions whose every call was inlined are dropped.  On the pinned tree nothing is new, so nothing changes.
The transformation is a purely syntactic, semantics-preserving rewriting of what is analysed; inserted statements carry
the line number of the call they replace, so reports still point into the real file.
"""
from __future__ import annotations

import ast
import copy
import itertools
import json
import os
from typing import Dict, List, Optional, Set, Tuple

_SPEC = os.path.join(os.path.dirname(os.path.abspath(__file__)), 'spec', 'known_functions.json')
try:
    with open(_SPEC, encoding='utf-8') as _fh:
        KNOWN: Set[str] = set(json.load(_fh))
except (OSError, ValueError):
    KNOWN = set()

_counter = itertools.count(1)
MAX_ROUNDS = 5


def inventory(tree: ast.Module, path: str) -> List[str]:
    out: List[str] = []

    def walk(body, prefix):
        for st in body:
            if isinstance(st, (ast.FunctionDef, ast.AsyncFunctionDef)):
                out.append(f'{path}::{prefix}{st.name}')
                walk(st.body, f'{prefix}{st.name}.')
            elif isinstance(st, ast.ClassDef):
                walk(st.body, f'{prefix}{st.name}.')
            elif isinstance(st, (ast.If, ast.Try, ast.With, ast.For, ast.While)):
                for fld in ('body', 'orelse', 'finalbody', 'handlers'):
                    for x in getattr(st, fld, []) or []:
                        if isinstance(x, ast.ExceptHandler):
                            walk(x.body, prefix)
                        elif isinstance(x, ast.stmt):
                            walk([x], prefix)
    walk(tree.body, '')
    return out


def _decorators(fn: ast.FunctionDef) -> List[str]:
    out = []
    for d in fn.decorator_list:
        try:
            out.append(ast.unparse(d))
        except Exception:      # pylint: disable=broad-except
            out.append('?')
    return out


class _Unsuitable(Exception):
    pass


def _always_returns(stmts: List[ast.stmt]) -> bool:
    if not stmts:
        return False
    last = stmts[-1]
    if isinstance(last, (ast.Return, ast.Raise)):
        return True
    if isinstance(last, ast.If):
        return _always_returns(last.body) and _always_returns(last.orelse)
    return False


def _contains_return(stmts: List[ast.stmt]) -> bool:
    for s in stmts:
        for n in ast.walk(s):
            if isinstance(n, ast.Return):
                return True
    return False


def _structure(stmts: List[ast.stmt], ret: str, loc: ast.AST) -> List[ast.stmt]:
    """`return e` -> `ret = e`; early returns turned into if / else nests.  Raises _Unsuitable for returns that are not
    in tail position of an if-chain (inside loops, try, with)."""
    out: List[ast.stmt] = []
    for i, s in enumerate(stmts):
        rest = stmts[i + 1:]
        if isinstance(s, ast.Return):
            val = s.value if s.value is not None else ast.Constant(value=None)
            out.append(ast.copy_location(ast.Assign(targets=[ast.Name(id=ret, ctx=ast.Store())], value=val), s))
            return out
        if isinstance(s, ast.If) and (_contains_return(s.body) or _contains_return(s.orelse)):
            b_ret, o_ret = _always_returns(s.body), _always_returns(s.orelse)
            if b_ret and (o_ret or not s.orelse or not _contains_return(s.orelse)):
                new_if = ast.copy_location(ast.If(test=s.test, body=_structure(s.body, ret, loc),
                                                  orelse=_structure(list(s.orelse) + list(rest), ret, loc)), s)
                out.append(new_if)
                return out
            if o_ret and not _contains_return(s.body):
                new_if = ast.copy_location(ast.If(test=s.test, body=_structure(list(s.body) + list(rest), ret, loc),
                                                  orelse=_structure(s.orelse, ret, loc)), s)
                out.append(new_if)
                return out
            raise _Unsuitable('return on some paths of a branch only')
        if _contains_return([s]):
            raise _Unsuitable(f'return inside {type(s).__name__}')
        out.append(s)
    # falls off the end: returns None
    out.append(ast.copy_location(ast.Assign(targets=[ast.Name(id=ret, ctx=ast.Store())], value=ast.Constant(value=None)), loc))
    return out


def _simple_arg(e: ast.AST) -> bool:
    if isinstance(e, (ast.Name, ast.Constant)):
        return True
    if isinstance(e, ast.Attribute):
        return _simple_arg(e.value)
    if isinstance(e, ast.UnaryOp) and isinstance(e.op, ast.USub):
        return _simple_arg(e.operand)
    return False


class _Helper:
    def __init__(self, fn: ast.FunctionDef, kind: str, qual: str):
        self.fn, self.kind, self.qual = fn, kind, qual     # kind: 'function' | 'method' | 'static' | 'class' | 'nested'
        self.uses = 0
        self.inlined = 0

    def suitable(self) -> bool:
        fn = self.fn
        if isinstance(fn, ast.AsyncFunctionDef) or fn.args.vararg or fn.args.kwarg or fn.args.posonlyargs:
            return False
        for n in ast.walk(fn):
            if isinstance(n, (ast.Yield, ast.YieldFrom, ast.Await, ast.Global, ast.Nonlocal, ast.Try, ast.With, ast.ClassDef)):
                return False
            if n is not fn and isinstance(n, (ast.FunctionDef, ast.AsyncFunctionDef)):
                return False
            if isinstance(n, ast.Call) and isinstance(n.func, ast.Name) and n.func.id in (fn.name, 'locals', 'vars', 'super'):
                return False
            if isinstance(n, ast.Call) and isinstance(n.func, ast.Attribute) and n.func.attr == fn.name:
                return False          # (possibly) recursive
        return True

    def body(self) -> List[ast.stmt]:
        b = list(self.fn.body)
        if b and isinstance(b[0], ast.Expr) and isinstance(b[0].value, ast.Constant) and isinstance(b[0].value.value, str):
            b = b[1:]
        return b


class _Rename(ast.NodeTransformer):
    def __init__(self, mapping: Dict[str, ast.AST]):
        self.mapping = mapping

    def visit_Name(self, node: ast.Name):
        rep = self.mapping.get(node.id)
        if rep is None:
            return node
        if isinstance(rep, str):
            return ast.copy_location(ast.Name(id=rep, ctx=node.ctx), node)
        if isinstance(node.ctx, ast.Load):
            return ast.copy_location(copy.deepcopy(rep), node)
        return node

    def visit_Lambda(self, node: ast.Lambda):
        inner = {a.arg for a in node.args.args + node.args.kwonlyargs}
        saved = self.mapping
        self.mapping = {k: v for k, v in saved.items() if k not in inner}
        try:
            node.body = self.visit(node.body)
        finally:
            self.mapping = saved
        return node

    def _comp(self, node):
        bound = set()
        for g in node.generators:
            for n in ast.walk(g.target):
                if isinstance(n, ast.Name):
                    bound.add(n.id)
        saved = self.mapping
        self.mapping = {k: v for k, v in saved.items() if k not in bound}
        try:
            self.generic_visit(node)
        finally:
            self.mapping = saved
        return node

    visit_ListComp = visit_SetComp = visit_DictComp = visit_GeneratorExp = _comp


def _set_loc(nodes: List[ast.AST], loc: ast.AST) -> None:
    for top in nodes:
        for n in ast.walk(top):
            if isinstance(n, (ast.stmt, ast.expr)) or hasattr(n, 'lineno'):
                n.lineno = getattr(loc, 'lineno', 1)
                n.col_offset = getattr(loc, 'col_offset', 0)
                n.end_lineno = getattr(loc, 'end_lineno', n.lineno)
                n.end_col_offset = getattr(loc, 'end_col_offset', 0)


POLYMORPHIC: set = set()       # method names defined in several classes (set by the loader for the tree being analysed)


class _Inliner:
    def __init__(self, tree: ast.Module, path: str):
        self.tree, self.path = tree, path
        self.log: List[str] = []

    # -- candidates ------------------------------------------------------------------
    def _is_new_private(self, qual: str, name: str) -> bool:
        return name.startswith('_') and not name.startswith('__') and f'{self.path}::{qual}' not in KNOWN

    def collect(self) -> Tuple[Dict[str, _Helper], Dict[str, Dict[str, _Helper]]]:
        funcs: Dict[str, _Helper] = {}
        methods: Dict[str, Dict[str, _Helper]] = {}
        for st in self.tree.body:
            if isinstance(st, ast.FunctionDef) and self._is_new_private(st.name, st.name):
                h = _Helper(st, 'function', st.name)
                if h.suitable() and not st.decorator_list:
                    funcs[st.name] = h
            elif isinstance(st, ast.ClassDef):
                for m in st.body:
                    if isinstance(m, ast.FunctionDef) and self._is_new_private(f'{st.name}.{m.name}', m.name):
                        decs = _decorators(m)
                        kind = 'static' if 'staticmethod' in decs else 'class' if 'classmethod' in decs else 'method'
                        if [d for d in decs if d not in ('staticmethod', 'classmethod')]:
                            continue
                        if m.name in POLYMORPHIC:
                            self.log.append(f'{self.path}:{m.lineno} {st.name}.{m.name} not inlined: the name is defined in several '
                                            f'classes (a call may dispatch to an override)')
                            continue
                        h = _Helper(m, kind, f'{st.name}.{m.name}')
                        if h.suitable():
                            methods.setdefault(st.name, {})[m.name] = h
        return funcs, methods

    # -- one call ----------------------------------------------------------------------
    def bind(self, h: _Helper, call: ast.Call, receiver: Optional[ast.AST], loc: ast.AST):
        """-> (prelude statements, mapping for _Rename) or raises _Unsuitable."""
        fn = h.fn
        params = [a.arg for a in fn.args.args]
        if any(isinstance(a, ast.Starred) for a in call.args) or any(k.arg is None for k in call.keywords):
            raise _Unsuitable('star arguments')
        n = next(_counter)
        mapping: Dict[str, object] = {}
        prelude: List[ast.stmt] = []
        args = list(call.args)
        if h.kind in ('method', 'class'):
            if receiver is None:
                raise _Unsuitable('no receiver')
            first = params[0]
            params = params[1:]
            if _simple_arg(receiver):
                mapping[first] = receiver
            else:
                tmp = f'{first}__{n}'
                prelude.append(ast.Assign(targets=[ast.Name(id=tmp, ctx=ast.Store())], value=receiver))
                mapping[first] = tmp
        if len(args) > len(params):
            raise _Unsuitable('too many arguments')
        bound: Dict[str, ast.AST] = dict(zip(params, args))
        for k in call.keywords:
            if k.arg in bound or k.arg not in params + [a.arg for a in fn.args.kwonlyargs]:
                raise _Unsuitable('keyword mismatch')
            bound[k.arg] = k.value
        defaults = dict(zip([a.arg for a in fn.args.args][-len(fn.args.defaults):] if fn.args.defaults else [], fn.args.defaults))
        for a, d in zip(fn.args.kwonlyargs, fn.args.kw_defaults):
            if d is not None:
                defaults[a.arg] = d
        all_params = params + [a.arg for a in fn.args.kwonlyargs]
        stored = {x.id for x in ast.walk(fn) if isinstance(x, ast.Name) and isinstance(x.ctx, ast.Store)}
        for p in all_params:
            if p not in bound:
                if p not in defaults:
                    raise _Unsuitable(f'missing argument {p}')
                d_ = defaults[p]
                if not (isinstance(d_, ast.Constant) or (isinstance(d_, ast.UnaryOp) and isinstance(d_.operand, ast.Constant))):
                    # a default is evaluated once, when the def statement runs: substituting it at the call would read it later
                    raise _Unsuitable(f'default of {p} is not a literal (bound at definition time)')
                bound[p] = copy.deepcopy(d_)
            uses = sum(1 for x in ast.walk(fn) if isinstance(x, ast.Name) and x.id == p and isinstance(x.ctx, ast.Load))
            body_ = h.body()
            one_expr = len(body_) == 1 and isinstance(body_[0], ast.Return)
            # in a helper of several statements the argument is evaluated before any of them runs: only what the body
            # cannot change (a local of the caller, a literal) may be read later instead
            direct = (_simple_arg(bound[p]) or uses <= 1) if one_expr else isinstance(bound[p], (ast.Name, ast.Constant))
            if p not in stored and direct:
                mapping[p] = bound[p]
            else:
                tmp = f'{p}__{n}'
                prelude.append(ast.Assign(targets=[ast.Name(id=tmp, ctx=ast.Store())], value=bound[p]))
                mapping[p] = tmp
        for loc_name in sorted(stored - set(all_params) - ({[a.arg for a in fn.args.args][0]} if h.kind in ('method', 'class') else set())):
            mapping[loc_name] = f'{loc_name}__{n}'
        for loc_name in sorted(stored & set(all_params)):
            pass            # already a temporary
        return prelude, mapping, n

    def expand(self, h: _Helper, call: ast.Call, receiver: Optional[ast.AST], loc: ast.AST):
        """-> (statements to insert before the enclosing statement, expression replacing the call)"""
        body = h.body()
        prelude, mapping, n = self.bind(h, call, receiver, loc)
        if len(body) == 1 and isinstance(body[0], ast.Return) and body[0].value is not None:
            expr = _Rename(mapping).visit(copy.deepcopy(body[0].value))
            _set_loc(prelude + [expr], loc)
            return prelude, expr
        ret = f'_ret_{h.fn.name.lstrip("_")}__{n}'
        structured = _structure([copy.deepcopy(s) for s in body], ret, loc)
        ren = _Rename(mapping)
        block = [ren.visit(s) for s in structured]
        _set_loc(prelude + block, loc)
        return prelude + block, ast.copy_location(ast.Name(id=ret, ctx=ast.Load()), call)

    # -- walking a host -----------------------------------------------------------------
    def host_block(self, stmts: List[ast.stmt], cls: Optional[str], funcs, methods, nested: Dict[str, _Helper]) -> List[ast.stmt]:
        out: List[ast.stmt] = []
        for s in stmts:
            if isinstance(s, (ast.FunctionDef, ast.AsyncFunctionDef, ast.ClassDef)):
                out.append(s)
                continue
            # recurse into compound statements first
            for fld in ('body', 'orelse', 'finalbody'):
                sub = getattr(s, fld, None)
                if isinstance(sub, list) and sub and isinstance(sub[0], ast.stmt):
                    setattr(s, fld, self.host_block(sub, cls, funcs, methods, nested))
            if isinstance(s, ast.Try):
                for hd in s.handlers:
                    hd.body = self.host_block(hd.body, cls, funcs, methods, nested)
            pre: List[ast.stmt] = []
            self._inline_in_stmt(s, cls, funcs, methods, nested, pre)
            out.extend(pre)
            out.append(s)
        return out

    def _header_exprs(self, s: ast.stmt) -> List[Tuple[ast.AST, str]]:
        """(parent, field) pairs of the expressions evaluated once when the statement is reached."""
        if isinstance(s, (ast.Assign, ast.AugAssign, ast.AnnAssign, ast.Expr, ast.Return)):
            return [(s, 'value')] if getattr(s, 'value', None) is not None else []
        if isinstance(s, ast.If):
            return [(s, 'test')]
        if isinstance(s, ast.For):
            return [(s, 'iter')]
        if isinstance(s, ast.Raise):
            return [(s, 'exc')] if s.exc is not None else []
        if isinstance(s, ast.Assert):
            return [(s, 'test')]
        return []

    def _inline_in_stmt(self, s: ast.stmt, cls, funcs, methods, nested, pre: List[ast.stmt]) -> None:
        for parent, field in self._header_exprs(s):
            expr = getattr(parent, field)
            new = self._inline_expr(expr, s, cls, funcs, methods, nested, pre)
            setattr(parent, field, new)

    def _inline_expr(self, e: ast.AST, stmt: ast.stmt, cls, funcs, methods, nested, pre: List[ast.stmt]) -> ast.AST:
        """Evaluation-order walk over the unconditionally evaluated sub-expressions."""
        if isinstance(e, (ast.Lambda, ast.ListComp, ast.SetComp, ast.DictComp, ast.GeneratorExp, ast.IfExp)):
            if isinstance(e, ast.IfExp):
                e.test = self._inline_expr(e.test, stmt, cls, funcs, methods, nested, pre)
            return e
        if isinstance(e, ast.BoolOp):
            e.values[0] = self._inline_expr(e.values[0], stmt, cls, funcs, methods, nested, pre)
            return e
        if isinstance(e, ast.NamedExpr):
            e.value = self._inline_expr(e.value, stmt, cls, funcs, methods, nested, pre)
            return e
        if isinstance(e, ast.Compare):
            e.left = self._inline_expr(e.left, stmt, cls, funcs, methods, nested, pre)
            if len(e.comparators) == 1:
                e.comparators[0] = self._inline_expr(e.comparators[0], stmt, cls, funcs, methods, nested, pre)
            return e
        for fld, val in list(ast.iter_fields(e)):
            if isinstance(val, ast.AST) and isinstance(val, ast.expr):
                setattr(e, fld, self._inline_expr(val, stmt, cls, funcs, methods, nested, pre))
            elif isinstance(val, list):
                for i, x in enumerate(val):
                    if isinstance(x, ast.expr):
                        val[i] = self._inline_expr(x, stmt, cls, funcs, methods, nested, pre)
                    elif isinstance(x, ast.keyword):
                        x.value = self._inline_expr(x.value, stmt, cls, funcs, methods, nested, pre)
        if isinstance(e, ast.Call):
            h, receiver = self._target(e, cls, funcs, methods, nested)
            if h is not None:
                h.uses += 1
                try:
                    block, repl = self.expand(h, e, receiver, stmt)
                except _Unsuitable as exc:
                    self.log.append(f'{self.path}:{getattr(stmt, "lineno", 0)} {h.qual} not inlined: {exc}')
                    return e
                h.inlined += 1
                pre.extend(block)
                self.log.append(f'{self.path}:{getattr(stmt, "lineno", 0)} {h.qual} inlined')
                return repl
        return e

    def _target(self, call: ast.Call, cls, funcs, methods, nested):
        f = call.func
        if isinstance(f, ast.Name):
            if f.id in nested:
                return nested[f.id], None
            if f.id in funcs:
                return funcs[f.id], None
            return None, None
        if isinstance(f, ast.Attribute) and isinstance(f.value, ast.Name):
            base = f.value.id
            if cls is not None and base in ('self', 'cls', cls) and f.attr in methods.get(cls, {}):
                h = methods[cls][f.attr]
                if h.kind == 'static':
                    return h, None
                if h.kind == 'method' and base == 'self':
                    return h, ast.Name(id='self', ctx=ast.Load())
                if h.kind == 'class' and base in ('cls', cls, 'self'):
                    return h, (ast.Name(id=base, ctx=ast.Load()) if base != 'self' else
                               ast.Attribute(value=ast.Name(id='self', ctx=ast.Load()), attr='__class__', ctx=ast.Load()))
            if base in methods and f.attr in methods[base] and methods[base][f.attr].kind == 'static':
                return methods[base][f.attr], None
        return None, None

    # -- driver -------------------------------------------------------------------------
    def run(self) -> ast.Module:
        for _round in range(MAX_ROUNDS):
            funcs, methods = self.collect()
            before = len(self.log)

            def do_function(fn: ast.FunctionDef, cls: Optional[str], qual: str):
                nested: Dict[str, _Helper] = {}
                for st in fn.body:
                    if isinstance(st, ast.FunctionDef) and f'{self.path}::{qual}.{st.name}' not in KNOWN \
                            and not st.decorator_list:
                        hh = _Helper(st, 'nested', f'{qual}.{st.name}')
                        if hh.suitable():
                            # a closure: its free variables are the host's locals, so only its own names are renamed
                            nested[st.name] = hh
                me_funcs = {k: v for k, v in funcs.items() if v.fn is not fn}
                me_methods = {c: {k: v for k, v in ms.items() if v.fn is not fn} for c, ms in methods.items()}
                fn.body = self.host_block(fn.body, cls, me_funcs, me_methods, nested)
                # closures all of whose calls were inlined disappear
                dead = {n for n, hh in nested.items() if hh.uses and hh.uses == hh.inlined and not self._referenced(fn, n, hh.fn)}
                fn.body = [st for st in fn.body if not (isinstance(st, ast.FunctionDef) and st.name in dead)]
                for st in fn.body:
                    if isinstance(st, ast.FunctionDef):
                        do_function(st, cls, f'{qual}.{st.name}')
            for st in self.tree.body:
                if isinstance(st, ast.FunctionDef):
                    do_function(st, None, st.name)
                elif isinstance(st, ast.ClassDef):
                    for m in st.body:
                        if isinstance(m, ast.FunctionDef):
                            do_function(m, st.name, f'{st.name}.{m.name}')
            # drop helpers that are no longer referenced
            for name, h in list(funcs.items()):
                if h.inlined and not self._referenced(self.tree, name, h.fn):
                    self.tree.body = [s for s in self.tree.body if s is not h.fn]
            for cname, ms in methods.items():
                cdef = next((s for s in self.tree.body if isinstance(s, ast.ClassDef) and s.name == cname), None)
                for name, h in ms.items():
                    if cdef is not None and h.inlined and not self._referenced(self.tree, name, h.fn, attr=True):
                        cdef.body = [s for s in cdef.body if s is not h.fn] or [ast.Pass()]
            if len(self.log) == before or not any(l.endswith('inlined') for l in self.log[before:]):
                break
        ast.fix_missing_locations(self.tree)
        return self.tree

    @staticmethod
    def _referenced(root: ast.AST, name: str, definition: ast.AST, attr: bool = False) -> bool:
        inside = {id(n) for n in ast.walk(definition)}
        for n in ast.walk(root):
            if id(n) in inside:
                continue
            if isinstance(n, ast.Name) and n.id == name:
                return True
            if attr and isinstance(n, ast.Attribute) and n.attr == name:
                return True
            if isinstance(n, ast.Constant) and n.value == name:
                return True
        return False


def _flag_test(e: ast.AST) -> Optional[str]:
    """name when e is `<name> is not None` / `<name> is not <literal>` / `<name>` / `<name> != <literal>`: a pure test of one local"""
    if isinstance(e, ast.Name):
        return e.id
    if isinstance(e, ast.Compare) and len(e.ops) == 1 and isinstance(e.ops[0], (ast.IsNot, ast.NotEq)) and isinstance(e.left, ast.Name) \
            and isinstance(e.comparators[0], ast.Constant):
        return e.left.id
    return None


def _sink_raises(tree: ast.Module, log: List[str], path: str) -> None:
    """`while ...: ...; break` followed at once by `if <flag test>: ... raise ...`: the guarded raising block is copied in
    front of every `break` of the loop (nothing runs between a break and the statement after the loop, and the test of one
    local is pure, so this is exact); the copy after the loop stays for the exit through the loop condition.  A stop
    reported after the loop then reads like one reported inside it."""
    class V(ast.NodeTransformer):
        def _block(self, stmts):
            out = []
            for i, st in enumerate(stmts):
                st = self.visit(st)
                nxt = stmts[i + 1] if i + 1 < len(stmts) else None
                if isinstance(st, ast.While) and not st.orelse and isinstance(nxt, ast.If) and not nxt.orelse \
                        and _flag_test(nxt.test) is not None and nxt.body and isinstance(nxt.body[-1], ast.Raise) \
                        and not any(isinstance(x, (ast.Break, ast.Continue, ast.Return, ast.Yield, ast.YieldFrom, ast.Await))
                                    for b_ in nxt.body for x in ast.walk(b_)):
                    flag = _flag_test(nxt.test)
                    assigned_in_loop = any(isinstance(x, ast.Name) and x.id == flag and isinstance(x.ctx, ast.Store) for x in ast.walk(st))
                    n_breaks = [0]

                    def sink(block):
                        res = []
                        for s_ in block:
                            if isinstance(s_, ast.Break):
                                res.append(copy.deepcopy(nxt))
                                n_breaks[0] += 1
                            elif isinstance(s_, (ast.If, ast.Try, ast.With)):
                                for fld in ('body', 'orelse', 'finalbody'):
                                    sub = getattr(s_, fld, None)
                                    if isinstance(sub, list) and sub and isinstance(sub[0], ast.stmt):
                                        setattr(s_, fld, sink(sub))
                                if isinstance(s_, ast.Try):
                                    for hd in s_.handlers:
                                        hd.body = sink(hd.body)
                            res.append(s_)
                        return res
                    if assigned_in_loop:
                        st.body = sink(st.body)
                        if n_breaks[0]:
                            log.append(f'{path}:{st.lineno} raising block after the loop copied in front of {n_breaks[0]} break(s)')
                        # `while <flag> is None and ...:` left through the flag: an assignment to the flag in tail position of
                        # the body is followed by nothing but the loop test, which fails on the flag alone when the flag was
                        # set; the guarded raising block (with its own test of the flag) copied behind it is exact
                        first = st.test.values[0] if isinstance(st.test, ast.BoolOp) and isinstance(st.test.op, ast.And) else st.test
                        flag_none = isinstance(first, ast.Compare) and len(first.ops) == 1 and isinstance(first.ops[0], ast.Is) \
                            and isinstance(first.left, ast.Name) and first.left.id == flag \
                            and isinstance(first.comparators[0], ast.Constant) and first.comparators[0].value is None
                        plain_not_none = isinstance(nxt.test, ast.Compare) and isinstance(nxt.test.ops[0], ast.IsNot) \
                            and isinstance(nxt.test.comparators[0], ast.Constant) and nxt.test.comparators[0].value is None
                        n_tail = [0]

                        def tail(block):
                            if not block:
                                return block
                            last = block[-1]
                            if isinstance(last, ast.If):
                                last.body = tail(last.body)
                                last.orelse = tail(last.orelse)
                            elif isinstance(last, (ast.Assign, ast.AnnAssign)):
                                tg = last.targets if isinstance(last, ast.Assign) else [last.target]
                                if len(tg) == 1 and isinstance(tg[0], ast.Name) and tg[0].id == flag:
                                    n_tail[0] += 1
                                    return block + [copy.deepcopy(nxt)]
                            return block
                        if flag_none and plain_not_none:
                            st.body = tail(st.body)
                            if n_tail[0]:
                                log.append(f'{path}:{st.lineno} raising block after the loop copied behind {n_tail[0]} '
                                           f'assignment(s) of the loop flag `{flag}` in tail position')
                out.append(st)
            return out

        def generic_visit(self, node):
            for fld in ('body', 'orelse', 'finalbody'):
                sub = getattr(node, fld, None)
                if isinstance(sub, list) and sub and isinstance(sub[0], ast.stmt):
                    setattr(node, fld, self._block(sub))
            if isinstance(node, ast.Try):
                for hd in node.handlers:
                    hd.body = self._block(hd.body)
            return node
    V().visit(tree)
    ast.fix_missing_locations(tree)


SLOT_RENAMES: Dict[str, str] = {}      # set per program by the loader (slot_renames)


def slot_renames(files: Dict[str, str]) -> Dict[str, str]:
    """The two private slots of a quantity are known to the rules by their pinned names (`_value`, `_defined_units`).  If
    the class keeps them under other names - found as what the `raw_value` / `units` properties of AbstractDimension
    return - every attribute of that name is read under the pinned name: an alpha-renaming of a private attribute, exact
    as long as neither name is reached through a string (getattr / __dict__) and the pinned name is not in use for
    something else; otherwise nothing is renamed."""
    src = files.get('py_ballisticcalc/unit.py')
    if src is None:
        return {}
    try:
        tree = ast.parse(src)
    except SyntaxError:
        return {}
    base = next((c for c in tree.body if isinstance(c, ast.ClassDef) and c.name == 'AbstractDimension'), None)
    if base is None:
        return {}
    found: Dict[str, str] = {}
    for m in base.body:
        if isinstance(m, ast.FunctionDef) and m.name in ('raw_value', 'units') and m.args.args:
            rets = [r for r in ast.walk(m) if isinstance(r, ast.Return)]
            me = m.args.args[0].arg
            if len(rets) == 1 and isinstance(rets[0].value, ast.Attribute) and isinstance(rets[0].value.value, ast.Name) \
                    and rets[0].value.value.id == me:
                found[m.name] = rets[0].value.attr
    ren = {}
    if found.get('raw_value') not in (None, '_value'):
        ren[found['raw_value']] = '_value'
    if found.get('units') not in (None, '_defined_units'):
        ren[found['units']] = '_defined_units'
    if not ren:
        return {}
    for path, text in files.items():
        if not path.endswith('.py'):
            continue
        try:
            t = ast.parse(text)
        except SyntaxError:
            continue
        in_slots = set()
        for a in ast.walk(t):
            if isinstance(a, ast.Assign) and any(isinstance(x, ast.Name) and x.id == '__slots__' for x in a.targets):
                in_slots |= {id(c) for c in ast.walk(a.value)}
        for n in ast.walk(t):
            if isinstance(n, ast.Attribute) and n.attr in ren.values() and n.attr not in ren:
                return {}       # the pinned name is in use as well
            if isinstance(n, ast.Constant) and isinstance(n.value, str) and (n.value in ren or n.value in ren.values()) \
                    and id(n) not in in_slots:
                return {}       # reached through a string somewhere
    return ren


def _apply_slot_renames(tree: ast.Module, log: List[str], path: str) -> None:
    if not SLOT_RENAMES:
        return
    k = 0
    for n in ast.walk(tree):
        if isinstance(n, ast.Attribute) and n.attr in SLOT_RENAMES:
            n.attr = SLOT_RENAMES[n.attr]
            k += 1
        elif isinstance(n, ast.Assign) and any(isinstance(x, ast.Name) and x.id == '__slots__' for x in n.targets):
            for c in ast.walk(n.value):
                if isinstance(c, ast.Constant) and c.value in SLOT_RENAMES:
                    c.value = SLOT_RENAMES[c.value]
                    k += 1
    if k:
        log.append(f'{path}: {k} use(s) of the quantity slots read under their pinned names {SLOT_RENAMES}')


def _expand_module_attrgetters(tree: ast.Module, log: List[str], path: str) -> None:
    """`G = attrgetter('a', 'b.c')` bound once at module level and never rebound; `G(x)` with x a name or an attribute
    chain of names (evaluating it several times is harmless) reads `(x.a, x.b.c)`, with one name `x.a`.  A tuple target
    `p, q = G(x)` then reads as two plain assignments for every rule.  New module-level names only."""
    getter_names = {'attrgetter'}
    for st in tree.body:
        if isinstance(st, ast.ImportFrom) and st.module == 'operator':
            getter_names |= {a.asname or a.name for a in st.names if a.name == 'attrgetter'}
    table: Dict[str, List[str]] = {}
    stores: Dict[str, int] = {}
    for n in ast.walk(tree):
        if isinstance(n, ast.Name) and isinstance(n.ctx, ast.Store):
            stores[n.id] = stores.get(n.id, 0) + 1
    for st in tree.body:
        if isinstance(st, ast.Assign) and len(st.targets) == 1 and isinstance(st.targets[0], ast.Name) \
                and isinstance(st.value, ast.Call) and not st.value.keywords and st.value.args \
                and (dotted_name(st.value.func) in getter_names or dotted_name(st.value.func) == 'operator.attrgetter') \
                and all(isinstance(a, ast.Constant) and isinstance(a.value, str)
                        and all(p_.isidentifier() for p_ in a.value.split('.')) for a in st.value.args) \
                and stores.get(st.targets[0].id) == 1:
            table[st.targets[0].id] = [a.value for a in st.value.args]
    if not table:
        return

    def pure(e) -> bool:
        return isinstance(e, ast.Name) or (isinstance(e, ast.Attribute) and pure(e.value))

    class V(ast.NodeTransformer):
        def visit_Call(self, node):
            self.generic_visit(node)
            if isinstance(node.func, ast.Name) and node.func.id in table and len(node.args) == 1 and not node.keywords \
                    and pure(node.args[0]):
                def chain(path_):
                    e = copy.deepcopy(node.args[0])
                    for part in path_.split('.'):
                        e = ast.Attribute(value=e, attr=part, ctx=ast.Load())
                    return e
                names = table[node.func.id]
                new = chain(names[0]) if len(names) == 1 else ast.Tuple(elts=[chain(n_) for n_ in names], ctx=ast.Load())
                if len(names) > 1:
                    new._from_getter = True
                log.append(f'{path}:{node.lineno} {node.func.id}(...) read as the attribute(s) {names}')
                return ast.copy_location(new, node)
            return node
    V().visit(tree)

    # a, b = (x.p, x.q) produced above: written as a = x.p; b = x.q when no target is read on the right-hand side
    class W(ast.NodeTransformer):
        def _block(self, stmts):
            out = []
            for st in stmts:
                st = self.visit(st)
                if isinstance(st, ast.Assign) and len(st.targets) == 1 and isinstance(st.targets[0], ast.Tuple) \
                        and isinstance(st.value, ast.Tuple) and len(st.targets[0].elts) == len(st.value.elts) \
                        and all(isinstance(t_, ast.Name) for t_ in st.targets[0].elts) \
                        and getattr(st.value, '_from_getter', False):
                    tnames = {t_.id for t_ in st.targets[0].elts}
                    if not any(isinstance(x, ast.Name) and x.id in tnames for v_ in st.value.elts for x in ast.walk(v_)):
                        for t_, v_ in zip(st.targets[0].elts, st.value.elts):
                            out.append(ast.copy_location(ast.Assign(targets=[ast.Name(id=t_.id, ctx=ast.Store())], value=v_), st))
                        continue
                out.append(st)
            return out

        def generic_visit(self, node):
            for fld in ('body', 'orelse', 'finalbody'):
                sub = getattr(node, fld, None)
                if isinstance(sub, list) and sub and isinstance(sub[0], ast.stmt):
                    setattr(node, fld, self._block(sub))
            if isinstance(node, ast.Try):
                for hd in node.handlers:
                    hd.body = self._block(hd.body)
            return node
    W().visit(tree)
    ast.fix_missing_locations(tree)


def dotted_name(e) -> str:
    if isinstance(e, ast.Name):
        return e.id
    if isinstance(e, ast.Attribute):
        b = dotted_name(e.value)
        return f'{b}.{e.attr}' if b else ''
    return ''


def normalise(tree: ast.Module, path: str) -> Tuple[ast.Module, List[str]]:
    if not KNOWN or not path.endswith('.py'):
        return tree, []
    pre_log: List[str] = []
    _apply_slot_renames(tree, pre_log, path)
    _expand_module_attrgetters(tree, pre_log, path)
    inl = _Inliner(tree, path)
    inl.log.extend(pre_log)
    try:
        out = inl.run()
        _sink_raises(out, inl.log, path)
        _unroll_table_loops(out, inl.log, path)
        _propagate_new_locals(out, inl.log, path)
        _mirror_locals(out, inl.log, path)
        return out, inl.log
    except RecursionError:
        return tree, inl.log + [f'{path}: normalisation abandoned (recursion)']


# --------------------------------------------------------------------------------------
# new locals that only name a loop-invariant value (hoisting) are read through
# --------------------------------------------------------------------------------------

def _load_known_locals() -> Dict[str, set]:
    import json
    import os
    p = os.path.join(os.path.dirname(os.path.abspath(__file__)), 'spec', 'known_locals.json')
    try:
        with open(p, encoding='utf-8') as fh:
            return {k: set(v) for k, v in json.load(fh).items()}
    except (OSError, ValueError):
        return {}


def _chain(e) -> Optional[str]:
    parts = []
    while isinstance(e, ast.Attribute):
        parts.append(e.attr)
        e = e.value
    if isinstance(e, ast.Name):
        parts.append(e.id)
        return '.'.join(reversed(parts))
    return None


def _touched_objects(fn, me: Optional[str]) -> set:
    """Objects (dotted chains) whose state a call in this function may change: receivers of method calls and arguments of
    calls, `self` excepted (its methods are inspected for the attributes they store)."""
    out = set()
    for c in ast.walk(fn):
        if not isinstance(c, ast.Call):
            continue
        if isinstance(c.func, ast.Attribute):
            ch = _chain(c.func.value)
            if ch is not None and ch != me:
                out.add(ch)
        for a in list(c.args) + [k.value for k in c.keywords]:
            ch = _chain(a.value if isinstance(a, ast.Starred) else a)
            if ch is not None and ch != me and '.' not in ch:
                out.add(ch)
            elif ch is not None and ch != me:
                out.add(ch)
    return out


KNOWN_LOCALS = _load_known_locals()
PURE_CALLS = {'abs', 'min', 'max', 'float', 'int', 'bool', 'len'}


def _propagate_new_locals(tree: ast.Module, log: List[str], path: str) -> None:
    """In a function of the pinned inventory, a local the pinned function does not have, assigned exactly once at the top
    level of the body from a call-free expression (math.* and a few pure builtins allowed) over names that are never
    assigned again and attributes that this function neither stores nor can have stored by a method of `self` it calls,
    is replaced by that expression where it is used.  The value is the same at every use, so reading it later is
    unobservable; hoisting an invariant out of a loop then leaves the anchored function as it was."""
    classes = {c.name: c for c in ast.walk(tree) if isinstance(c, ast.ClassDef)}

    def stored_attrs(fn) -> set:
        return {x.attr for x in ast.walk(fn) if isinstance(x, ast.Attribute) and isinstance(x.ctx, (ast.Store, ast.Del))}

    def methods_called_on_self(fn, me) -> set:
        return {c.func.attr for c in ast.walk(fn) if isinstance(c, ast.Call) and isinstance(c.func, ast.Attribute)
                and isinstance(c.func.value, ast.Name) and c.func.value.id == me}

    def do(fn: ast.FunctionDef, qual: str, cls: Optional[ast.ClassDef]):
        known = KNOWN_LOCALS.get(f'{path}::{qual}')
        if known is None:
            return
        me = fn.args.args[0].arg if fn.args.args else None
        store_count: Dict[str, int] = {}
        for x in ast.walk(fn):
            if isinstance(x, ast.Name) and isinstance(x.ctx, (ast.Store, ast.Del)):
                store_count[x.id] = store_count.get(x.id, 0) + 1
        params = {a.arg for a in fn.args.args + fn.args.kwonlyargs + fn.args.posonlyargs}
        own_stores = stored_attrs(fn)
        callee_stores: set = set()
        if cls is not None and me is not None:
            todo, seen = list(methods_called_on_self(fn, me)), set()
            while todo:
                m_ = todo.pop()
                if m_ in seen:
                    continue
                seen.add(m_)
                for st in cls.body:
                    if isinstance(st, ast.FunctionDef) and st.name == m_:
                        callee_stores |= stored_attrs(st)
                        if st.args.args:
                            todo += list(methods_called_on_self(st, st.args.args[0].arg))

        touched = _touched_objects(fn, me)

        def pure(e) -> bool:
            if isinstance(e, ast.Constant):
                return True
            if isinstance(e, ast.Name):
                return isinstance(e.ctx, ast.Load) and (store_count.get(e.id, 0) == 0 or (store_count.get(e.id, 0) == 1 and e.id not in params)) \
                    and not (e.id in params and store_count.get(e.id, 0) > 0)
            if isinstance(e, ast.Attribute):
                if _chain(e.value) in touched:
                    return False        # the object is called / handed on by this function: its fields may change
                return e.attr not in own_stores and e.attr not in callee_stores and pure(e.value)
            if isinstance(e, (ast.BinOp,)):
                return pure(e.left) and pure(e.right)
            if isinstance(e, ast.UnaryOp):
                return pure(e.operand)
            if isinstance(e, ast.Call) and not e.keywords:
                f_ = e.func
                ok = (isinstance(f_, ast.Attribute) and isinstance(f_.value, ast.Name) and f_.value.id == 'math') or \
                    (isinstance(f_, ast.Name) and f_.id in PURE_CALLS)
                return ok and all(pure(a) for a in e.args)
            return False
        changed = True
        while changed:
            changed = False
            for i, st in enumerate(fn.body):
                tgt = val = None
                if isinstance(st, ast.Assign) and len(st.targets) == 1 and isinstance(st.targets[0], ast.Name):
                    tgt, val = st.targets[0].id, st.value
                elif isinstance(st, ast.AnnAssign) and isinstance(st.target, ast.Name) and st.value is not None:
                    tgt, val = st.target.id, st.value
                if tgt is None or tgt in known or store_count.get(tgt, 0) != 1 or not pure(val):
                    continue
                if isinstance(val, (ast.Constant, ast.Name)) and False:
                    continue
                loads = [x for later in fn.body[i + 1:] for x in ast.walk(later) if isinstance(x, ast.Name) and x.id == tgt]
                early = [x for earlier in fn.body[:i + 1] for x in ast.walk(earlier) if isinstance(x, ast.Name) and x.id == tgt
                         and isinstance(x.ctx, ast.Load)]
                nested_store = any(isinstance(x, (ast.Global, ast.Nonlocal)) and tgt in x.names for x in ast.walk(fn))
                if early or nested_store or not loads:
                    continue

                class _Sub(ast.NodeTransformer):
                    def visit_Name(self, n):
                        if n.id == tgt and isinstance(n.ctx, ast.Load):
                            return ast.copy_location(copy.deepcopy(val), n)
                        return n
                for j in range(i + 1, len(fn.body)):
                    fn.body[j] = _Sub().visit(fn.body[j])
                del fn.body[i]
                store_count[tgt] = 0
                log.append(f'{path}:{st.lineno} new local `{tgt}` of {qual} read through (`{ast.unparse(val)[:50]}`)')
                changed = True
                break

    def rec(node, prefix, cls):
        for st in node.body:
            if isinstance(st, ast.FunctionDef):
                do(st, f'{prefix}{st.name}', cls)
            elif isinstance(st, ast.ClassDef):
                rec(st, f'{prefix}{st.name}.', st)
    rec(tree, '', None)
    ast.fix_missing_locations(tree)


# --------------------------------------------------------------------------------------
# a new local that mirrors a field of an object (re-read after every call that can change it) is read through
# --------------------------------------------------------------------------------------

def _mirror_locals(tree: ast.Module, log: List[str], path: str) -> None:
    """In a function of the pinned inventory, a local the pinned function does not have, every definition of which is the
    plain read `L = obj.field` of one and the same field, is replaced by that read where it is used - provided that on no
    path a statement that may change the field (a call on `obj` or one that receives it, a store to the field, a new
    binding of `obj`) lies between the latest definition of L and a use of L, and that L is defined on every path to each
    use.  Then L equals `obj.field` at every use, and keeping the copy is unobservable."""
    from .cfg import CFG, defs_of

    def do(fn: ast.FunctionDef, qual: str):
        known = KNOWN_LOCALS.get(f'{path}::{qual}')
        if known is None:
            return
        params = {a.arg for a in fn.args.args + fn.args.kwonlyargs + fn.args.posonlyargs}
        defs: Dict[str, List[ast.stmt]] = {}
        bad: set = set()
        for x in ast.walk(fn):
            if isinstance(x, (ast.FunctionDef, ast.Lambda, ast.ClassDef)) and x is not fn:
                for y in ast.walk(x):
                    if isinstance(y, ast.Name):
                        bad.add(y.id)       # touched by a nested scope: not followed
            if isinstance(x, ast.Assign) and len(x.targets) == 1 and isinstance(x.targets[0], ast.Name):
                defs.setdefault(x.targets[0].id, []).append(x)
            elif isinstance(x, ast.AnnAssign) and isinstance(x.target, ast.Name) and x.value is not None:
                defs.setdefault(x.target.id, []).append(x)
        stores: Dict[str, int] = {}
        for x in ast.walk(fn):
            if isinstance(x, ast.Name) and isinstance(x.ctx, (ast.Store, ast.Del)):
                stores[x.id] = stores.get(x.id, 0) + 1
        cfg = None
        for name, ds in sorted(defs.items()):
            if name in known or name in params or name in bad or len(ds) < 2 or stores.get(name, 0) != len(ds):
                continue
            vals = {ast.unparse(d.value) for d in ds}
            v0 = ds[0].value
            if len(vals) != 1 or not isinstance(v0, ast.Attribute) or _chain(v0) is None:
                continue
            obj = _chain(v0.value)
            root = obj.split('.')[0]
            if cfg is None:
                cfg = CFG(fn)
            def_nodes = {n.id for n in cfg.nodes if n.ast is not None and any(n.ast is d for d in ds)}
            if len(def_nodes) != len(ds):
                continue

            def may_change(n) -> bool:
                if n.ast is None or n.id in def_nodes:
                    return False
                roots = [n.ast] if n.kind in ('stmt', 'test', 'for', 'with') else []
                if n.kind in ('for',):
                    roots = [n.ast.iter, n.ast.target]
                if n.kind == 'with':
                    roots = [i.context_expr for i in n.ast.items]
                if n.kind == 'test':
                    roots = [n.ast]
                if root in [d_.split('.')[0] for d_ in defs_of(n)]:
                    return True
                for r in roots:
                    for c in ast.walk(r):
                        if isinstance(c, ast.Attribute) and isinstance(c.ctx, (ast.Store, ast.Del)) and c.attr == v0.attr:
                            return True
                        if isinstance(c, ast.Call):
                            rc = _chain(c.func.value) if isinstance(c.func, ast.Attribute) else None
                            if rc is not None and (rc == obj or obj.startswith(rc + '.') or rc.startswith(obj + '.')):
                                return True
                            for a in list(c.args) + [k.value for k in c.keywords]:
                                ac = _chain(a.value if isinstance(a, ast.Starred) else a)
                                if ac is not None and (ac == obj or obj.startswith(ac + '.')):
                                    return True
                return False
            changers = [n for n in cfg.nodes if may_change(n)]
            users = [n for n in cfg.nodes if n.ast is not None and n.id not in def_nodes and any(
                isinstance(x, ast.Name) and x.id == name and isinstance(x.ctx, ast.Load)
                for r in ([n.ast] if n.kind in ('stmt', 'test') else [getattr(n.ast, 'iter', None)] if n.kind == 'for' else [])
                if r is not None for x in ast.walk(r))]
            all_loads = [x for x in ast.walk(fn) if isinstance(x, ast.Name) and x.id == name and isinstance(x.ctx, ast.Load)]
            n_user_loads = sum(1 for n in users for r in ([n.ast] if n.kind in ('stmt', 'test') else [n.ast.iter])
                               for x in ast.walk(r) if isinstance(x, ast.Name) and x.id == name and isinstance(x.ctx, ast.Load))
            if not users or n_user_loads != len(all_loads):
                continue            # a use this pass does not see (compound statement headers it does not model)

            def reach(src, avoid: set) -> set:
                seen, work = set(), [src]
                while work:
                    a_ = work.pop()
                    for b_, _l in a_.succ:
                        if b_.id in seen:
                            continue
                        seen.add(b_.id)
                        if b_.id in avoid:
                            continue
                        work.append(b_)
                return seen
            ok = True
            user_ids = {u.id for u in users}
            # (a) defined on every path: the entry does not reach a use without passing a definition
            if reach(cfg.entry, def_nodes) & user_ids:
                ok = False
            # (b) no changer reaches a use without passing a definition (the changer statement itself may also be a use:
            #     its own read happens before its call only if the use is an argument - refused)
            for ch in changers:
                if ch.id in user_ids or reach(ch, def_nodes) & user_ids:
                    ok = False
                    break
            if not ok:
                continue

            class _Sub(ast.NodeTransformer):
                def visit_Name(self, n):
                    if n.id == name and isinstance(n.ctx, ast.Load):
                        return ast.copy_location(copy.deepcopy(v0), n)
                    return n

            class _Drop(ast.NodeTransformer):
                def generic_visit(self, node):
                    super().generic_visit(node)
                    for fld in ('body', 'orelse', 'finalbody'):
                        sub = getattr(node, fld, None)
                        if isinstance(sub, list) and any(x in ds for x in sub):
                            kept = [x for x in sub if x not in ds]
                            setattr(node, fld, kept or [ast.copy_location(ast.Pass(), sub[0])])
                    return node
            _Sub().visit(fn)
            _Drop().visit(fn)
            cfg = None
            log.append(f'{path}:{ds[0].lineno} new local `{name}` of {qual} mirrors `{ast.unparse(v0)}` and is read through')

    def rec(node, prefix):
        for st in node.body:
            if isinstance(st, ast.FunctionDef):
                do(st, f'{prefix}{st.name}')
            elif isinstance(st, ast.ClassDef):
                rec(st, f'{prefix}{st.name}.')
    rec(tree, '')
    ast.fix_missing_locations(tree)


# --------------------------------------------------------------------------------------
# a new loop over a literal table of the module is written out row by row
# --------------------------------------------------------------------------------------

MAX_TABLE_ROWS = 40


def _unroll_table_loops(tree: ast.Module, log: List[str], path: str) -> None:
    """In a function of the pinned inventory, a `for` whose targets are locals the pinned function does not have and whose
    iterable is a literal tuple / list (written in place, or bound once at module level and never touched) of rows made of
    constants, names, attribute chains and operator.attrgetter / itemgetter calls on constants, is replaced by its body
    once per row with the row's entries substituted for the targets; then `setattr(x, 'name', v)` statements become
    `x.name = v`, `getattr(x, 'name')` becomes `x.name` and `attrgetter('a.b')(x)` becomes `x.a.b`.  Table-driven
    initialisation then reads as the assignments it performs."""
    mod_assigns: Dict[str, List[ast.AST]] = {}
    for st in tree.body:
        if isinstance(st, ast.Assign):
            for t in st.targets:
                for x in ast.walk(t):
                    if isinstance(x, ast.Name):
                        mod_assigns.setdefault(x.id, []).append(st.value if t is st.targets[0] and isinstance(t, ast.Name) else None)
        elif isinstance(st, (ast.AnnAssign, ast.AugAssign)) and isinstance(st.target, ast.Name):
            mod_assigns.setdefault(st.target.id, []).append(st.value if isinstance(st, ast.AnnAssign) else None)
    touched_globals = set()
    for x in ast.walk(tree):
        if isinstance(x, (ast.Global,)):
            touched_globals |= set(x.names)
    from_operator = set()
    for st in tree.body:
        if isinstance(st, ast.ImportFrom) and st.module == 'operator':
            from_operator |= {a.asname or a.name for a in st.names if a.name in ('attrgetter', 'itemgetter')}

    def entry_ok(e) -> bool:
        if isinstance(e, ast.Constant):
            return True
        if isinstance(e, ast.Name):
            return isinstance(e.ctx, ast.Load)
        if isinstance(e, ast.Attribute):
            return entry_ok(e.value)
        if isinstance(e, ast.Call) and isinstance(e.func, ast.Name) and e.func.id in from_operator and not e.keywords \
                and len(e.args) == 1 and isinstance(e.args[0], ast.Constant):
            return True
        if isinstance(e, ast.UnaryOp) and isinstance(e.operand, ast.Constant):
            return True
        return False

    def table_of(it) -> Optional[List[ast.AST]]:
        if isinstance(it, ast.Name):
            vals = mod_assigns.get(it.id)
            if not vals or len(vals) != 1 or vals[0] is None or it.id in touched_globals:
                return None
            # never stored into / mutated by name anywhere in the module
            for x in ast.walk(tree):
                if isinstance(x, ast.Attribute) and isinstance(x.value, ast.Name) and x.value.id == it.id and \
                        x.attr in ('append', 'extend', 'insert', 'pop', 'remove', 'sort', 'reverse', 'clear'):
                    return None
                if isinstance(x, ast.Subscript) and isinstance(x.value, ast.Name) and x.value.id == it.id and \
                        isinstance(x.ctx, (ast.Store, ast.Del)):
                    return None
            it = vals[0]
        if isinstance(it, (ast.Tuple, ast.List)) and 0 < len(it.elts) <= MAX_TABLE_ROWS and \
                not any(isinstance(r, ast.Starred) for r in it.elts):
            return list(it.elts)
        return None

    class _Peephole(ast.NodeTransformer):
        def visit_Expr(self, node):
            self.generic_visit(node)
            c = node.value
            if isinstance(c, ast.Call) and isinstance(c.func, ast.Name) and c.func.id == 'setattr' and len(c.args) == 3 \
                    and not c.keywords and isinstance(c.args[1], ast.Constant) and isinstance(c.args[1].value, str) \
                    and c.args[1].value.isidentifier() and not c.args[1].value.startswith('__'):
                tgt = ast.Attribute(value=c.args[0], attr=c.args[1].value, ctx=ast.Store())
                return ast.copy_location(ast.Assign(targets=[tgt], value=c.args[2]), node)
            return node

        def visit_Call(self, node):
            self.generic_visit(node)
            f = node.func
            if isinstance(f, ast.Name) and f.id == 'getattr' and len(node.args) == 2 and not node.keywords \
                    and isinstance(node.args[1], ast.Constant) and isinstance(node.args[1].value, str) \
                    and node.args[1].value.isidentifier() and not node.args[1].value.startswith('__'):
                return ast.copy_location(ast.Attribute(value=node.args[0], attr=node.args[1].value, ctx=ast.Load()), node)
            if isinstance(f, ast.Call) and isinstance(f.func, ast.Name) and f.func.id in from_operator and len(f.args) == 1 \
                    and isinstance(f.args[0], ast.Constant) and len(node.args) == 1 and not node.keywords and not f.keywords:
                key = f.args[0].value
                if f.func.id.endswith('attrgetter') and isinstance(key, str) and all(p.isidentifier() for p in key.split('.')):
                    out = node.args[0]
                    for part in key.split('.'):
                        out = ast.Attribute(value=out, attr=part, ctx=ast.Load())
                    return ast.copy_location(out, node)
                if f.func.id.endswith('itemgetter'):
                    return ast.copy_location(ast.Subscript(value=node.args[0], slice=f.args[0], ctx=ast.Load()), node)
            return node

    def do(fn: ast.FunctionDef, qual: str):
        known = KNOWN_LOCALS.get(f'{path}::{qual}')
        if known is None:
            return

        def expand(stmts: List[ast.stmt]) -> List[ast.stmt]:
            out: List[ast.stmt] = []
            for st in stmts:
                for fld in ('body', 'orelse', 'finalbody'):
                    sub = getattr(st, fld, None)
                    if isinstance(sub, list) and sub and isinstance(sub[0], ast.stmt) and not isinstance(st, (ast.FunctionDef, ast.ClassDef)):
                        setattr(st, fld, expand(sub))
                if isinstance(st, ast.Try):
                    for hd in st.handlers:
                        hd.body = expand(hd.body)
                if not isinstance(st, ast.For) or st.orelse:
                    out.append(st)
                    continue
                tnames = [x.id for x in ast.walk(st.target) if isinstance(x, ast.Name)]
                rows = table_of(st.iter)
                body_nodes = [x for b in st.body for x in ast.walk(b)]
                if rows is None or not tnames or any(t in known for t in tnames) \
                        or any(isinstance(x, (ast.Break, ast.Continue, ast.FunctionDef, ast.Lambda, ast.ClassDef)) for x in body_nodes) \
                        or any(isinstance(x, ast.Name) and x.id in tnames and isinstance(x.ctx, (ast.Store, ast.Del)) for x in body_nodes) \
                        or any(isinstance(x, ast.Name) and x.id in tnames for later in stmts[stmts.index(st) + 1:] for x in ast.walk(later)):
                    out.append(st)
                    continue
                # shape of the target against each row
                flat: List[Dict[str, ast.AST]] = []
                ok = True
                for r in rows:
                    m: Dict[str, ast.AST] = {}
                    if isinstance(st.target, ast.Name):
                        if not entry_ok(r) and not (isinstance(r, (ast.Tuple, ast.List)) and all(entry_ok(e) for e in r.elts)):
                            ok = False
                        m[st.target.id] = r
                    elif isinstance(st.target, (ast.Tuple, ast.List)) and isinstance(r, (ast.Tuple, ast.List)) \
                            and len(r.elts) == len(st.target.elts) and all(isinstance(t, ast.Name) for t in st.target.elts) \
                            and all(entry_ok(e) for e in r.elts):
                        for t, e in zip(st.target.elts, r.elts):
                            m[t.id] = e
                    else:
                        ok = False
                    if not ok:
                        break
                    flat.append(m)
                if not ok:
                    out.append(st)
                    continue
                for m in flat:
                    class _Sub(ast.NodeTransformer):
                        def visit_Name(self, n):
                            if n.id in m and isinstance(n.ctx, ast.Load):
                                return ast.copy_location(copy.deepcopy(m[n.id]), n)
                            return n
                    for b in st.body:
                        nb = _Peephole().visit(_Sub().visit(copy.deepcopy(b)))
                        out.append(nb)
                log.append(f'{path}:{st.lineno} loop of {qual} over a literal table of {len(rows)} rows written out')
            return out
        fn.body = expand(fn.body)

    def rec(node, prefix):
        for st in node.body:
            if isinstance(st, ast.FunctionDef):
                do(st, f'{prefix}{st.name}')
            elif isinstance(st, ast.ClassDef):
                rec(st, f'{prefix}{st.name}.')
    rec(tree, '')
    ast.fix_missing_locations(tree)
