"""Equivalence digest for the unit-conversion code of py_ballisticcalc (property C06).

Run:  cd /tmp/wt/C06 && PYTHONPATH=/tmp/wt/C06 /venv/bin/python <this file>

It drives py_ballisticcalc.unit only through its public surface (Unit.X(value), Dimension(value, unit),
>>, <<, get_in, convert, to_raw, from_raw, raw_value, unit_value, str, repr, the _xxx shortcut
properties used by the engine, _parse_value) over all 41 units, all ordered pairs of a dimension,
A->B->C chains, a wide list of magnitudes (ints, bools, negative zero, subnormals, huge, inf, nan,
angles around and far beyond one turn) and the error paths (foreign unit, non-Unit unit, int unit).
Every observation is rendered with repr() (bit-exact for floats) and hashed; the printed text must be
identical on the clean tree and on the patched tree.
"""
import hashlib
import math
import warnings

warnings.simplefilter("ignore")

from py_ballisticcalc import unit as U  # noqa: E402
from py_ballisticcalc.unit import (Unit, Angular, Distance, Energy, Pressure, Temperature,  # noqa: E402
                                   Velocity, Weight, AbstractDimension, _parse_value)

FOCUS = ("Distance", "Pressure", "Weight", "Temperature")  # dimensions whose lines are also printed in clear (sampled)

DIMS = [
    (Angular, [u for u in Unit if 0 <= u < 10]),
    (Distance, [u for u in Unit if 10 <= u < 20]),
    (Energy, [u for u in Unit if 30 <= u < 40]),
    (Pressure, [u for u in Unit if 40 <= u < 50]),
    (Temperature, [u for u in Unit if 50 <= u < 60]),
    (Velocity, [u for u in Unit if 60 <= u < 70]),
    (Weight, [u for u in Unit if 70 <= u < 80]),
]
assert sum(len(us) for _, us in DIMS) == 41

TWO_PI = 2 * math.pi
VALUES = [
    0, 0.0, -0.0, 1, -1, 3, True, False, 2.5, -7.25, 0.1, 1 / 3, 1e-12, 1e12, 123456.789, -98765.4321,
    5e-324, 2.2250738585072014e-308, 1.7e308, -1.7e308, 10 ** 30, -(10 ** 30), 10 ** 400,
    float("inf"), float("-inf"), float("nan"),
    # angles around one turn in the various angular units, and temperatures around the offsets
    TWO_PI, math.nextafter(TWO_PI, 7), math.nextafter(TWO_PI, 0), math.pi, 7, 6.3, 1000 * TWO_PI + 0.5,
    360, 360.0000001, 361, 720, 21600, 21601, 6400, 6401, 6000, 6001, 6283.185307179586, 6284, 12, 12.5, 13,
    1e5, 3600, 10000, 1e9,
    32, 212, -40, 273.15, 459.67, -459.67, -273.15, 491.67, 59, 15, 288.15, 518.67,
    25.4, 2.54, 750.061683, 29.92, 1013.25, 14.696, 0.737562149277, 3.2808399, 9.80665, 437.5, 7000,
]


def show(x):
    """bit-exact, type-revealing rendering"""
    if isinstance(x, AbstractDimension):
        return f"{type(x).__name__}[{show(x.raw_value)}|{x.units!r}]"
    return f"{type(x).__name__}:{x!r}"


def attempt(fn):
    try:
        return show(fn())
    except Exception as exc:  # pylint: disable=broad-except
        return f"!{type(exc).__name__}:{exc}"


lines = []


def rec(tag, text):
    lines.append(f"{tag} {text}")


def section_pairs(cls, units):
    name = cls.__name__
    for u1 in units:
        for v in VALUES:
            made = []
            rec(f"{name} new {u1!r} {v!r}", attempt(lambda: made.append(u1(v)) or made[0]))
            rec(f"{name} ctor {u1!r} {v!r}", attempt(lambda: cls(v, u1)))
            if not made:
                continue
            obj = made[0]
            rec(f"{name} raw", attempt(lambda: obj.raw_value))
            rec(f"{name} uval", attempt(lambda: obj.unit_value))
            rec(f"{name} float/hash", attempt(lambda: (float(obj), hash(obj) == hash(obj.raw_value))))
            rec(f"{name} str", attempt(lambda: str(obj)))
            rec(f"{name} repr", attempt(lambda: repr(obj)))
            for u2 in units:
                rec(f"{name} {u1!r}>>{u2!r} {v!r}", attempt(lambda: obj >> u2))
                rec(f"{name} get_in", attempt(lambda: obj.get_in(u2)))
                rec(f"{name} from_raw", attempt(lambda: obj.from_raw(obj.raw_value, u2)))
                rec(f"{name} to_raw", attempt(lambda: obj.to_raw(v, u2)))
                # there and back again
                rec(f"{name} back", attempt(lambda: u2(obj >> u2) >> u1))
                rec(f"{name} reconv", attempt(lambda: u2(u1(v))))
            # "<<" mutates the defined units; do it on a fresh object
            for u2 in units:
                rec(f"{name} lshift {u2!r}", attempt(lambda: str(u1(v) << u2)))


def section_triples(cls, units):
    name = cls.__name__
    vals = [3, 0.75, -12.5, 100, 1e-3, 5000.125]
    for u1 in units:
        for u2 in units:
            for u3 in units:
                for v in vals:
                    rec(f"{name} {u1!r}>{u2!r}>{u3!r} {v!r}",
                        attempt(lambda: (u2(u1(v) >> u2) >> u3, u1(v) >> u3)))


def section_errors():
    every = list(Unit)
    odd_units = [10, 10.0, 0, 1, 17, 62, 70, 99, -1, "inch", "Inch", None, 3.5, (10,), True, False]
    for cls, units in DIMS:
        name = cls.__name__
        good = cls(3, units[-1])
        for u in every:
            if u in units:
                continue
            rec(f"{name} foreign ctor {u!r}", attempt(lambda: cls(3, u)))
            rec(f"{name} foreign >> {u!r}", attempt(lambda: good >> u))
            rec(f"{name} foreign to_raw {u!r}", attempt(lambda: good.to_raw(7.5, u)))
            rec(f"{name} foreign from_raw {u!r}", attempt(lambda: good.from_raw(7.5, u)))
            rec(f"{name} foreign str {u!r}", attempt(lambda: str(cls(3, units[0]) << u)))
        for u in odd_units:
            rec(f"{name} odd ctor {u!r}", attempt(lambda: cls(3, u)))
            rec(f"{name} odd ctor big {u!r}", attempt(lambda: cls(1e6, u)))
            rec(f"{name} odd >> {u!r}", attempt(lambda: good >> u))
            rec(f"{name} odd to_raw {u!r}", attempt(lambda: good.to_raw(400.25, u)))
            rec(f"{name} odd from_raw {u!r}", attempt(lambda: good.from_raw(0.3, u)))
        # an instance attribute holding a foreign unit makes the validator answer 0
        tricky = cls(3, units[0])
        tricky.extra = Unit.Joule if cls is not Energy else Unit.Inch
        rec(f"{name} tricky >>", attempt(lambda: tricky >> tricky.extra))
        rec(f"{name} tricky to_raw", attempt(lambda: tricky.to_raw(99.5, tricky.extra)))
        rec(f"{name} tricky other", attempt(lambda: tricky >> (Unit.KT if cls is not Velocity else Unit.Bar)))
        # odd magnitudes
        for v in ["3", None, [1], 2 + 1j]:
            for u in units:
                rec(f"{name} oddval {u!r} {v!r}", attempt(lambda: cls(v, u)))
    rec("base Unit", attempt(lambda: AbstractDimension(1, Unit.Inch)))
    rec("base int", attempt(lambda: AbstractDimension(1, 10)))
    rec("inherited", repr(sorted(n for n in ("to_raw", "from_raw", "get_in", "convert")
                                 if callable(getattr(Distance, n)))))
    rec("aliases", repr((AbstractDimension.__rshift__ is AbstractDimension.get_in,
                         AbstractDimension.__lshift__ is AbstractDimension.convert,
                         AbstractDimension.__rlshift__ is AbstractDimension.convert)))


def section_shortcuts():
    for v in [0, 1, -3.5, 1200, 29.92, 1e-7, float("inf")]:
        rec(f"_inch {v!r}", attempt(lambda: Distance.Yard(v)._inch))
        rec(f"_feet {v!r}", attempt(lambda: Distance.Meter(v)._feet))
        rec(f"_inHg {v!r}", attempt(lambda: Pressure.hPa(v)._inHg))
        rec(f"_inHg2 {v!r}", attempt(lambda: Pressure.MmHg(v)._inHg))
        rec(f"_grain {v!r}", attempt(lambda: Weight.Newton(v)._grain))
        rec(f"_F {v!r}", attempt(lambda: Temperature.Kelvin(v)._F))
        rec(f"_rad {v!r}", attempt(lambda: Angular.MOA(v)._rad))
        rec(f"_rad2 {v!r}", attempt(lambda: Angular.InchesPer100Yd(v)._rad))
        rec(f"_fps {v!r}", attempt(lambda: Velocity.KT(v)._fps))
    a, b = Distance.Foot(3), Distance.Yard(1)
    rec("cmp", repr((a == b, a < b, a > b, a <= b, a >= b, a == 36, a == 36.0, a != 37)))


def section_parse():
    cases = [("10", Unit.Meter), ("10", "m"), (" 1 0 . 5 ", "yd"), ("-.5mil", None), ("2.moa", None),
             ("15 inch/100yd", None), ("3cm/100m", None), ("12 h", None), ("100degF", None),
             ("273.15 K", None), ("29.92inHg", None), ("1013.25 hPa", None), ("168gr", None),
             ("9.80665N", None), ("2800fps", None), ("60 mph", None), ("3000J", None), ("1nmi", None),
             ("7 ln", None), (5, "distance"), (5.5, "adjustment"), (400, Unit.OClock), ("1 parsec", None),
             ("abc", None), (3, None), (3, "nope"), (None, Unit.Inch), ("1e3m", None)]
    for inp, pref in cases:
        rec(f"parse {inp!r} {pref!r}", attempt(lambda: _parse_value(inp, pref)))


def section_engine():
    from py_ballisticcalc import DragModel, Ammo, Weapon, Calculator, Shot, Wind, Atmo, TableG7
    U.PreferredUnits.defaults()
    dm = DragModel(0.22, TableG7, Weight.Gram(10.9), Distance.Millimeter(7.82), Distance.Centimeter(3.1))
    ammo = Ammo(dm, Velocity.MPS(800), Temperature.Celsius(15))
    weapon = Weapon(Distance.Centimeter(9), Distance.Inch(12), Angular.MOA(2))
    atmo = Atmo(Distance.Meter(150), Pressure.hPa(1000), Temperature.Celsius(5), 0.5)
    shot = Shot(weapon=weapon, ammo=ammo, atmo=atmo, look_angle=Angular.Degree(2),
                cant_angle=Angular.OClock(0.25),
                winds=[Wind(Velocity.KMH(18), Angular.OClock(9), Distance.Meter(400)),
                       Wind(Velocity.KT(6), Angular.Thousandth(1500), Distance.Kilometer(2))])
    calc = Calculator()
    rec("zero", attempt(lambda: calc.set_weapon_zero(shot, Distance.Meter(100))))
    res = calc.fire(shot, Distance.Meter(900), Distance.Meter(150), extra_data=False)
    for row in res.trajectory:
        rec("row", " ".join(show(x) for x in row))
        rec("row fmt", repr(row.formatted()))
        rec("row in_def", repr(row.in_def_units()))


SECTIONS = []
for _cls, _units in DIMS:
    SECTIONS.append((f"pairs {_cls.__name__}", lambda c=_cls, u=_units: section_pairs(c, u)))
    SECTIONS.append((f"triples {_cls.__name__}", lambda c=_cls, u=_units: section_triples(c, u)))
SECTIONS += [("errors", section_errors), ("shortcuts", section_shortcuts),
             ("parse", section_parse), ("engine", section_engine)]

total = hashlib.sha256()
for title, fn in SECTIONS:
    lines.clear()
    fn()
    blob = "\n".join(lines).encode("utf-8", "backslashreplace")
    total.update(blob)
    print(f"[{title}] lines={len(lines)} sha256={hashlib.sha256(blob).hexdigest()}")
    focus = any(f in title for f in FOCUS) or title in ("errors", "shortcuts", "parse", "engine")
    step = 211 if title.startswith(("pairs", "triples")) else 7
    if focus:
        for i in range(0, len(lines), step):
            print("   ", lines[i])
print("TOTAL sha256", total.hexdigest())
