"""Equivalence digest for C06 (unit conversions).

Prints a deterministic text; it must be byte-for-byte the same on the clean
worktree and on the refactored one.  Only the public API is used
(Unit.X(value), Dimension(value, unit), >>, <<, get_in, convert, str, repr,
unit_value, raw_value, to_raw, from_raw, Calculator.fire).
"""
import hashlib
import math
from fractions import Fraction

from py_ballisticcalc import (Calculator, DragModel, Ammo, Weapon, Shot, Wind, Atmo, TableG7)
from py_ballisticcalc.unit import (Unit, Distance, Pressure, Weight, Temperature, Angular,
                                   Velocity, Energy, AbstractDimension, PreferredUnits,
                                   _parse_value, _parse_unit)

DIMENSIONS = [
    (Angular, [Unit.Radian, Unit.Degree, Unit.MOA, Unit.Mil, Unit.MRad, Unit.Thousandth,
               Unit.InchesPer100Yd, Unit.CmPer100m, Unit.OClock]),
    (Distance, [Unit.Inch, Unit.Foot, Unit.Yard, Unit.Mile, Unit.NauticalMile, Unit.Millimeter,
                Unit.Centimeter, Unit.Meter, Unit.Kilometer, Unit.Line]),
    (Energy, [Unit.FootPound, Unit.Joule]),
    (Pressure, [Unit.MmHg, Unit.InHg, Unit.Bar, Unit.hPa, Unit.PSI]),
    (Temperature, [Unit.Fahrenheit, Unit.Celsius, Unit.Kelvin, Unit.Rankin]),
    (Velocity, [Unit.MPS, Unit.KMH, Unit.FPS, Unit.MPH, Unit.KT]),
    (Weight, [Unit.Grain, Unit.Ounce, Unit.Gram, Unit.Pound, Unit.Kilogram, Unit.Newton]),
]

MAGNITUDES = [0, 1, -1, 3, 7, 100, 0.0, -0.0, 0.1, 1.5, -2.75, 3.0, 59.94, 273.15, 459.67, 1e-12, 6.283185307179586,
              6.283185307179587, 6.5, 400, 4000.25, 123456.789, 1e9, -1e15, 1e300, 5e-324,
              float('inf'), float('-inf'), float('nan'), True, Fraction(1, 3), 2 ** 70]


def show(x):
    """repr() that also tells the type, so that int / float / Fraction results are distinguished."""
    text = repr(x)
    if len(text) > 120:  # e.g. '3' * 63360 - keep the listing short but still exact
        text = f'<{len(text)} chars sha256={hashlib.sha256(text.encode()).hexdigest()}>'
    return f'{type(x).__name__}:{text}'


def attempt(fn):
    try:
        return show(fn())
    except Exception as exc:  # pylint: disable=broad-except
        return f'!{type(exc).__name__}:{exc}'


def section(title, lines, verbose=False):
    text = '\n'.join(lines)
    print(f'== {title}: {len(lines)} lines sha256={hashlib.sha256(text.encode()).hexdigest()}')
    if verbose:
        print(text)


# 1. every ordered pair of every dimension, every magnitude: construct, read raw, read in every other unit,
#    come back, go through a third unit
for cls, units in DIMENSIONS:
    lines = []
    for a in units:
        for m in MAGNITUDES:
            lines.append(f'{cls.__name__} {a!r} {m!r} raw ' + attempt(lambda: a(m).raw_value))
            lines.append(f'{cls.__name__} {a!r} {m!r} ctor ' + attempt(lambda: cls(m, a).raw_value))
            lines.append(f'{cls.__name__} {a!r} {m!r} unit_value ' + attempt(lambda: a(m).unit_value))
            lines.append(f'{cls.__name__} {a!r} {m!r} float ' + attempt(lambda: float(a(m))))
            lines.append(f'{cls.__name__} {a!r} {m!r} str ' + attempt(lambda: str(a(m))))
            lines.append(f'{cls.__name__} {a!r} {m!r} repr ' + attempt(lambda: repr(a(m))))
            for b in units:
                lines.append(f'{cls.__name__} {a!r}->{b!r} {m!r} ' + attempt(lambda: a(m) >> b))
                lines.append(f'{cls.__name__} {a!r}->{b!r}->{a!r} {m!r} ' + attempt(lambda: b(a(m) >> b) >> a))
                lines.append(f'{cls.__name__} {a!r}->{b!r} get_in {m!r} ' + attempt(lambda: a(m).get_in(b)))
                lines.append(f'{cls.__name__} {a!r}->{b!r} convert {m!r} '
                             + attempt(lambda: (lambda d: (d.units, d.unit_value, str(d)))(a(m) << b)))
                lines.append(f'{cls.__name__} {a!r}->{b!r} Unit(dim) {m!r} '
                             + attempt(lambda: (lambda d: (d.units, d.raw_value, str(d)))(b(a(m)))))
                # explicit to_raw / from_raw on an unrelated instance of the class
                lines.append(f'{cls.__name__} to_raw/from_raw {a!r}->{b!r} {m!r} '
                             + attempt(lambda: cls(0, units[0]).from_raw(cls(0, units[0]).to_raw(m, a), b)))
        for b in units:
            for c in units:
                lines.append(f'{cls.__name__} {a!r}->{b!r}->{c!r} 2.5 ' + attempt(lambda: c(b(a(2.5) >> b) >> c) >> c))
    section(f'pairs {cls.__name__}', lines)

# 2. a readable sample (spot values of every unit against one magnitude)
lines = []
for cls, units in DIMENSIONS:
    for a in units:
        lines.append(f'{a!r}(3) raw={show(a(3).raw_value)} ; raw 1.25 in {a!r} = {show(cls(1.25, units[0]) >> a)}')
section('sample', lines, verbose=True)

# 3. angles: wrap above one turn on construction (but not for radians), no wrap on read
lines = []
for u in DIMENSIONS[0][1]:
    for m in [360, 361, 720.5, 21600, 21601, 6400, 6401, 6283.2, 6283.19, 6000, 6001, 12, 12.5, 13, 25,
              6.283185307179586, 6.283185307179587, 7, 100, -7, -400, 1e6, 22619.467, 62831.9, 1e308]:
        lines.append(f'{u!r} {m!r} ' + attempt(lambda: u(m).raw_value) + ' ' + attempt(lambda: u(m) >> u)
                     + ' ' + attempt(lambda: u(m) >> Unit.Degree))
section('angular wrap', lines, verbose=True)

# 4. error behaviour: foreign units, non-units, ints and floats standing for units, odd values
lines = []
for cls, units in DIMENSIONS:
    inst = cls(1, units[-1])
    for bad in [Unit.Degree, Unit.Inch, Unit.Joule, Unit.PSI, Unit.Kelvin, Unit.KT, Unit.Newton,
                'foot', None, 1.5, 999, -1, 11, 11.0, 2, 31, 44, 52, 63, 75, (1,), [Unit.Foot], object]:
        lines.append(f'{cls.__name__} ctor {bad!r} ' + attempt(lambda: cls(2, bad).raw_value))
        lines.append(f'{cls.__name__} >> {bad!r} ' + attempt(lambda: inst >> bad))
        lines.append(f'{cls.__name__} to_raw {bad!r} ' + attempt(lambda: inst.to_raw(2, bad)))
        lines.append(f'{cls.__name__} from_raw {bad!r} ' + attempt(lambda: inst.from_raw(2, bad)))
        lines.append(f'{cls.__name__} << {bad!r} ' + attempt(lambda: str(cls(1, units[-1]) << bad)))
    for a in units:
        for val in ['3', None, [1, 2], (1,), b'x', 2 + 3j, 'abc']:
            lines.append(f'{cls.__name__} {a!r} value {val!r} ' + attempt(lambda: cls(val, a).raw_value))
            lines.append(f'{cls.__name__} {a!r} from_raw {val!r} ' + attempt(lambda: inst.from_raw(val, a)))
    # instance attribute quirk of _validate_unit_type: a foreign unit stored on the instance is "supported"
    quirk = cls(1, units[0])
    quirk.extra = Unit.Degree if cls is not Angular else Unit.Inch
    lines.append(f'{cls.__name__} quirk ' + attempt(lambda: quirk >> quirk.extra)
                 + ' ' + attempt(lambda: quirk.to_raw(5, quirk.extra)))
section('errors', lines, verbose=True)

# 5. comparisons / hashing / shortcuts that read the stored magnitude
lines = []
d = Unit.Yard(100)
lines.append(attempt(lambda: (d == 3600, d > Unit.Meter(90), d < Unit.Meter(92), d >= 3600, d <= 3599.9,
                              hash(d) == hash(3600))))
lines.append(attempt(lambda: (Unit.Meter(1)._inch, Unit.Meter(1)._feet, Unit.hPa(1013.25)._inHg,
                              Unit.Grain(168)._grain, Unit.Celsius(15)._F, Unit.MOA(1)._rad, Unit.MPS(800)._fps)))
lines.append(attempt(lambda: (Unit.Inch(7)._feet, Unit.MmHg(760)._inHg, Unit.MPS(3)._fps, Unit.Foot(7)._inch)))
for text, pref in [('10', Unit.FootPound), ('10.2ft*lb', 'energy'), ('.2', 'yard'), ('100yd', Unit.Meter),
                   ('-5.5 mil', None), ('3 cm/100m', None), ('760mmHg', None), ('15 degC', None),
                   ('2800fps', None), ('168 grn', None), ('1nm', None), (5, 'distance'), (5.5, Unit.KT),
                   ('3 parsec', None), ('abc', None), (3, None), (3, 'nope')]:
    lines.append(f'parse {text!r} {pref!r} ' + attempt(
        lambda: (lambda r: (type(r).__name__, r.units, r.raw_value, str(r)))(_parse_value(text, pref))))
for alias in ['ft*lb', 'newton', 'Inch', 'inch', 'distance', 'oclock', 'nmi', 'kt', 'degK', 'xyz', ' MOA ']:
    lines.append(f'unit {alias!r} ' + attempt(lambda: _parse_unit(alias)))
for u in Unit:
    lines.append(f'{int(u)} {u!r} {u.key} {u.accuracy} {u.symbol} ' + attempt(lambda: type(u(1)).__name__)
                 + ' ' + attempt(lambda: str(u(1.23456789))))
section('misc', lines, verbose=True)

# 6. a trajectory: the engine builds its Distance / Velocity / Angular / Energy / Weight results from raw numbers
PreferredUnits.defaults()
dm = DragModel(0.22, TableG7, 168, 0.308, 1.22)
shot = Shot(weapon=Weapon(Unit.Inch(4), Unit.Inch(12), Unit.Mil(1.5)), ammo=Ammo(dm, Unit.FPS(2600)),
            atmo=Atmo(Unit.Meter(300), Unit.hPa(990), Unit.Celsius(5), 0.6),
            winds=[Wind(Unit.KMH(18), Unit.OClock(3), Unit.Meter(400)), Wind(Unit.MPH(4), Unit.Degree(200))])
shot.relative_angle = Unit.MOA(12)
result = Calculator().fire(shot, trajectory_range=Unit.Meter(900), trajectory_step=Unit.Meter(150), extra_data=False)
lines = []
for row in result:
    lines.append(' '.join([
        repr(row.time), repr(row.mach), repr(row.drag), repr(row.density_factor),
        show(row.distance.raw_value), show(row.distance >> Unit.Meter), str(row.distance),
        show(row.velocity.raw_value), show(row.velocity >> Unit.FPS), str(row.velocity),
        show(row.height.raw_value), show(row.height >> Unit.Centimeter),
        show(row.target_drop >> Unit.Inch), show(row.drop_adj >> Unit.Mil), show(row.drop_adj >> Unit.CmPer100m),
        show(row.windage >> Unit.Inch), show(row.windage_adj >> Unit.MOA),
        show(row.look_distance >> Unit.Yard), show(row.angle >> Unit.Degree),
        show(row.energy.raw_value), show(row.energy >> Unit.Joule), str(row.energy),
        show(row.ogw.raw_value), show(row.ogw >> Unit.Kilogram), str(row.ogw),
    ]))
section('trajectory', lines, verbose=True)

# 9. the order in which a unit argument is compared with the units of the dimension (a spy that is not a Unit)
class Spy:
    """Compares unequal to everything except the k-th thing it is compared with; remembers what it was compared with"""

    def __init__(self, k):
        self.k = k
        self.seen = []

    def __eq__(self, other):
        self.seen.append(other)
        return len(self.seen) == self.k

    def __hash__(self):
        return 0

    def __repr__(self):
        return f'Spy({self.k})'


lines = []
for cls, units in DIMENSIONS:
    inst = cls(1, units[0])
    for k in range(0, len(units) + 2):
        for method in ('to_raw', 'from_raw'):
            for val in (2.5, 7, 400):
                spy = Spy(k)
                outcome = attempt(lambda: getattr(inst, method)(val, spy))
                lines.append(f'{cls.__name__}.{method}({val!r}, {spy!r}) -> {outcome} ; compared with {spy.seen!r}')
        spy = Spy(k)
        lines.append(f'{cls.__name__}({spy!r}) ' + attempt(lambda: cls(3, spy).raw_value) + f' ; {spy.seen!r}')
        spy = Spy(k)
        lines.append(f'{cls.__name__} >> {spy!r} ' + attempt(lambda: cls(3, units[-1]) >> spy) + f' ; {spy.seen!r}')
section('comparison order', lines)
print('\n'.join(lines[::5]))
