"""Equivalence probe for property C06 (unit conversions).

Exercises py_ballisticcalc.unit through the public API only and prints a
deterministic digest.  The text printed must be identical on the clean
worktree and with the refactoring applied.

Run:  cd <worktree> && PYTHONPATH=<worktree> /venv/bin/python equiv.py
"""
import hashlib
import math
import warnings

warnings.simplefilter("ignore")

from py_ballisticcalc.unit import (  # noqa: E402
    Unit, AbstractDimension, Distance, Pressure, Weight, Temperature,
    Angular, Velocity, Energy,
)

DIMENSIONS = (Angular, Distance, Energy, Pressure, Temperature, Velocity, Weight)


def units_of(cls):
    """Units that belong to a dimension, in enum order (no reliance on internals)."""
    out = []
    for u in Unit:
        try:
            obj = u(1)
        except Exception:  # pragma: no cover
            continue
        if type(obj) is cls:
            out.append(u)
    return out


MAGNITUDES = [
    0, 1, 3, -2, 7, 1000000,                      # ints: result type (int/float) must not change
    0.0, -0.0, 1.0, 3.0, -2.5, 0.1, 1e-9, 12.345678901234567, 2.0 * math.pi,
    6.283185307179586, 6.283185307179587, 6.3, 59.0, 360.0, 361.0, 725.5, 21600.0, 21601.0,
    6400.0, 6401.0, 6000.0, 6001.0, 12.0, 12.5, 25.4, 100.0, 459.67, 273.15, -40.0, -459.67,
    1e12, -1e12, 1e300, -1e300, 5e-324, 1.7976931348623157e308,
    float("inf"), float("-inf"), float("nan"),
    True,
]


def show(x):
    """repr that also pins the type (int vs float vs bool) and the sign of zero."""
    return f"{type(x).__name__}:{x!r}"


def attempt(fn):
    try:
        return show(fn())
    except BaseException as exc:  # exception type and message are part of the behaviour
        return f"!{type(exc).__name__}:{exc}"


class Section:
    def __init__(self, name):
        self.name = name
        self.h = hashlib.sha256()
        self.n = 0
        self.samples = []

    def add(self, line, sample=False):
        self.h.update(line.encode("utf-8"))
        self.h.update(b"\n")
        self.n += 1
        if sample:
            self.samples.append(line)

    def close(self):
        print(f"[{self.name}] lines={self.n} sha256={self.h.hexdigest()}")
        for s in self.samples:
            print("   ", s)


def main():
    total = hashlib.sha256()

    # 1. constructors, raw value, every target unit of the same dimension, round trip, triples
    for cls in DIMENSIONS:
        units = units_of(cls)
        sec = Section(f"{cls.__name__} pairs")
        for a in units:
            for m in MAGNITUDES:
                obj_line = attempt(lambda: a(m).raw_value)
                sec.add(f"{a!r}({m!r}).raw={obj_line}", sample=(m in (3, 12.5) and a is units[-1]))
                try:
                    obj = a(m)
                except BaseException:
                    continue
                for b in units:
                    r1 = attempt(lambda: obj >> b)
                    r2 = attempt(lambda: obj.get_in(b))
                    r3 = attempt(lambda: cls(m, a).from_raw(cls(m, a).to_raw(m, a), b))
                    back = attempt(lambda: b(obj >> b) >> a)
                    sec.add(f"{a!r}({m!r})>>{b!r}={r1}|{r2}|{r3}|back={back}",
                            sample=(m == 3 and a is units[0] and b is units[-1]))
        # triples A -> B -> C on a few magnitudes
        for a in units:
            for b in units:
                for c in units:
                    for m in (3, 0.75, -1.25, 100.0):
                        sec.add(f"{a!r}>{b!r}>{c!r}({m!r})=" + attempt(lambda: b(a(m) >> b) >> c))
        sec.close()
        total.update(sec.h.digest())

    # 2. unit arguments that are not (or not the right) Unit members
    sec = Section("odd unit arguments")
    odd_units = [None, "inch", 10, 10.0, 11, 17.0, 0, 1, 1.0, 6, 8, 30, 31, 40, 43, 50, 52, 53, 60,
                 64, 70, 75, 20, 9, 99, -1, True, False, (10,), [10], {10: 1}, 3 + 0j, 10 + 0j,
                 float("nan"), object]
    for cls in DIMENSIONS:
        home = units_of(cls)[0]
        for u in list(Unit) + odd_units:
            label = repr(u) if not isinstance(u, type) else u.__name__
            sec.add(f"{cls.__name__}(3.5,{label})=" + attempt(lambda: cls(3.5, u).raw_value))
            sec.add(f"{cls.__name__}(7,{label})=" + attempt(lambda: cls(7, u).raw_value))
            sec.add(f"{cls.__name__}.get_in({label})=" + attempt(lambda: cls(2.5, home).get_in(u)))
            sec.add(f"{cls.__name__}>>({label})=" + attempt(lambda: cls(2, home) >> u))
            sec.add(f"{cls.__name__}.to_raw({label})=" + attempt(lambda: cls(1, home).to_raw(4.25, u)))
            sec.add(f"{cls.__name__}.from_raw({label})=" + attempt(lambda: cls(1, home).from_raw(4.25, u)))
    sec.close()
    total.update(sec.h.digest())

    # 3. odd magnitudes (non-numeric / exotic numeric types): same result or same exception
    sec = Section("odd magnitudes")
    from fractions import Fraction
    from decimal import Decimal
    odd_values = ["ab", None, [1], (1, 2), Fraction(3, 7), Decimal("2.5"), 2 + 1j, 10 ** 400, b"x"]
    for u in Unit:
        for v in odd_values:
            sec.add(f"{u!r}({v!r}).raw=" + attempt(lambda: u(v).raw_value))
            sec.add(f"{u!r}({v!r}).unit_value=" + attempt(lambda: u(v).unit_value))
    sec.close()
    total.update(sec.h.digest())

    # 4. presentation, operators, shortcuts, conversions of instances
    sec = Section("instances")
    for u in Unit:
        for m in (3, 2.5, -0.125, 1234.56789, 0):
            obj = u(m)
            sec.add(f"{u!r}({m!r}): str={obj!s} repr={obj!r} float={show(float(obj))} "
                    f"units={obj.units!r} unit_value={show(obj.unit_value)} raw={show(obj.raw_value)} "
                    f"hash_eq={hash(obj) == hash(obj.raw_value)} type={type(obj).__name__}",
                    sample=(m == 2.5 and u in (Unit.MOA, Unit.Meter, Unit.Kelvin, Unit.Newton, Unit.hPa)))
            for name in ("_inch", "_feet", "_inHg", "_grain", "_F", "_rad", "_fps"):
                if hasattr(type(obj), name):
                    sec.add(f"   {name}={show(getattr(obj, name))}")
            cls = type(obj)
            for t in units_of(cls):
                o2 = u(m)
                same = (o2 << t) is o2
                sec.add(f"   <<{t!r}: same={same} units={o2.units!r} str={o2!s} val={show(o2.unit_value)}")
                o3 = u(m)
                r = t(o3)                      # Unit.__call__ with a dimension instance
                sec.add(f"   {t!r}(obj): same={r is o3} units={r.units!r} str={r!s}")
                o4 = u(m)
                r4 = (t << o4) if False else o4.__rlshift__(t)
                sec.add(f"   rlshift {t!r}: same={r4 is o4} units={r4.units!r}")
            sec.add(f"   cmp: {obj == obj.raw_value} {obj < 1} {obj > 1} {obj <= 1} {obj >= 1}")
    # cross-dimension construction through Unit.__call__ with instance of another dimension
    sec.add("cross=" + attempt(lambda: (Unit.Meter(Unit.Degree(3))).units))
    sec.add("cross-str=" + attempt(lambda: str(Unit.Meter(Unit.Degree(3)))))
    sec.add("slots=" + repr(AbstractDimension.__slots__))
    sec.add("mro=" + repr([[c.__name__ for c in d.__mro__] for d in DIMENSIONS]))
    sec.add("base=" + attempt(lambda: AbstractDimension(1, Unit.Inch)))
    sec.add("base2=" + attempt(lambda: AbstractDimension(1, 10)))
    sec.close()
    total.update(sec.h.digest())

    # 5. angular wrap-around edge (strictly greater than one turn is reduced, exactly one turn is not)
    sec = Section("angular wrap")
    for u in units_of(Angular):
        one_turn = Angular(2.0 * math.pi, Unit.Radian) >> u
        for k in (0.5, 1.0, 1.0000000000000002, 1.5, 2.0, 3.25, -1.0, -2.5, 1e6):
            v = one_turn * k
            sec.add(f"{u!r}({v!r}).raw=" + attempt(lambda: u(v).raw_value), sample=(k == 1.5))
        for v in (math.nextafter(one_turn, math.inf), math.nextafter(one_turn, -math.inf), one_turn):
            sec.add(f"{u!r}({v!r}).raw=" + attempt(lambda: u(v).raw_value))
    sec.close()
    total.update(sec.h.digest())

    print("TOTAL", total.hexdigest())


if __name__ == "__main__":
    main()
