"""Deterministic digest of the unit-conversion behaviour of py_ballisticcalc.unit.

Prints the same text on the clean worktree and with the refactoring applied.
Run:  cd /tmp/wt/t5_C06 && PYTHONPATH=/tmp/wt/t5_C06 /venv/bin/python <this file>
"""
import hashlib
import math
from decimal import Decimal
from fractions import Fraction

from py_ballisticcalc.unit import (Unit, AbstractDimension, Distance, Pressure, Weight, Temperature,
                                   Angular, Velocity, Energy)

DIMS = {
    Angular: [u for u in Unit if 0 <= u < 10],
    Distance: [u for u in Unit if 10 <= u < 20],
    Energy: [u for u in Unit if 30 <= u < 40],
    Pressure: [u for u in Unit if 40 <= u < 50],
    Temperature: [u for u in Unit if 50 <= u < 60],
    Velocity: [u for u in Unit if 60 <= u < 70],
    Weight: [u for u in Unit if 70 <= u < 80],
}

VALUES = [0, 1, 3, -2, True, 0.0, -0.0, 1.0, 3.0, -7.25, 0.1, 1e-300, 5e-324, 1e300, 1.7e308, 123456.789,
          6.0, 6.3, 7.0, 359.9, 360.0, 361.0, 720.5, 21600.5, 6400.25, 22619.5, 62832.0, 12.0, 13.5,
          -400.0, 1e-9, float('inf'), float('-inf'), float('nan'),
          Fraction(7, 3), Decimal('2.5'), "ab", None, [1.0], 2 + 1j]

LINES = []


def emit(*parts):
    LINES.append(' | '.join(str(p) for p in parts))


def show(x):
    """repr that also distinguishes the type (int vs float vs bool ...) and the sign of zero / nan"""
    return f'{type(x).__name__}:{x!r}'


def attempt(fn):
    try:
        return show(fn())
    except Exception as exc:  # pylint: disable=broad-except
        return f'EXC {type(exc).__name__}: {exc}'


class Spy:
    """A 'unit' that records every object it is compared with and never matches."""

    def __init__(self):
        self.seen = []

    def __eq__(self, other):
        self.seen.append(repr(other))
        return False

    def __ne__(self, other):
        self.seen.append('ne ' + repr(other))
        return True

    __hash__ = None


class Match:
    """A 'unit' that is not a Unit but compares equal to a given one (and logs the comparisons)."""

    def __init__(self, target):
        self.target = int(target)
        self.seen = []

    def __eq__(self, other):
        self.seen.append(repr(other))
        return int(other) == self.target

    def __hash__(self):
        return hash(self.target)


# 1. every unit x every value: constructor, raw value, read back in every unit of the dimension
for cls, units in DIMS.items():
    for u in units:
        for v in VALUES:
            made = attempt(lambda: cls(v, u).raw_value)  # pylint: disable=cell-var-from-loop
            emit('ctor', cls.__name__, repr(u), show(v), made)
            if made.startswith('EXC'):
                continue
            obj = cls(v, u)
            emit('  call', attempt(lambda: u(v).raw_value), attempt(lambda: type(u(v)).__name__))
            for w in units:
                emit('  get', repr(w), attempt(lambda: obj.get_in(w)), attempt(lambda: obj >> w),
                     attempt(lambda: cls.from_raw(obj, v, w)))
            emit('  unit_value', attempt(lambda: obj.unit_value), attempt(lambda: float(obj)),
                 attempt(lambda: str(obj)), attempt(lambda: repr(obj)))

# 2. pairs and triples: A -> B -> C against A -> C, and the round trip A -> B -> A
for cls, units in DIMS.items():
    for a in units:
        for b in units:
            for x in (1.0, 3, 0.3, 2.5e4 if cls is not Angular else 5.5, -1.25):
                ab = cls(x, a) >> b
                back = cls(ab, b) >> a
                emit('pair', repr(a), repr(b), show(x), show(ab), show(back))
                for c in units:
                    emit('  triple', repr(c), show(cls(ab, b) >> c), show(cls(x, a) >> c))

# 3. units of a foreign dimension, and things that are not Unit members at all
ODD_UNITS = [10, 10.0, 11, 12.0, 0, 1, 6, 31, 41, 51, 53.0, 61, 62, 71, 75, 99, -1, True, False,
             'inch', 'Inch', None, [], (10,), 2.5, Decimal(12), Fraction(12, 1)]
for cls, units in DIMS.items():
    sample = cls(3, units[1])
    for other_cls, other_units in DIMS.items():
        if other_cls is cls:
            continue
        for w in other_units:
            emit('foreign', cls.__name__, repr(w), attempt(lambda: cls(3, w)), attempt(lambda: sample >> w),
                 attempt(lambda: sample.to_raw(2.0, w)), attempt(lambda: sample.from_raw(2.0, w)))
    for w in ODD_UNITS:
        emit('odd', cls.__name__, show(w), attempt(lambda: cls(3, w).raw_value),
             attempt(lambda: cls(3.5, w).units), attempt(lambda: sample >> w), attempt(lambda: sample.get_in(w)),
             attempt(lambda: sample.to_raw(2.0, w)), attempt(lambda: sample.from_raw(2.0, w)))

# 4. order and direction of the comparisons made with the unit argument
for cls, units in DIMS.items():
    sample = cls(3, units[0])
    for meth in ('to_raw', 'from_raw'):
        spy = Spy()
        res = attempt(lambda: getattr(sample, meth)(1.5, spy))
        emit('spy', cls.__name__, meth, res.split(' found')[0], ','.join(spy.seen))
        for u in units:
            m = Match(u)
            emit('match', cls.__name__, meth, repr(u), attempt(lambda: getattr(sample, meth)(1.5, m)),
                 ','.join(m.seen))
    spy = Spy()
    emit('spy-ctor', cls.__name__, attempt(lambda: cls(1.5, spy)).split(' found')[0], ','.join(spy.seen))

# 5. Unit.__call__ with dimension instances, << and rlshift, private shortcuts, hashing and comparisons
for cls, units in DIMS.items():
    for a in units:
        obj = a(2.75)
        for b in units:
            conv = b(obj)
            emit('conv', repr(a), repr(b), conv is obj, repr(conv.units), show(conv.unit_value), str(conv),
                 repr(obj << a), show((obj << b).raw_value))
        emit('cmp', repr(a), obj == obj.raw_value, obj < 1e9, obj > -1e9, obj <= obj.raw_value,
             obj >= obj.raw_value, hash(obj) == hash(obj.raw_value))
    for other_cls, other_units in DIMS.items():
        if other_cls is not cls:
            emit('conv-foreign', cls.__name__, other_cls.__name__,
                 attempt(lambda: other_units[0](units[0](1.0)).units),
                 attempt(lambda: str(other_units[0](units[0](1.0)))))
emit('short', show(Distance(30, Unit.Yard)._inch), show(Distance(30, Unit.Yard)._feet),
     show(Pressure(29.92, Unit.InHg)._inHg), show(Weight(168, Unit.Grain)._grain),
     show(Temperature(15, Unit.Celsius)._F), show(Angular(1, Unit.Degree)._rad),
     show(Velocity(800, Unit.MPS)._fps))
emit('abstract', attempt(lambda: AbstractDimension(1, Unit.Inch)), attempt(lambda: AbstractDimension(1, 5)),
     attempt(lambda: Unit.__call__(25, 1.0)), attempt(lambda: Unit.__call__(85, 1.0)),
     attempt(lambda: Unit.__call__(12, 1.0).raw_value), attempt(lambda: Unit.__call__(-3, 1.0)))

# 6. the library still computes the same trajectory (units are used everywhere)
try:
    from py_ballisticcalc import Calculator, Shot, Weapon, Ammo, DragModel, TableG7, Atmo, Wind
    dm = DragModel(0.223, TableG7, Weight(168, Unit.Grain), Distance(0.308, Unit.Inch), Distance(1.282, Unit.Inch))
    weapon = Weapon(Distance(9, Unit.Centimeter), Distance(12, Unit.Inch))
    ammo = Ammo(dm, Velocity(800, Unit.MPS), Temperature(15, Unit.Celsius))
    atmo = Atmo(Distance(150, Unit.Meter), Pressure(1000, Unit.hPa), Temperature(10, Unit.Celsius), 0.5)
    calc = Calculator()
    shot = Shot(weapon=weapon, ammo=ammo, atmo=atmo, look_angle=Angular(2, Unit.Degree),
                winds=[Wind(Velocity(4, Unit.MPS), Angular(3, Unit.OClock))])
    calc.set_weapon_zero(shot, Distance(100, Unit.Meter))
    hit = calc.fire(shot, Distance(800, Unit.Meter), Distance(100, Unit.Meter))
    emit('zero', show(weapon.zero_elevation.raw_value))
    for row in hit:
        emit('row', *(show(x.raw_value) if isinstance(x, AbstractDimension) else show(x) for x in row))
        emit('fmt', row.formatted())
except Exception as exc:  # pylint: disable=broad-except
    emit('trajectory EXC', type(exc).__name__, exc)

text = '\n'.join(LINES)
print(f'lines={len(LINES)} sha256={hashlib.sha256(text.encode()).hexdigest()}')
for idx in range(0, len(LINES), max(1, len(LINES) // 60)):
    print(LINES[idx])
import os
if os.environ.get("EQUIV_DUMP"):
    with open(os.environ["EQUIV_DUMP"], "w", encoding="utf-8") as fp:
        fp.write(text)
