"""Digest of the unit-conversion behaviour of py_ballisticcalc.unit (pure Python).

Prints one line per observation and a final sha256 of everything printed.
Must print exactly the same text on the clean worktree and with the patch applied.
"""
import hashlib
import math
import pickle
from fractions import Fraction

from py_ballisticcalc import unit as U
from py_ballisticcalc.unit import (Unit, Distance, Pressure, Weight, Temperature,
                                   Angular, Velocity, Energy, AbstractDimension)

LINES = []


def out(*parts):
    line = ' '.join(str(p) for p in parts)
    LINES.append(line)
    print(line)


def show(x):
    """repr including the type, so int/float/Fraction differences are visible"""
    return f'{type(x).__name__}:{x!r}'


def attempt(fn):
    try:
        return show(fn())
    except BaseException as exc:  # noqa
        ctx = type(exc.__context__).__name__ if exc.__context__ is not None else '-'
        cause = type(exc.__cause__).__name__ if exc.__cause__ is not None else '-'
        return f'RAISES {type(exc).__name__}({exc}) ctx={ctx} cause={cause}'


DIMENSIONS = {
    Angular: [Unit.Radian, Unit.Degree, Unit.MOA, Unit.Mil, Unit.MRad, Unit.Thousandth,
              Unit.InchesPer100Yd, Unit.CmPer100m, Unit.OClock],
    Distance: [Unit.Inch, Unit.Foot, Unit.Yard, Unit.Mile, Unit.NauticalMile, Unit.Millimeter,
               Unit.Centimeter, Unit.Meter, Unit.Kilometer, Unit.Line],
    Energy: [Unit.FootPound, Unit.Joule],
    Pressure: [Unit.MmHg, Unit.InHg, Unit.Bar, Unit.hPa, Unit.PSI],
    Temperature: [Unit.Fahrenheit, Unit.Celsius, Unit.Kelvin, Unit.Rankin],
    Velocity: [Unit.MPS, Unit.KMH, Unit.FPS, Unit.MPH, Unit.KT],
    Weight: [Unit.Grain, Unit.Ounce, Unit.Gram, Unit.Pound, Unit.Kilogram, Unit.Newton],
}

MAGNITUDES = [0, 0.0, -0.0, 1, 3, -7, True, 0.1, 1.5, -2.75, 59.0, 100, 1234.56789, 6.283185307179586,
              6.3, 7, 400.0, 21600.5, 1e-9, 1e-300, 5e-324, 1e9, 1e300, 1.7976931348623157e308,
              float('inf'), float('-inf'), float('nan'), Fraction(1, 3), 10 ** 30]

assert sum(len(v) for v in DIMENSIONS.values()) == 41
assert sorted(u for v in DIMENSIONS.values() for u in v) == sorted(Unit)

# 1. every unit, every magnitude: constructor (Unit.X(v) and Class(v, X)), raw value, all ordered pairs
for cls, units in DIMENSIONS.items():
    for a in units:
        for v in MAGNITUDES:
            made = attempt(lambda: a(v).raw_value)
            out('NEW', cls.__name__, a.name, show(v), '->', made)
            try:
                obj = cls(v, a)
            except BaseException as exc:  # noqa
                out('  CTOR RAISES', type(exc).__name__, exc)
                continue
            assert type(a(v)) is cls
            out('  raw', show(obj.raw_value), 'units', repr(obj.units), 'unit_value', attempt(lambda: obj.unit_value))
            for b in units:
                out('  ', a.name, '>>', b.name, attempt(lambda: obj >> b), '| get_in', attempt(lambda: obj.get_in(b)))
            # round trip and two-hop chain through fresh objects
            for b in units:
                out('  rt', b.name, attempt(lambda: cls(obj >> b, b) >> a))
                for c in units[::3]:
                    out('    via', b.name, c.name, attempt(lambda: cls(obj >> b, b) >> c))

# 2. direct to_raw / from_raw with every Unit member (foreign dimensions must raise), and non-Unit "units"
ODD_UNITS = [10, 10.0, 11, 0, 1, True, False, 6, 7.0, 31, 40, 43.0, 52, 53, 62, 64.0, 73, 75, 9, 20, 25, 80, -1,
             'inch', 'abc', None, 2.5, (10,), Fraction(12, 1)]
for cls, units in DIMENSIONS.items():
    inst = cls(1, units[0])
    for u in list(Unit) + ODD_UNITS:
        for v in (3, 2.5, -40.0):
            out('RAW', cls.__name__, show(u), show(v),
                'to', attempt(lambda: inst.to_raw(v, u)),
                'from', attempt(lambda: inst.from_raw(v, u)))
    for u in list(Unit):
        if u not in units:
            out('FOREIGN', cls.__name__, u.name, attempt(lambda: cls(5, u)), attempt(lambda: inst >> u),
                attempt(lambda: inst.get_in(u)))
    out('NONUNIT', cls.__name__, attempt(lambda: cls(5, 'nope')), attempt(lambda: inst >> 'nope'),
        attempt(lambda: inst >> None), attempt(lambda: inst >> 1000))

# 3. odd value types flow through the same arithmetic (or fail the same way)
for cls, units in DIMENSIONS.items():
    inst = cls(1, units[0])
    for u in units:
        for v in ('3', None, [1], 2 + 1j, Fraction(7, 2)):
            out('ODDVAL', cls.__name__, u.name, show(v), attempt(lambda: inst.to_raw(v, u)),
                attempt(lambda: inst.from_raw(v, u)))

# 4. presentation, shortcuts, re-unit via <<, Unit.X(dimension), comparisons, hash, float, pickle
samples = [Distance(100, Unit.Yard), Distance(2.5, Unit.Kilometer), Distance(3, Unit.NauticalMile),
           Pressure(29.92, Unit.InHg), Pressure(1013.25, Unit.hPa), Pressure(14.7, Unit.PSI),
           Weight(168, Unit.Grain), Weight(2, Unit.Pound), Weight(9.80665, Unit.Newton),
           Temperature(15, Unit.Celsius), Temperature(0, Unit.Kelvin), Temperature(-459.67, Unit.Fahrenheit),
           Angular(400, Unit.Degree), Angular(-400, Unit.Degree), Angular(7, Unit.Radian), Angular(13, Unit.OClock),
           Angular(1, Unit.InchesPer100Yd), Angular(1e9, Unit.CmPer100m), Angular(6400, Unit.Mil),
           Velocity(2750, Unit.FPS), Velocity(10, Unit.KT), Energy(3000, Unit.Joule), Energy(3000, Unit.FootPound)]
for s in samples:
    cls = type(s)
    out('SAMPLE', str(s), repr(s), show(float(s)), show(s.raw_value), hash(s) == hash(s.raw_value),
        s == s.raw_value, s < 1, s > 1, s <= 1, s >= 1)
    for name in ('_inch', '_feet', '_inHg', '_grain', '_F', '_rad', '_fps'):
        if hasattr(cls, name):
            out('  shortcut', name, show(getattr(s, name)))
    for b in DIMENSIONS[cls]:
        before = s.units
        t = s << b
        out('  <<', b.name, t is s, repr(s.units), str(s), repr(s), show(s.unit_value))
        again = b(s)
        out('  call', b.name, again is s, str(again))
        s << before
    foreign = Unit.Joule if cls is not Energy else Unit.Inch
    s << foreign
    out('  foreign <<', attempt(lambda: str(s)), attempt(lambda: s.unit_value), attempt(lambda: repr(s)))
    s << DIMENSIONS[cls][0]
    out('  pickle', pickle.dumps(s, protocol=2).hex())
    out('  slots', sorted(AbstractDimension.__slots__), s.__dict__, sorted(k for k in vars(cls) if not k.startswith('__')))

# 5. module surface that other modules rely on
out('ALL', sorted(U.__all__))
# public names DEFINED by the module (helpers imported from the standard library are not part of its surface)
out('PUBLIC', sorted(n for n, v in vars(U).items() if not n.startswith('_')
                     and (getattr(v, '__module__', None) == U.__name__ or isinstance(v, (dict, tuple)))))
for cls in DIMENSIONS:
    out('MRO', [c.__name__ for c in cls.__mro__], cls.to_raw.__name__, cls.from_raw.__name__,
        cls.to_raw.__qualname__, cls.from_raw.__qualname__)
for text, pref in (('100yd', None), ('2.5', Unit.Meter), ('15°C', None), ('29.92inHg', None), (7, 'fps'),
                   ('1mil', None), ('3 ft*lb', None), ('12 newton', None), ('5 furlong', None)):
    out('PARSE', repr(text), pref, attempt(lambda: U._parse_value(text, pref)),
        attempt(lambda: U._parse_value(text, pref).raw_value))

for cls in DIMENSIONS:
    for meth in ('to_raw', 'from_raw'):
        f = vars(cls)[meth]
        out('METH', cls.__name__, meth, type(f).__name__, f.__name__, f.__qualname__, f.__module__, repr(f.__doc__),
            callable(getattr(cls(1, DIMENSIONS[cls][0]), meth)))

print('SHA256', hashlib.sha256('\n'.join(LINES).encode()).hexdigest(), 'lines', len(LINES))
