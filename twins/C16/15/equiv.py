"""Equivalence digest for property C16 (danger space).

Exercises HitResult.index_at_distance / get_at_distance / danger_space through the
public API on computed trajectories (flat, arcing, inclined) and on hand-built
HitResult objects (ties, NaN drops, single row, empty, float arguments).
Prints a deterministic text digest; must be identical with and without the patch.
"""
import math
import re

from py_ballisticcalc import (Ammo, Angular, Calculator, Distance, DragModel, HitResult, Shot,
                              TableG1, TableG7, Temperature, TrajectoryData, Velocity, Weapon, Wind,
                              Energy, Weight)
from py_ballisticcalc.trajectory_data import DangerSpace


def idx_of(rows, row):
    """Index by identity (rows can compare equal as tuples)."""
    for i, r in enumerate(rows):
        if r is row:
            return i
    return None


def describe(hit, ds):
    rows = hit.trajectory
    return (idx_of(rows, ds.begin), idx_of(rows, ds.at_range), idx_of(rows, ds.end),
            repr(ds.begin.distance.raw_value), repr(ds.at_range.distance.raw_value),
            repr(ds.end.distance.raw_value),
            repr(getattr(ds.begin.target_drop, 'raw_value', None)),
            repr(getattr(ds.end.target_drop, 'raw_value', None)),
            repr(ds.target_height.raw_value), ds.target_height.units.name,
            repr(ds.look_angle.raw_value), ds.look_angle.units.name, str(ds))


def attempt(label, fn):
    try:
        res = fn()
    except Exception as exc:  # pylint: disable=broad-except
        print(label, 'EXC', type(exc).__name__, re.sub(r'0x[0-9a-fA-F]+', '0x..', str(exc)))
    else:
        print(label, 'OK', res)


def make_shot(look_deg=0.0, g1=False, rel_deg=None, wind=True):
    if g1:
        dm = DragModel(0.365, TableG1, 55, 0.224, Distance.Inch(0.9))
        ammo = Ammo(dm, Velocity.MPS(900), Temperature.Celsius(15))
    else:
        dm = DragModel(0.223, TableG7, 168, 0.308, Distance.Inch(1.282))
        ammo = Ammo(dm, Velocity.FPS(2750), Temperature.Celsius(15))
        ammo.calc_powder_sens(2723, 0)
    shot = Shot(weapon=Weapon(sight_height=Distance.Inch(2)), ammo=ammo,
                winds=[Wind(2, 90)] if wind else [],
                look_angle=Angular.Degree(look_deg))
    if rel_deg is not None:
        shot.relative_angle = Angular.Degree(rel_deg)
    return shot


def computed_cases():
    calc = Calculator()

    # 1. flat, zeroed .308, 1 yd steps (the test-suite's set-up)
    shot = make_shot()
    calc.set_weapon_zero(shot, Distance.Foot(300))
    hit = calc.fire(shot, trajectory_range=Distance.Yard(1000), trajectory_step=Distance.Yard(1),
                    extra_data=True)
    print('flat rows', len(hit.trajectory))
    for rng in (Distance.Yard(0), Distance.Yard(1), Distance.Yard(50), Distance.Yard(100),
                Distance.Yard(137.3), Distance.Yard(500), Distance.Meter(800), Distance.Yard(999),
                Distance.Yard(1000), 400, 0.0):
        for height in (Distance.Meter(1.5), Distance.Inch(10), Distance.Inch(0), Distance.Inch(0.01),
                       Distance.Meter(500), 20, Distance.Inch(-4)):
            attempt(f'flat {rng!r} {height!r}',
                    lambda r=rng, h=height: describe(hit, hit.danger_space(r, h, Angular.Degree(0))))
    attempt('flat default look', lambda: describe(hit, hit.danger_space(Distance.Yard(500), Distance.Inch(10))))
    attempt('flat float look', lambda: describe(hit, hit.danger_space(Distance.Yard(500), Distance.Inch(10), 3.5)))
    attempt('flat beyond', lambda: describe(hit, hit.danger_space(Distance.Yard(2000), Distance.Inch(10))))
    attempt('flat beyond float', lambda: describe(hit, hit.danger_space(1.0e9, 10)))
    attempt('flat nan range', lambda: describe(hit, hit.danger_space(math.nan, 10)))
    attempt('flat nan height', lambda: describe(hit, hit.danger_space(500, math.nan)))
    attempt('flat inf height', lambda: describe(hit, hit.danger_space(500, math.inf)))
    attempt('flat bad look', lambda: describe(hit, hit.danger_space(Distance.Yard(2000), 10, 'x')))
    attempt('flat bad height', lambda: describe(hit, hit.danger_space(Distance.Yard(2000), 'tall')))
    for d in (Distance.Yard(0), Distance.Yard(333.3), Distance.Yard(1000), Distance.Yard(1000.5),
              Distance.Meter(5000), 0, 7200.0, 1.0e9, math.nan):
        attempt(f'flat index {d!r}', lambda dd=d: hit.index_at_distance(dd))
        attempt(f'flat get {d!r}', lambda dd=d: (repr(hit.get_at_distance(dd).distance.raw_value),
                                                  repr(hit.get_at_distance(dd).time)))
    # monotonicity in the target height
    prev = None
    for h_in in (0, 1, 2, 5, 10, 20, 40, 80, 160, 1000):
        ds = hit.danger_space(Distance.Yard(300), Distance.Inch(h_in), Angular.Degree(0))
        cur = (idx_of(hit.trajectory, ds.begin), idx_of(hit.trajectory, ds.end))
        print('mono', h_in, cur, prev is None or (cur[0] <= prev[0] and cur[1] >= prev[1]))
        prev = cur

    # 2. no extra data
    plain = calc.fire(shot, trajectory_range=Distance.Yard(1000), trajectory_step=Distance.Yard(100))
    attempt('plain danger', lambda: describe(plain, plain.danger_space(Distance.Yard(500), Distance.Inch(10))))
    attempt('plain index', lambda: plain.index_at_distance(Distance.Yard(450)))
    attempt('plain get', lambda: repr(plain.get_at_distance(Distance.Yard(450)).distance.raw_value))
    attempt('plain get beyond', lambda: plain.get_at_distance(Distance.Yard(4500)))

    # 3. arcing trajectory: rising and falling branch
    shot = make_shot(g1=True, rel_deg=12.0, wind=False)
    arc = calc.fire(shot, trajectory_range=Distance.Meter(3000), trajectory_step=Distance.Meter(50),
                    extra_data=True)
    print('arc rows', len(arc.trajectory), repr(arc.trajectory[-1].distance.raw_value))
    for rng in (Distance.Meter(10), Distance.Meter(400), Distance.Meter(1200), Distance.Meter(1700),
                Distance.Meter(2200), Distance.Meter(2990)):
        for height in (Distance.Meter(0.5), Distance.Meter(2), Distance.Meter(30), Distance.Meter(400)):
            attempt(f'arc {rng!r} {height!r}',
                    lambda r=rng, h=height: describe(arc, arc.danger_space(r, h)))
    attempt('arc beyond', lambda: describe(arc, arc.danger_space(Distance.Meter(30000), Distance.Meter(2))))

    # 4. inclined sight line
    for look in (25.0, -15.0):
        shot = make_shot(look_deg=look)
        calc.set_weapon_zero(shot, Distance.Yard(200))
        inc = calc.fire(shot, trajectory_range=Distance.Yard(800), trajectory_step=Distance.Yard(25),
                        extra_data=True, time_step=0.01)
        print('inc rows', look, len(inc.trajectory))
        for rng in (Distance.Yard(30), Distance.Yard(200), Distance.Yard(450), Distance.Yard(700)):
            for height in (Distance.Inch(6), Distance.Inch(30), Distance.Meter(3)):
                attempt(f'inc {look} {rng!r} {height!r}',
                        lambda r=rng, h=height, t=inc: describe(t, t.danger_space(r, h)))
                attempt(f'inc {look} {rng!r} {height!r} look0',
                        lambda r=rng, h=height, t=inc: describe(t, t.danger_space(r, h, Angular.Degree(0))))
    return hit.shot


def row(dist_in, drop_in):
    return TrajectoryData(
        time=0.0, distance=Distance.Inch(dist_in), velocity=Velocity.FPS(1000), mach=1.0,
        height=Distance.Inch(drop_in), target_drop=Distance.Inch(drop_in), drop_adj=Angular.Mil(0),
        windage=Distance.Inch(0), windage_adj=Angular.Mil(0), look_distance=Distance.Inch(dist_in),
        angle=Angular.Radian(0), density_factor=0.0, drag=0.1, energy=Energy.FootPound(1),
        ogw=Weight.Pound(1), flag=8)


def synthetic_cases(shot):
    nan, inf = math.nan, math.inf
    tables = {
        'single': [(0, 0)],
        'two': [(0, -2), (100, 0)],
        'ties': [(0, -3), (10, -1), (20, 0), (30, 1), (40, 0.5), (50, -1), (60, -5)],
        'dupdist': [(0, 0), (10, 1), (10, 5), (10, 2), (20, 0), (20, -7), (30, -9)],
        'nandrop': [(0, nan), (10, 0), (20, nan), (30, 0.25), (40, nan), (50, 9), (60, nan)],
        'nandist': [(0, 0), (nan, 5), (20, 1), (nan, -5), (40, 2)],
        'infdrop': [(0, -inf), (10, 0), (20, inf), (30, inf), (40, 0)],
        'nonmono': [(0, 0), (30, 4), (20, 1), (10, -6), (50, 2), (40, 0)],
        'wave': [(i * 10, round(5 * math.sin(i / 3.0), 3)) for i in range(40)],
    }
    for name, spec in tables.items():
        rows = [row(d, y) for d, y in spec]
        hit = HitResult(shot, rows, True)
        for rng in (-5, 0, 5, 10, 15, 20, 25, 30, 40, 45, 60, 61, 200, 390, nan):
            attempt(f'syn {name} idx {rng}', lambda r=rng, t=hit: t.index_at_distance(Distance.Inch(r)))
            attempt(f'syn {name} idxf {rng}', lambda r=rng, t=hit: t.index_at_distance(float(r)))
            for height in (0, 0.5, 1, 2, 3, 4, 8, 20, nan, inf, -1):
                attempt(f'syn {name} {rng} {height}',
                        lambda r=rng, h=height, t=hit: describe(t, t.danger_space(Distance.Inch(r), Distance.Inch(h))))
    empty = HitResult(shot, [], True)
    attempt('syn empty idx', lambda: empty.index_at_distance(Distance.Inch(0)))
    attempt('syn empty get', lambda: empty.get_at_distance(Distance.Inch(0)))
    attempt('syn empty danger', lambda: empty.danger_space(0, 1))
    noextra = HitResult(shot, [row(0, 0), row(10, 1)], False)
    attempt('syn noextra danger', lambda: 'x' if noextra.danger_space(0, 1) else 'y')
    attempt('syn noextra idx', lambda: noextra.index_at_distance(Distance.Inch(5)))
    as_tuple = HitResult(shot, tuple(row(d, y) for d, y in tables['ties']), True)
    attempt('syn tuple danger', lambda: describe(as_tuple, as_tuple.danger_space(Distance.Inch(25), Distance.Inch(2))))
    # rows that are broken away from the scan direction / beyond the first hit must not be touched
    broken = [row(0, 0), row(10, 1), row(20, 2), row(30, 3), row(40, 4)]
    broken[0] = broken[0]._replace(target_drop=None)
    broken[4] = broken[4]._replace(target_drop=None)
    hit = HitResult(shot, broken, True)
    for rng in (0, 10, 20, 30, 40):
        for height in (1, 2, 4, 100):
            attempt(f'syn broken {rng} {height}',
                    lambda r=rng, h=height, t=hit: describe(t, t.danger_space(Distance.Inch(r), Distance.Inch(h))))
    lone = HitResult(shot, [row(0, 0)._replace(target_drop=None)], True)
    attempt('syn lone broken', lambda: describe(lone, lone.danger_space(Distance.Inch(0), Distance.Inch(1))))
    print('DangerSpace fields', DangerSpace._fields)


if __name__ == '__main__':
    synthetic_cases(computed_cases())
