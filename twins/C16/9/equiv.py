"""Digest of danger-space / row-lookup behaviour through the public API.

Prints the same text on the clean worktree and with the patch applied.
Run:  cd <checkout> && PYTHONPATH=<checkout> /venv/bin/python equiv.py
"""
import hashlib
import warnings

warnings.simplefilter('ignore')  # the "pure python mode" notice quotes the checkout path

from py_ballisticcalc import (Ammo, Angular, Calculator, Distance, DragModel, HitResult, PreferredUnits, Shot,
                              TableG1, TableG7, Temperature, TrajectoryData, Unit, Velocity, Weapon, Weight, Energy,
                              Wind)

PreferredUnits.defaults()
out = []


def emit(*parts):
    out.append(' '.join(str(p) for p in parts))


def pos(hit, row):
    """index of the row object in the trajectory (identity, not equality)"""
    for i, r in enumerate(hit.trajectory):
        if r is row:
            return i
    return None


def digest(tag, hit, at_range, height, look_angle=None):
    try:
        if look_angle is None:
            ds = hit.danger_space(at_range, height)
        else:
            ds = hit.danger_space(at_range, height, look_angle)
    except Exception as exc:  # pylint: disable=broad-except
        emit(tag, 'EXC', type(exc).__name__, str(exc))
        return None
    b, c, e = pos(hit, ds.begin), pos(hit, ds.at_range), pos(hit, ds.end)
    emit(tag, 'rows', b, c, e,
         'dist', repr(ds.begin.distance.raw_value), repr(ds.at_range.distance.raw_value),
         repr(ds.end.distance.raw_value),
         'drop', repr(ds.begin.target_drop.raw_value), repr(ds.at_range.target_drop.raw_value),
         repr(ds.end.target_drop.raw_value),
         'h', repr(ds.target_height.raw_value), ds.target_height.units,
         'la', repr(ds.look_angle.raw_value), ds.look_angle.units,
         'len', len(ds), '|', str(ds))
    return b, c, e


def make_shot(bc, table, mv, weight, diameter, length, look_deg=0.0, rel_deg=0.0, wind=None):
    dm = DragModel(bc, table, weight, diameter, Distance.Inch(length))
    ammo = Ammo(dm, Velocity.FPS(mv), Temperature.Celsius(15))
    return Shot(weapon=Weapon(sight_height=Distance.Inch(2)), ammo=ammo,
                look_angle=Angular.Degree(look_deg), relative_angle=Angular.Degree(rel_deg),
                winds=wind or [])


calc = Calculator()

# --- 1. flat .308, level sight line (the configuration of the test-suite), 2-yard recording step
shot = make_shot(0.223, TableG7, 2750, 168, 0.308, 1.282, wind=[Wind(2, 90)])
calc.set_weapon_zero(shot, Distance.Foot(300))
flat = calc.fire(shot, trajectory_range=Distance.Yard(1000), trajectory_step=Distance.Yard(2), extra_data=True)
emit('flat rows', len(flat.trajectory))
for rng in (0, 0.0, 1, 50, 99.9, 100, 100.1, 350, 500, 777.7, 999, 1000):
    prev = None
    for h in (0, 1e-9, 0.5, 2, 10, 59.06, 200, 1e6):
        got = digest(f'flat r={rng} h={h}', flat, Distance.Yard(rng), Distance.Inch(h), Angular.Degree(0))
        if got and prev:
            emit('  monotone', got[0] <= prev[0] and got[2] >= prev[2])
        prev = got or prev
# plain numbers are taken in the preferred units; look angle defaults to the shot's
digest('flat floats', flat, 500, 10)
digest('flat float+mil', flat, 500.0, 10.0, 3)
digest('flat metric', flat, Distance.Meter(400), Distance.Centimeter(45), Angular.Mil(1))
# odd heights
for h in (-1, -0.0, float('nan'), float('inf'), -float('inf')):
    digest(f'flat odd h={h}', flat, Distance.Yard(500), Distance.Inch(h))
# beyond the trajectory / odd ranges
for rng in (1000.5, 1001, 5000, float('inf'), float('nan'), -5):
    digest(f'flat far r={rng}', flat, Distance.Yard(rng), Distance.Inch(10))
# the argument object is converted in place to the preferred unit
arg_r, arg_h = Distance.Meter(300), Distance.Centimeter(30)
digest('flat argobj', flat, arg_r, arg_h)
emit('argobj units', arg_r.units, arg_h.units, repr(arg_r.raw_value), repr(arg_h.raw_value))

# --- 2. arcing trajectory (slow heavy bullet lobbed at 8 degrees), rising and falling branch, coarse and fine steps
lob = make_shot(0.3, TableG1, 900, 300, 0.458, 1.2, rel_deg=8.0)
for step in (1, 25):
    arc = calc.fire(lob, trajectory_range=Distance.Yard(1200), trajectory_step=Distance.Yard(step), extra_data=True)
    emit('arc rows', step, len(arc.trajectory))
    for rng in (0, 30, 200, 450, 600, 650, 900, 1150, 1200, 1300):
        for h in (1, 20, 100, 1000, 5000):
            digest(f'arc s={step} r={rng} h={h}', arc, Distance.Yard(rng), Distance.Inch(h))

# --- 3. inclined sight lines, up and down
for look in (25.0, -15.0):
    inc = make_shot(0.223, TableG7, 2750, 168, 0.308, 1.282, look_deg=look, wind=[Wind(5, 45)])
    calc.set_weapon_zero(inc, Distance.Yard(200))
    hit = calc.fire(inc, trajectory_range=Distance.Yard(800), trajectory_step=Distance.Yard(10), extra_data=True)
    emit('inc rows', look, len(hit.trajectory))
    for rng in (0, 100, 200, 400, 799, 800):
        for h in (3, 18, 72):
            digest(f'inc la={look} r={rng} h={h}', hit, Distance.Yard(rng), Distance.Inch(h))
    digest(f'inc la={look} explicit', hit, Distance.Yard(400), Distance.Inch(18), Angular.Degree(5))

# --- 4. no extra data -> AttributeError before anything else
plain = calc.fire(shot, trajectory_range=Distance.Yard(300), trajectory_step=Distance.Yard(100))
try:
    plain.danger_space(Distance.Yard(100), Distance.Inch(10))
except AttributeError as exc:
    emit('plain EXC AttributeError', str(exc).split(' has no extra data')[1])
try:
    plain.danger_space(Distance.Yard(5000), 'tall')
except AttributeError as exc:
    emit('plain2 EXC AttributeError', str(exc).split(' has no extra data')[1])

# --- 5. row lookup helpers on real results
for d in (Distance.Yard(0), Distance.Yard(-1), Distance.Yard(99.99), Distance.Yard(100), Distance.Meter(500),
          Distance.Yard(1000), Distance.Yard(1000.01), Distance.Yard(float('nan')), 3600.0, 1, -3.5):
    idx = flat.index_at_distance(d)
    try:
        row = flat.get_at_distance(d)
        emit('lookup', d, idx, pos(flat, row), repr(row.distance.raw_value), repr(row.time))
    except ArithmeticError as exc:
        emit('lookup', d, idx, 'EXC', type(exc).__name__, str(exc))
emit('plain lookup', plain.index_at_distance(Distance.Yard(150)), plain.index_at_distance(Distance.Yard(301)),
     repr(plain.get_at_distance(Distance.Yard(150)).distance.raw_value))


# --- 6. hand-made trajectories: edge cases of the scans
def row(dist_in, drop_in, t=0.0):
    return TrajectoryData(t, Distance.Inch(dist_in), Velocity.FPS(1000), 0.9, Distance.Inch(drop_in),
                          Distance.Inch(drop_in), Angular.Mil(0), Distance.Inch(0), Angular.Mil(0),
                          Distance.Inch(dist_in), Angular.Degree(0), 1.0, 0.3, Energy.FootPound(100),
                          Weight.Pound(10), 8)


nan, inf = float('nan'), float('inf')
cases = {
    'single': [(0, 0.0)],
    'two': [(0, 0.0), (36, -1.0)],
    'const': [(i * 36, 2.5) for i in range(6)],
    'ramp': [(i * 36, -float(i)) for i in range(9)],
    'hump': [(i * 36, -0.25 * (i - 5) ** 2) for i in range(11)],
    'nan-drops': [(0, 0.0), (36, nan), (72, 1.0), (108, 1.5), (144, nan), (180, 9.0), (216, 0.0)],
    'inf-drops': [(0, -inf), (36, 0.0), (72, 1.0), (108, inf), (144, inf), (180, 0.0)],
    'ints': [(0, 0), (36, 3), (72, 4), (108, 5), (144, 9), (180, 10 ** 30)],
    'zigzag': [(i * 36, (-1.0) ** i * i) for i in range(10)],
    'dup-dist': [(0, 0.0), (36, 1.0), (36, 2.0), (36, 3.0), (72, 4.0), (72, 9.0), (108, 0.0)],
    'unsorted': [(0, 0.0), (72, 1.0), (36, 2.0), (108, 3.0), (72, 8.0), (144, 3.5)],
    'exact-half': [(0, 0.0), (36, 1.0), (72, 2.0), (108, 3.0), (144, 4.0)],
    'signed-zero': [(0, -0.0), (36, 0.0), (72, -0.0)],
    # rows whose drop cannot be compared with a float drop (OverflowError) - only matters if a scan reaches them
    'huge-int': [(0, 10 ** 310), (36, 50.0), (72, 0.0), (108, 0.1), (144, 60.0), (180, 10 ** 310)],
}
shot0 = make_shot(0.3, TableG1, 1000, 200, 0.4, 1.0)
for name, pts in cases.items():
    hit = HitResult(shot0, [row(d, y) for d, y in pts], True)
    emit('case', name, len(hit.trajectory))
    for d, _ in sorted(set(pts), key=lambda p: p[0]):
        for h in (0, 1, 2, 2.000001, 4, 6, 1e300, -3, nan):
            digest(f'{name} d={d} h={h}', hit, Distance.Inch(d), Distance.Inch(h))
    digest(f'{name} between', hit, Distance.Inch(50), Distance.Inch(2))
    digest(f'{name} beyond', hit, Distance.Inch(10000), Distance.Inch(2))
    emit(name, 'idx', [hit.index_at_distance(Distance.Inch(x)) for x in (-1, 0, 35.9, 36, 36.1, 72, 109, 999)])

empty = HitResult(shot0, [], True)
digest('empty', empty, Distance.Inch(0), Distance.Inch(2))
emit('empty idx', empty.index_at_distance(Distance.Inch(0)))
try:
    empty.get_at_distance(Distance.Inch(0))
except ArithmeticError as exc:
    emit('empty get EXC', str(exc))
# tuple instead of list as the row container
tup = HitResult(shot0, tuple(row(i * 36, -float(i * i)) for i in range(7)), True)
for d in (0, 108, 216):
    digest(f'tuple d={d}', tup, Distance.Inch(d), Distance.Inch(10))

# --- 7. other preferred units; an over-large integer height fails in the halving, before the range check
PreferredUnits.distance = Unit.Meter
PreferredUnits.target_height = Unit.Centimeter
PreferredUnits.drop = Unit.Centimeter
try:
    digest('pref metric', flat, 450, 50)
    digest('pref metric far', flat, 4500, 50)
    digest('pref big int', flat, 4500, Distance.Inch(10 ** 400))
    digest('pref bad type', flat, 'x', 50)
finally:
    PreferredUnits.defaults()

# --- 8. same call twice gives the same rows (no state kept between calls)
emit('repeat', digest('rep1', flat, Distance.Yard(500), Distance.Inch(10)) ==
     digest('rep2', flat, Distance.Yard(500), Distance.Inch(10)))

text = '\n'.join(out)
print(text)
print('lines', len(out), 'sha256', hashlib.sha256(text.encode()).hexdigest())
