"""Equivalence digest for HitResult.danger_space / index_at_distance / get_at_distance.

Prints a deterministic text; it must be identical on the clean worktree and with the patch.
"""
import hashlib
import math

from py_ballisticcalc import (Ammo, Angular, Calculator, Distance, DragModel, HitResult, Shot, TableG1, TableG7,
                              Temperature, TrajectoryData, TrajFlag, Unit, Velocity, Weapon, Wind, Energy, Weight,
                              PreferredUnits)

LINES = []


def out(*parts):
    LINES.append(' '.join(str(p) for p in parts))


def ident(hit, row):
    """position of the very object `row` in hit.trajectory (identity, not equality)"""
    for i, r in enumerate(hit.trajectory):
        if r is row:
            return i
    return None


def describe(hit, ds):
    return (ident(hit, ds.at_range), ident(hit, ds.begin), ident(hit, ds.end),
            repr(ds.at_range.distance.raw_value), repr(ds.begin.distance.raw_value),
            repr(ds.end.distance.raw_value), repr(ds.begin.target_drop.raw_value),
            repr(ds.end.target_drop.raw_value), repr(ds.target_height.raw_value), ds.target_height.units,
            repr(ds.look_angle.raw_value), ds.look_angle.units, str(ds))


def probe(tag, hit, at_range, height, look_angle=None, use_kw=False):
    try:
        if look_angle is None and not use_kw:
            ds = hit.danger_space(at_range, height)
        else:
            ds = hit.danger_space(at_range, height, look_angle)
        out(tag, 'OK', *describe(hit, ds))
    except Exception as err:  # pylint: disable=broad-except
        out(tag, 'EXC', type(err).__name__, str(err).replace(object.__repr__(hit), '<hit>'))
    # side effects of the call on the arguments (unit conversion happens in place)
    for arg in (at_range, height, look_angle):
        if hasattr(arg, 'units'):
            out(tag, 'arg', type(arg).__name__, arg.units, repr(arg.raw_value))


def make_shot(look_deg=0.0, rel_deg=None, g1=False):
    if g1:
        dm = DragModel(0.25, TableG1, 55, 0.224, Distance.Inch(0.9))
        ammo = Ammo(dm, Velocity.FPS(3100), Temperature.Celsius(15))
    else:
        dm = DragModel(0.223, TableG7, 168, 0.308, Distance.Inch(1.282))
        ammo = Ammo(dm, Velocity.FPS(2750), Temperature.Celsius(15))
        ammo.calc_powder_sens(2723, 0)
    return Shot(weapon=Weapon(sight_height=Distance.Inch(2)), ammo=ammo,
                look_angle=Angular.Degree(look_deg),
                relative_angle=None if rel_deg is None else Angular.Degree(rel_deg),
                winds=[Wind(2, 90)])


def computed_cases():
    calc = Calculator()

    # 1. flat, zeroed .308, fine recording step (the case of the test-suite)
    shot = make_shot()
    calc.set_weapon_zero(shot, Distance.Foot(300))
    hit = calc.fire(shot, trajectory_range=Distance.Yard(1000), trajectory_step=Distance.Yard(1), extra_data=True)
    out('flat rows', len(hit.trajectory))
    for rng in (0, 1, 50, 100, 300, 500, 777.7, 999, 1000, 1000.5, 1001, 2000):
        for h in (Distance.Inch(0), Distance.Inch(10), Distance.Meter(1.5), Distance.Meter(50)):
            probe(f'flat r={rng} h={h.raw_value!r}', hit, Distance.Yard(rng), h, Angular.Degree(0))
    # monotonic in the height
    prev = None
    for inches in (0, 1, 2, 5, 10, 20, 40, 80, 160, 1000, 100000):
        ds = hit.danger_space(Distance.Yard(400), Distance.Inch(inches))
        cur = (ident(hit, ds.begin), ident(hit, ds.end))
        out('flat mono', inches, cur, prev is None or (cur[0] <= prev[0] and cur[1] >= prev[1]))
        prev = cur
    # plain numbers as arguments, default look angle (shot's), explicit number look angle
    probe('flat numbers', hit, 500, 20)
    probe('flat numbers+angle', hit, 500.0, 20.5, 3)
    probe('flat negative range', hit, Distance.Yard(-5), Distance.Inch(10))
    probe('flat negative height', hit, Distance.Yard(500), Distance.Inch(-10))
    probe('flat nan height', hit, Distance.Yard(500), Distance.Inch(math.nan))
    probe('flat nan range', hit, Distance.Yard(math.nan), Distance.Inch(10))
    probe('flat inf height', hit, Distance.Yard(500), Distance.Inch(math.inf))
    # index_at_distance / get_at_distance directly
    for rng in (-1, 0, 0.5, 1, 499.99, 500, 1000, 1000.01, math.inf, math.nan):
        d = Distance.Yard(rng)
        i = hit.index_at_distance(d)
        try:
            row = hit.get_at_distance(d)
            out('flat idx', rng, i, ident(hit, row), repr(row.distance.raw_value))
        except Exception as err:  # pylint: disable=broad-except
            out('flat idx', rng, i, 'EXC', type(err).__name__, err)
    out('flat idx float', hit.index_at_distance(18000.0), hit.index_at_distance(36000))

    # 2. arcing trajectory (rising and falling branch), coarse step, inclined sight line
    shot = make_shot(look_deg=5.0, rel_deg=2.0, g1=True)
    hit = calc.fire(shot, trajectory_range=Distance.Meter(1500), trajectory_step=Distance.Meter(25), extra_data=True)
    out('arc rows', len(hit.trajectory))
    for rng in (0, 10, 200, 600, 900, 1200, 1499, 1500, 1600):
        for h in (Distance.Centimeter(5), Distance.Meter(0.5), Distance.Meter(2), Distance.Meter(30)):
            probe(f'arc r={rng} h={h.raw_value!r}', hit, Distance.Meter(rng), h)
            probe(f'arc+angle r={rng} h={h.raw_value!r}', hit, Distance.Meter(rng), h, Angular.Mil(40))

    # 3. steep downhill shot, short trajectory, tiny step
    shot = make_shot(look_deg=-20.0)
    calc.set_weapon_zero(shot, Distance.Meter(100))
    hit = calc.fire(shot, trajectory_range=Distance.Meter(300), trajectory_step=Distance.Meter(0.5), extra_data=True)
    out('down rows', len(hit.trajectory))
    for rng in (0, 0.25, 99, 100, 101, 250, 299.9, 300, 301):
        for h in (Distance.Millimeter(1), Distance.Inch(4), Distance.Meter(1)):
            probe(f'down r={rng} h={h.raw_value!r}', hit, Distance.Meter(rng), h)

    # 4. no extra data -> AttributeError, whatever the range
    hit = calc.fire(make_shot(), trajectory_range=Distance.Yard(300), trajectory_step=Distance.Yard(100))
    probe('noextra', hit, Distance.Yard(100), Distance.Inch(10))
    probe('noextra beyond', hit, Distance.Yard(1000), Distance.Inch(10), Angular.Degree(1))
    out('noextra idx', hit.index_at_distance(Distance.Yard(150)), hit.index_at_distance(Distance.Yard(301)))


def row(dist_in, drop_in):
    return TrajectoryData(
        time=0.0, distance=Distance.Inch(dist_in), velocity=Velocity.FPS(1000), mach=1.0,
        height=Distance.Inch(drop_in), target_drop=Distance.Inch(drop_in), drop_adj=Angular.Radian(0),
        windage=Distance.Inch(0), windage_adj=Angular.Radian(0), look_distance=Distance.Inch(dist_in),
        angle=Angular.Radian(0), density_factor=1.0, drag=0.1, energy=Energy.FootPound(1),
        ogw=Weight.Pound(1), flag=TrajFlag.RANGE)


def synthetic_cases():
    shot = make_shot(look_deg=1.5)
    tables = {
        'empty': [],
        'single': [(0, 0)],
        'two': [(0, 0), (10, -1)],
        'flatline': [(i * 10, 0.0) for i in range(6)],
        'arc': [(0, -2), (10, 0), (20, 1.5), (30, 2.5), (40, 3), (50, 2.5), (60, 1.5), (70, 0), (80, -2), (90, -5)],
        'reenter': [(0, 0), (10, 5), (20, 0), (30, 0), (40, 0), (50, -5), (60, 0), (70, 5)],
        'dupdist': [(0, 0), (10, 1), (10, 2), (10, 3), (20, 4), (20, 9), (30, 4)],
        'nonmono': [(0, 0), (30, 1), (10, 2), (40, 3), (20, 4), (50, 5)],
        'nan': [(0, 0), (10, math.nan), (20, 1), (30, math.nan), (40, 2), (50, 30)],
        'inf': [(0, -math.inf), (10, 0), (20, 1), (30, math.inf), (40, math.inf)],
        'exact': [(0, 0.0), (10, 0.5), (20, 1.0), (30, 1.5), (40, 2.0), (50, 2.5), (60, 3.0)],
        'ints': [(0, 0), (10, 1), (20, 2), (30, 3), (40, 4)],
    }
    for name, spec in tables.items():
        rows = [row(d, y) for d, y in spec]
        snapshot = list(rows)
        for extra in (True, False):
            hit = HitResult(shot, rows, extra)
            for rng in (-5, 0, 5, 10, 20, 25, 30, 40, 45, 60, 90, 95, math.nan):
                for h in (0, 1, 2, 3, 4.0, 10, 1000, math.nan, -1):
                    if not extra and (rng not in (0, 95) or h != 1):
                        continue
                    probe(f'syn {name} x={extra} r={rng} h={h}', hit, Distance.Inch(rng), Distance.Inch(h))
            out(f'syn {name} idx', [hit.index_at_distance(Distance.Inch(r)) for r in (-1, 0, 10, 15, 45, 90, 91)])
        # the row list itself is left alone
        out(f'syn {name} untouched', len(rows) == len(snapshot) and all(a is b for a, b in zip(rows, snapshot)))

    # look angle handling: None -> the shot's own object, otherwise converted in place to the preferred unit
    hit = HitResult(shot, [row(d, y) for d, y in tables['arc']], True)
    ds = hit.danger_space(Distance.Inch(40), Distance.Inch(2))
    out('look default is shot.look_angle', ds.look_angle is shot.look_angle)
    ang = Angular.Mil(7)
    ds = hit.danger_space(Distance.Inch(40), Distance.Inch(2), ang)
    out('look explicit same object', ds.look_angle is ang, ang.units)
    ang = Angular.Mil(9)
    probe('beyond with angle', hit, Distance.Inch(1000), Distance.Foot(1), ang)
    out('beyond angle units', ang.units)
    ds = hit.danger_space(Distance.Inch(40), Distance.Inch(2), 0)
    out('look zero number', repr(ds.look_angle.raw_value), ds.look_angle.units, str(ds))

    # preferred units changed by the caller
    PreferredUnits.distance = Unit.Meter
    PreferredUnits.target_height = Unit.Centimeter
    PreferredUnits.angular = Unit.Mil
    PreferredUnits.drop = Unit.Centimeter
    try:
        probe('pref numbers', hit, 1.0, 5.0, 2.0)
        probe('pref units', hit, Distance.Inch(40), Distance.Inch(2), Angular.Degree(1))
        probe('pref beyond', hit, 100, 5)
    finally:
        PreferredUnits.defaults()


def exhaustive_short_tables():
    """every table of 1..5 rows with drops from a small alphabet, every target row, several heights:
    the first / last row is the bound both when it is outside the band and when it is inside"""
    import itertools
    shot = make_shot()
    alphabet = (0.0, 1.0, -1.0, 5.0, math.nan)
    heights = (0, 2, 2.5, 10, 11)
    digest = hashlib.sha256()
    count = 0
    for n in range(1, 6):
        for drops in itertools.product(alphabet, repeat=n):
            rows = [row(10 * i, y) for i, y in enumerate(drops)]
            hit = HitResult(shot, rows, True)
            for i in range(n):
                for h in heights:
                    ds = hit.danger_space(Distance.Inch(10 * i), Distance.Inch(h))
                    res = (ident(hit, ds.at_range), ident(hit, ds.begin), ident(hit, ds.end))
                    digest.update(repr((drops, i, h, res)).encode())
                    count += 1
                    if n <= 2:
                        out('short', drops, i, h, res)
    out('short tables', count, digest.hexdigest())


computed_cases()
synthetic_cases()
exhaustive_short_tables()
text = '\n'.join(LINES)
print(text)
print('LINES', len(LINES), 'SHA256', hashlib.sha256(text.encode()).hexdigest())
