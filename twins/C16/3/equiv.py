"""Equivalence digest for danger_space / index_at_distance / get_at_distance.

Prints a deterministic text; must be identical on the clean worktree and with the patch applied.
Run:  cd /tmp/wt/T16 && PYTHONPATH=/tmp/wt/T16 /venv/bin/python <this file>
"""
import hashlib
import math

from py_ballisticcalc import (Ammo, Angular, Calculator, Distance, DragModel, Shot, TableG1, TableG7,
                              Velocity, Weapon, Wind, Temperature, Unit)
from py_ballisticcalc.trajectory_data import DangerSpace, HitResult, TrajectoryData, TrajFlag
from py_ballisticcalc.unit import Energy, Weight

LINES = []


def out(*parts):
    LINES.append(' '.join(str(p) for p in parts))


def idx_of(result, row):
    """index of the row object in the trajectory (by identity)"""
    for i, r in enumerate(result.trajectory):
        if r is row:
            return i
    return None


def describe(result, ds):
    assert isinstance(ds, DangerSpace)
    return (idx_of(result, ds.at_range), idx_of(result, ds.begin), idx_of(result, ds.end),
            repr(ds.at_range.distance.raw_value), repr(ds.begin.distance.raw_value),
            repr(ds.end.distance.raw_value), repr(ds.target_height.raw_value), ds.target_height.units,
            repr(ds.look_angle.raw_value), ds.look_angle.units, str(ds))


def try_ds(tag, result, *args, **kwargs):
    try:
        ds = result.danger_space(*args, **kwargs)
    except Exception as exc:  # pylint: disable=broad-except
        out(tag, 'EXC', type(exc).__name__, str(exc).replace(object.__repr__(result), '<obj>'))
    else:
        out(tag, *describe(result, ds))


def try_idx(tag, result, d):
    try:
        i = result.index_at_distance(d)
    except Exception as exc:  # pylint: disable=broad-except
        out(tag, 'index EXC', type(exc).__name__, str(exc))
    else:
        out(tag, 'index', repr(i), type(i).__name__)
    try:
        row = result.get_at_distance(d)
    except Exception as exc:  # pylint: disable=broad-except
        out(tag, 'get EXC', type(exc).__name__, str(exc))
    else:
        out(tag, 'get', idx_of(result, row), repr(row.distance.raw_value))


# ---------------------------------------------------------------- real trajectories
def make_shot(look_deg=0.0, rel_deg=None, g1=False):
    if g1:
        dm = DragModel(0.45, TableG1, 150, 0.308, Distance.Inch(1.1))
        ammo = Ammo(dm, Velocity.MPS(800), Temperature.Celsius(15))
    else:
        dm = DragModel(0.223, TableG7, 168, 0.308, Distance.Inch(1.282))
        ammo = Ammo(dm, Velocity.FPS(2750), Temperature.Celsius(15))
    kwargs = {}
    if rel_deg is not None:
        kwargs['relative_angle'] = Angular.Degree(rel_deg)
    return Shot(weapon=Weapon(Distance.Inch(2), 12), ammo=ammo, look_angle=Angular.Degree(look_deg),
                winds=[Wind(2, 90)], **kwargs)


calc = Calculator()

scenarios = []

# flat, level, fine step (as in the unit test)
shot = make_shot()
calc.set_weapon_zero(shot, Distance.Foot(300))
scenarios.append(('flat1yd', calc.fire(shot, Distance.Yard(1000), Distance.Yard(1), extra_data=True)))
# same, coarse step
scenarios.append(('flat100yd', calc.fire(shot, Distance.Yard(1000), Distance.Yard(100), extra_data=True)))
# inclined sight line
shot = make_shot(look_deg=12.0)
calc.set_weapon_zero(shot, Distance.Meter(200))
scenarios.append(('incl12', calc.fire(shot, Distance.Meter(900), Distance.Meter(25), extra_data=True)))
# downhill
shot = make_shot(look_deg=-8.0, g1=True)
calc.set_weapon_zero(shot, Distance.Meter(100))
scenarios.append(('down8', calc.fire(shot, Distance.Meter(600), Distance.Meter(10), extra_data=True)))
# arcing: zero far away so the target ranges cover rising and falling branch
shot = make_shot(g1=True)
calc.set_weapon_zero(shot, Distance.Meter(700))
scenarios.append(('arc700', calc.fire(shot, Distance.Meter(1000), Distance.Meter(50), extra_data=True)))
# strongly arcing: big relative angle
shot = make_shot(rel_deg=3.0)
calc.set_weapon_zero(shot, Distance.Meter(100))
scenarios.append(('arc3deg', calc.fire(shot, Distance.Meter(1500), Distance.Meter(100), extra_data=True)))
scenarios.append(('arc3fine', calc.fire(shot, Distance.Meter(1500), Distance.Meter(5), extra_data=True)))

for name, res in scenarios:
    n = len(res.trajectory)
    last = res.trajectory[-1].distance
    out('##', name, 'rows', n, 'last', repr(last.raw_value),
        'flags', sorted({r.flag for r in res.trajectory}))
    fractions = (0.0, 0.013, 0.1, 0.25, 0.37, 0.5, 0.62, 0.75, 0.9, 0.999, 1.0)
    heights = (Distance.Inch(0), Distance.Inch(0.5), Distance.Inch(10), Distance.Meter(0.5), Distance.Meter(1.5),
               Distance.Meter(5), Distance.Meter(100000), 18, 36.5)
    for f in fractions:
        rng = Distance.Inch(last.raw_value * f)
        for h in heights:
            try_ds(f'{name} f={f} h={h}', res, rng, h)
    # look angle forms
    mid = Distance.Inch(last.raw_value * 0.5)
    try_ds(f'{name} la=None', res, mid, Distance.Inch(20), None)
    try_ds(f'{name} la=5deg', res, mid, Distance.Inch(20), Angular.Degree(5))
    try_ds(f'{name} la=float', res, mid, Distance.Inch(20), 0.25)
    try_ds(f'{name} la=0', res, mid, Distance.Inch(20), 0)
    try_ds(f'{name} la kw', res, at_range=mid, target_height=Distance.Inch(20), look_angle=Angular.Mil(3))
    # float range (preferred units), exact row distances and just beside them
    try_ds(f'{name} float range', res, 300.0, 30.0)
    for k in (0, 1, n // 3, n // 2, n - 2, n - 1):
        d = res.trajectory[k].distance
        try_ds(f'{name} exact row {k}', res, d, Distance.Inch(12))
        try_ds(f'{name} below row {k}', res, Distance.Inch(math.nextafter(d.raw_value, -math.inf)), Distance.Inch(12))
        try_ds(f'{name} above row {k}', res, Distance.Inch(math.nextafter(d.raw_value, math.inf)), Distance.Inch(12))
        try_idx(f'{name} idx row {k}', res, d)
        try_idx(f'{name} idx above row {k}', res, Distance.Inch(math.nextafter(d.raw_value, math.inf)))
    # beyond the trajectory / negative / odd values
    try_ds(f'{name} beyond', res, Distance.Inch(last.raw_value * 1.5), Distance.Inch(10))
    try_ds(f'{name} negative range', res, Distance.Yard(-5), Distance.Inch(10))
    try_ds(f'{name} negative height', res, mid, Distance.Inch(-10))
    try_ds(f'{name} nan height', res, mid, Distance.Inch(math.nan))
    try_ds(f'{name} inf height', res, mid, Distance.Inch(math.inf))
    try_ds(f'{name} nan range', res, Distance.Inch(math.nan), Distance.Inch(10))
    try_ds(f'{name} inf range', res, Distance.Inch(math.inf), Distance.Inch(10))
    try_idx(f'{name} idx beyond', res, Distance.Inch(last.raw_value * 1.5))
    try_idx(f'{name} idx float', res, 1234.5)
    try_idx(f'{name} idx int', res, 0)
    try_idx(f'{name} idx nan', res, math.nan)
    try_idx(f'{name} idx str', res, 'abc')
    # monotonicity of the danger space in the target height (property statement)
    for f in (0.2, 0.5, 0.8):
        rng = Distance.Inch(last.raw_value * f)
        spans = []
        for hh in (0, 1, 2, 5, 10, 20, 50, 100, 1000, 100000):
            ds = res.danger_space(rng, Distance.Inch(hh))
            spans.append((idx_of(res, ds.begin), idx_of(res, ds.end)))
        out(name, 'spans', f, spans)

# ---------------------------------------------------------------- no extra data
shot = make_shot()
calc.set_weapon_zero(shot, Distance.Foot(300))
plain = calc.fire(shot, Distance.Yard(500), Distance.Yard(50))
try_ds('plain', plain, Distance.Yard(200), Distance.Inch(10))
try_ds('plain beyond', plain, Distance.Yard(2000), Distance.Inch(10))
try_idx('plain idx', plain, Distance.Yard(200))
try_idx('plain idx beyond', plain, Distance.Yard(2000))


# ---------------------------------------------------------------- synthetic trajectories
def row(dist_in, drop_in, flag=TrajFlag.RANGE):
    z = Distance.Inch(0)
    return TrajectoryData(time=dist_in / 1000.0, distance=Distance.Inch(dist_in), velocity=Velocity.FPS(1000),
                          mach=1.0, height=Distance.Inch(drop_in), target_drop=Distance.Inch(drop_in),
                          drop_adj=Angular.Radian(0), windage=z, windage_adj=Angular.Radian(0),
                          look_distance=Distance.Inch(dist_in), angle=Angular.Radian(0), density_factor=0.0,
                          drag=0.1, energy=Energy.FootPound(1), ogw=Weight.Pound(1), flag=flag)


def synth(name, pairs, container=list):
    return name, HitResult(make_shot(look_deg=1.5), container(row(d, y) for d, y in pairs), True)


synthetic = [
    synth('single', [(0, -2)]),
    synth('two', [(0, -2), (100, 3)]),
    synth('flatline', [(i * 10, 0.0) for i in range(12)]),
    synth('zigzag', [(0, 0), (10, 4), (20, -4), (30, 1), (40, 0.5), (50, 1.5), (60, 7), (70, 1), (80, -9), (90, 1)]),
    synth('equal_at_half', [(0, 5.0), (10, 0.0), (20, 2.5), (30, 0.0), (40, -2.5), (50, 0.0), (60, 5.0)]),
    synth('dupdist', [(0, 0), (10, 1), (10, 2), (10, 30), (20, 3), (20, 4), (30, -50)]),
    synth('nonmono', [(0, 0), (30, 1), (20, 2), (40, 8), (10, 3), (50, 4)]),
    synth('nandrop', [(0, 0), (10, math.nan), (20, 1), (30, math.nan), (40, 2), (50, 100)]),
    synth('infdrop', [(0, -math.inf), (10, 0), (20, 1), (30, math.inf), (40, math.inf)]),
    synth('tuplerows', [(0, 0), (10, 4), (20, -4), (30, 1), (40, 0.5), (50, 10)], container=tuple),
    ('empty', HitResult(make_shot(), [], True)),
    ('synth_noextra', HitResult(make_shot(), [row(0, 0), row(10, 1)], False)),
]
for name, res in synthetic:
    n = len(res.trajectory)
    out('##', name, 'rows', n)
    ranges = [-1.0, 0.0, 5.0, 10.0, 15.0, 20.0, 25.0, 30.0, 35.0, 40.0, 45.0, 50.0, 60.0, 70.0, 80.0, 90.0, 100.0,
              110.0, math.nan, math.inf, -math.inf]
    hts = [0.0, 1.0, 2.0, 5.0, 5.000000000000001, 4.999999999999999, 8.0, 10.0, 16.0, 20.0, 1e9, -1.0,
           math.nan, math.inf]
    for r in ranges:
        try_idx(f'{name} idx {r}', res, Distance.Inch(r))
        for h in hts:
            try_ds(f'{name} r={r} h={h}', res, Distance.Inch(r), Distance.Inch(h))
    try_ds(f'{name} units', res, Distance.Foot(2), Distance.Centimeter(12), Angular.MOA(30))
    try_ds(f'{name} floats', res, 0.01, 3)
    try_idx(f'{name} idx raw float', res, 25.0)
    try_idx(f'{name} idx other dim', res, Angular.Radian(15))


# ---------------------------------------------------------------- call structure: overriding index_at_distance is honoured
class Shifted(HitResult):
    """index_at_distance is public API; get_at_distance and danger_space go through it"""

    def index_at_distance(self, d):
        i = super().index_at_distance(d)
        return i if i < 0 else min(i + 1, len(self.trajectory) - 1)


base = dict(synthetic)['zigzag']
shifted = Shifted(base.shot, base.trajectory, True)
for r in (-1.0, 0.0, 15.0, 45.0, 85.0, 90.0, 95.0):
    try_idx(f'shifted idx {r}', shifted, Distance.Inch(r))
    for h in (0.0, 2.0, 8.0, 1e9):
        try_ds(f'shifted r={r} h={h}', shifted, Distance.Inch(r), Distance.Inch(h))
# bad look angle type is reported before the range check, bad range type before both
try_ds('bad look angle, beyond', base, Distance.Inch(1e9), Distance.Inch(2), 'steep')
try_ds('bad look angle, within', base, Distance.Inch(15), Distance.Inch(2), 'steep')
try_ds('bad range', base, 'far', Distance.Inch(2), 'steep')
try_ds('bad height', base, Distance.Inch(15), 'tall', 'steep')

text = '\n'.join(LINES)
print(text)
print('LINES', len(LINES))
print('SHA256', hashlib.sha256(text.encode()).hexdigest())
