"""Deterministic digest of HitResult.danger_space / index_at_distance / get_at_distance.

Run:  cd /tmp/wt/C16 && PYTHONPATH=/tmp/wt/C16 /venv/bin/python <this file>
Must print exactly the same text on the clean worktree and with the patch applied.
"""
import re

from py_ballisticcalc import (Ammo, Angular, Calculator, Distance, DragModel, HitResult, Shot, TableG1, TableG7,
                              Temperature, TrajectoryData, Velocity, Weapon, Wind, Energy, Weight)

NAN = float('nan')
INF = float('inf')


def row_id(hit, row):
    """position of the row object in the trajectory (by identity)"""
    for i, r in enumerate(hit.trajectory):
        if r is row:
            return i
    return None


def describe(hit, ds):
    return (row_id(hit, ds.at_range), row_id(hit, ds.begin), row_id(hit, ds.end),
            repr(ds.begin.distance.raw_value), repr(ds.end.distance.raw_value),
            repr(ds.begin.target_drop.raw_value), repr(ds.end.target_drop.raw_value),
            repr(ds.target_height.raw_value), repr(ds.look_angle.raw_value))


def attempt(fn):
    try:
        return fn()
    except Exception as e:  # pylint: disable=broad-except
        return f'{type(e).__name__}: ' + re.sub(r'0x[0-9a-fA-F]+', '0x?', str(e))


def probe(name, hit, ranges, heights, look_angles=(None,)):
    print(f'== {name}: rows={len(hit.trajectory)}')
    for r in ranges:
        print('  index_at_distance', repr(r), attempt(lambda: hit.index_at_distance(r)))
        print('  get_at_distance  ', repr(r),
              attempt(lambda: row_id(hit, hit.get_at_distance(r))))
        for h in heights:
            for la in look_angles:
                def run():
                    ds = hit.danger_space(r, h, la)
                    return describe(hit, ds) + (str(ds),)
                print('  ds', repr(r), repr(h), repr(la), attempt(run))


# ---------------------------------------------------------------- real trajectories
def make_308(look_deg, zero, rng, step, extra=True):
    dm = DragModel(0.223, TableG7, 168, 0.308, Distance.Inch(1.282))
    ammo = Ammo(dm, Velocity.FPS(2750), Temperature.Celsius(15))
    ammo.calc_powder_sens(2723, 0)
    shot = Shot(weapon=Weapon(), ammo=ammo, winds=[Wind(2, 90)], look_angle=Angular.Degree(look_deg))
    calc = Calculator()
    calc.set_weapon_zero(shot, zero)
    return calc.fire(shot, trajectory_range=rng, trajectory_step=step, extra_data=extra)


def make_slow(look_deg, zero, rng, step):
    dm = DragModel(0.15, TableG1, 300, 0.458, Distance.Inch(1.1))
    ammo = Ammo(dm, Velocity.MPS(320), Temperature.Celsius(15))
    shot = Shot(weapon=Weapon(Distance.Centimeter(6), 12), ammo=ammo, look_angle=Angular.Degree(look_deg))
    calc = Calculator()
    calc.set_weapon_zero(shot, zero)
    return calc.fire(shot, trajectory_range=rng, trajectory_step=step, extra_data=True)


HEIGHTS = (Distance.Inch(0), Distance.Inch(1e-9), Distance.Inch(10), Distance.Meter(1.5), Distance.Meter(500),
           Distance.Inch(-3), 7, NAN, INF)

flat = make_308(0, Distance.Foot(300), Distance.Yard(1000), Distance.Yard(10))
last = flat.trajectory[-1].distance
probe('flat .308', flat,
      (Distance.Yard(0), Distance.Yard(-5), Distance.Yard(1), Distance.Yard(55), Distance.Yard(100),
       Distance.Yard(500), Distance.Meter(777.7), 950, last, Distance.Yard(1000.5), Distance.Yard(2000)),
      HEIGHTS, (None, 0, Angular.Degree(3.5)))

arc = make_308(12, Distance.Meter(800), Distance.Meter(900), Distance.Meter(5))
apex = [r for r in arc.trajectory if r.flag & 16] or [max(arc.trajectory, key=lambda r: r.target_drop.raw_value)]
print('apex rows', [row_id(arc, r) for r in apex])
probe('inclined arcing .308', arc,
      (Distance.Meter(0), Distance.Meter(100), Distance.Meter(350), Distance.Meter(400), Distance.Meter(450),
       Distance.Meter(800), Distance.Meter(880), arc.trajectory[-1].distance, Distance.Meter(901)),
      HEIGHTS, (None, Angular.Degree(12)))
if apex:
    probe('inclined arcing .308 at apex', arc, (apex[0].distance,), HEIGHTS)

slow = make_slow(-7, Distance.Meter(250), Distance.Meter(400), Distance.Meter(5))
probe('downhill slow', slow,
      (Distance.Meter(0), Distance.Meter(60), Distance.Meter(125), Distance.Meter(130), Distance.Meter(250),
       Distance.Meter(399), Distance.Meter(400), Distance.Meter(400.01)),
      HEIGHTS)

noextra = make_308(0, Distance.Foot(300), Distance.Yard(300), Distance.Yard(100), extra=False)
probe('no extra data', noextra, (Distance.Yard(100), Distance.Yard(1000)), (Distance.Inch(10),))


# ---------------------------------------------------------------- hand-made tables
def mk_row(dist_in, drop_in, i):
    return TrajectoryData(float(i), Distance.Inch(dist_in), Velocity.FPS(1000), 1.0, Distance.Inch(0),
                          Distance.Inch(drop_in), Angular.Radian(0), Distance.Inch(0), Angular.Radian(0),
                          Distance.Inch(dist_in), Angular.Radian(0), 1.0, 0.3, Energy.FootPound(0),
                          Weight.Pound(0), 8)


def mk_hit(pairs, extra=True):
    rows = [mk_row(d, y, i) for i, (d, y) in enumerate(pairs)]
    return HitResult(flat.shot, rows, extra)


TABLES = {
    'empty': [],
    'single': [(0, 0)],
    'pair': [(0, 0), (10, -4)],
    'threshold exact': [(0, -5), (10, -2.5), (20, -1), (30, 0), (40, -1), (50, -2.5), (60, -7)],
    'all inside': [(0, 0.1), (10, 0.2), (20, 0.0), (30, -0.2), (40, -0.1)],
    'nan and inf drops': [(0, NAN), (10, 0), (20, NAN), (30, 1), (40, NAN), (50, INF), (60, -INF), (70, 2)],
    'centre nan': [(0, 0), (10, 5), (20, NAN), (30, 5), (40, 0)],
    'centre inf': [(0, 0), (10, INF), (20, INF), (30, INF), (40, 0)],
    'reenters band': [(0, 0), (10, 9), (20, 0), (30, 1), (40, 0), (50, -9), (60, 0), (70, 9)],
    'non monotonic distance': [(0, 0), (30, 3), (10, 1), (50, 6), (20, 2), (50, 0), (40, -8)],
    'duplicates': [(0, 0), (10, 1), (10, 5), (10, 1), (20, 0), (20, 9)],
    'neg zero': [(0, -0.0), (10, 0.0), (20, -0.0)],
}
SYN_RANGES = (Distance.Inch(-1), Distance.Inch(0), Distance.Inch(5), Distance.Inch(10), Distance.Inch(20),
              Distance.Inch(25), Distance.Inch(30), Distance.Inch(40), Distance.Inch(50), Distance.Inch(60),
              Distance.Inch(70), Distance.Inch(71), Distance.Inch(NAN))
SYN_HEIGHTS = (Distance.Inch(0), Distance.Inch(-0.0), Distance.Inch(2), Distance.Inch(5), Distance.Inch(18),
               Distance.Inch(1e300), Distance.Inch(-1), Distance.Inch(NAN), Distance.Inch(INF), Distance.Inch(5e-324))
for name, pairs in TABLES.items():
    probe('synthetic ' + name, mk_hit(pairs), SYN_RANGES, SYN_HEIGHTS)
probe('synthetic without extra', mk_hit(TABLES['pair'], extra=False), (Distance.Inch(5),), (Distance.Inch(2),))

# a tuple instead of a list as the row container
tup = HitResult(flat.shot, tuple(mk_row(d, y, i) for i, (d, y) in enumerate(TABLES['reenters band'])), True)
probe('synthetic tuple container', tup, SYN_RANGES, SYN_HEIGHTS)

# bad arguments: which exception comes first
print(attempt(lambda: flat.danger_space('x', Distance.Inch(1))))
print(attempt(lambda: flat.danger_space(Distance.Yard(5000), 'x')))
print(attempt(lambda: flat.danger_space(Distance.Yard(5000), Distance.Inch(1), 'x')))
print(attempt(lambda: flat.danger_space(Distance.Yard(5000), Distance.Inch(1), Angular.Degree(1))))
print(attempt(lambda: flat.danger_space(Distance.Yard(50), Distance.Inch(1), 'x')))
print(attempt(lambda: noextra.danger_space('x', 'y', 'z')))
