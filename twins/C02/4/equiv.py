"""Equivalence digest for C02 / refactoring 1 (zero finder: break-free loop, signed miss computed once).

Prints repr() of everything observable about zeroing: returned elevation, stored zero, the
elevation left on the engine, error attributes, and the row at the zero look-distance of a
follow-up fire().  Must print the same text with and without the patch.
"""
import math
import warnings

from py_ballisticcalc import (Calculator, Shot, Weapon, Ammo, Atmo, Wind, DragModel,
                              TableG1, TableG7, Distance, Angular, Velocity, Unit,
                              RangeError)
from py_ballisticcalc.exceptions import ZeroFindingError

warnings.simplefilter("ignore")


def row_digest(row):
    out = []
    for v in row:
        out.append(repr(v.raw_value) if hasattr(v, "raw_value") else repr(v))
    return "(" + ", ".join(out) + ")"


def make_shot(dm, mv, sight_in, look_deg=0.0, zero_mil=None, rel_mil=None, winds=None, twist=12, alt=0):
    weapon = Weapon(Distance.Inch(sight_in), twist, None if zero_mil is None else Angular.Mil(zero_mil))
    ammo = Ammo(dm, Velocity.FPS(mv))
    return Shot(weapon=weapon, ammo=ammo, look_angle=Angular.Degree(look_deg),
                relative_angle=None if rel_mil is None else Angular.Mil(rel_mil),
                atmo=Atmo.icao(alt), winds=winds)


G1 = DragModel(0.365, TableG1, 69, 0.223, 0.9)
G7 = DragModel(0.223, TableG7, 168, 0.308, 1.282)
G7_HEAVY = DragModel(0.381, TableG7, 300, 0.338, 1.7)


def attempt(label, calc, shot, dist, fire_back=True, store=True):
    before = shot.weapon.zero_elevation.raw_value
    print("==", label)
    try:
        if store:
            ret = calc.set_weapon_zero(shot, dist)
            print("  stored is returned:", ret is shot.weapon.zero_elevation)
        else:
            ret = calc.barrel_elevation_for_target(shot, dist)
        print("  returned", repr(ret.raw_value), ret.units)
    except ZeroFindingError as e:
        print("  ZeroFindingError", repr(e.zero_finding_error), repr(e.iterations_count),
              repr(e.last_barrel_elevation.raw_value), e.last_barrel_elevation.units, str(e))
        fire_back = False
    except RangeError as e:
        print("  RangeError", e.reason, len(e.incomplete_trajectory),
              row_digest(e.incomplete_trajectory[-1]) if e.incomplete_trajectory else None)
        fire_back = False
    except ZeroDivisionError as e:
        print("  ZeroDivisionError", e)
        fire_back = False
    print("  zero before/after", repr(before), repr(shot.weapon.zero_elevation.raw_value))
    print("  engine elevation", repr(calc._calc.barrel_elevation))
    if fire_back:
        d = dist if isinstance(dist, Distance) else Distance.Yard(dist)
        horizontal = Distance.Foot((d >> Distance.Foot) * math.cos(shot.look_angle >> Angular.Radian))
        hit = calc.fire(shot, horizontal, horizontal)
        for r in hit:
            print("  row", row_digest(r))


calc = Calculator()

# plain flat-fire zeros (the two pinned by the test-suite) and a long one
attempt("G1 100yd", calc, make_shot(G1, 2600, 3.2), Distance.Yard(100))
attempt("G7 100yd", calc, make_shot(G7, 2750, 2), Distance.Yard(100))
attempt("G7 heavy 1500m", calc, make_shot(G7_HEAVY, 2800, 3.5), Distance.Meter(1500))
# float distance in preferred units, no store
attempt("G7 float 300 no store", calc, make_shot(G7, 2750, 2), 300, store=False)
# uphill / downhill sight lines, with and without wind
for look in (-45.0, -10.0, 5.0, 30.0, 59.0):
    attempt(f"G7 look {look} 400yd", calc, make_shot(G7, 2750, 2.5, look_deg=look), Distance.Yard(400))
    attempt(f"G7 look {look} 400yd wind", calc,
            make_shot(G7, 2750, 2.5, look_deg=look,
                      winds=[Wind(Velocity.MPH(15), Angular.OClock(2), Distance.Yard(200)),
                             Wind(Velocity.MPH(25), Angular.OClock(10), Distance.Yard(1000))]),
            Distance.Yard(400))
# a previously stored zero and a hold-over: the search starts from there
attempt("G7 prior zero 8mil", calc, make_shot(G7, 2750, 2, zero_mil=8.0), Distance.Yard(600))
attempt("G7 prior zero -3mil rel 2mil look 12", calc,
        make_shot(G7, 2750, 2, look_deg=12, zero_mil=-3.0, rel_mil=2.0), Distance.Yard(250))
# start elevation already a zero: second call starts from the stored zero
s = make_shot(G1, 2600, 3.2)
attempt("G1 200yd first", calc, s, Distance.Yard(200), fire_back=False)
attempt("G1 200yd again", calc, s, Distance.Yard(200))
# very short and zero sight height
attempt("G1 10yd", calc, make_shot(G1, 2600, 3.2), Distance.Yard(10))
attempt("G7 no sight height 50yd", calc, make_shot(G7, 2750, 0), Distance.Yard(50))
# altitude
attempt("G7 5000ft 700yd", calc, make_shot(G7, 2750, 2, alt=5000), Distance.Yard(700))

# out of reach: too few corrections allowed / too far
for n in (0, 1, 2, 3, 5, -1):
    c = Calculator({"cMaxIterations": n})
    attempt(f"max iterations {n}", c, make_shot(G7, 2750, 2, zero_mil=1.5), Distance.Yard(500))
attempt("too far 9000yd", calc, make_shot(G1, 2600, 3.2, zero_mil=2.0), Distance.Yard(9000))
attempt("slow far 3000yd", Calculator({"cMinimumVelocity": 0.0}), make_shot(G1, 1000, 3.2, zero_mil=4.0),
        Distance.Yard(3000))
# degenerate accuracies: 0, negative, inf, nan (loop never entered), loose, tight
for acc in (0.0, -1.0, math.inf, math.nan, 0.5, 1e-9, 1e-13):
    c = Calculator({"cZeroFindingAccuracy": acc})
    attempt(f"accuracy {acc!r}", c, make_shot(G7, 2750, 2, zero_mil=0.7), Distance.Yard(300))
# coarse integration step
attempt("coarse step", Calculator({"max_calc_step_size_feet": 5.0}), make_shot(G7, 2750, 2, look_deg=20),
        Distance.Yard(800))
# zero distance 0: division by zero must surface exactly as before
attempt("distance 0", calc, make_shot(G7, 2750, 2), Distance.Yard(0))
# look angle of 90 degrees: horizontal distance ~6e-15 ft
attempt("look 90", calc, make_shot(G7, 2750, 2, look_deg=90), Distance.Yard(100), fire_back=False)
