"""Common part of the equivalence programs (copied verbatim into every k/equiv.py).

Zeroes and fires a spread of shots through the public API and prints repr() of
every number, so that any bit-level change in the results changes the output.
"""
import math
import warnings

warnings.simplefilter("ignore")

from py_ballisticcalc import (Calculator, Shot, Weapon, Ammo, Atmo, Vacuum, Wind, DragModel,
                              TableG1, TableG7, RangeError, ZeroFindingError, TrajFlag)
from py_ballisticcalc.unit import Angular, Distance, Velocity, Temperature, Pressure, Unit


def rows_digest(rows):
    out = []
    for r in rows:
        out.append((
            repr(r.time), repr(r.distance.raw_value), repr(r.velocity.raw_value), repr(r.mach),
            repr(r.height.raw_value), repr(r.target_drop.raw_value), repr(r.drop_adj.raw_value),
            repr(r.windage.raw_value), repr(r.windage_adj.raw_value), repr(r.look_distance.raw_value),
            repr(r.angle.raw_value), repr(r.density_factor), repr(r.drag),
            repr(r.energy.raw_value), repr(r.ogw.raw_value), int(r.flag),
        ))
    return out


def make_shot(kind, mv, sight_height, look_deg, winds, atmo=None, stored_zero=None, twist=12, cant=None):
    if kind == "G7":
        dm = DragModel(0.22, TableG7, 168, 0.308, 1.22)
    elif kind == "G1":
        dm = DragModel(0.365, TableG1, 55, 0.224, 0.9)
    else:  # short custom table, no dimensions -> no spin drift
        dm = DragModel(0.5, [{'Mach': 0.0, 'CD': 0.25}, {'Mach': 0.8, 'CD': 0.23}, {'Mach': 1.0, 'CD': 0.40},
                             {'Mach': 1.5, 'CD': 0.38}, {'Mach': 3.0, 'CD': 0.28}, {'Mach': 5.0, 'CD': 0.22}])
    weapon = Weapon(sight_height=Distance.Inch(sight_height), twist=Distance.Inch(twist),
                    zero_elevation=None if stored_zero is None else Angular.Mil(stored_zero))
    ammo = Ammo(dm, Velocity.FPS(mv))
    return Shot(weapon=weapon, ammo=ammo, look_angle=Angular.Degree(look_deg),
                cant_angle=None if cant is None else Angular.Degree(cant),
                atmo=atmo, winds=winds)


def case(label, calc, shot, zero_yd, fire_yd=None, step_yd=None, extra=False, time_step=0.0):
    print("==", label)
    before = repr(shot.weapon.zero_elevation.raw_value)
    try:
        elev = calc.set_weapon_zero(shot, Distance.Yard(zero_yd))
        print("zero", repr(elev.raw_value), repr(shot.weapon.zero_elevation.raw_value), elev is shot.weapon.zero_elevation)
    except ZeroFindingError as e:
        print("ZeroFindingError", repr(e.zero_finding_error), e.iterations_count,
              repr(e.last_barrel_elevation.raw_value), str(e))
        print("stored zero untouched", before == repr(shot.weapon.zero_elevation.raw_value), before)
        return
    except RangeError as e:
        print("RangeError", e.reason, str(e), rows_digest(e.incomplete_trajectory))
        print("stored zero untouched", before == repr(shot.weapon.zero_elevation.raw_value), before)
        return
    # fire the zeroed shot back to the zero look-distance
    fire_yd = zero_yd if fire_yd is None else fire_yd
    horiz = Distance.Yard(fire_yd * math.cos(shot.look_angle >> Angular.Radian))
    try:
        if step_yd is None:
            hit = calc.fire(shot, horiz, extra_data=extra, time_step=time_step)
        else:
            hit = calc.fire(shot, horiz, Distance.Yard(step_yd), extra_data=extra, time_step=time_step)
        rows = hit.trajectory
    except RangeError as e:
        print("RangeError", e.reason, str(e))
        rows = e.incomplete_trajectory
    for d in rows_digest(rows):
        print(d)


def common():
    calc = Calculator()
    coarse = Calculator(_config={"max_calc_step_size_feet": 2.0})
    tight = Calculator(_config={"cZeroFindingAccuracy": 1e-9, "cMaxIterations": 60})
    few = Calculator(_config={"cMaxIterations": 2})
    none = Calculator(_config={"cMaxIterations": 0})

    w_cross = [Wind(Velocity.MPH(10), Angular.OClock(3))]
    w_multi = [Wind(Velocity.MPH(8), Angular.Degree(45), Distance.Yard(150)),
               Wind(Velocity.MPH(15), Angular.Degree(270), Distance.Yard(400)),
               Wind(Velocity.MPH(5), Angular.Degree(180), Distance.Yard(300))]  # deliberately unsorted

    case("G7 level 100yd", calc, make_shot("G7", 2600, 4, 0, None), 100)
    case("G7 level 100yd 10-step", calc, make_shot("G7", 2600, 4, 0, None), 100, fire_yd=500, step_yd=100)
    case("G1 level 300yd wind", calc, make_shot("G1", 3100, 2.5, 0, w_cross), 300, step_yd=50)
    case("G7 uphill 30deg 600yd multi wind", calc, make_shot("G7", 2750, 2, 30, w_multi), 600, step_yd=75)
    case("G7 downhill -45deg 400yd", calc, make_shot("G7", 2600, 1.5, -45, w_cross), 400, step_yd=100)
    case("custom table uphill 59deg 250yd stored zero", calc,
         make_shot("custom", 2400, 3, 59, None, stored_zero=7.5), 250, step_yd=25)
    case("custom table downhill -59deg 800yd", calc, make_shot("custom", 2900, 0, -59, w_multi), 800, step_yd=200)
    case("G7 few yards", calc, make_shot("G7", 2600, 4, 0, None), 5, step_yd=1)
    case("G7 long 1500yd high altitude", calc,
         make_shot("G7", 2900, 2, 5, w_cross, atmo=Atmo.icao(Distance.Foot(6000))), 1500, step_yd=250)
    case("G1 hot humid extra data", calc,
         make_shot("G1", 2800, 2, 2, w_multi, atmo=Atmo(Distance.Foot(1200), Pressure.InHg(28.5),
                                                         Temperature.Fahrenheit(95), 80)),
         200, fire_yd=450, step_yd=50, extra=True)
    case("G7 extra data time step", calc, make_shot("G7", 2600, 4, 0, w_cross), 100, fire_yd=1000, step_yd=100,
         extra=True, time_step=0.05)
    case("vacuum uphill", calc, make_shot("G7", 2600, 2, 20, None, atmo=Vacuum()), 500, step_yd=100)
    case("left twist, negative stored zero", calc,
         make_shot("G7", 2600, 2, -10, w_cross, stored_zero=-3.0, twist=-9), 350, step_yd=70)
    case("coarse step", coarse, make_shot("G7", 2600, 4, 10, w_cross), 450, step_yd=90)
    case("tight accuracy", tight, make_shot("G1", 2600, 4, -20, w_multi), 450, step_yd=90)
    # failures: out of reach / too few iterations / no iterations -> error, stored zero untouched
    case("slow bullet out of reach", calc, make_shot("G1", 600, 2, 0, None, stored_zero=2.0), 3000)
    case("steep uphill out of reach", calc, make_shot("G1", 900, 2, 55, w_cross, stored_zero=-1.0), 2500)
    case("two iterations only", few, make_shot("G7", 2600, 4, 15, None, stored_zero=4.0), 700)
    case("zero iterations", none, make_shot("G7", 2600, 4, 0, None, stored_zero=1.25), 100)
    # trajectory that ends on a limit while recording
    sh = make_shot("G1", 1200, 2, 0, w_cross)
    case("fire into minimum velocity", calc, sh, 100, fire_yd=4000, step_yd=500)
    minv = Calculator(_config={"cMinimumVelocity": 900.0})
    case("fire into minimum velocity (raised limit)", minv, make_shot("G1", 1500, 2, 0, w_cross), 100,
         fire_yd=1500, step_yd=250)
    maxd = Calculator(_config={"cMaximumDrop": -20.0})
    case("fire into maximum drop (raised limit)", maxd, make_shot("G7", 2600, 2, 0, w_multi), 300,
         fire_yd=1500, step_yd=100)
    case("downhill -15deg 300yd", calc, make_shot("G7", 2600, 2, -15, w_multi), 300, step_yd=60)
    case("uphill 12deg 900yd canted (outside the property, still must not change)", calc,
         make_shot("G7", 2800, 2, 12, w_cross, cant=8), 900, step_yd=300)
    # barrel_elevation_for_target does not store anything
    sh = make_shot("G7", 2600, 4, 12, w_multi, stored_zero=3.0)
    e = calc.barrel_elevation_for_target(sh, Distance.Meter(420))
    print("hold", repr(e.raw_value), repr(sh.weapon.zero_elevation.raw_value))
    # default record step (range / 10) and plain-number arguments
    sh = make_shot("G7", 2600, 4, 0, None)
    calc.set_weapon_zero(sh, 100)
    for d in rows_digest(calc.fire(sh, 1000).trajectory):
        print(d)
    for d in rows_digest(calc.fire(sh, 300, 37.5).trajectory):
        print(d)


def specific():
    """Drive the trajectory data filter directly (it is exported by the package) with hand-made point sequences."""
    from py_ballisticcalc import Vector
    from py_ballisticcalc.trajectory_calc import _TrajectoryDataFilter

    def state(f):
        return (int(f.current_flag), int(f.seen_zero), repr(f.next_record_distance), repr(f.time_of_last_record),
                repr(f.previous_time), tuple(map(repr, f.previous_position)), tuple(map(repr, f.previous_velocity)),
                repr(f.previous_mach), repr(f.previous_v_mach), repr(f.look_angle))

    def show(d):
        if d is None:
            return None
        return (repr(d.time), tuple(map(repr, d.position)), tuple(map(repr, d.velocity)), repr(d.mach))

    nan = float("nan")
    sequences = {
        # (x, y, z, vx, vy, vz, mach, time)
        "plain": [(0.0, -0.2, 0.0, 2600.0, 5.0, 0.0, 1116.0, 0.0), (0.25, -0.19, 0.0, 2599.0, 4.9, 0.0, 1116.0, 0.0001),
                  (3.1, 0.0, 0.001, 2590.0, 4.0, 0.1, 1116.0, 0.0012), (3.1, 0.01, 0.001, 2590.0, 4.0, 0.1, 1116.0, 0.0013),
                  (10.7, 0.5, 0.01, 2500.0, 1.0, 0.2, 1115.0, 0.004), (30.0, 0.2, 0.02, 1200.0, -3.0, 0.3, 1115.0, 0.02),
                  (30.4, -0.1, 0.03, 1100.0, -5.0, 0.3, 1114.0, 0.0204), (29.9, -0.3, 0.03, 1000.0, -9.0, 0.3, 1114.0, 0.021),
                  (45.0, -2.0, 0.05, 900.0, -20.0, 0.4, 1113.0, 0.04)],
        "nan and standstill": [(0.0, 0.0, 0.0, 100.0, 0.0, 0.0, 1116.0, 0.0), (nan, 1.0, 0.0, 100.0, 0.0, 0.0, 1116.0, 0.1),
                               (5.0, nan, 0.0, 100.0, 0.0, 0.0, 1116.0, 0.2), (5.0, 1.0, 0.0, 100.0, 0.0, 0.0, 1116.0, 0.9),
                               (-1.0, 1.0, 0.0, 100.0, 0.0, 0.0, 1116.0, 1.7), (6.0, -1.0, 0.0, 1200.0, 0.0, 0.0, 1116.0, 2.5)],
    }
    for name, seq in sequences.items():
        for flt in (0, 8, 31, 4, 3):
            for range_step, time_step in ((3.0, 0.0), (0.0, 0.5), (0.1, 0.001), (-1.0, 0.0), (100.0, 0.0005)):
                for setup in ((-0.2, 0.002, 0.0), (0.0, 0.1, 0.2), (-0.2, -0.1, 0.3), (nan, 0.0, -0.4)):
                    f = _TrajectoryDataFilter(flt, range_step, Vector(*seq[0][:3]), Vector(*seq[0][3:6]), time_step)
                    f.setup_seen_zero(*setup)
                    print("--", name, flt, range_step, time_step, setup, state(f))
                    for (x, y, z, vx, vy, vz, mach, t) in seq:
                        f.clear_current_flag()
                        d = f.should_record(Vector(x, y, z), Vector(vx, vy, vz), mach, t)
                        print(show(d), state(f))
    # the single checks, called on their own
    f = _TrajectoryDataFilter(31, 1.0, Vector(0.0, 0.0, 0.0), Vector(1.0, 0.0, 0.0), 0.25)
    for t in (0.0, 0.25, 0.2500001, 0.3, 0.6, nan, 5.0):
        f.check_next_time(t)
        print("time", repr(t), state(f))
        f.clear_current_flag()
    for v, m in ((2000.0, 1000.0), (1000.0, 1000.0), (999.0, 1000.0), (1001.0, 1000.0), (nan, 1000.0), (500.0, 1000.0)):
        f.check_mach_crossing(v, m)
        print("mach", repr(v), state(f))
        f.clear_current_flag()
    try:
        f.check_mach_crossing(1.0, 0.0)
    except ZeroDivisionError as e:
        print("mach zero", type(e).__name__, state(f))
    f.look_angle = 0.1
    for x, y in ((0.0, 5.0), (-1.0, 5.0), (nan, 5.0), (1.0, 0.05), (1.0, 0.2), (2.0, 0.3), (2.0, 0.1), (3.0, 5.0), (3.0, -5.0)):
        f.check_zero_crossing(Vector(x, y, 0.0))
        print("zero", repr(x), repr(y), state(f))
        f.clear_current_flag()

    # how Calculator.fire chooses the record step and TrajectoryCalc.trajectory the filter
    calc = Calculator()
    sh = make_shot("G7", 2700, 2, 3, [Wind(Velocity.MPH(6), Angular.OClock(4))])
    calc.set_weapon_zero(sh, Distance.Meter(200))
    for label, args, kw in (
            ("no step", (sh, Distance.Meter(300)), {}),
            ("step 0", (sh, 300, 0), {}),
            ("step 0.0 extra", (sh, Distance.Meter(300), 0.0), {"extra_data": True}),
            ("step None", (sh, 250, None), {}),
            ("zero Distance step", (sh, 200, Distance.Yard(0)), {"extra_data": True}),
            ("zero Distance step, time step", (sh, 200, Distance.Yard(0)), {"time_step": 0.05}),
            ("number step", (sh, 333, 111), {}),
            ("metric step, extra", (sh, Distance.Meter(400), Distance.Meter(100)), {"extra_data": True}),
            ("step beyond range", (sh, 100, 250), {}),
            ("tiny step", (sh, Distance.Foot(3), Distance.Inch(2)), {}),
            ("keyword form", (), {"shot": sh, "trajectory_range": 150, "trajectory_step": 50, "extra_data": False,
                                  "time_step": 0.01}),
    ):
        hit = calc.fire(*args, **kw)
        print("fire", label, hit.extra, len(hit.trajectory))
        for d in rows_digest(hit.trajectory):
            print(d)
    from py_ballisticcalc import TrajectoryCalc, create_interface_config
    tc = TrajectoryCalc(create_interface_config())
    for extra in (False, True, 0, 1, "", "yes", None):
        rows = tc.trajectory(sh, Distance.Yard(300), Distance.Yard(100), extra, 0.0)
        print("trajectory", repr(extra), [int(r.flag) for r in rows], rows_digest(rows)[-1])
    rows = tc.trajectory(sh, Distance.Yard(300), Distance.Yard(100))
    print("trajectory default", [int(r.flag) for r in rows], rows_digest(rows)[-1])
    try:
        print("plain number range", rows_digest(tc.trajectory(sh, 300, Distance.Yard(100)))[-1])
    except Exception as e:  # noqa
        print("plain number range", type(e).__name__, str(e))
    try:
        print("plain number step", rows_digest(tc.trajectory(sh, Distance.Yard(300), 100))[-1])
    except Exception as e:  # noqa
        print("plain number step", type(e).__name__, str(e))


common()
specific()
