"""Equivalence digest for C02 / round 3 / refactoring 2 (trajectory set-up and drag-curve preparation).

Prints a deterministic text; must be identical on the clean tree and with the patch applied.
"""
import math
import warnings

warnings.simplefilter("ignore")

from py_ballisticcalc import (Calculator, DragModel, Ammo, Weapon, Shot, Wind, Atmo,
                              TableG1, TableG7, TableG8, TableGS, RangeError, DragModelMultiBC, BCPoint)
from py_ballisticcalc.drag_model import DragDataPoint
from py_ballisticcalc.exceptions import ZeroFindingError
from py_ballisticcalc.trajectory_calc import TrajectoryCalc
from py_ballisticcalc.unit import Angular, Distance, Velocity, Temperature


def h(x):
    if isinstance(x, bool) or x is None:
        return repr(x)
    if isinstance(x, int):
        return "int:%d" % x
    if isinstance(x, float):
        return x.hex()
    return repr(x)


def describe_error(exc):
    if isinstance(exc, ZeroFindingError):
        return "ZeroFindingError(err=%s, n=%r, last=%s)" % (
            h(exc.zero_finding_error), exc.iterations_count, h(exc.last_barrel_elevation >> Angular.Radian))
    if isinstance(exc, RangeError):
        return "RangeError(%r, rows=%d, msg=%r)" % (exc.reason, len(exc.incomplete_trajectory), str(exc))
    return "%s(%r)" % (type(exc).__name__, str(exc))


def engine_state(calc):
    e = calc._calc
    names = ("look_angle", "twist", "length", "diameter", "weight", "barrel_elevation", "barrel_azimuth",
             "sight_height", "cant_cosine", "cant_sine", "alt0", "calc_step", "muzzle_velocity",
             "stability_coefficient", "_bc")
    return " ".join("%s=%s" % (n, h(getattr(e, n, "<unset>"))) for n in names)


def curve_digest(calc):
    curve = getattr(calc._calc, "_curve", None)
    if curve is None:
        return "<no curve>"
    return "%d pieces: %s" % (len(curve), "; ".join("(%s,%s,%s)" % (h(p.a), h(p.b), h(p.c)) for p in curve))


def case(label, calc, shot, distance, full_curve=False, fire_range=None):
    print(label)
    before = shot.weapon.zero_elevation.raw_value
    try:
        got = calc.set_weapon_zero(shot, distance)
        print("    zero ok elev=%s" % h(got >> Angular.Radian))
        ok = True
    except Exception as exc:  # pylint: disable=broad-except
        print("    zero raised " + describe_error(exc))
        ok = False
    print("    stored zero before=%s after=%s" % (h(before), h(shot.weapon.zero_elevation.raw_value)))
    print("    engine: " + engine_state(calc))
    try:
        table = calc.cdm
        print("    cdm: %d points, same list as model: %r, first=%r last=%r" % (
            len(table), table is shot.ammo.dm.drag_table, table[0], table[-1]))
    except Exception as exc:  # pylint: disable=broad-except
        print("    cdm raised " + describe_error(exc))
    digest = curve_digest(calc)
    if not full_curve and len(digest) > 400:
        import hashlib
        digest = digest.split(":")[0] + " sha=" + hashlib.sha256(digest.encode()).hexdigest()
    print("    curve: " + digest)
    if ok:
        rng = fire_range if fire_range is not None else distance
        try:
            res = calc.fire(shot, rng, Distance.Foot((rng >> Distance.Foot) / 4), extra_data=False)
            for row in res.trajectory:
                print("    row d=%s v=%s h=%s tdrop=%s w=%s mach=%s drag=%s t=%s" % (
                    h(row.distance.raw_value), h(row.velocity.raw_value), h(row.height.raw_value),
                    h(row.target_drop.raw_value), h(row.windage.raw_value), h(row.mach), h(row.drag),
                    h(row.time)))
        except Exception as exc:  # pylint: disable=broad-except
            print("    fire raised " + describe_error(exc))


def main():
    yd = Distance.Yard

    def shot(dm, mv=2750, sh=2, twist=11.24, zero=0.0, look=0.0, rel=0.0, cant=0.0, winds=None, atmo=None):
        return Shot(weapon=Weapon(Distance.Inch(sh), Distance.Inch(twist), Angular.Radian(zero)),
                    ammo=Ammo(dm, Velocity.FPS(mv)),
                    look_angle=Angular.Degree(look), relative_angle=Angular.Mil(rel),
                    cant_angle=Angular.Degree(cant), atmo=atmo, winds=winds)

    g7 = DragModel(0.223, TableG7, 168, 0.308, 1.282)
    g1 = DragModel(0.365, TableG1, 69, 0.223, 0.9)
    g8 = DragModel(0.3, TableG8, 155, 0.308, 1.2)
    gs = DragModel(0.1, TableGS, 0, 0, 0)  # no dimensions: no spin drift
    mbc = DragModelMultiBC([BCPoint(0.275, V=Velocity.MPS(800)), BCPoint(0.255, V=Velocity.MPS(500)),
                            BCPoint(0.26, V=Velocity.MPS(700))], TableG7, 178, 0.308, 1.3)

    calc = Calculator()
    case("G7 level 100yd", calc, shot(g7), yd(100), full_curve=True)
    case("G1 level 300yd", calc, shot(g1, mv=3000), yd(300))
    case("G8 uphill 20deg 500yd", calc, shot(g8, look=20), yd(500))
    case("GS sphere 50yd no dims", calc, shot(gs, mv=1200, twist=0), yd(50))
    case("multi-BC downhill -15deg 400yd wind", calc,
         shot(mbc, look=-15, winds=[Wind(Velocity.MPH(10), Angular.Degree(60), yd(5000))]), yd(400))
    case("canted 30deg, prior zero 3 mrad", calc, shot(g7, cant=30, zero=0.003), yd(100))
    case("canted -90deg, relative angle 2 mil", calc, shot(g7, cant=-90, rel=2), yd(100))
    case("canted 180deg", calc, shot(g7, cant=180, zero=0.001), yd(100))
    case("left twist, altitude 7000 ft", calc, shot(g7, twist=-8, atmo=Atmo.icao(Distance.Foot(7000))), yd(600))
    ps = Ammo(g7, Velocity.FPS(2700), Temperature.Celsius(15), 0.012, True)
    s = Shot(weapon=Weapon(Distance.Inch(2), Distance.Inch(10)), ammo=ps,
             atmo=Atmo(Distance.Foot(1000), None, Temperature.Celsius(-10)))
    case("powder sensitivity, cold", calc, s, yd(200))

    # hand-made tables: few points, ints, dicts, unsorted, duplicates
    two = DragModel(0.3, [DragDataPoint(0.0, 0.25), DragDataPoint(5.0, 0.35)], 150, 0.308, 1.1)
    case("2-point table", calc, shot(two), yd(200), full_curve=True)
    three = DragModel(0.3, [{"Mach": 0, "CD": 1}, {"Mach": 1, "CD": 2}, {"Mach": 4, "CD": 1}], 150, 0.308, 1.1)
    case("3-point integer dict table", calc, shot(three, mv=2000), yd(100), full_curve=True)
    four = DragModel(0.25, [DragDataPoint(0.0, 0.2), DragDataPoint(0.9, 0.22), DragDataPoint(1.1, 0.4),
                            DragDataPoint(3.0, 0.3)], 150, 0.308, 1.1)
    case("4-point table", calc, shot(four), yd(300), full_curve=True)
    five = DragModel(0.25, [DragDataPoint(0.0, 0.2), DragDataPoint(0.5, 0.21), DragDataPoint(0.9, 0.22),
                            DragDataPoint(1.1, 0.4), DragDataPoint(3.0, 0.3)], 150, 0.308, 1.1)
    case("5-point table, transonic", calc, shot(five, mv=1250), yd(300), full_curve=True)
    unsorted = DragModel(0.25, [DragDataPoint(0.0, 0.2), DragDataPoint(2.0, 0.3), DragDataPoint(1.0, 0.4),
                                DragDataPoint(3.0, 0.3), DragDataPoint(2.5, 0.31), DragDataPoint(5.0, 0.2)],
                         150, 0.308, 1.1)
    case("unsorted 6-point table", calc, shot(unsorted), yd(200), full_curve=True)
    one = DragModel(0.3, [DragDataPoint(1.0, 0.3)], 150, 0.308, 1.1)
    case("1-point table (index error expected)", calc, shot(one, zero=0.002), yd(100), full_curve=True)
    dup_first = DragModel(0.3, [DragDataPoint(1.0, 0.3), DragDataPoint(1.0, 0.4), DragDataPoint(2.0, 0.3)],
                          150, 0.308, 1.1)
    case("duplicate Mach at the start (division by zero expected)", calc, shot(dup_first, zero=0.002), yd(100))
    dup_mid = DragModel(0.3, [DragDataPoint(0.0, 0.3), DragDataPoint(1.0, 0.3), DragDataPoint(2.0, 0.4),
                              DragDataPoint(2.0, 0.3), DragDataPoint(3.0, 0.3)], 150, 0.308, 1.1)
    case("duplicate Mach in the middle", calc, shot(dup_mid, zero=0.002), yd(100))
    dup_last = DragModel(0.3, [DragDataPoint(0.0, 0.3), DragDataPoint(1.0, 0.3), DragDataPoint(2.0, 0.4),
                               DragDataPoint(3.0, 0.3), DragDataPoint(3.0, 0.2)], 150, 0.308, 1.1)
    case("duplicate Mach at the end", calc, shot(dup_last, zero=0.002), yd(100))
    emptied = DragModel(0.3, [DragDataPoint(0.0, 0.3), DragDataPoint(3.0, 0.3)], 150, 0.308, 1.1)
    emptied.drag_table = []
    case("table emptied after construction", calc, shot(emptied, zero=0.002), yd(100))
    as_tuple = DragModel(0.25, TableG1, 150, 0.308, 1.1)
    as_tuple.drag_table = tuple(as_tuple.drag_table)
    case("table replaced by a tuple", calc, shot(as_tuple), yd(150))
    # after the failures the same calculator must still work
    case("G7 again after failures, 250yd", calc, shot(g7, zero=0.0005), yd(250))

    # step configuration and get_calc_step
    for step_cfg in (0.5, 0.1, 2.0, 7.0):
        c = Calculator(_config={"max_calc_step_size_feet": step_cfg})
        eng = c._calc
        print("get_calc_step with max %r:" % step_cfg,
              [h(eng.get_calc_step(v)) for v in (0, 0.0, -0.0, 0.05, 0.5, 1, 3, 100.0, -2.0, float("inf"))],
              h(eng.get_calc_step()), "nan->", repr(eng.get_calc_step(float("nan"))))
        case("max step %r / G7 uphill 35deg 350yd" % step_cfg, c, shot(g7, look=35), yd(350))
    bare = TrajectoryCalc(Calculator()._calc._config)
    print("fresh engine get_calc_step:", h(bare.get_calc_step()), h(bare.get_calc_step(0.3)))


if __name__ == "__main__":
    main()
