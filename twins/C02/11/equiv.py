"""Common part of the equivalence programs (copied verbatim into every k/equiv.py).

Zeroes and fires a spread of shots through the public API and prints repr() of
every number, so that any bit-level change in the results changes the output.
"""
import math
import warnings

warnings.simplefilter("ignore")

from py_ballisticcalc import (Calculator, Shot, Weapon, Ammo, Atmo, Vacuum, Wind, DragModel,
                              TableG1, TableG7, RangeError, ZeroFindingError, TrajFlag)
from py_ballisticcalc.unit import Angular, Distance, Velocity, Temperature, Pressure, Unit


def rows_digest(rows):
    out = []
    for r in rows:
        out.append((
            repr(r.time), repr(r.distance.raw_value), repr(r.velocity.raw_value), repr(r.mach),
            repr(r.height.raw_value), repr(r.target_drop.raw_value), repr(r.drop_adj.raw_value),
            repr(r.windage.raw_value), repr(r.windage_adj.raw_value), repr(r.look_distance.raw_value),
            repr(r.angle.raw_value), repr(r.density_factor), repr(r.drag),
            repr(r.energy.raw_value), repr(r.ogw.raw_value), int(r.flag),
        ))
    return out


def make_shot(kind, mv, sight_height, look_deg, winds, atmo=None, stored_zero=None, twist=12, cant=None):
    if kind == "G7":
        dm = DragModel(0.22, TableG7, 168, 0.308, 1.22)
    elif kind == "G1":
        dm = DragModel(0.365, TableG1, 55, 0.224, 0.9)
    else:  # short custom table, no dimensions -> no spin drift
        dm = DragModel(0.5, [{'Mach': 0.0, 'CD': 0.25}, {'Mach': 0.8, 'CD': 0.23}, {'Mach': 1.0, 'CD': 0.40},
                             {'Mach': 1.5, 'CD': 0.38}, {'Mach': 3.0, 'CD': 0.28}, {'Mach': 5.0, 'CD': 0.22}])
    weapon = Weapon(sight_height=Distance.Inch(sight_height), twist=Distance.Inch(twist),
                    zero_elevation=None if stored_zero is None else Angular.Mil(stored_zero))
    ammo = Ammo(dm, Velocity.FPS(mv))
    return Shot(weapon=weapon, ammo=ammo, look_angle=Angular.Degree(look_deg),
                cant_angle=None if cant is None else Angular.Degree(cant),
                atmo=atmo, winds=winds)


def case(label, calc, shot, zero_yd, fire_yd=None, step_yd=None, extra=False, time_step=0.0):
    print("==", label)
    before = repr(shot.weapon.zero_elevation.raw_value)
    try:
        elev = calc.set_weapon_zero(shot, Distance.Yard(zero_yd))
        print("zero", repr(elev.raw_value), repr(shot.weapon.zero_elevation.raw_value), elev is shot.weapon.zero_elevation)
    except ZeroFindingError as e:
        print("ZeroFindingError", repr(e.zero_finding_error), e.iterations_count,
              repr(e.last_barrel_elevation.raw_value), str(e))
        print("stored zero untouched", before == repr(shot.weapon.zero_elevation.raw_value), before)
        return
    except RangeError as e:
        print("RangeError", e.reason, str(e), rows_digest(e.incomplete_trajectory))
        print("stored zero untouched", before == repr(shot.weapon.zero_elevation.raw_value), before)
        return
    # fire the zeroed shot back to the zero look-distance
    fire_yd = zero_yd if fire_yd is None else fire_yd
    horiz = Distance.Yard(fire_yd * math.cos(shot.look_angle >> Angular.Radian))
    try:
        if step_yd is None:
            hit = calc.fire(shot, horiz, extra_data=extra, time_step=time_step)
        else:
            hit = calc.fire(shot, horiz, Distance.Yard(step_yd), extra_data=extra, time_step=time_step)
        rows = hit.trajectory
    except RangeError as e:
        print("RangeError", e.reason, str(e))
        rows = e.incomplete_trajectory
    for d in rows_digest(rows):
        print(d)


def common():
    calc = Calculator()
    coarse = Calculator(_config={"max_calc_step_size_feet": 2.0})
    tight = Calculator(_config={"cZeroFindingAccuracy": 1e-9, "cMaxIterations": 60})
    few = Calculator(_config={"cMaxIterations": 2})
    none = Calculator(_config={"cMaxIterations": 0})

    w_cross = [Wind(Velocity.MPH(10), Angular.OClock(3))]
    w_multi = [Wind(Velocity.MPH(8), Angular.Degree(45), Distance.Yard(150)),
               Wind(Velocity.MPH(15), Angular.Degree(270), Distance.Yard(400)),
               Wind(Velocity.MPH(5), Angular.Degree(180), Distance.Yard(300))]  # deliberately unsorted

    case("G7 level 100yd", calc, make_shot("G7", 2600, 4, 0, None), 100)
    case("G7 level 100yd 10-step", calc, make_shot("G7", 2600, 4, 0, None), 100, fire_yd=500, step_yd=100)
    case("G1 level 300yd wind", calc, make_shot("G1", 3100, 2.5, 0, w_cross), 300, step_yd=50)
    case("G7 uphill 30deg 600yd multi wind", calc, make_shot("G7", 2750, 2, 30, w_multi), 600, step_yd=75)
    case("G7 downhill -45deg 400yd", calc, make_shot("G7", 2600, 1.5, -45, w_cross), 400, step_yd=100)
    case("custom table uphill 59deg 250yd stored zero", calc,
         make_shot("custom", 2400, 3, 59, None, stored_zero=7.5), 250, step_yd=25)
    case("custom table downhill -59deg 800yd", calc, make_shot("custom", 2900, 0, -59, w_multi), 800, step_yd=200)
    case("G7 few yards", calc, make_shot("G7", 2600, 4, 0, None), 5, step_yd=1)
    case("G7 long 1500yd high altitude", calc,
         make_shot("G7", 2900, 2, 5, w_cross, atmo=Atmo.icao(Distance.Foot(6000))), 1500, step_yd=250)
    case("G1 hot humid extra data", calc,
         make_shot("G1", 2800, 2, 2, w_multi, atmo=Atmo(Distance.Foot(1200), Pressure.InHg(28.5),
                                                         Temperature.Fahrenheit(95), 80)),
         200, fire_yd=450, step_yd=50, extra=True)
    case("G7 extra data time step", calc, make_shot("G7", 2600, 4, 0, w_cross), 100, fire_yd=1000, step_yd=100,
         extra=True, time_step=0.05)
    case("vacuum uphill", calc, make_shot("G7", 2600, 2, 20, None, atmo=Vacuum()), 500, step_yd=100)
    case("left twist, negative stored zero", calc,
         make_shot("G7", 2600, 2, -10, w_cross, stored_zero=-3.0, twist=-9), 350, step_yd=70)
    case("coarse step", coarse, make_shot("G7", 2600, 4, 10, w_cross), 450, step_yd=90)
    case("tight accuracy", tight, make_shot("G1", 2600, 4, -20, w_multi), 450, step_yd=90)
    # failures: out of reach / too few iterations / no iterations -> error, stored zero untouched
    case("slow bullet out of reach", calc, make_shot("G1", 600, 2, 0, None, stored_zero=2.0), 3000)
    case("steep uphill out of reach", calc, make_shot("G1", 900, 2, 55, w_cross, stored_zero=-1.0), 2500)
    case("two iterations only", few, make_shot("G7", 2600, 4, 15, None, stored_zero=4.0), 700)
    case("zero iterations", none, make_shot("G7", 2600, 4, 0, None, stored_zero=1.25), 100)
    # trajectory that ends on a limit while recording
    sh = make_shot("G1", 1200, 2, 0, w_cross)
    case("fire into minimum velocity", calc, sh, 100, fire_yd=4000, step_yd=500)
    minv = Calculator(_config={"cMinimumVelocity": 900.0})
    case("fire into minimum velocity (raised limit)", minv, make_shot("G1", 1500, 2, 0, w_cross), 100,
         fire_yd=1500, step_yd=250)
    maxd = Calculator(_config={"cMaximumDrop": -20.0})
    case("fire into maximum drop (raised limit)", maxd, make_shot("G7", 2600, 2, 0, w_multi), 300,
         fire_yd=1500, step_yd=100)
    case("downhill -15deg 300yd", calc, make_shot("G7", 2600, 2, -15, w_multi), 300, step_yd=60)
    case("uphill 12deg 900yd canted (outside the property, still must not change)", calc,
         make_shot("G7", 2800, 2, 12, w_cross, cant=8), 900, step_yd=300)
    # barrel_elevation_for_target does not store anything
    sh = make_shot("G7", 2600, 4, 12, w_multi, stored_zero=3.0)
    e = calc.barrel_elevation_for_target(sh, Distance.Meter(420))
    print("hold", repr(e.raw_value), repr(sh.weapon.zero_elevation.raw_value))
    # default record step (range / 10) and plain-number arguments
    sh = make_shot("G7", 2600, 4, 0, None)
    calc.set_weapon_zero(sh, 100)
    for d in rows_digest(calc.fire(sh, 1000).trajectory):
        print(d)
    for d in rows_digest(calc.fire(sh, 300, 37.5).trajectory):
        print(d)


def specific():
    """The atmosphere look-up used at every integration step, and the wind ordering, called directly."""
    nan, inf = float("nan"), float("inf")
    atmos = {
        "icao0": Atmo.icao(),
        "icao5000": Atmo.icao(Distance.Foot(5000)),
        "hot": Atmo(Distance.Foot(1200), Pressure.InHg(28.5), Temperature.Fahrenheit(95), 80),
        "cold": Atmo(Distance.Meter(-300), Pressure.hPa(1040), Temperature.Celsius(-40), 0.3),
        "vacuum": Vacuum(Distance.Foot(250), Temperature.Celsius(10)),
    }
    for name, a in atmos.items():
        a0 = a.altitude >> Distance.Foot
        alts = [a0, a0 + 29.999999, a0 - 29.999999, a0 + 30, a0 - 30, a0 + 30.000001, a0 - 30.000001, a0 + 1e-300,
                0.0, -0.0, 100.0, -1410.748, 2500.5, 36088.9, 36089, 36089.0001, 60000.0, 120000.0, 250000.0,
                -20000.0, nan, inf, -inf, 7]
        for alt in alts:
            with warnings.catch_warnings(record=True) as caught:
                warnings.simplefilter("always")
                try:
                    res = a.get_density_factor_and_mach_for_altitude(alt)
                    out = (repr(res[0]), repr(res[1]), type(res).__name__)
                except Exception as e:  # noqa
                    out = (type(e).__name__, str(e))
                try:
                    tt = repr(a.temperature_at_altitude(alt))
                except Exception as e:  # noqa
                    tt = (type(e).__name__, str(e))
                try:
                    pp = repr(a.pressure_at_altitude(alt))
                except Exception as e:  # noqa
                    pp = (type(e).__name__, str(e))
                print(name, repr(alt), out, tt, pp, [(w.category.__name__, str(w.message)) for w in caught])
    # wind ordering: ties keep their given order, default wind, setter
    dm = DragModel(0.22, TableG7, 168, 0.308, 1.22)
    winds = [Wind(Velocity.MPH(1), Angular.Degree(10), Distance.Yard(300)),
             Wind(Velocity.MPH(2), Angular.Degree(20), Distance.Yard(100)),
             Wind(Velocity.MPH(3), Angular.Degree(30), Distance.Foot(900)),
             Wind(Velocity.MPH(4), Angular.Degree(40)),
             Wind(Velocity.MPH(5), Angular.Degree(50), Distance.Yard(100)),
             Wind(Velocity.MPH(6), Angular.Degree(60), 0)]
    sh = Shot(Weapon(2, 12), Ammo(dm, Velocity.FPS(2600)), winds=winds)
    def ws(shot):
        w = shot.winds
        return type(w).__name__, [(repr(x.velocity.raw_value), repr(x.until_distance.raw_value)) for x in w]
    print(ws(sh))
    sh.winds = None
    print(ws(sh))
    sh.winds = []
    print(ws(sh))
    sh.winds = list(reversed(winds))
    print(ws(sh))
    # shots that leave the 30 ft band around the firing altitude (both ways) and climb out of the troposphere model
    calc = Calculator()
    case("steep climb through thin air", calc,
         make_shot("G7", 3000, 2, 25, winds[:3], atmo=Atmo.icao(Distance.Foot(9000))), 1200, step_yd=200)
    case("descent below the start altitude", calc,
         make_shot("G1", 2700, 2, -25, winds[1:4], atmo=Atmo.icao(Distance.Foot(3000))), 500, step_yd=100)
    sh = make_shot("G7", 3000, 2, 0, None, stored_zero=1000.0, atmo=Atmo.icao(Distance.Foot(34000)))
    with warnings.catch_warnings(record=True) as caught:
        try:
            rows = calc.fire(sh, Distance.Yard(3000), Distance.Yard(500)).trajectory
        except RangeError as e:
            print("RangeError", e.reason)
            rows = e.incomplete_trajectory
        for d in rows_digest(rows):
            print(d)
        print(sorted(set((w.category.__name__, str(w.message)) for w in caught)))


common()
specific()
