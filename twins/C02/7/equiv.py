"""Equivalence digest for C02 / round 3 / refactoring 1 (zero finder iterates a local elevation).

Prints a deterministic text; must be identical on the clean tree and with the patch applied.
"""
import math
import warnings

warnings.simplefilter("ignore")

from py_ballisticcalc import (Calculator, DragModel, Ammo, Weapon, Shot, Wind, Atmo,
                              TableG1, TableG7, RangeError)
from py_ballisticcalc.exceptions import ZeroFindingError
from py_ballisticcalc.unit import Angular, Distance, Velocity, Unit


def h(x):
    return float(x).hex() if isinstance(x, (int, float)) else repr(x)


def describe_error(exc):
    if isinstance(exc, ZeroFindingError):
        return "ZeroFindingError(err=%s, n=%r, last=%s, msg=%r)" % (
            h(exc.zero_finding_error), exc.iterations_count,
            h(exc.last_barrel_elevation >> Angular.Radian), str(exc))
    if isinstance(exc, RangeError):
        return "RangeError(%r, rows=%d, last=%s, msg=%r)" % (
            exc.reason, len(exc.incomplete_trajectory),
            h(exc.last_distance.raw_value) if exc.last_distance is not None else None, str(exc))
    return "%s(%r)" % (type(exc).__name__, str(exc))


def case(label, calc, shot, distance, use_set=True, fire_back=True):
    before = shot.weapon.zero_elevation.raw_value
    try:
        if use_set:
            got = calc.set_weapon_zero(shot, distance)
        else:
            got = calc.barrel_elevation_for_target(shot, distance)
        out = "ok elev=%s units=%r" % (h(got >> Angular.Radian), got.units)
    except Exception as exc:  # pylint: disable=broad-except
        out = "raised " + describe_error(exc)
        fire_back = False
    print(label)
    print("   ", out)
    print("    stored zero before=%s after=%s" % (h(before), h(shot.weapon.zero_elevation.raw_value)))
    print("    engine elevation after=%s" % h(calc._calc.barrel_elevation))
    if fire_back:
        d = Distance.Yard(distance) if not isinstance(distance, Distance) else distance
        res = calc.fire(shot, d, d)
        row = res.trajectory[-1]
        print("    fired back: look_dist=%s target_drop=%s height=%s windage=%s" % (
            h(row.look_distance.raw_value), h(row.target_drop.raw_value),
            h(row.height.raw_value), h(row.windage.raw_value)))


def main():
    g7 = DragModel(0.223, TableG7, 168, 0.308, 1.282)
    g1 = DragModel(0.365, TableG1, 69, 0.223, 0.9)
    slow = DragModel(0.12, TableG1, 40, 0.224, 0.5)

    def shot(dm=g7, mv=2750, sh=2, twist=11.24, zero=0.0, look=0.0, rel=0.0, cant=0.0, winds=None, atmo=None):
        return Shot(weapon=Weapon(Distance.Inch(sh), Distance.Inch(twist), Angular.Radian(zero)),
                    ammo=Ammo(dm, Velocity.FPS(mv)),
                    look_angle=Angular.Degree(look), relative_angle=Angular.Mil(rel),
                    cant_angle=Angular.Degree(cant), atmo=atmo, winds=winds)

    calc = Calculator()
    yd = Distance.Yard

    case("level 100yd", calc, shot(), yd(100))
    case("level 25yd", calc, shot(), yd(25))
    case("level 7yd tall sight", calc, shot(sh=4), yd(7))
    case("level 600yd g1", calc, shot(dm=g1, mv=3000, sh=2.6), yd(600))
    case("level 1500yd", calc, shot(), yd(1500))
    case("uphill 30deg 400yd", calc, shot(look=30), yd(400))
    case("downhill -45deg 300yd", calc, shot(look=-45), yd(300))
    case("uphill 59deg 250yd", calc, shot(look=59), yd(250))
    case("downhill -59deg 800yd", calc, shot(look=-59), yd(800))
    case("wind cross 10mph 500yd", calc,
         shot(winds=[Wind(Velocity.MPH(10), Angular.Degree(90), yd(2000))]), yd(500))
    case("two winds, head then quarter, uphill 10deg", calc,
         shot(look=10, winds=[Wind(Velocity.MPH(15), Angular.Degree(180), yd(200)),
                              Wind(Velocity.MPH(8), Angular.Degree(45), yd(2000))]), yd(450))
    case("prior zero +20 mrad", calc, shot(zero=0.02), yd(200))
    case("prior zero -15 mrad, relative angle 3 mil", calc, shot(zero=-0.015, rel=3), yd(200), fire_back=False)
    case("prior zero 0.3 rad downhill", calc, shot(zero=0.3, look=-20), yd(350))
    case("elevation-for-target only (no store)", calc, shot(zero=0.004, look=5), yd(333), use_set=False,
         fire_back=False)
    case("altitude 5000ft cold", calc, shot(atmo=Atmo.icao(Distance.Foot(5000))), yd(700))
    case("zero sight height 50yd", calc, shot(sh=0), yd(50))
    case("left twist 300m", calc, shot(twist=-9), Distance.Meter(300))
    case("canted 20deg (outside property, still deterministic)", calc, shot(cant=20, zero=0.002), yd(100),
         fire_back=False)

    # out of reach: the search must fail and leave the stored zero alone
    case("out of reach slow bullet 3000yd", calc, shot(dm=slow, mv=1100, zero=0.001), yd(3000))
    case("out of reach uphill 55deg 2500yd", calc, shot(dm=slow, mv=1100, look=55, zero=-0.002), yd(2500))
    case("far g7 4000yd", calc, shot(zero=0.0123), yd(4000))
    case("zero distance 0 (division by zero)", calc, shot(zero=0.0007), yd(0))

    # configurations that change how the loop ends
    for cfg_label, cfg in (
            ("max 1 iteration", {"cMaxIterations": 1}),
            ("max 2 iterations", {"cMaxIterations": 2}),
            ("max 0 iterations", {"cMaxIterations": 0}),
            ("accuracy 0", {"cZeroFindingAccuracy": 0.0}),
            ("accuracy negative", {"cZeroFindingAccuracy": -1.0}),
            ("accuracy coarse 0.5ft", {"cZeroFindingAccuracy": 0.5}),
            ("coarse step 5ft", {"max_calc_step_size_feet": 5.0}),
            ("low gravity", {"cGravityConstant": -5.0}),
            ("tight drop limit", {"cMaximumDrop": -3.0}),
    ):
        c = Calculator(_config=cfg)
        case("cfg %s / level 300yd prior 1 mrad" % cfg_label, c, shot(zero=0.001), yd(300),
             fire_back=cfg_label not in ("tight drop limit",))
        case("cfg %s / uphill 25deg 500yd wind" % cfg_label, c,
             shot(look=25, winds=[Wind(Velocity.MPH(12), Angular.Degree(270), yd(3000))]), yd(500),
             fire_back=False)

    # call history: one calculator, several zeroings and shots in a row, a failure in between
    c = Calculator()
    s = shot(zero=0.003)
    case("history 1: 100yd", c, s, yd(100))
    case("history 2: same shot 300yd (starts from stored zero)", c, s, yd(300))
    case("history 3: out of reach", c, s, yd(9000))
    case("history 4: 200yd after failure", c, s, yd(200))
    s.look_angle = Angular.Degree(-12)
    case("history 5: look angle changed", c, s, yd(200))


if __name__ == "__main__":
    main()
