"""Equivalence digest for property C02 (zeroing hits the point of aim).

Exercises Calculator.barrel_elevation_for_target / set_weapon_zero / fire through the public API
on level, uphill and downhill sight lines, with and without wind, short to very long zero distances,
previously stored zero elevations, unreachable targets (ZeroFindingError / RangeError), degenerate
configurations (cMaxIterations 0 / 1, cZeroFindingAccuracy 0 / negative / huge) and canted fire.
Prints repr() of every number so the text is bit-for-bit comparable.
"""
import warnings

warnings.simplefilter("ignore")

from py_ballisticcalc import (Ammo, Angular, Atmo, Calculator, Distance, DragModel, RangeError, Shot,
                              TableG1, TableG7, Unit, Velocity, Weapon, Wind, ZeroFindingError)
from py_ballisticcalc.trajectory_calc._trajectory_calc import TrajectoryCalc as PyTrajectoryCalc
from py_ballisticcalc.interface_config import create_interface_config


def new_calc(config=None):
    calc = Calculator(config)
    # always the pure-python backend
    calc._calc = PyTrajectoryCalc(create_interface_config(config))
    return calc


def rad(a):
    return repr(a >> Angular.Radian)


def row_digest(r):
    return ' '.join([
        repr(r.time), repr(r.distance >> Distance.Foot), repr(r.velocity >> Velocity.FPS), repr(r.mach),
        repr(r.height >> Distance.Foot), repr(r.target_drop >> Distance.Foot), rad(r.drop_adj),
        repr(r.windage >> Distance.Foot), rad(r.windage_adj), repr(r.look_distance >> Distance.Foot),
        rad(r.angle), repr(r.density_factor), repr(r.drag), repr(r.energy >> Unit.FootPound),
        repr(r.ogw >> Unit.Pound), repr(int(r.flag))])


def make_shot(kind, sight_in, look_deg, winds=None, stored_zero_mil=0.0, relative_mil=0.0, cant_deg=0.0,
              altitude_ft=0.0, twist_in=12.0):
    if kind == 'g1':
        dm = DragModel(0.365, TableG1, 69, 0.223, 0.9)
        mv = 2600
    elif kind == 'g7':
        dm = DragModel(0.223, TableG7, 168, 0.308, 1.282)
        mv = 2750
    else:  # slow and draggy
        dm = DragModel(0.12, TableG1, 40, 0.224, 0.5)
        mv = 1100
    weapon = Weapon(Distance.Inch(sight_in), twist_in, Angular.Mil(stored_zero_mil))
    ammo = Ammo(dm, Velocity.FPS(mv))
    return Shot(weapon=weapon, ammo=ammo, look_angle=Angular.Degree(look_deg),
                relative_angle=Angular.Mil(relative_mil), cant_angle=Angular.Degree(cant_deg),
                atmo=Atmo.icao(Distance.Foot(altitude_ft)), winds=winds)


def zero_case(label, calc, shot, dist, fire_back=True, use_set=True):
    before = rad(shot.weapon.zero_elevation)
    try:
        if use_set:
            res = calc.set_weapon_zero(shot, dist)
        else:
            res = calc.barrel_elevation_for_target(shot, dist)
        print(label, 'OK', rad(res), 'stored', rad(shot.weapon.zero_elevation), 'before', before,
              'calc.barrel_elevation', repr(calc._calc.barrel_elevation))
    except ZeroFindingError as e:
        print(label, 'ZeroFindingError', repr(e.zero_finding_error), repr(e.iterations_count),
              rad(e.last_barrel_elevation), repr(str(e)), 'stored', rad(shot.weapon.zero_elevation), 'before', before,
              'calc.barrel_elevation', repr(calc._calc.barrel_elevation))
        return
    except RangeError as e:
        print(label, 'RangeError', repr(e.reason), repr(len(e.incomplete_trajectory)),
              repr(None if e.last_distance is None else e.last_distance >> Distance.Foot), repr(str(e)),
              'stored', rad(shot.weapon.zero_elevation), 'before', before,
              'calc.barrel_elevation', repr(calc._calc.barrel_elevation))
        for r in e.incomplete_trajectory:
            print('   ', row_digest(r))
        return
    except Exception as e:  # pylint: disable=broad-except
        print(label, 'EXC', type(e).__name__, repr(str(e)), 'stored', rad(shot.weapon.zero_elevation), 'before', before,
              'calc.barrel_elevation', repr(calc._calc.barrel_elevation))
        return
    if fire_back:
        try:
            hit = calc.fire(shot, dist, dist)
            rows = hit.trajectory
        except RangeError as e:
            print(label, ' fire RangeError', repr(e.reason))
            rows = e.incomplete_trajectory
        for r in rows:
            print('   ', row_digest(r))


def main():
    calc = new_calc()
    cross = [Wind(Velocity.MPH(10), Angular.OClock(3), Distance.Yard(1000))]
    multi = [Wind(Velocity.MPH(8), Angular.Degree(45), Distance.Yard(200)),
             Wind(Velocity.MPH(15), Angular.Degree(260), Distance.Yard(500)),
             Wind(Velocity.MPH(20), Angular.Degree(180), Distance.Yard(900))]

    # level / uphill / downhill, no wind and wind, several distances
    for kind in ('g1', 'g7'):
        for look in (0.0, 12.5, -12.5, 45.0, -59.0, 59.0):
            for dist in (Distance.Yard(5), Distance.Yard(100), Distance.Meter(300), Distance.Yard(1000)):
                for wname, winds in (('calm', None), ('cross', cross), ('multi', multi)):
                    shot = make_shot(kind, 2.0 if kind == 'g7' else 3.2, look, winds)
                    zero_case(f'{kind} look={look} d={dist} {wname}', calc, shot, dist,
                              fire_back=(wname != 'cross' or look in (0.0, 45.0)))

    # previously stored zero elevations and relative angles (iteration starts from shot.barrel_elevation)
    for stored, rel in ((0.0, 0.0), (5.0, 0.0), (-7.5, 0.0), (30.0, 2.0), (0.0, -3.0), (400.0, 0.0)):
        shot = make_shot('g7', 2.5, 5.0, multi, stored_zero_mil=stored, relative_mil=rel)
        zero_case(f'stored={stored} rel={rel}', calc, shot, Distance.Yard(600))
        # zero the same shot again - starts from the zero just stored
        zero_case(f'stored={stored} rel={rel} again', calc, shot, Distance.Yard(600), fire_back=False)
        zero_case(f'stored={stored} rel={rel} bet', calc, shot, Distance.Yard(250), fire_back=False, use_set=False)

    # sight height zero / negative, altitude, float distance in preferred units
    zero_case('sh0', calc, make_shot('g1', 0.0, 0.0), 100)
    zero_case('sh-1', calc, make_shot('g1', -1.0, 3.0), Distance.Meter(50))
    zero_case('alt', calc, make_shot('g7', 2.0, -20.0, cross, altitude_ft=6000), Distance.Yard(800))
    zero_case('tiny', calc, make_shot('g7', 2.0, 0.0), Distance.Inch(6))
    zero_case('zero-dist', calc, make_shot('g7', 0.0, 0.0), Distance.Yard(0))
    zero_case('zero-dist sh', calc, make_shot('g7', 2.0, 0.0, stored_zero_mil=1.0), Distance.Yard(0))
    zero_case('zero-dist sh up', calc, make_shot('g7', 2.0, 20.0, stored_zero_mil=1.0), Distance.Yard(0), use_set=False)
    zero_case('neg-dist', calc, make_shot('g7', 2.0, 0.0, stored_zero_mil=1.0), Distance.Yard(-10))
    zero_case('look 90', calc, make_shot('g7', 2.0, 90.0, stored_zero_mil=1.0), Distance.Yard(100), fire_back=False)

    # out of reach: slow projectile / very far target / steep
    for look in (0.0, 30.0, -30.0):
        shot = make_shot('slow', 1.5, look, cross, stored_zero_mil=3.0)
        for dist in (Distance.Yard(300), Distance.Yard(900), Distance.Yard(2500)):
            zero_case(f'slow look={look} d={dist}', calc, shot, dist, fire_back=False)
    zero_case('far g7', calc, make_shot('g7', 2.0, 0.0, stored_zero_mil=1.0), Distance.Yard(4000), fire_back=False)
    zero_case('far g1 up', calc, make_shot('g1', 2.0, 50.0, stored_zero_mil=1.0), Distance.Yard(3000), fire_back=False)

    # degenerate configurations
    for cfg in ({'cMaxIterations': 0}, {'cMaxIterations': 1}, {'cMaxIterations': 2}, {'cMaxIterations': 3},
                {'cMaxIterations': -4}, {'cZeroFindingAccuracy': 0.0}, {'cZeroFindingAccuracy': -1.0},
                {'cZeroFindingAccuracy': 50.0}, {'cZeroFindingAccuracy': 0.02, 'cMaxIterations': 2},
                {'cZeroFindingAccuracy': float('nan')}, {'cZeroFindingAccuracy': float('inf')},
                {'cZeroFindingAccuracy': 1e-12, 'cMaxIterations': 40},
                {'max_calc_step_size_feet': 2.0}, {'max_calc_step_size_feet': 0.1, 'cMaxIterations': 7},
                {'cMinimumVelocity': 1500.0}, {'cMaximumDrop': -2.0}, {'cMinimumAltitude': -1.0},
                {'cMinimumVelocity': 2749.0}):
        c = new_calc(cfg)
        for look in (0.0, -25.0, 25.0):
            shot = make_shot('g7', 2.0, look, cross, stored_zero_mil=2.0)
            zero_case(f'cfg={sorted(cfg.items())!r} look={look}', c, shot, Distance.Yard(500), fire_back=(look == 0.0))

    # the same calculator re-used after a failure, then a success (call history)
    c = new_calc({'cMaxIterations': 2})
    shot = make_shot('g1', 3.2, 10.0, multi, stored_zero_mil=9.0)
    zero_case('hist fail', c, shot, Distance.Yard(800), fire_back=False)
    zero_case('hist ok', c, shot, Distance.Yard(25))
    zero_case('hist fail2', c, shot, Distance.Yard(1200), fire_back=False)
    c = new_calc({'cMaxIterations': 4})
    shot = make_shot('g1', 3.2, 10.0, multi, stored_zero_mil=9.0)
    zero_case('hist2 ok', c, shot, Distance.Yard(300))
    zero_case('hist2 fail', c, shot, Distance.Inch(8), fire_back=False)
    zero_case('hist2 ok again', c, shot, Distance.Yard(301))

    # fire: canted, extra_data, time_step, left twist, no twist; RangeError tails
    calc = new_calc()
    shot = make_shot('g7', 2.0, 7.0, multi, cant_deg=0.0)
    calc.set_weapon_zero(shot, Distance.Yard(200))
    for cant, twist in ((0.0, 12.0), (15.0, 12.0), (-90.0, -9.0), (33.0, 0.0)):
        s2 = make_shot('g7', 2.0, 7.0, multi, cant_deg=cant, twist_in=twist, relative_mil=1.5)
        s2.weapon.zero_elevation = shot.weapon.zero_elevation
        print('fire cant', cant, twist, rad(s2.barrel_elevation), rad(s2.barrel_azimuth))
        for r in calc.fire(s2, Distance.Yard(700), Distance.Yard(70)).trajectory:
            print('   ', row_digest(r))
    hit = calc.fire(shot, Distance.Yard(400), Distance.Yard(100), extra_data=True)
    print('extra', len(hit.trajectory))
    for r in hit.trajectory[:40] + hit.trajectory[-5:]:
        print('   ', row_digest(r))
    for r in calc.fire(shot, Distance.Yard(300), Distance.Yard(100), time_step=0.05).trajectory:
        print('  t', row_digest(r))
    for cfg, look, rng in (({'cMinimumVelocity': 2000.0}, 0.0, 1000), ({'cMaximumDrop': -10.0}, -5.0, 1500),
                           ({'cMinimumAltitude': -5.0}, -10.0, 600), ({}, 80.0, 3000)):
        c = new_calc(cfg)
        s3 = make_shot('g1', 2.0, look, cross, stored_zero_mil=4.0)
        try:
            rows = c.fire(s3, Distance.Yard(rng), Distance.Yard(100)).trajectory
            print('range ok', sorted(cfg.items()), len(rows))
        except RangeError as e:
            rows = e.incomplete_trajectory
            print('range err', sorted(cfg.items()), repr(e.reason), repr(str(e)), len(rows))
        for r in rows:
            print('   ', row_digest(r))
    # record step smaller than calc step; zero range
    for r in calc.fire(shot, Distance.Foot(2), Distance.Foot(0.1)).trajectory:
        print('  s', row_digest(r))
    for r in calc.fire(shot, Distance.Foot(0), Distance.Foot(1)).trajectory:
        print('  z', row_digest(r))


if __name__ == '__main__':
    main()
