"""Equivalence digest for C02 / round 3 / refactoring 3 (failure reporting of the zero finder).

Prints a deterministic text; must be identical on the clean tree and with the patch applied.
"""
import warnings

warnings.simplefilter("ignore")

from py_ballisticcalc import (Calculator, DragModel, Ammo, Weapon, Shot, Wind, Atmo,
                              TableG1, TableG7, RangeError)
from py_ballisticcalc.exceptions import ZeroFindingError
from py_ballisticcalc.unit import Angular, Distance, Velocity


def h(x):
    if isinstance(x, bool) or x is None:
        return repr(x)
    if isinstance(x, int):
        return "int:%d" % x
    if isinstance(x, float):
        return x.hex()
    return repr(x)


def describe_error(exc):
    base = "%s bases=%s args=%r str=%r" % (
        type(exc).__name__, [b.__name__ for b in type(exc).__mro__[1:3]], exc.args, str(exc))
    if isinstance(exc, ZeroFindingError):
        last = exc.last_barrel_elevation
        last_txt = "%s %s units=%r" % (type(last).__name__, h(last >> Angular.Radian), last.units) \
            if isinstance(last, Angular) else repr(last)
        return base + " | err=%s n=%s last=%s attrs=%s" % (
            h(exc.zero_finding_error), h(exc.iterations_count), last_txt, sorted(vars(exc)))
    if isinstance(exc, RangeError):
        rows = exc.incomplete_trajectory
        last = exc.last_distance
        return base + " | reason=%r rows=%s %d last=%s attrs=%s" % (
            exc.reason, type(rows).__name__, len(rows),
            ("%s raw=%s" % (type(last).__name__, h(last.raw_value))) if isinstance(last, Distance) else repr(last),
            sorted(vars(exc)))
    return base


def zero_case(label, calc, shot, distance, use_set=True):
    before = shot.weapon.zero_elevation
    before_raw = before.raw_value
    print(label)
    try:
        got = (calc.set_weapon_zero if use_set else calc.barrel_elevation_for_target)(shot, distance)
        print("    ok %s elev=%s units=%r" % (type(got).__name__, h(got >> Angular.Radian), got.units))
        print("    returned object is the stored one: %r" % (got is shot.weapon.zero_elevation))
    except Exception as exc:  # pylint: disable=broad-except
        print("    raised " + describe_error(exc))
        print("    stored zero object untouched: %r" % (shot.weapon.zero_elevation is before))
    print("    stored zero before=%s after=%s" % (h(before_raw), h(shot.weapon.zero_elevation.raw_value)))
    print("    engine elevation after=%s" % h(calc._calc.barrel_elevation))


class Row:  # minimal stand-in for a trajectory row
    def __init__(self, distance):
        self.distance = distance


def main():
    yd = Distance.Yard
    g7 = DragModel(0.223, TableG7, 168, 0.308, 1.282)
    slow = DragModel(0.12, TableG1, 40, 0.224, 0.5)

    def shot(dm=g7, mv=2750, sh=2, zero=0.0, look=0.0, winds=None, atmo=None):
        return Shot(weapon=Weapon(Distance.Inch(sh), Distance.Inch(11.24), Angular.Radian(zero)),
                    ammo=Ammo(dm, Velocity.FPS(mv)), look_angle=Angular.Degree(look), atmo=atmo, winds=winds)

    # 1. the exception types on their own
    for args in ((0.25, 20, Angular.Radian(0.01)), (1e-05, 0, Angular.Mil(3)), (float("nan"), -1, None),
                 (float("inf"), 7, Angular.Degree(-5)), (1, 2, "not an angle"), ("text", 1.5, 0.0)):
        print("ZeroFindingError%r -> %s" % (args[:2], describe_error(ZeroFindingError(*args))))
    try:
        ZeroFindingError(1.0, 2)  # pylint: disable=no-value-for-parameter
    except TypeError as exc:
        print("ZeroFindingError with a missing argument ->", type(exc).__name__)
    for reason, rows in ((RangeError.MinimumVelocityReached, []),
                         (RangeError.MaximumDropReached, [Row(Distance.Foot(12.5))]),
                         (RangeError.MinimumAltitudeReached, [Row(Distance.Meter(1)), Row(Distance.Yard(3))]),
                         ("custom reason", (Row(Distance.Inch(7)),)),
                         ("empty tuple", ()),
                         ("row without a distance", [Row(None)]),
                         (None, [Row("far")])):
        print("RangeError(%r, %d rows) -> %s" % (reason, len(rows), describe_error(RangeError(reason, rows))))
    for bad in (None, 5):
        try:
            RangeError("bad rows", bad)
        except Exception as exc:  # pylint: disable=broad-except
            print("RangeError with rows=%r -> %s(%r)" % (bad, type(exc).__name__, str(exc)))
    try:
        RangeError("row lacks attribute", [object()])
    except Exception as exc:  # pylint: disable=broad-except
        print("RangeError with a bare object row -> %s(%r)" % (type(exc).__name__, str(exc)))
    print("class constants:", RangeError.MinimumVelocityReached, "|", RangeError.MaximumDropReached, "|",
          RangeError.MinimumAltitudeReached)

    # 2. through the calculator: successes
    calc = Calculator()
    zero_case("level 100yd", calc, shot(), yd(100))
    zero_case("level 800yd prior zero 5 mrad", calc, shot(zero=0.005), yd(800))
    zero_case("uphill 20deg 400yd", calc, shot(look=20), yd(400))
    zero_case("downhill -10deg 350yd wind", calc,
              shot(look=-10, winds=[Wind(Velocity.MPH(10), Angular.Degree(90), yd(3000))]), yd(350))
    zero_case("elevation only, uphill 5deg", calc, shot(look=5, zero=0.002), yd(250), use_set=False)

    # 3. through the calculator: failures of both kinds
    zero_case("out of reach, slow bullet 3000yd", calc, shot(dm=slow, mv=1100, zero=0.001), yd(3000))
    zero_case("out of reach, uphill 59deg 250yd", calc, shot(look=59, zero=-0.001), yd(250))
    zero_case("downhill -45deg 300yd", calc, shot(look=-45, zero=0.0004), yd(300))
    zero_case("distance 0", calc, shot(zero=0.0007), yd(0))
    for cfg in ({"cMaxIterations": 1}, {"cMaxIterations": 3}, {"cMaxIterations": 0}, {"cMaxIterations": -4},
                {"cZeroFindingAccuracy": 0.0}, {"cZeroFindingAccuracy": -1.0},
                {"cZeroFindingAccuracy": float("nan")}, {"cZeroFindingAccuracy": float("inf")},
                {"cZeroFindingAccuracy": 1e-12}, {"cZeroFindingAccuracy": 0.25, "cMaxIterations": 1},
                {"cMinimumVelocity": 2600.0}, {"cMaximumDrop": -0.5}, {"cMinimumAltitude": -1.0}):
        c = Calculator(_config=cfg)
        zero_case("cfg %r / level 300yd prior 1 mrad" % (cfg,), c, shot(zero=0.001), yd(300))
        zero_case("cfg %r / uphill 15deg 600yd" % (cfg,), c, shot(look=15, zero=-0.0003), yd(600))

    # 4. incomplete shots through fire (RangeError carrying rows)
    for cfg, rng in (({"cMinimumVelocity": 2000.0}, 1000), ({"cMaximumDrop": -2.0}, 800),
                     ({"cMinimumAltitude": -3.0}, 900), ({}, 12000)):
        c = Calculator(_config=cfg)
        s = shot(zero=0.002)
        try:
            res = c.fire(s, yd(rng), yd(100))
            print("fire cfg %r: %d rows" % (cfg, len(res.trajectory)))
        except RangeError as exc:
            print("fire cfg %r raised %s" % (cfg, describe_error(exc)))
            print("    rows: %s" % [h(r.distance.raw_value) for r in exc.incomplete_trajectory])

    # 5. call history: failure then success on the same calculator and shot
    c = Calculator(_config={"cMaxIterations": 2})
    s = shot(zero=0.01)
    zero_case("history 1 (2 iterations allowed) 500yd", c, s, yd(500))
    zero_case("history 2 same again", c, s, yd(500))
    c2 = Calculator()
    zero_case("history 3 default calculator", c2, s, yd(500))
    zero_case("history 4 limited calculator, now starting from the found zero", c, s, yd(500))


if __name__ == "__main__":
    main()
