"""Equivalence digest for C02 / refactoring 2 (Euler step through named Vector methods, hoisted
cos(elevation), _WindSock.vector_for_range de-duplicated, get_calc_step as one expression,
Shot.winds sorted with operator.attrgetter).

Prints repr() of zero angles and of every field of every trajectory row for shots with and
without wind, level / uphill / downhill, canted, in vacuum, with coarse steps.
Must print the same text with and without the patch.
"""
import math
import warnings

from py_ballisticcalc import (Calculator, Shot, Weapon, Ammo, Atmo, Vacuum, Wind, DragModel,
                              TableG1, TableG7, Distance, Angular, Velocity, RangeError)
from py_ballisticcalc.exceptions import ZeroFindingError
from py_ballisticcalc.trajectory_calc import _WindSock, Config
from py_ballisticcalc.trajectory_calc._trajectory_calc import TrajectoryCalc
from py_ballisticcalc.interface_config import create_interface_config

warnings.simplefilter("ignore")


def row_digest(row):
    return "(" + ", ".join(repr(v.raw_value) if hasattr(v, "raw_value") else repr(v) for v in row) + ")"


G1 = DragModel(0.365, TableG1, 69, 0.223, 0.9)
G7 = DragModel(0.223, TableG7, 168, 0.308, 1.282)


def shot(dm=G7, mv=2750, sight=2.0, look=0.0, cant=0.0, zero_mil=None, winds=None, atmo=None, twist=12):
    return Shot(weapon=Weapon(Distance.Inch(sight), twist, None if zero_mil is None else Angular.Mil(zero_mil)),
                ammo=Ammo(dm, Velocity.FPS(mv)), look_angle=Angular.Degree(look),
                cant_angle=Angular.Degree(cant), atmo=atmo or Atmo.icao(), winds=winds)


def winds_a():
    # deliberately unsorted, with two readings sharing the same boundary (sort must stay stable)
    return [Wind(Velocity.MPH(20), Angular.OClock(9), Distance.Yard(600)),
            Wind(Velocity.MPH(10), Angular.OClock(3), Distance.Yard(100)),
            Wind(Velocity.MPH(5), Angular.OClock(6), Distance.Yard(300)),
            Wind(Velocity.MPH(7), Angular.OClock(12), Distance.Yard(300))]


def run(label, calc, s, zero_at, rng, step, **kw):
    print("==", label)
    print("  winds order", [(repr(w.velocity.raw_value), repr(w.until_distance.raw_value)) for w in s.winds])
    if zero_at is not None:
        try:
            z = calc.set_weapon_zero(s, zero_at)
            print("  zero", repr(z.raw_value))
        except (ZeroFindingError, RangeError) as e:
            print("  zero failed", type(e).__name__, str(e))
        print("  stored", repr(s.weapon.zero_elevation.raw_value), "engine", repr(calc._calc.barrel_elevation))
    try:
        hit = calc.fire(s, rng, step, **kw)
        rows = hit.trajectory
    except RangeError as e:
        print("  RangeError", e.reason)
        rows = e.incomplete_trajectory
    print("  rows", len(rows))
    for r in rows:
        print("   ", row_digest(r))


calc = Calculator()
run("no wind level", calc, shot(), Distance.Yard(100), Distance.Yard(1000), Distance.Yard(100))
run("default wind list None", calc, shot(winds=None, dm=G1, mv=2600, sight=3.2), Distance.Yard(200),
    Distance.Yard(500), Distance.Yard(50))
run("4 winds level", calc, shot(winds=winds_a()), Distance.Yard(300), Distance.Yard(1000), Distance.Yard(100))
run("4 winds uphill 25", calc, shot(winds=winds_a(), look=25), Distance.Yard(500), Distance.Yard(800), Distance.Yard(100))
run("4 winds downhill -15 extra", calc, shot(winds=winds_a(), look=-15), Distance.Yard(200), Distance.Yard(400),
    Distance.Yard(100), extra_data=True)
run("single wind ends early", calc, shot(winds=[Wind(Velocity.MPS(8), Angular.Degree(70), Distance.Meter(150))]),
    Distance.Meter(300), Distance.Meter(600), Distance.Meter(75))
run("head wind only", calc, shot(winds=[Wind(Velocity.MPH(30), Angular.Degree(180))]),
    Distance.Yard(400), Distance.Yard(400), Distance.Yard(400))
run("wind boundary 0", calc, shot(winds=[Wind(Velocity.MPH(30), Angular.Degree(90), Distance.Yard(0))]),
    Distance.Yard(100), Distance.Yard(300), Distance.Yard(100))
run("canted 30 with wind", calc, shot(winds=winds_a(), cant=30, zero_mil=3.0), None, Distance.Yard(600), Distance.Yard(150))
run("left twist, stored zero, no zeroing", calc, shot(zero_mil=5.0, twist=-9), None, Distance.Yard(900), Distance.Yard(300),
    time_step=0.2)
run("vacuum", calc, shot(atmo=Vacuum()), Distance.Yard(300), Distance.Yard(600), Distance.Yard(200))
run("vacuum with wind", calc, shot(atmo=Vacuum(), winds=winds_a(), look=10), Distance.Yard(300), Distance.Yard(600),
    Distance.Yard(200))
run("high altitude", calc, shot(atmo=Atmo.icao(Distance.Foot(9000))), Distance.Yard(700), Distance.Yard(1500), Distance.Yard(250))
run("steep lob 50 deg stored", calc, shot(zero_mil=0.0, look=50, winds=winds_a()), None, Distance.Yard(2000), Distance.Yard(500))
run("runs out of velocity", calc, shot(dm=G1, mv=900, zero_mil=30.0), None, Distance.Yard(4000), Distance.Yard(500))
run("default step (range/10)", calc, shot(), Distance.Yard(100), Distance.Yard(250), 0)
for mx in (0.1, 1, 2.5, 10.0):
    c = Calculator({"max_calc_step_size_feet": mx})
    run(f"max step {mx!r}", c, shot(winds=winds_a(), look=7), Distance.Yard(350), Distance.Yard(700), Distance.Yard(175))
run("step smaller than calc step", calc, shot(), Distance.Yard(50), Distance.Foot(3), Distance.Foot(0.1))

# get_calc_step directly (public method of the engine)
for mx in (0.5, 2, 1e-3):
    tc = TrajectoryCalc(create_interface_config({"max_calc_step_size_feet": mx}))
    print("get_calc_step", repr(mx), [repr(tc.get_calc_step(*a)) for a in
          ((), (0,), (0.0,), (-0.0,), (0.1,), (0.5,), (1,), (7.5,), (-3,), (math.inf,), (math.nan,), (False,), (True,))])

# _WindSock directly (exported helper): walk past every boundary and beyond
for ws_in in (None, (), tuple(sorted(winds_a(), key=lambda w: w.until_distance.raw_value)),
              (Wind(Velocity.FPS(3), Angular.Degree(45), Distance.Foot(10)),),
              (Wind(Velocity.FPS(3), Angular.Degree(45), max_distance_feet=500.0),)):
    ws = _WindSock(ws_in)
    trace = [(ws.current, repr(ws.next_range), repr(tuple(ws.current_vector())))]
    for x in (0.0, 5.0, 10.0, 10.0, 299.0, 300.0, 900.0, 900.0, 1800.0, 1e4, 1e8, 1e9, 1e9):
        v = ws.vector_for_range(x)
        trace.append((repr(x), ws.current, repr(ws.next_range), repr(tuple(v)), v is ws.current_vector()))
    print("windsock", trace)
