"""Equivalence digest for refactoring 1 (TrajectoryCalc.zero_angle control flow).

Prints a deterministic text; it must be byte-identical on the clean worktree and with the patch applied.
Focus: every exit of the zero finder (converged / iterations exhausted / degenerate accuracy /
zero max-iterations / RangeError from the integrator / ZeroDivisionError at distance 0), the values carried by
ZeroFindingError, the solver's own barrel_elevation after each exit and the weapon's stored zero after failures.
"""
import math

from py_ballisticcalc import (Calculator, Shot, Weapon, Ammo, Atmo, Wind, DragModel, TableG1, TableG7,
                              Distance, Angular, Velocity, RangeError, ZeroFindingError)
from py_ballisticcalc.trajectory_calc._trajectory_calc import TrajectoryCalc as PyTrajectoryCalc


def make_calc(cfg=None):
    calc = Calculator(_config=cfg)
    assert type(calc._calc) is PyTrajectoryCalc, "pure python backend expected"
    return calc


def row_digest(row):
    return (repr(row.time), repr(row.distance.raw_value), repr(row.velocity.raw_value), repr(row.mach),
            repr(row.height.raw_value), repr(row.target_drop.raw_value), repr(row.drop_adj.raw_value),
            repr(row.windage.raw_value), repr(row.windage_adj.raw_value), repr(row.look_distance.raw_value),
            repr(row.angle.raw_value), repr(row.density_factor), repr(row.drag), repr(row.energy.raw_value),
            repr(row.ogw.raw_value), int(row.flag))


def ammo_308():
    return Ammo(DragModel(0.223, TableG7, 168, 0.308, 1.282), Velocity.FPS(2750))


def ammo_223():
    return Ammo(DragModel(0.365, TableG1, 69, 0.223, 0.9), Velocity.FPS(2600))


def ammo_slow():
    return Ammo(DragModel(0.12, TableG1, 40, 0.224, 0.7), Velocity.FPS(900))


def describe_exc(e):
    if isinstance(e, ZeroFindingError):
        return ("ZeroFindingError", repr(e.zero_finding_error), repr(e.iterations_count),
                repr(e.last_barrel_elevation.raw_value), repr(e.last_barrel_elevation.units), str(e))
    if isinstance(e, RangeError):
        return ("RangeError", e.reason, len(e.incomplete_trajectory),
                row_digest(e.incomplete_trajectory[-1]) if e.incomplete_trajectory else None, str(e))
    return (type(e).__name__, str(e))


def zero_case(label, shot, dist, cfg=None, fire_back=True):
    """barrel_elevation_for_target + set_weapon_zero + fire the zeroed shot back."""
    calc = make_calc(cfg)
    stored_before = repr(shot.weapon.zero_elevation.raw_value)
    try:
        elev = calc.barrel_elevation_for_target(shot, dist)
        print(label, "elev", repr(elev.raw_value), repr(elev.units), repr(elev >> Angular.Radian))
    except Exception as e:  # pylint: disable=broad-except
        print(label, "elev-exc", describe_exc(e))
    print(label, "solver-state", repr(calc._calc.barrel_elevation), repr(calc._calc.look_angle))
    print(label, "stored-after-query", repr(shot.weapon.zero_elevation.raw_value), stored_before)
    try:
        ret = calc.set_weapon_zero(shot, dist)
        print(label, "set", repr(ret.raw_value), ret is shot.weapon.zero_elevation,
              repr(shot.weapon.zero_elevation.raw_value))
    except Exception as e:  # pylint: disable=broad-except
        print(label, "set-exc", describe_exc(e))
        print(label, "stored-after-failure", repr(shot.weapon.zero_elevation.raw_value), stored_before)
        return
    if fire_back:
        try:
            hit = calc.fire(shot, dist, dist)
            for r in hit:
                print(label, "row", row_digest(r))
        except Exception as e:  # pylint: disable=broad-except
            print(label, "fire-exc", describe_exc(e))


def main():
    # --- converging cases: level, uphill, downhill, wind, stored zero, relative angle
    zero_case("lvl-223-100yd", Shot(weapon=Weapon(Distance.Inch(3.2)), ammo=ammo_223(), atmo=Atmo.icao()),
              Distance.Yard(100))
    zero_case("lvl-308-100yd", Shot(weapon=Weapon(Distance.Inch(2), Distance.Inch(12)), ammo=ammo_308()),
              Distance.Yard(100))
    zero_case("lvl-308-600m", Shot(weapon=Weapon(Distance.Inch(2.5), Distance.Inch(-11)), ammo=ammo_308()),
              Distance.Meter(600))
    zero_case("lvl-308-7yd", Shot(weapon=Weapon(Distance.Inch(2.5)), ammo=ammo_308()), Distance.Yard(7))
    for deg in (30, -30, 55, -55, 5):
        zero_case(f"look{deg}-308-300yd",
                  Shot(weapon=Weapon(Distance.Inch(2), Distance.Inch(12)), ammo=ammo_308(),
                       look_angle=Angular.Degree(deg)), Distance.Yard(300))
    zero_case("wind-308-400yd",
              Shot(weapon=Weapon(Distance.Inch(2), Distance.Inch(12)), ammo=ammo_308(),
                   look_angle=Angular.Degree(-12),
                   winds=[Wind(Velocity.MPH(15), Angular.Degree(70), Distance.Yard(150)),
                          Wind(Velocity.MPH(8), Angular.Degree(200), Distance.Yard(9999))]),
              Distance.Yard(400))
    zero_case("stored+rel-308-250yd",
              Shot(weapon=Weapon(Distance.Inch(1.5), Distance.Inch(10), zero_elevation=Angular.Mil(6)),
                   ammo=ammo_308(), look_angle=Angular.Degree(8), relative_angle=Angular.Mil(-2.5)),
              Distance.Yard(250))
    zero_case("stored-neg-223-200yd",
              Shot(weapon=Weapon(Distance.Inch(3), Distance.Inch(9), zero_elevation=Angular.Degree(-1)),
                   ammo=ammo_223(), atmo=Atmo(Distance.Foot(5000), None, None, 0.4)),
              Distance.Yard(200))
    zero_case("cant-308-200yd",
              Shot(weapon=Weapon(Distance.Inch(2), Distance.Inch(12), zero_elevation=Angular.Mil(1)),
                   ammo=ammo_308(), cant_angle=Angular.Degree(10)), Distance.Yard(200))

    # --- failing / degenerate exits
    zero_case("reach-slow-900yd", Shot(weapon=Weapon(Distance.Inch(2), zero_elevation=Angular.Mil(3)),
                                       ammo=ammo_slow()), Distance.Yard(900))
    zero_case("reach-slow-400yd", Shot(weapon=Weapon(Distance.Inch(2), zero_elevation=Angular.Mil(3)),
                                       ammo=ammo_slow()), Distance.Yard(400))
    zero_case("reach-slow-up40-600yd", Shot(weapon=Weapon(Distance.Inch(2), zero_elevation=Angular.Mil(-1)),
                                            ammo=ammo_slow(), look_angle=Angular.Degree(40)), Distance.Yard(600))
    for n in (0, 1, 2, 3, -4):
        zero_case(f"maxiter{n}-308-300yd",
                  Shot(weapon=Weapon(Distance.Inch(2), Distance.Inch(12), zero_elevation=Angular.Mil(0.5)),
                       ammo=ammo_308(), look_angle=Angular.Degree(3)), Distance.Yard(300),
                  cfg={"cMaxIterations": n}, fire_back=False)
    for acc in (0.0, -1.0, 1.0, 0.05, 1e-9, 1e-300, float("nan"), float("inf")):
        zero_case(f"acc{acc!r}-308-200yd",
                  Shot(weapon=Weapon(Distance.Inch(2), Distance.Inch(12), zero_elevation=Angular.Mil(0.25)),
                       ammo=ammo_308()), Distance.Yard(200),
                  cfg={"cZeroFindingAccuracy": acc}, fire_back=False)
    zero_case("dist0-sh2", Shot(weapon=Weapon(Distance.Inch(2), zero_elevation=Angular.Mil(1)), ammo=ammo_308()),
              Distance.Yard(0), fire_back=False)
    zero_case("dist0-sh0", Shot(weapon=Weapon(Distance.Inch(0), zero_elevation=Angular.Mil(1)), ammo=ammo_308()),
              Distance.Yard(0), fire_back=False)
    zero_case("look90-sh2", Shot(weapon=Weapon(Distance.Inch(2)), ammo=ammo_308(),
                                 look_angle=Angular.Degree(90)), Distance.Yard(50), fire_back=False)
    zero_case("bigstep-308-500yd", Shot(weapon=Weapon(Distance.Inch(2), Distance.Inch(12)), ammo=ammo_308(),
                                        look_angle=Angular.Degree(-20)), Distance.Yard(500),
              cfg={"max_calc_step_size_feet": 4.0})
    zero_case("mindrop-308-300yd", Shot(weapon=Weapon(Distance.Inch(2), zero_elevation=Angular.Degree(-20)),
                                        ammo=ammo_308()), Distance.Yard(300),
              cfg={"cMaximumDrop": -50.0})

    # --- same calculator used repeatedly (call history must not matter)
    calc = make_calc()
    shot = Shot(weapon=Weapon(Distance.Inch(2), Distance.Inch(12)), ammo=ammo_308(), look_angle=Angular.Degree(15))
    for d in (100, 350, 100, 800, 100):
        try:
            e = calc.set_weapon_zero(shot, Distance.Yard(d))
            print("history", d, repr(e.raw_value), repr(calc._calc.barrel_elevation))
        except Exception as e:  # pylint: disable=broad-except
            print("history-exc", d, describe_exc(e), repr(calc._calc.barrel_elevation),
                  repr(shot.weapon.zero_elevation.raw_value))
    try:
        calc.set_weapon_zero(Shot(weapon=shot.weapon, ammo=ammo_slow()), Distance.Yard(1500))
    except Exception as e:  # pylint: disable=broad-except
        print("history-fail", describe_exc(e), repr(shot.weapon.zero_elevation.raw_value))
    print("history-after", repr(calc.set_weapon_zero(shot, Distance.Yard(100)).raw_value))

    # --- direct use of the solver
    tc = PyTrajectoryCalc(make_calc()._calc._config)
    sh = Shot(weapon=Weapon(Distance.Inch(2), Distance.Inch(12), zero_elevation=Angular.Mil(2)), ammo=ammo_308(),
              look_angle=Angular.Degree(-7))
    a = tc.zero_angle(sh, Distance.Meter(420))
    print("direct", repr(a.raw_value), repr(a.units), repr(tc.barrel_elevation), math.isfinite(a.raw_value))


if __name__ == "__main__":
    main()
