"""Equivalence digest for C02 / refactoring 3 (row production path: _TrajectoryDataFilter.should_record
split into range check + interpolation helper, zero-crossing check as early returns,
create_trajectory_row with hoisted sight-line geometry, get_correction guard-first).

Prints repr() of zero angles and of every field of every row (plain and extra_data) for level,
uphill and downhill shots with and without wind, plus the filter / row builder driven directly
with synthetic points.  Must print the same text with and without the patch.
"""
import math
import warnings

from py_ballisticcalc import (Calculator, Shot, Weapon, Ammo, Atmo, Wind, DragModel,
                              TableG1, TableG7, Distance, Angular, Velocity, RangeError, TrajFlag)
from py_ballisticcalc.exceptions import ZeroFindingError
from py_ballisticcalc.trajectory_calc import (_TrajectoryDataFilter, create_trajectory_row, get_correction)
from py_ballisticcalc.vector import Vector

warnings.simplefilter("ignore")


def row_digest(row):
    return "(" + ", ".join(repr(v.raw_value) if hasattr(v, "raw_value") else repr(v) for v in row) + ")"


G1 = DragModel(0.365, TableG1, 69, 0.223, 0.9)
G7 = DragModel(0.223, TableG7, 168, 0.308, 1.282)


def shot(dm=G7, mv=2750, sight=2.0, look=0.0, cant=0.0, zero_mil=None, rel_mil=None, winds=None, twist=12):
    return Shot(weapon=Weapon(Distance.Inch(sight), twist, None if zero_mil is None else Angular.Mil(zero_mil)),
                ammo=Ammo(dm, Velocity.FPS(mv)), look_angle=Angular.Degree(look),
                relative_angle=None if rel_mil is None else Angular.Mil(rel_mil),
                cant_angle=Angular.Degree(cant), atmo=Atmo.icao(), winds=winds)


def wind2():
    return [Wind(Velocity.MPH(12), Angular.OClock(4), Distance.Yard(250)),
            Wind(Velocity.MPH(18), Angular.OClock(8), Distance.Yard(2000))]


def run(label, calc, s, zero_at, rng, step, **kw):
    print("==", label)
    if zero_at is not None:
        try:
            z = calc.set_weapon_zero(s, zero_at)
            print("  zero", repr(z.raw_value))
        except (ZeroFindingError, RangeError) as e:
            print("  zero failed", type(e).__name__, str(e))
        print("  stored", repr(s.weapon.zero_elevation.raw_value))
    try:
        hit = calc.fire(s, rng, step, **kw)
        rows = hit.trajectory
        if kw.get("extra_data"):
            try:
                print("  zeros", [row_digest(r) for r in hit.zeros()])
            except ArithmeticError as e:
                print("  zeros:", e)
    except RangeError as e:
        print("  RangeError", e.reason)
        rows = e.incomplete_trajectory
    print("  rows", len(rows))
    for r in rows:
        print("   ", row_digest(r))


calc = Calculator()
# the row at the zero look-distance: fire to exactly the zero's horizontal distance
for look in (0.0, 12.0, -20.0, 40.0):
    for w in (None, wind2()):
        s = shot(look=look, winds=w)
        horiz = Distance.Foot(900.0 * math.cos(math.radians(look)))
        run(f"zero 300yd look {look} wind {bool(w)}", calc, s, Distance.Yard(300), horiz, horiz)
        run(f"  same, extra_data, 3 rows", calc, s, None, horiz, Distance.Foot((horiz >> Distance.Foot) / 3), extra_data=True)
run("G1 extra 1000yd (mach crossing)", calc, shot(dm=G1, mv=2600, sight=3.2), Distance.Yard(100), Distance.Yard(1000),
    Distance.Yard(100), extra_data=True)
run("record step below calc step", calc, shot(), Distance.Yard(100), Distance.Foot(4), Distance.Foot(0.1))
run("record step 0.3 ft extra", calc, shot(look=3), Distance.Yard(25), Distance.Foot(6), Distance.Foot(0.3), extra_data=True)
run("coarse calc step skips record distances", Calculator({"max_calc_step_size_feet": 30.0}), shot(look=5, winds=wind2()),
    Distance.Yard(200), Distance.Yard(120), Distance.Foot(4), extra_data=True)
run("time step records", calc, shot(zero_mil=2.0), None, Distance.Yard(600), Distance.Yard(600), time_step=0.05)
run("time step, steep lob", calc, shot(zero_mil=0.0, rel_mil=900.0, dm=G1, mv=800), None, Distance.Yard(3000), Distance.Yard(1000),
    extra_data=True, time_step=0.5)
run("negative hold never above sight line", calc, shot(zero_mil=-5.0), None, Distance.Yard(300), Distance.Yard(100), extra_data=True)
run("barrel below look angle downhill", calc, shot(zero_mil=-2.0, look=-8.0), None, Distance.Yard(300), Distance.Yard(100), extra_data=True)
run("zero sight height", calc, shot(sight=0.0), Distance.Yard(100), Distance.Yard(300), Distance.Yard(100), extra_data=True)
run("canted 20", calc, shot(cant=20, zero_mil=4.0, winds=wind2()), None, Distance.Yard(500), Distance.Yard(125), extra_data=True)
run("default step", calc, shot(look=-3), Distance.Yard(150), Distance.Yard(450), 0)

# --- the filter driven directly with synthetic integration points ---
def drive(label, flt, points, setup=None):
    if setup is not None:
        flt.setup_seen_zero(*setup)
    print("filter", label)
    for (t, pos, vel, m) in points:
        flt.clear_current_flag()
        try:
            d = flt.should_record(Vector(*pos), Vector(*vel), m, t)
            out = None if d is None else (repr(d.time), repr(tuple(d.position)), repr(tuple(d.velocity)), repr(d.mach))
        except ZeroDivisionError as e:
            out = "ZeroDivisionError"
        print("   ", out, flt.current_flag, flt.seen_zero, repr(flt.next_record_distance), repr(flt.time_of_last_record),
              repr(flt.previous_time), repr(tuple(flt.previous_position)), repr(tuple(flt.previous_velocity)),
              repr(flt.previous_mach), repr(flt.previous_v_mach))

pts = [(0.0, (0.0, -0.2, 0.0), (2700.0, 5.0, 0.0), 1116.0),
       (0.01, (27.0, -0.15, 0.01), (2690.0, 4.7, 0.1), 1116.0),
       (0.02, (53.9, -0.10, 0.02), (2680.0, 4.4, 0.2), 1116.1),
       (0.03, (53.9, 0.01, 0.02), (2670.0, 4.0, 0.2), 1116.1),      # no down-range movement
       (0.04, (50.0, 0.05, 0.03), (-100.0, 3.0, 0.2), 1116.2),      # moved backwards
       (0.30, (460.0, 0.30, 0.5), (1200.0, -3.0, 0.3), 1116.3),     # jumps over several record distances
       (0.60, (700.0, -0.40, 0.9), (1100.0, -9.0, 0.4), 1116.4),    # back through the sight line, subsonic
       (0.90, (900.0, -2.0, 1.5), (1000.0, -15.0, 0.5), 1116.5),
       (1.20, (math.nan, -3.0, 1.5), (900.0, -15.0, 0.5), 1116.5),  # not-a-number position
       (1.50, (1000.0, math.nan, 1.5), (900.0, -15.0, 0.5), 1116.5)]
p0, v0 = Vector(*pts[0][1]), Vector(*pts[0][2])
for flags in (TrajFlag.NONE, TrajFlag.RANGE, TrajFlag.ALL, TrajFlag.ZERO, TrajFlag.MACH):
    for (rstep, tstep) in ((100.0, 0.0), (0.0, 0.25), (100.0, 0.25), (0.0, 0.0), (-5.0, 0.1), (10.0, 0.0)):
        for setup in ((-0.2, 0.002, 0.0), (-0.2, -0.01, 0.0), (0.0, 0.002, 0.001), (-0.2, 0.002, 0.0005), (math.nan, 0.0, 0.1)):
            drive(f"flags={int(flags)} range_step={rstep} time_step={tstep} setup={setup!r}",
                  _TrajectoryDataFilter(flags, rstep, p0, v0, tstep), pts, setup)
drive("mach zero", _TrajectoryDataFilter(TrajFlag.ALL, 10.0, p0, v0), [(0.0, (0.0, 0.0, 0.0), (1.0, 0.0, 0.0), 0.0),
                                                                         (0.1, (5.0, 1.0, 0.0), (1.0, 0.0, 0.0), 1000.0)])

# --- the row builder and the correction directly ---
for args in ((0.0, (0.0, -0.2, 0.0), (2700.0, 5.0, 0.0), 2700.005, 1116.0, 0.0, 0.0, 1.0, 0.0, 168.0, 8),
             (0.5, (900.0, 1.5, -0.3), (2000.0, -7.0, 0.4), 2000.1, 1110.0, 0.01, 0.2, 0.98, 0.6, 168.0, 9),
             (0.5, (900.0, -1.5, 0.3), (2000.0, -7.0, 0.4), 2000.1, 1110.0, -0.01, -0.7, 1.02, 0.6, 150, 2),
             (1.5, (0.0, 3.0, 0.0), (0.0, 100.0, 0.0), 100.0, 1100.0, 0, 1.2, 1.0, 0.1, 55.0, 0),
             (1.5, (-10.0, 3.0, 1.0), (-50.0, -100.0, 0.0), 111.8, 1100.0, 0.5, -1.2, 1.0, 0.1, 55.0, 16),
             (2.0, (math.nan, 1.0, 1.0), (1.0, 1.0, 1.0), 1.7, 1000.0, 0.0, 0.3, 1.0, 0.0, 10.0, 0),
             (2.0, (1e308, -1e308, 1.0), (1.0, 1.0, 1.0), 1.7, 1000.0, 0.0, 1.5, 1.0, 0.0, 10.0, 0)):
    t, pos, vel, *rest = args
    print("row", row_digest(create_trajectory_row(t, Vector(*pos), Vector(*vel), *rest)))
for bad in ((1.0, (1.0, 1.0, 1.0), (1.0, 1.0, 1.0), 1.7, 0.0, 0.0, math.inf, 1.0, 0.0, 10.0, 0),      # mach 0 AND inf look angle
            (1.0, (1.0, 1.0, 1.0), (1.0, 1.0, 1.0), 1.7, 1000.0, 0.0, math.inf, 1.0, 0.0, 10.0, 0),   # inf look angle
            (1.0, (1.0, 1.0, 1.0), (1.0, 1.0, 1.0), 1e200, 1000.0, 0.0, math.inf, 1.0, 0.0, 10.0, 0), # inf look angle AND energy overflow
            (1.0, (1.0, 1.0, 1.0), (1.0, 1.0, 1.0), 1e200, 1000.0, 0.0, 0.1, 1.0, 0.0, 10.0, 0)):     # energy overflow
    t, pos, vel, *rest = bad
    try:
        print("row", row_digest(create_trajectory_row(t, Vector(*pos), Vector(*vel), *rest)))
    except Exception as e:  # which exception comes first must not change
        print("row raises", type(e).__name__, e)
print("corr", [repr(get_correction(d, o)) for d, o in ((0, 1.0), (0.0, 1.0), (-0.0, 1.0), (100.0, 1.0), (-100.0, 1.0),
                                                       (3, 4), (1e-320, 1.0), (math.nan, 1.0), (1.0, math.nan),
                                                       (math.inf, 1.0), (False, 2.0), (True, 2.0))])
