"""Equivalence digest for C14 refactorings (drag_model.py).

Prints a deterministic text; must be identical on the clean worktree and with the patch applied.
"""
import copy
import hashlib
import math
from decimal import Decimal
from fractions import Fraction

import py_ballisticcalc
from py_ballisticcalc import (BCPoint, DragModel, DragModelMultiBC, DragDataPoint, Velocity, Weight, Distance,
                              Ammo, Weapon, Shot, Calculator, Unit, PreferredUnits,
                              TableG1, TableG7, TableG2, TableG5, TableG6, TableG8, TableGI, TableGS, TableRA4)
from py_ballisticcalc.drag_model import linear_interpolation, make_data_points, sectional_density

LINES = []


def out(*args):
    LINES.append(' '.join(str(a) for a in args))


def attempt(label, fn):
    """Run fn; record repr of the result or the exception type and message (and its cause)"""
    try:
        res = fn()
    except BaseException as exc:  # pylint: disable=broad-except
        cause = exc.__cause__
        out(label, 'RAISED', type(exc).__name__, repr(str(exc)),
            'cause=' + (type(cause).__name__ + ':' + repr(str(cause)) if cause is not None else 'None'))
        return None
    out(label, 'OK', res)
    return res


def table_digest(points):
    return hashlib.sha256(repr([(type(p).__name__, p.Mach, p.CD) for p in points]).encode()).hexdigest()[:20]


def model_repr(dm):
    extra = []
    for name in ('sectional_density', 'form_factor'):
        extra.append(f'{name}={getattr(dm, name, "<unset>")!r}')
    return (f'{type(dm).__name__} BC={dm.BC!r} n={len(dm.drag_table)} tbl={table_digest(dm.drag_table)} '
            f'first={dm.drag_table[0]!r} last={dm.drag_table[-1]!r} w={dm.weight!r} d={dm.diameter!r} '
            f'l={dm.length!r} {" ".join(extra)} repr={dm!r}')


def bcp_repr(p):
    return f'BCPoint(BC={p.BC!r}, Mach={getattr(p, "Mach", "<unset>")!r}, V={p.V!r}, Vraw={p.V.raw_value!r}, Vunits={p.V.units!r})'


# ---------------------------------------------------------------- BCPoint
out('== BCPoint')
out('machC', repr(BCPoint._machC()))
bc_cases = [
    dict(BC=0.3, Mach=1.5),
    dict(BC=0.3, Mach=1),
    dict(BC=0.3, V=800),
    dict(BC=0.3, V=800.5),
    dict(BC=0.3, V=Velocity.FPS(2600)),
    dict(BC=0.3, V=Velocity.MPS(0)),      # a Velocity object is always truthy
    dict(BC=0.3, V=Velocity.KMH(1234.5)),
    dict(BC=0.3, Mach=2.0, V=0),
    dict(BC=0.3, Mach=2.0, V=0.0),
    dict(BC=0.3, Mach=2.0, V=None),
    dict(BC=0.3, Mach=0, V=500),
    dict(BC=0.3, Mach=0.0, V=Velocity.FPS(1000)),
    dict(BC=0.3, Mach=-1.0),
    dict(BC=0.3, V=-300),
    dict(BC=0.3, Mach=float('nan')),
    dict(BC=0.3, Mach=float('inf')),
    dict(BC=0.3, Mach='abc'),
    dict(BC=0.3, Mach=Fraction(3, 2)),
    dict(BC=0.3, Mach=True),
    dict(BC=1e-300, Mach=1),
    dict(BC=float('inf'), Mach=1),
    dict(BC=float('nan'), Mach=1),
    # errors
    dict(BC=0, Mach=1),
    dict(BC=-0.1, V=800),
    dict(BC=0, Mach=1, V=800),
    dict(BC=0),
    dict(BC=0.3),
    dict(BC=0.3, Mach=0),
    dict(BC=0.3, V=0),
    dict(BC=0.3, Mach=0, V=0),
    dict(BC=0.3, Mach=None, V=None),
    dict(BC=0.3, Mach=1.0, V=800),
    dict(BC=0.3, Mach=1.0, V=Velocity.MPS(0)),
    dict(BC=0.3, Mach='', V=''),
    dict(BC=0.3, V='fast'),
    dict(BC=0.3, V=[1]),
    dict(BC=None, Mach=1),
    dict(BC='x', Mach=1),
]
for kw in bc_cases:
    attempt(f'BCPoint({kw!r})', lambda kw=kw: bcp_repr(BCPoint(**kw)))


class Loud:
    """Truth value cannot be taken"""
    def __init__(self, name):
        self.name = name

    def __bool__(self):
        raise RuntimeError('bool of ' + self.name)

    def __repr__(self):
        return 'Loud(%s)' % self.name


for kw in [dict(BC=0.3, Mach=Loud('m'), V=Loud('v')), dict(BC=0.3, Mach=None, V=Loud('v')),
           dict(BC=0.3, Mach=2.0, V=Loud('v')), dict(BC=0.3, Mach=Loud('m'), V=5), dict(BC=0.3, Mach=Loud('m')),
           dict(BC=0, Mach=Loud('m'), V=Loud('v'))]:
    attempt(f'BCPoint({kw!r})', lambda kw=kw: bcp_repr(BCPoint(**kw)))
attempt('BCPoint positional', lambda: bcp_repr(BCPoint(0.25, 2.5)))
attempt('BCPoint positional V', lambda: bcp_repr(BCPoint(0.25, None, 700)))
# a Velocity given by the caller is re-expressed in the preferred unit (same object)
v_in = Velocity.FPS(2000)
p = BCPoint(0.4, V=v_in)
out('caller velocity', repr(v_in), 'same object', p.V is v_in)
# preferred velocity unit changed
saved = PreferredUnits.velocity
PreferredUnits.velocity = Unit.FPS
attempt('BCPoint V=2600 in FPS', lambda: bcp_repr(BCPoint(0.3, V=2600)))
attempt('BCPoint Mach in FPS', lambda: bcp_repr(BCPoint(0.3, Mach=2)))
PreferredUnits.velocity = saved
# ordering / equality of the dataclass
a, b, c = BCPoint(0.5, Mach=1.0), BCPoint(0.1, Mach=2.0), BCPoint(0.9, Mach=1.0)
out('order', a < b, b < a, a <= c, a == c, a == b, sorted([b, a, c])[0] is a, repr(a))

# ---------------------------------------------------------------- make_data_points / DragModel
out('== make_data_points / DragModel')
pts = [DragDataPoint(0.0, 0.2), DragDataPoint(1.0, 0.4), DragDataPoint(2.0, 0.3)]
mixed = [{'Mach': 0.0, 'CD': 0.1}, DragDataPoint(0.5, 0.2), {'Mach': 1.0, 'CD': 0.3, 'extra': 1}]
r = make_data_points(pts)
out('copy of points', r, [x is y for x, y in zip(r, pts)], r is pts)
out('mixed', make_data_points(mixed))
out('tuple input', make_data_points(tuple(mixed)))
out('generator input', make_data_points(x for x in mixed))
out('empty', make_data_points([]))


class SubPoint(DragDataPoint):
    pass


class KeyErr:
    def __getitem__(self, k):
        raise KeyError(k)


class AttrPoint:
    Mach = 1.0
    CD = 0.5

    def __getitem__(self, k):
        return {'Mach': 7.0, 'CD': 8.0}[k]


out('subclass point', [(type(x).__name__, x) for x in make_data_points([SubPoint(1.0, 2.0)])])
out('duck point', make_data_points([AttrPoint()]))
for label, bad in [('missing CD', [{'Mach': 1.0}]), ('missing Mach', [{'CD': 1.0}, {'Mach': 1, 'CD': 2}]),
                   ('int item', [{'Mach': 1, 'CD': 2}, 5]), ('None item', [None]), ('not iterable', 5),
                   ('None', None), ('str', 'ab'), ('tuple item', [(1.0, 2.0)]), ('list item', [[1.0, 2.0]]),
                   ('keyerr obj', [KeyErr()]), ('dict of dicts', {'a': 1})]:
    attempt(f'make_data_points {label}', lambda bad=bad: make_data_points(bad))

out('sectional_density', repr(sectional_density(178, 0.308)), repr(sectional_density(285.0, 0.338)))
attempt('sectional_density zero dia', lambda: sectional_density(100, 0))
for kw in [dict(bc=0.22, drag_table=TableG7), dict(bc=0.5, drag_table=TableG1, weight=168, diameter=0.308, length=1.2),
           dict(bc=0.5, drag_table=pts, weight=Weight.Gram(10), diameter=Distance.Millimeter(7.82)),
           dict(bc=0.5, drag_table=pts, weight=168), dict(bc=0.5, drag_table=pts, diameter=0.3),
           dict(bc=0.5, drag_table=pts, weight=-1, diameter=0.3)]:
    attempt(f'DragModel {sorted(k for k in kw)}', lambda kw=kw: model_repr(DragModel(**kw)))
attempt('DragModel empty', lambda: DragModel(0.3, []))
attempt('DragModel bc=0', lambda: DragModel(0, TableG7))
attempt('DragModel bc<0 empty', lambda: DragModel(-1, []))
attempt('DragModel bad table', lambda: DragModel(0.3, [1, 2]))
attempt('DragModel table=5', lambda: DragModel(0.3, 5))
attempt('DragModel bad weight', lambda: DragModel(0.3, pts, weight='heavy', diameter=1))
dm0 = DragModel(0.3, pts)
out('DragModel copies points', [x is y for x, y in zip(dm0.drag_table, pts)], dm0.drag_table == pts)

# ---------------------------------------------------------------- linear_interpolation directly
out('== linear_interpolation')
nan = float('nan')
inf = float('inf')
xs = [-inf, -1.0, 0.0, 0.1, 0.5, 0.999999, 1.0, 1.0000001, 1.5, 2.0, 2.5, 3.0, 3.5, 4.0, 4.5, 5.0, 7.0, inf, nan]
grids = {
    'one': ([1.0], [0.5]),
    'two': ([1.0, 3.0], [0.5, 0.7]),
    'three': ([1.0, 2.0, 4.0], [0.5, 0.25, 0.75]),
    'four': ([0.5, 1.0, 2.0, 4.0], [0.1, 0.5, 0.25, 0.75]),
    'five': ([0.5, 1.0, 2.0, 4.0, 5.0], [0.1, 0.5, 0.25, 0.75, 0.8]),
    'seven': ([0.0, 0.5, 1.0, 2.0, 3.0, 4.0, 5.0], [0.3, 0.1, 0.5, 0.25, 0.75, 0.8, 0.2]),
    'dups': ([1.0, 2.0, 2.0, 2.0, 3.0, 3.0, 4.0], [0.1, 0.2, 0.3, 0.4, 0.5, 0.6, 0.7]),
    'alldup': ([2.0, 2.0, 2.0], [0.1, 0.2, 0.3]),
    'unsorted': ([3.0, 1.0, 4.0, 1.5, 5.0, 0.5, 2.0], [0.1, 0.2, 0.3, 0.4, 0.5, 0.6, 0.7]),
    'scrambled': ([0.0, 3.0, 1.0, 4.0, 2.0, 2.5, 0.7, 6.0], [0.1, 0.2, 0.3, 0.4, 0.5, 0.6, 0.7, 0.8]),
    'scrambled2': ([0.0, 4.5, 4.0, 3.0, 2.0, 1.0, 0.5, 0.2, 6.0], [0.1, 0.2, 0.3, 0.4, 0.5, 0.6, 0.7, 0.8, 0.9]),
    'descending': ([5.0, 4.0, 3.0, 2.0, 1.0], [0.1, 0.2, 0.3, 0.4, 0.5]),
    'nan_inside': ([1.0, nan, 3.0, 4.0], [0.1, 0.2, 0.3, 0.4]),
    'nan_first': ([nan, 2.0, 3.0], [0.1, 0.2, 0.3]),
    'nan_last': ([1.0, 2.0, nan], [0.1, 0.2, 0.3]),
    'ints': ([1, 2, 4, 8], [1, 2, 3, 5]),
    'fractions': ([Fraction(1, 2), Fraction(3, 2), Fraction(7, 2)], [Fraction(1, 3), Fraction(2, 3), Fraction(1, 7)]),
    'tuples': ((0.5, 1.5, 2.5, 3.5), (1.0, 3.0, 2.0, 5.0)),
}
for name, (xp, yp) in grids.items():
    xp0, yp0 = copy.deepcopy(xp), copy.deepcopy(yp)
    res = attempt(f'interp {name}', lambda: [repr(v) for v in linear_interpolation(xs, xp, yp)])
    out('   inputs intact', repr(xp) == repr(xp0), repr(yp) == repr(yp0))
big_xp = [0.1 * i * i for i in range(40)]
big_yp = [math.sin(i) + 2 for i in range(40)]
big_x = [0.037 * i for i in range(0, 4500, 7)] + big_xp
attempt('interp big', lambda: hashlib.sha256(repr(linear_interpolation(big_x, big_xp, big_yp)).encode()).hexdigest())
attempt('interp result type', lambda: type(linear_interpolation((1.0, 2.0), (0.0, 3.0), (1.0, 2.0))).__name__)
attempt('interp generator x', lambda: linear_interpolation((v for v in [0.5, 1.5, 9.0]), [1.0, 2.0], [3.0, 5.0]))
attempt('interp empty x', lambda: linear_interpolation([], [1.0, 2.0], [3.0, 5.0]))
attempt('interp empty x, empty xp', lambda: linear_interpolation([], [], []))
attempt('interp empty xp', lambda: linear_interpolation([1.0], [], []))
attempt('interp empty xp tuple', lambda: linear_interpolation([1.0], (), ()))
attempt('interp len mismatch', lambda: linear_interpolation([1.0], [1.0, 2.0], [1.0]))
attempt('interp len mismatch empty x', lambda: linear_interpolation([], [1.0, 2.0], [1.0]))
attempt('interp x not iterable', lambda: linear_interpolation(5, [1.0, 2.0], [1.0, 2.0]))
attempt('interp x str item', lambda: linear_interpolation([0.5, 'a'], [1.0, 2.0], [1.0, 2.0]))
attempt('interp xp str', lambda: linear_interpolation([1.5], ['a', 'b'], [1.0, 2.0]))
attempt('interp yp None interior', lambda: linear_interpolation([0.0, 1.5], [1.0, 2.0, 3.0], [1.0, None, 2.0]))
attempt('interp yp None clamped', lambda: linear_interpolation([0.0, 9.0], [1.0, 2.0], [None, None]))
attempt('interp decimal xp', lambda: linear_interpolation([0.0, 1.5], [Decimal(1), Decimal(2)], [1.0, 2.0]))
attempt('interp decimal all', lambda: linear_interpolation([Decimal('1.5')], [Decimal(1), Decimal(2)], [Decimal(1), Decimal(2)]))
attempt('interp xp no len', lambda: linear_interpolation([1.0], (v for v in [1.0]), [1.0]))

# ---------------------------------------------------------------- DragModelMultiBC
out('== DragModelMultiBC')
tables = dict(G1=TableG1, G7=TableG7, G2=TableG2, G5=TableG5, G6=TableG6, G8=TableG8, GI=TableGI, GS=TableGS, RA4=TableRA4)


def mk(*spec):
    return [BCPoint(**kw) for kw in spec]


point_sets = {
    'single_mach': lambda: mk(dict(BC=0.22, Mach=2.0)),
    'single_v': lambda: mk(dict(BC=0.31, V=Velocity.FPS(2500))),
    'two_asc': lambda: mk(dict(BC=0.22, Mach=1.0), dict(BC=0.30, Mach=2.5)),
    'two_desc': lambda: mk(dict(BC=0.30, Mach=2.5), dict(BC=0.22, Mach=1.0)),
    'three_mixed': lambda: mk(dict(BC=0.275, V=Velocity.MPS(800)), dict(BC=0.255, V=Velocity.MPS(500)),
                              dict(BC=0.26, V=Velocity.MPS(700))),
    'four_nodes': lambda: mk(dict(BC=0.4, Mach=0.5), dict(BC=0.5, Mach=4.0), dict(BC=0.45, Mach=1.0),
                             dict(BC=0.42, Mach=2.0)),
    'five_units': lambda: mk(dict(BC=0.494, V=920), dict(BC=0.478, V=Velocity.FPS(2624.67)),
                             dict(BC=0.473, V=Velocity.KMH(2196)), dict(BC=0.500, Mach=1.2),
                             dict(BC=0.453, V=Velocity.MPS(325))),
    'dup_mach': lambda: mk(dict(BC=0.2, Mach=1.0), dict(BC=0.3, Mach=2.0), dict(BC=0.4, Mach=2.0),
                           dict(BC=0.5, Mach=3.0), dict(BC=0.25, Mach=1.0)),
    'outside_low': lambda: mk(dict(BC=0.2, Mach=-2.0), dict(BC=0.3, Mach=-1.0)),
    'outside_high': lambda: mk(dict(BC=0.2, Mach=10.0), dict(BC=0.3, Mach=20.0)),
    'seven': lambda: mk(*[dict(BC=0.2 + 0.03 * ((i * 5) % 7), Mach=0.3 + 0.6 * ((i * 3) % 7)) for i in range(7)]),
    'nan_mach': lambda: mk(dict(BC=0.2, Mach=1.0), dict(BC=0.3, Mach=nan), dict(BC=0.4, Mach=3.0)),
    'inf_mach': lambda: mk(dict(BC=0.2, Mach=1.0), dict(BC=0.3, Mach=inf)),
    'tiny_bc': lambda: mk(dict(BC=5e-324, Mach=1.0), dict(BC=0.3, Mach=2.0)),
}
dims = {
    'nodims': dict(),
    'floats': dict(weight=178, diameter=.308),
    'units': dict(weight=Weight.Gram(18.5), diameter=Distance.Millimeter(8.59), length=Distance.Inch(1.7)),
    'only_w': dict(weight=150),
    'neg_d': dict(weight=150, diameter=-0.3),
    'heavy': dict(weight=70000, diameter=0.1),
}
for pname, pf in point_sets.items():
    for tname, table in tables.items():
        for dname, dkw in dims.items():
            if tname not in ('G1', 'G7') and dname not in ('nodims', 'floats'):
                continue
            points = pf()
            snapshot = [bcp_repr(q) for q in points]
            ids = [id(q) for q in points]
            table_before = repr(table)
            dkw2 = copy.deepcopy(dkw)
            dm = attempt(f'MBC {pname} {tname} {dname}',
                         lambda: model_repr(DragModelMultiBC(points, table, **dkw2)))
            out('   intact', [bcp_repr(q) for q in points] == snapshot, [id(q) for q in points] == ids,
                repr(table) == table_before, 'dims', repr(sorted(dkw2.items())))

# effective BC law on a model (standard drag x model BC / model drag)
out('== effective BC')
for pname in ('two_desc', 'three_mixed', 'four_nodes', 'five_units', 'dup_mach', 'seven'):
    for dname in ('nodims', 'floats'):
        dm = DragModelMultiBC(point_sets[pname](), TableG7, **dims[dname])
        eff = [repr(std['CD'] * dm.BC / p.CD) for std, p in zip(TableG7, dm.drag_table)]
        out(pname, dname, hashlib.sha256(repr(eff).encode()).hexdigest()[:20], eff[0], eff[40], eff[-1])

# data-point tables shared with another model; repeated construction
out('== sharing / repetition')
base = DragModel(0.3, TableG7, 178, .308)
base_before = table_digest(base.drag_table)
shared_points = point_sets['three_mixed']()
m1 = DragModelMultiBC(shared_points, base.drag_table, 178, .308)
m2 = DragModelMultiBC(shared_points, base.drag_table, 178, .308)
m3 = DragModelMultiBC(list(reversed(shared_points)), m1.drag_table)
m4 = DragModelMultiBC(shared_points, tuple(base.drag_table))
out('base unchanged', table_digest(base.drag_table) == base_before, 'm1==m2', m1.drag_table == m2.drag_table,
    m1.BC == m2.BC, 'distinct lists', m1.drag_table is not m2.drag_table,
    'distinct points', all(x is not y for x, y in zip(m1.drag_table, base.drag_table)),
    all(x is not y for x, y in zip(m1.drag_table, m2.drag_table)))
out('m1', model_repr(m1))
out('m3', model_repr(m3))
out('m4', model_repr(m4))
out('points order kept', [q.BC for q in shared_points])
# points given as a tuple / generator
attempt('MBC tuple points', lambda: model_repr(DragModelMultiBC(tuple(point_sets['two_desc']()), TableG1)))
attempt('MBC generator points', lambda: model_repr(DragModelMultiBC((q for q in point_sets['two_desc']()), TableG1)))
# caller-supplied weight objects are re-expressed in the preferred unit (same objects kept)
w_in, d_in, l_in = Weight.Gram(12), Distance.Millimeter(7.8), Distance.Centimeter(3)
mm = DragModelMultiBC(point_sets['two_asc'](), TableG7, w_in, d_in, l_in)
out('dims objects', repr(w_in), repr(d_in), repr(l_in), mm.weight is w_in, mm.diameter is d_in, mm.length is l_in)

# errors
out('== MBC errors')
attempt('MBC no points', lambda: DragModelMultiBC([], TableG7))
attempt('MBC no points no table', lambda: DragModelMultiBC([], []))
attempt('MBC empty table', lambda: DragModelMultiBC(point_sets['two_asc'](), []))
attempt('MBC bad table', lambda: DragModelMultiBC(point_sets['two_asc'](), [{'Mach': 1}]))
attempt('MBC bad table 2', lambda: DragModelMultiBC(point_sets['two_asc'](), [1, 2]))
attempt('MBC table None', lambda: DragModelMultiBC(point_sets['two_asc'](), None))
attempt('MBC points None', lambda: DragModelMultiBC(None, TableG7))
attempt('MBC points not BCPoint', lambda: DragModelMultiBC([1, 2], TableG7))
attempt('MBC points mixed junk', lambda: DragModelMultiBC([BCPoint(0.2, Mach=1), 'x'], TableG7))
attempt('MBC str mach table', lambda: DragModelMultiBC(point_sets['two_asc'](), [{'Mach': 'a', 'CD': 1.0}]))
attempt('MBC None CD', lambda: DragModelMultiBC(point_sets['two_asc'](), [{'Mach': 0.5, 'CD': None}, {'Mach': 'a', 'CD': 1.0}]))
attempt('MBC str mach point', lambda: DragModelMultiBC(mk(dict(BC=0.2, Mach='a'), dict(BC=0.3, Mach='b')), TableG7))
attempt('MBC mixed mach point', lambda: DragModelMultiBC(mk(dict(BC=0.2, Mach='a'), dict(BC=0.3, Mach=1.0)), TableG7))
attempt('MBC bad weight', lambda: DragModelMultiBC(point_sets['two_asc'](), TableG7, weight='x', diameter=1))
attempt('MBC zero divisor', lambda: DragModelMultiBC(mk(dict(BC=5e-324, Mach=1.0)), TableG7, weight=70000, diameter=0.1))
attempt('MBC underflow sd', lambda: DragModelMultiBC(point_sets['two_asc'](), TableG7, weight=1e-320, diameter=100))


class Duck:
    def __init__(self, bc, mach):
        self.BC, self.Mach = bc, mach


attempt('MBC duck points', lambda: model_repr(DragModelMultiBC([Duck(0.3, 2.0), Duck(0.2, 1.0)], TableG7)))
attempt('MBC duck missing BC', lambda: DragModelMultiBC([Duck(0.3, 2.0), object()], TableG7))

# ---------------------------------------------------------------- trajectory through the solver
out('== trajectory')
calc = Calculator()
weapon = Weapon(4, 12)
for pname in ('single_mach', 'three_mixed', 'five_units'):
    dm = DragModelMultiBC(point_sets[pname](), TableG7, weight=178, diameter=.308, length=1.3)
    shot = Shot(weapon=weapon, ammo=Ammo(dm, Velocity.FPS(2700)))
    calc.set_weapon_zero(shot, Distance.Yard(100))
    traj = calc.fire(shot=shot, trajectory_range=Distance.Yard(800), trajectory_step=Distance.Yard(200)).trajectory
    out(pname, [(repr(r.distance.raw_value), repr(r.velocity.raw_value), repr(r.height.raw_value), repr(r.time))
                for r in traj])

text = '\n'.join(LINES)
print(text)
print('DIGEST', hashlib.sha256(text.encode()).hexdigest())
