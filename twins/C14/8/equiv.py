"""Equivalence digest for C14 / refactoring 2 (DragModelMultiBC: copy-then-sort-in-place, scaling helper with zip).

Prints a deterministic text; must be identical on the clean worktree and with the patch applied.
Run:  cd <checkout> && PYTHONPATH=<checkout> /venv/bin/python equiv.py
"""
import copy
import hashlib
import itertools
import warnings

warnings.simplefilter("ignore")

from py_ballisticcalc import (BCPoint, DragModel, DragModelMultiBC, DragDataPoint, Velocity, Weight, Distance,
                              TableG1, TableG7, TableG8, TableGS, TableRA4)
from py_ballisticcalc.drag_model import linear_interpolation

LINES = []


def out(*parts):
    line = " ".join(str(p) for p in parts)
    LINES.append(line)
    print(line)


def call(label, fn, *args):
    """Print repr of the result (and its type) or the exception type + message"""
    try:
        res = fn(*args)
        out(label, "->", type(res).__name__, repr(res))
    except BaseException as exc:  # pylint: disable=broad-except
        out(label, "-> raised", type(exc).__name__, repr(str(exc)))


NAN = float("nan")
INF = float("inf")

# ---------------------------------------------------------------- a few direct interpolation calls
XP = [0.5, 1.0, 1.5, 2.25, 3.0, 4.0, 5.5]
YP = [0.30, 0.31, 0.29, 0.335, 0.36, 0.355, 0.41]
XS = [-1.0, 0.0, 0.5, 0.75, 1.0, 1.2, 2.25, 2.9, 5.5, 6.0, INF, -INF, NAN, 3]
call("sorted7", linear_interpolation, XS, XP, YP)
call("one-point", linear_interpolation, XS, [1.5], [7.0])

# ---------------------------------------------------------------- through DragModelMultiBC
def snapshot_table(table):
    return repr([(type(p).__name__, p.Mach, p.CD) if isinstance(p, DragDataPoint) else sorted(p.items())
                 for p in table])


def reference_bc(mach, pts):
    """Independent clamped piecewise-linear interpolation of BC over Mach (linear scan, same arithmetic)"""
    pts = sorted(pts, key=lambda q: q[0])
    if mach <= pts[0][0]:
        return pts[0][1]
    if mach >= pts[-1][0]:
        return pts[-1][1]
    for (m0, b0), (m1, b1) in zip(pts, pts[1:]):
        if m0 <= mach < m1:
            return b0 + (b1 - b0) / (m1 - m0) * (mach - m0)
    raise AssertionError("unreachable")


def multi(label, make_points, table, **kw):
    points = make_points()
    points_before = repr(points)
    table_before = snapshot_table(table)
    try:
        dm = DragModelMultiBC(points, table, **kw)
    except BaseException as exc:  # pylint: disable=broad-except
        out(label, "-> raised", type(exc).__name__, repr(str(exc)))
        return None
    cds = [p.CD for p in dm.drag_table]
    machs = [p.Mach for p in dm.drag_table]
    std = make_std(table)
    pairs = [(p.Mach, p.BC) for p in points]
    worst = 0.0
    for m, cd, cd_std in zip(machs, cds, std):
        eff = cd_std * dm.BC / cd
        ref = reference_bc(m, pairs)
        worst = max(worst, abs(eff - ref) / ref)
    out(label, "BC", repr(dm.BC), "n", len(cds), "sha", hashlib.sha256(repr(list(zip(machs, cds))).encode()).hexdigest())
    out(label, "first/last/mid", repr(cds[0]), repr(cds[-1]), repr(cds[len(cds) // 2]),
        "law-ok", worst < 1e-12,
        "inputs-intact", repr(points) == points_before and snapshot_table(table) == table_before,
        "attrs", repr(dm), getattr(dm, "sectional_density", None), getattr(dm, "form_factor", None))
    dm2 = DragModelMultiBC(make_points(), table, **kw)
    out(label, "rebuild-same", [p.CD for p in dm2.drag_table] == cds, dm2.BC == dm.BC,
        "distinct-points", all(a is not b for a, b in zip(dm.drag_table, dm2.drag_table)))
    return dm


def make_std(table):
    return [p.CD if isinstance(p, DragDataPoint) else p["CD"] for p in table]


multi("g7-3v", lambda: [BCPoint(0.275, V=Velocity.MPS(800)), BCPoint(0.255, V=Velocity.MPS(500)),
                        BCPoint(0.26, V=Velocity.MPS(700))], TableG7, weight=178, diameter=0.308)
multi("g7-3v-sorted", lambda: [BCPoint(0.255, V=Velocity.MPS(500)), BCPoint(0.26, V=Velocity.MPS(700)),
                               BCPoint(0.275, V=Velocity.MPS(800))], TableG7, weight=178, diameter=0.308)
multi("g7-litz", lambda: [BCPoint(0.417, V=Velocity.MPS(745)), BCPoint(0.409, V=Velocity.MPS(662)),
                          BCPoint(0.4, V=Velocity.MPS(580))], TableG7, weight=Weight.Grain(285),
      diameter=Distance.Inch(0.338), length=Distance.Inch(1.7))
multi("g1-single", lambda: [BCPoint(0.22, Mach=1.3)], TableG1)
multi("g1-mach5", lambda: [BCPoint(0.45, Mach=2.5), BCPoint(0.41, Mach=0.9), BCPoint(0.47, Mach=3.5),
                           BCPoint(0.40, Mach=0.5), BCPoint(0.43, Mach=1.5)], TableG1)
multi("g8-fps", lambda: [BCPoint(0.3, V=Velocity.FPS(2800)), BCPoint(0.28, V=1200), BCPoint(0.29, V=2000.5)], TableG8)
multi("gs-on-nodes", lambda: [BCPoint(0.1, Mach=TableGS[3]["Mach"]), BCPoint(0.12, Mach=TableGS[10]["Mach"]),
                              BCPoint(0.09, Mach=TableGS[-1]["Mach"])], TableGS)
multi("ra4-dup-mach", lambda: [BCPoint(0.12, Mach=1.0), BCPoint(0.14, Mach=1.0), BCPoint(0.13, Mach=2.0)], TableRA4)
multi("g7-outside", lambda: [BCPoint(0.3, Mach=7.0), BCPoint(0.2, Mach=6.0)], TableG7)
multi("g7-kmh", lambda: [BCPoint(0.31, V=Velocity.KMH(2900)), BCPoint(0.29, V=Velocity.KT(900))], TableG7, weight=168)
multi("empty-points", lambda: [], TableG7)
multi("empty-table", lambda: [BCPoint(0.3, Mach=1.0)], [])

# data points of another model as table: the donor must stay unchanged
donor = DragModel(0.3, TableG7)
donor_before = snapshot_table(donor.drag_table)
m = multi("from-donor", lambda: [BCPoint(0.3, Mach=2.0), BCPoint(0.25, Mach=1.0)], donor.drag_table)
out("donor-intact", snapshot_table(donor.drag_table) == donor_before,
    all(a is not b for a, b in zip(donor.drag_table, m.drag_table)))
# shared point list reused for two models with different tables
shared = [BCPoint(0.33, Mach=2.2), BCPoint(0.3, V=Velocity.MPS(300)), BCPoint(0.31, Mach=1.4)]
shared_copy = copy.deepcopy(shared)
a = DragModelMultiBC(shared, TableG1)
b = DragModelMultiBC(shared, TableG7)
a2 = DragModelMultiBC(shared, TableG1)
out("shared-points", repr(shared) == repr(shared_copy), [p.CD for p in a.drag_table] == [p.CD for p in a2.drag_table],
    repr(a.drag_table[40].CD), repr(b.drag_table[40].CD))


# ---------------------------------------------------------------- order of the points / identity of the inputs
BASE = [(0.30, 0.6), (0.33, 1.1), (0.29, 1.9), (0.35, 2.7)]
digests = set()
for perm in itertools.permutations(BASE):
    pts = [BCPoint(bc_, Mach=m_) for bc_, m_ in perm]
    ids_before = [id(q) for q in pts]
    repr_before = repr(pts)
    dm = DragModelMultiBC(pts, TableG7, weight=150, diameter=0.284)
    assert [id(q) for q in pts] == ids_before and repr(pts) == repr_before, "point list reordered or changed"
    digests.add(hashlib.sha256(repr([(q.Mach, q.CD) for q in dm.drag_table]).encode()).hexdigest())
out("permutations", len(digests), sorted(digests)[0])

# equal Mach, different BC: the (stable) order among equals decides; both input orders are printed
for name, pts in (("dupA", [BCPoint(0.2, Mach=1.0), BCPoint(0.4, Mach=1.0), BCPoint(0.3, Mach=2.0), BCPoint(0.5, Mach=2.0)]),
                  ("dupB", [BCPoint(0.5, Mach=2.0), BCPoint(0.4, Mach=1.0), BCPoint(0.3, Mach=2.0), BCPoint(0.2, Mach=1.0)])):
    dm = DragModelMultiBC(pts, TableG1)
    out(name, hashlib.sha256(repr([q.CD for q in dm.drag_table]).encode()).hexdigest(),
        repr(dm.drag_table[0].CD), repr(dm.drag_table[25].CD), repr(dm.drag_table[40].CD), repr(dm.drag_table[-1].CD))

# a NaN Mach (truthy, accepted by BCPoint) and infinities among the points, in two orders
for name, pts in (("nanA", [BCPoint(0.2, Mach=1.0), BCPoint(0.4, Mach=NAN), BCPoint(0.3, Mach=2.0), BCPoint(0.25, Mach=0.5)]),
                  ("nanB", [BCPoint(0.4, Mach=NAN), BCPoint(0.3, Mach=2.0), BCPoint(0.25, Mach=0.5), BCPoint(0.2, Mach=1.0)]),
                  ("infA", [BCPoint(0.2, Mach=INF), BCPoint(0.4, Mach=1.0), BCPoint(0.3, Mach=-INF)])):
    try:
        dm = DragModelMultiBC(pts, TableG7)
        out(name, hashlib.sha256(repr([q.CD for q in dm.drag_table]).encode()).hexdigest(),
            repr(dm.drag_table[0].CD), repr(dm.drag_table[30].CD), repr(dm.drag_table[-1].CD))
    except BaseException as exc:  # pylint: disable=broad-except
        out(name, "-> raised", type(exc).__name__, repr(str(exc)))


# other containers for the points
class NoisyList(list):
    """A list whose own sort would be visible"""
    def sort(self, *a, **k):  # pylint: disable=arguments-differ
        raise RuntimeError("the caller's list must not be sorted")


class MyPoint(BCPoint):
    """Subclass of BCPoint"""


def four():
    return [BCPoint(0.31, Mach=2.4), MyPoint(0.28, V=Velocity.MPS(400)), BCPoint(0.3, V=Velocity.FPS(2000)), MyPoint(0.27, Mach=0.7)]


ref = [q.CD for q in DragModelMultiBC(four(), TableG7).drag_table]
out("ref4", hashlib.sha256(repr(ref).encode()).hexdigest())
call("tuple-points", lambda: [q.CD for q in DragModelMultiBC(tuple(four()), TableG7).drag_table] == ref)
call("generator-points", lambda: [q.CD for q in DragModelMultiBC((q for q in four()), TableG7).drag_table] == ref)
call("noisy-list-points", lambda: [q.CD for q in DragModelMultiBC(NoisyList(four()), TableG7).drag_table] == ref)
call("dict-keys-points", lambda: [q.CD for q in DragModelMultiBC({i: q for i, q in enumerate(four())}.values(), TableG7).drag_table] == ref)

# invalid arguments: same exception, same message
call("points-none", DragModelMultiBC, None, TableG7)
call("points-ints", DragModelMultiBC, [1, 2], TableG7)
call("points-int-second", DragModelMultiBC, [BCPoint(0.3, Mach=1.0), 2], TableG7)
call("points-unordered-mach", DragModelMultiBC, [BCPoint(0.3, Mach=1.0), BCPoint(0.3, Mach="x")], TableG7)
call("table-none", DragModelMultiBC, [BCPoint(0.3, Mach=1.0)], None)
call("table-bad-items", DragModelMultiBC, [BCPoint(0.3, Mach=1.0)], [{"Mach": 1.0}])
call("table-str-cd", DragModelMultiBC, [BCPoint(0.3, Mach=1.0)], [{"Mach": 1.0, "CD": "0.3"}])
call("table-str-mach", DragModelMultiBC, [BCPoint(0.3, Mach=1.0)], [{"Mach": "1.0", "CD": 0.3}])
call("bc-underflow", DragModelMultiBC, [BCPoint(0.3, Mach=1.0)], TableG7, 1e-300, 1e10)
call("weight-str", DragModelMultiBC, [BCPoint(0.3, Mach=1.0)], TableG7, "a", 0.3)
call("length-str", DragModelMultiBC, [], TableG7, 150, 0.3, "a")
call("neg-weight", lambda: repr(DragModelMultiBC([BCPoint(0.3, Mach=1.0)], TableG7, -150, 0.3)))
out("no-private-leak", sorted(n for n in vars(DragModelMultiBC([BCPoint(0.3, Mach=1.0)], TableG7))))

out("TOTAL", hashlib.sha256("\n".join(LINES).encode()).hexdigest())
