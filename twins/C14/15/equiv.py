"""Equivalence digest for refactoring 3 (BCPoint.__init__ restructured, make_data_points loop + helper).

Prints a deterministic text; it must be identical on the clean worktree and with the patch.
"""
import copy
import hashlib
import math

from py_ballisticcalc import (DragModel, DragModelMultiBC, BCPoint, DragDataPoint, Velocity, Weight, Distance,
                              Calculator, Ammo, Weapon, Shot, TableG1, TableG7, TableG2, TableGS, TableRA4)
from py_ballisticcalc import PreferredUnits, Unit
from py_ballisticcalc.drag_model import linear_interpolation, make_data_points

lines = []


def out(*args):
    lines.append(' '.join(str(a) for a in args))


def table_repr(dm):
    return repr([(p.Mach, p.CD) for p in dm.drag_table])


def digest(text):
    return hashlib.sha256(text.encode()).hexdigest()


def attempt(label, fn):
    try:
        res = fn()
        out(label, 'OK', repr(res))
    except Exception as exc:  # pylint: disable=broad-except
        out(label, 'EXC', type(exc).__name__, repr(str(exc)))


# ---------------------------------------------------------------- direct calls of linear_interpolation
nan = float('nan')
inf = float('inf')
xs = [-inf, -1.0, 0.0, 0.5, 1.0, 1.0000000000000002, 1.5, 2.0, 2.5, 2.9999999999999996, 3.0, 3.5, 4.0, 7.25, inf, nan]
cases = {
    'single': ([1.0], [0.3]),
    'two': ([1.0, 3.0], [0.3, 0.5]),
    'three': ([1.0, 2.0, 4.0], [0.3, 0.25, 0.5]),
    'five': ([0.5, 1.0, 2.0, 3.0, 4.0], [0.1, 0.3, 0.25, 0.5, 0.45]),
    'six': ([0.0, 0.5, 1.5, 2.5, 3.5, 7.0], [1.0, 2.0, 0.5, 4.0, 3.0, 9.0]),
    'dup_inner': ([1.0, 2.0, 2.0, 3.0], [0.3, 0.4, 0.6, 0.5]),
    'dup_first': ([1.0, 1.0, 3.0], [0.3, 0.4, 0.5]),
    'dup_last': ([1.0, 3.0, 3.0], [0.3, 0.4, 0.5]),
    'all_same': ([2.0, 2.0, 2.0], [0.3, 0.4, 0.5]),
    'unsorted': ([3.0, 1.0, 2.0, 0.5, 4.0], [0.5, 0.3, 0.25, 0.1, 0.45]),
    'descending': ([4.0, 3.0, 2.0, 1.0], [0.45, 0.5, 0.25, 0.3]),
    'nan_in_xp': ([1.0, nan, 3.0, 4.0], [0.3, 0.4, 0.5, 0.6]),
    'nan_first': ([nan, 2.0, 3.0], [0.3, 0.4, 0.5]),
    'nan_last': ([1.0, 2.0, nan], [0.3, 0.4, 0.5]),
    'tuples': ((1.0, 2.0, 4.0), (0.3, 0.25, 0.5)),
    'ints': ([1, 2, 4], [3, 2, 5]),
}
for name, (xp, yp) in cases.items():
    attempt('li ' + name, lambda xp=xp, yp=yp: linear_interpolation(xs, xp, yp))
    attempt('li-tuple-x ' + name, lambda xp=xp, yp=yp: linear_interpolation(tuple(xs[:6]), xp, yp))
attempt('li empty x', lambda: linear_interpolation([], [1.0, 2.0], [0.3, 0.4]))
attempt('li empty x, empty xp', lambda: linear_interpolation([], [], []))
attempt('li empty xp', lambda: linear_interpolation([1.0], [], []))
attempt('li mismatch', lambda: linear_interpolation([1.0], [1.0, 2.0], [0.3]))
attempt('li mismatch empty x', lambda: linear_interpolation([], [1.0, 2.0], [0.3]))
attempt('li generator x', lambda: linear_interpolation((v for v in xs), [1.0, 2.0, 4.0], [0.3, 0.25, 0.5]))
attempt('li bad xi', lambda: linear_interpolation([1.5, 'a'], [1.0, 2.0, 4.0], [0.3, 0.25, 0.5]))
attempt('li return type', lambda: type(linear_interpolation((1.5,), (1.0, 2.0), (0.3, 0.25))).__name__)
# dense sweep, many nodes (exercises every path of the binary search)
xp_big = [0.1 * k * k for k in range(1, 38)]
yp_big = [math.sin(k) + 2.0 for k in range(1, 38)]
x_big = [0.013 * k for k in range(0, 12000)] + xp_big
attempt('li dense digest', lambda: digest(repr(linear_interpolation(x_big, xp_big, yp_big))))

# ---------------------------------------------------------------- models through the public API
point_sets = {
    'one_mach': lambda: [BCPoint(0.3, Mach=2.0)],
    'one_v': lambda: [BCPoint(0.3, V=Velocity.FPS(2600))],
    'two_sorted': lambda: [BCPoint(0.22, Mach=1.0), BCPoint(0.3, Mach=3.0)],
    'two_reversed': lambda: [BCPoint(0.3, Mach=3.0), BCPoint(0.22, Mach=1.0)],
    'three_mps_shuffled': lambda: [BCPoint(0.275, V=Velocity.MPS(800)), BCPoint(0.255, V=Velocity.MPS(500)),
                                   BCPoint(0.26, V=Velocity.MPS(700))],
    'litz': lambda: [BCPoint(0.417, V=Velocity.MPS(745)), BCPoint(0.409, V=Velocity.MPS(662)),
                     BCPoint(0.4, V=Velocity.MPS(580))],
    'five_float_v': lambda: [BCPoint(V=920, BC=0.494), BCPoint(V=800, BC=0.478), BCPoint(V=610, BC=0.473),
                             BCPoint(V=418, BC=0.500), BCPoint(V=325, BC=0.453)],
    'mixed_units': lambda: [BCPoint(0.31, V=Velocity.KMH(2500)), BCPoint(0.29, Mach=0.9),
                            BCPoint(0.33, V=Velocity.FPS(3100)), BCPoint(0.3, V=Velocity.KT(1200))],
    'on_nodes': lambda: [BCPoint(0.2, Mach=0.5), BCPoint(0.4, Mach=1.0), BCPoint(0.3, Mach=2.5), BCPoint(0.35, Mach=5.0)],
    'duplicate_mach': lambda: [BCPoint(0.2, Mach=1.0), BCPoint(0.4, Mach=1.0), BCPoint(0.3, Mach=2.0)],
    'outside_table': lambda: [BCPoint(0.2, Mach=9.0), BCPoint(0.4, Mach=12.0)],
    'below_table': lambda: [BCPoint(0.2, Mach=1e-9)],
    'same_bc': lambda: [BCPoint(.22, V=Velocity.FPS(2500)), BCPoint(.22, V=Velocity.FPS(1500)), BCPoint(BC=.22, Mach=3)],
}
tables = {'G1': TableG1, 'G7': TableG7, 'G2': TableG2, 'GS': TableGS, 'RA4': TableRA4,
          'tiny': [{'Mach': 0.0, 'CD': 0.2}, {'Mach': 1.0, 'CD': 0.4}, {'Mach': 2.0, 'CD': 0.3}],
          'one_row': [{'Mach': 1.0, 'CD': 0.4}]}
bodies = {'none': {}, 'wd': {'weight': 178, 'diameter': .308},
          'units': {'weight': Weight.Gram(18.5), 'diameter': Distance.Millimeter(8.6), 'length': Distance.Inch(1.7)},
          'weight_only': {'weight': 178}}

for pname, make_points in point_sets.items():
    for tname, table in tables.items():
        for bname, body in bodies.items():
            label = f'dm {pname}/{tname}/{bname}'
            try:
                points = make_points()
                points_before = repr(points)
                table_before = copy.deepcopy(table)
                dm = DragModelMultiBC(points, table, **body)
                dm2 = DragModelMultiBC(points, table, **body)  # repeated construction from the same objects
                same = table_repr(dm) == table_repr(dm2)
                intact = (repr(points) == points_before) and (table == table_before)
                extra = (getattr(dm, 'sectional_density', None), getattr(dm, 'form_factor', None))
                out(label, repr(dm.BC), repr(extra), repr(dm), len(dm.drag_table), digest(table_repr(dm)),
                    'same' if same else 'DIFF', 'intact' if intact else 'ALTERED',
                    repr((dm.drag_table[0].CD, dm.drag_table[len(dm.drag_table) // 2].CD, dm.drag_table[-1].CD)))
            except Exception as exc:  # pylint: disable=broad-except
                out(label, 'EXC', type(exc).__name__, repr(str(exc)))

# data-point lists taken from another model; the donor model must stay unchanged
donor = DragModel(0.3, TableG7)
donor_before = table_repr(donor)
pts = point_sets['three_mps_shuffled']()
m1 = DragModelMultiBC(pts, donor.drag_table)
m2 = DragModelMultiBC(pts, donor.drag_table, weight=178, diameter=.308)
m3 = DragModelMultiBC(pts, m1.drag_table)  # chained: from an already scaled model
out('donor intact', table_repr(donor) == donor_before, digest(table_repr(m1)), digest(table_repr(m2)),
    digest(table_repr(m3)), 'm1 refs donor:', any(a is b for a, b in zip(m1.drag_table, donor.drag_table)))
out('m1 full', table_repr(m1))

# effective BC (standard CD * model BC / model CD) at every table node
for pname in ('three_mps_shuffled', 'two_reversed', 'one_mach', 'duplicate_mach'):
    dm = DragModelMultiBC(point_sets[pname](), TableG7, weight=178, diameter=.308)
    eff = [row['CD'] * dm.BC / p.CD for row, p in zip(TableG7, dm.drag_table)]
    out('effective bc', pname, digest(repr(eff)), repr(eff[:3]), repr(eff[-3:]))

# error paths
attempt('no points', lambda: DragModelMultiBC([], TableG7))
attempt('empty table', lambda: DragModelMultiBC([BCPoint(0.3, Mach=1)], []))
attempt('empty both', lambda: DragModelMultiBC([], []))
attempt('bad row', lambda: DragModelMultiBC([BCPoint(0.3, Mach=1)], [{'Mach': 1.0}]))
attempt('bad row type', lambda: DragModelMultiBC([BCPoint(0.3, Mach=1)], [1.0, 2.0]))
attempt('table None', lambda: DragModelMultiBC([BCPoint(0.3, Mach=1)], None))
attempt('bc zero', lambda: BCPoint(0, Mach=1))
attempt('bc negative', lambda: BCPoint(-0.1, V=800))
attempt('both', lambda: BCPoint(0.3, Mach=1, V=800))
attempt('neither', lambda: BCPoint(0.3))
attempt('zeros', lambda: BCPoint(0.3, Mach=0, V=0))
attempt('mach zero with V', lambda: BCPoint(0.3, Mach=0, V=800))
attempt('v zero with mach', lambda: BCPoint(0.3, Mach=1.5, V=0))
attempt('nan mach', lambda: BCPoint(0.3, Mach=nan))
attempt('point repr', lambda: [BCPoint(0.3, Mach=1.5), BCPoint(0.3, V=800), BCPoint(0.3, V=Velocity.FPS(2600)),
                               BCPoint(0.3, V=Velocity.MPS(0.001))])
attempt('point vars order', lambda: [list(vars(BCPoint(0.3, Mach=1.5))), list(vars(BCPoint(0.3, V=800)))])
attempt('point order', lambda: sorted([BCPoint(0.3, Mach=2.5), BCPoint(0.1, V=400), BCPoint(0.2, Mach=0.7)]))
attempt('point eq', lambda: (BCPoint(0.3, Mach=2.5) == BCPoint(0.4, Mach=2.5), BCPoint(0.3, Mach=2.5) < BCPoint(0.3, Mach=2.6)))
attempt('machC', lambda: BCPoint._machC())  # pylint: disable=protected-access
attempt('nan point model', lambda: digest(table_repr(DragModelMultiBC(
    [BCPoint(0.3, Mach=nan), BCPoint(0.2, Mach=1.0), BCPoint(0.4, Mach=2.0)], TableG7))))
zero_point = BCPoint(0.3, Mach=1.0)
zero_point.BC = 0.0
attempt('zero bc after the fact', lambda: DragModelMultiBC([zero_point], TableG7))


# ---------------------------------------------------------------- refactoring-3 specific: BCPoint construction
class Flag:
    """Object with a chosen truth value"""
    def __init__(self, truth):
        self.truth = truth

    def __bool__(self):
        return self.truth

    def __repr__(self):
        return f'Flag({self.truth})'


class Boom:
    def __bool__(self):
        raise RuntimeError('no truth value')


def show_point(p):
    return (repr(p), repr(p.BC), repr(p.Mach), repr(p.V), p.V.units, repr(p.V.raw_value), list(vars(p)))


falsy = [None, 0, 0.0, False, '', [], Flag(False)]
for fm in falsy:
    for fv in falsy:
        attempt(f'falsy/falsy {fm!r} {fv!r}', lambda fm=fm, fv=fv: show_point(BCPoint(0.3, fm, fv)))
    attempt(f'falsy mach {fm!r} V=800', lambda fm=fm: show_point(BCPoint(0.3, fm, 800)))
    attempt(f'falsy mach {fm!r} V=Velocity', lambda fm=fm: show_point(BCPoint(0.3, fm, Velocity.MPS(800))))
    attempt(f'mach 2.5 falsy V {fm!r}', lambda fm=fm: show_point(BCPoint(0.3, 2.5, fm)))
    attempt(f'bad bc, falsy {fm!r}', lambda fm=fm: show_point(BCPoint(-1, fm, fm)))
for m in (1, 2.5, True, -1.0, inf, 1e-300, Flag(True), 'x'):
    attempt(f'mach {m!r}', lambda m=m: show_point(BCPoint(0.25, Mach=m)))
    attempt(f'mach {m!r} and V', lambda m=m: show_point(BCPoint(0.25, Mach=m, V=1)))
for v in (1, 2600, 2600.5, True, -100.0, inf, nan, 1e-300, Velocity.FPS(0), Velocity.MPS(0.0), Velocity.KMH(3000),
          Velocity.MPH(1500), Velocity.KT(900), 'fast', Flag(True), [800]):
    attempt(f'V {v!r}', lambda v=v: show_point(BCPoint(0.25, V=v)))
attempt('bool raises (Mach)', lambda: BCPoint(0.3, Mach=Boom()))
attempt('bool raises (V)', lambda: BCPoint(0.3, V=Boom()))
attempt('bool raises (V) with mach', lambda: BCPoint(0.3, Mach=1.0, V=Boom()))
attempt('bool raises but bad bc', lambda: BCPoint(0, Mach=Boom(), V=Boom()))
attempt('bc uncomparable', lambda: BCPoint('a', Mach=1.0))
attempt('bc nan', lambda: show_point(BCPoint(nan, Mach=1.0)))
attempt('positional', lambda: show_point(BCPoint(0.3, 1.5)))
attempt('positional 3', lambda: show_point(BCPoint(0.3, None, 800)))

# bare floats follow PreferredUnits.velocity at construction time
PreferredUnits.velocity = Unit.MPS
attempt('preferred mps', lambda: [show_point(BCPoint(0.3, V=800)), show_point(BCPoint(0.3, Mach=2)),
                                  show_point(BCPoint(0.3, V=Velocity.FPS(2600)))])
attempt('preferred mps model', lambda: digest(table_repr(DragModelMultiBC(
    [BCPoint(0.275, V=800), BCPoint(0.255, V=500), BCPoint(0.26, V=700)], TableG7, weight=178, diameter=.308))))
PreferredUnits.velocity = Unit.KMH
attempt('preferred kmh', lambda: [show_point(BCPoint(0.3, V=2880)), show_point(BCPoint(0.3, Mach=2))])
PreferredUnits.defaults()
attempt('preferred default again', lambda: show_point(BCPoint(0.3, V=800)))


class ColdPoint(BCPoint):
    @staticmethod
    def _machC():
        return 300.0


attempt('subclass machC', lambda: [show_point(ColdPoint(0.3, V=Velocity.MPS(600))), show_point(ColdPoint(0.3, Mach=2.0)),
                                   ColdPoint._machC(), BCPoint._machC(), BCPoint(0.3, Mach=1)._machC()])

# ---------------------------------------------------------------- refactoring-3 specific: make_data_points
class Row(dict):
    pass


class SubPoint(DragDataPoint):
    pass


def show_rows(rows):
    return [(type(r).__name__, r.Mach, r.CD) for r in rows]


def show_error(fn):
    try:
        return ('OK', show_rows(fn()))
    except Exception as exc:  # pylint: disable=broad-except
        return ('EXC', type(exc).__name__, str(exc), type(exc.__cause__).__name__, str(exc.__cause__))


src_points = [DragDataPoint(0.0, 0.2), DragDataPoint(1.0, 0.4)]
mixed = [{'Mach': 0.0, 'CD': 0.2}, DragDataPoint(0.5, 0.25), Row(Mach=1, CD=0.4, extra=1), SubPoint(2.0, 0.3),
         {'CD': 0.1, 'Mach': 3}]
good_inputs = {'empty': [], 'dicts': TableG7[:4], 'points': src_points, 'mixed': mixed, 'tuple': tuple(mixed),
               'generator': (row for row in mixed), 'iterator': iter(mixed)}
for name, value in good_inputs.items():
    out('mdp', name, show_error(lambda value=value: make_data_points(value)))
res = make_data_points(src_points)
out('mdp fresh objects', all(a is not b for a, b in zip(res, src_points)), res == src_points, type(res).__name__)
res[0].CD = 99.0
out('mdp source untouched', repr(src_points))
bad_inputs = {'none': None, 'int': 5, 'missing CD': [{'Mach': 1.0}], 'missing Mach': [{'CD': 1.0}],
              'bad in the middle': [{'Mach': 0.0, 'CD': 0.2}, {'Mach': 1.0}, {'Mach': 2.0, 'CD': 0.2}],
              'floats': [1.0, 2.0], 'string': 'ab', 'none row': [None], 'list rows': [[1.0, 0.2]], 'tuple rows': [(1.0, 0.2)],
              'dict itself': {'Mach': 1.0, 'CD': 0.2}, 'object rows': [object()], 'index rows': [{0: 1.0, 1: 0.2}]}
for name, value in bad_inputs.items():
    out('mdp bad', name, show_error(lambda value=value: make_data_points(value)))
    attempt('model bad ' + name, lambda value=value: DragModel(0.3, value))
    attempt('multi bad ' + name, lambda value=value: DragModelMultiBC([BCPoint(0.3, Mach=1)], value))


class Odd(DragDataPoint):
    """DragDataPoint whose CD attribute is missing -> AttributeError is not converted"""
    def __init__(self):  # pylint: disable=super-init-not-called
        self.Mach = 1.0


attempt('mdp attribute error passes through', lambda: make_data_points([DragDataPoint(0.0, 0.1), Odd()]))
attempt('plain model', lambda: (table_repr(DragModel(0.3, mixed)), repr(DragModel(0.3, mixed, 178, .308, 1.2))))

# a trajectory with a multi-BC model
calc = Calculator()
for pname in ('three_mps_shuffled', 'same_bc', 'two_reversed'):
    dm = DragModelMultiBC(point_sets[pname](), TableG7, weight=178, diameter=.308, length=1.3)
    shot = Shot(weapon=Weapon(4, 12), ammo=Ammo(dm, Velocity.FPS(2600)))
    traj = calc.fire(shot=shot, trajectory_range=1000, trajectory_step=100).trajectory
    out('traj', pname, digest(repr([(r.time, r.distance.raw_value, r.velocity.raw_value, r.height.raw_value,
                                     r.windage.raw_value, r.mach, r.drag) for r in traj])),
        repr(traj[-1].velocity.raw_value), repr(traj[-1].height.raw_value))

text = '\n'.join(lines)
print(text)
print('TOTAL', digest(text))
