"""Equivalence digest for property C14 (multi-BC drag models).

Prints a deterministic text; must be byte-identical on the clean worktree and with the patch applied.
Run:  cd /tmp/wt/T14 && PYTHONPATH=/tmp/wt/T14 /venv/bin/python <this file>
"""
import copy
import itertools
import math

from py_ballisticcalc import (DragModel, DragModelMultiBC, BCPoint, DragDataPoint, Velocity, Weight, Distance,
                              Ammo, Weapon, Shot, Calculator, PreferredUnits, Unit,
                              TableG1, TableG7, TableG2, TableG5, TableG6, TableG8, TableGI, TableGS, TableRA4)
from py_ballisticcalc import drag_model as dmod

nan = float('nan')
inf = float('inf')


def table_repr(model):
    return repr([(p.Mach, p.CD) for p in model.drag_table])


def model_repr(model):
    extra = (getattr(model, 'sectional_density', None), getattr(model, 'form_factor', None))
    return repr((model.BC, repr(model.weight), repr(model.diameter), repr(model.length), extra)) + table_repr(model)


def attempt(label, fn):
    try:
        res = fn()
    except BaseException as exc:  # pylint: disable=broad-except
        cause = exc.__cause__
        print(label, 'RAISED', type(exc).__name__, repr(str(exc)), type(cause).__name__ if cause else None)
    else:
        print(label, 'OK', res)


def bcp_repr(p):
    return repr((p.BC, p.Mach, repr(p.V)))


# ---- 1. linear_interpolation called directly: clamping, nodes, duplicates, NaN, inf, unsorted x, 1 point, tuples
XS = [-inf, -1.0, 0.0, 0.5, 1.0, 1.0000000000000002, 1.5, 2.0, 2.5, 2.9999999999999996, 3.0, 3.5, 4.0, 7.25, inf, nan,
      0.1, 3.9, 2.0, 1]
GRIDS = [
    ([1.0], [10.0]),
    ([1.0, 2.0], [10.0, 30.0]),
    ([1.0, 2.0, 4.0], [10.0, 30.0, 5.0]),
    ([0.5, 1.0, 2.0, 3.0, 3.5, 4.0, 7.0], [0.2, 0.25, 0.21, 0.3, 0.31, 0.1, 0.7]),
    ([1.0, 2.0, 2.0, 3.0], [1.0, 2.0, 5.0, 6.0]),            # duplicated node
    ([1.0, 1.0, 1.0, 3.0, 3.0], [1.0, 2.0, 3.0, 4.0, 5.0]),  # runs of duplicates
    ([2.0, 2.0], [1.0, 9.0]),
    ([1.0, nan, 3.0], [1.0, 2.0, 3.0]),                      # NaN node
    ([nan, 2.0, 3.0, 4.0], [1.0, 2.0, 3.0, 4.0]),
    ([1.0, 2.0, 3.0, nan], [1.0, 2.0, 3.0, 4.0]),
    ([3.0, 1.0, 2.0, 0.5, 4.0], [1.0, 2.0, 3.0, 4.0, 5.0]),  # unsorted (contract violated, still deterministic)
    ([-inf, 0.0, inf], [1.0, 2.0, 3.0]),
    ((1, 2, 3, 4, 5, 6, 7, 8), (8, 6, 7, 5, 3, 0, 9, 1)),    # ints, tuples
]
for n, (xp, yp) in enumerate(GRIDS):
    attempt(f'li[{n}]', lambda: repr(dmod.linear_interpolation(XS, xp, yp)))
    attempt(f'li-tuple[{n}]', lambda: repr(dmod.linear_interpolation(tuple(XS), tuple(xp), tuple(yp))))
    attempt(f'li-iter[{n}]', lambda: repr(dmod.linear_interpolation(iter(XS), xp, yp)))
attempt('li-empty-x', lambda: repr(dmod.linear_interpolation([], [1.0, 2.0], [3.0, 4.0])))
attempt('li-empty-x-empty-xp', lambda: repr(dmod.linear_interpolation([], [], [])))
attempt('li-empty-xp', lambda: repr(dmod.linear_interpolation([1.0], [], [])))
attempt('li-len-mismatch', lambda: repr(dmod.linear_interpolation([1.0], [1.0, 2.0], [1.0])))
attempt('li-type', lambda: repr(dmod.linear_interpolation([1.0, 'a'], [1.0, 2.0], [1.0, 2.0])))
attempt('li-result-type', lambda: type(dmod.linear_interpolation((1.0,), (1.0, 2.0), (1.0, 2.0))).__name__)
# dense sweep against many-node grids
xp = [0.1 * k * k + 0.3 for k in range(23)]
yp = [math.sin(k) + 2 for k in range(23)]
print('li-dense', repr(dmod.linear_interpolation([0.037 * k for k in range(1700)] + xp, xp, yp)))

# ---- 2. BCPoint construction
BCP_ARGS = [
    dict(BC=0.3, Mach=1.5), dict(BC=0.3, V=800), dict(BC=0.3, V=800.5), dict(BC=1, Mach=2), dict(BC=0.3, Mach=nan),
    dict(BC=0.3, V=Velocity.MPS(800)), dict(BC=0.3, V=Velocity.FPS(2600)), dict(BC=0.3, V=Velocity.KMH(1234.5)),
    dict(BC=0.3, V=Velocity.MPS(0)), dict(BC=0.3, V=Velocity.MPS(-5)), dict(BC=0.3, V=-100), dict(BC=0.3, Mach=-1),
    dict(BC=0.3, Mach=0, V=500), dict(BC=0.3, Mach=1.0, V=0), dict(BC=0.3, Mach=0.0, V=0.0),
    dict(BC=0.3), dict(BC=0.3, Mach=0), dict(BC=0.3, V=0), dict(BC=0.3, Mach=1, V=500),
    dict(BC=0.3, Mach=1, V=Velocity.MPS(0)), dict(BC=0, Mach=1), dict(BC=-0.1, V=500), dict(BC=0, Mach=1, V=2),
    dict(BC=nan, Mach=1), dict(BC='x', Mach=1), dict(BC=0.3, V='fast'), dict(BC=0.3, Mach=inf),
]
for n, kw in enumerate(BCP_ARGS):
    attempt(f'bcp[{n}]', lambda: bcp_repr(BCPoint(**kw)))
attempt('bcp-pos', lambda: bcp_repr(BCPoint(0.25, 2.5)))
attempt('bcp-pos3', lambda: bcp_repr(BCPoint(0.25, None, 700)))
print('machC', repr(BCPoint._machC()), repr(BCPoint(0.3, Mach=1)._machC()))
a, b, c = BCPoint(0.3, Mach=2.0), BCPoint(0.5, Mach=1.0), BCPoint(0.9, Mach=2.0)
print('bcp-order', a < b, a > b, a == c, a <= c, sorted([a, b, c]) == [b, a, c], repr(b))
for unit in (Unit.FPS, Unit.MPS, Unit.KMH):
    PreferredUnits.velocity = unit
    print('bcp-pref', unit, bcp_repr(BCPoint(0.3, V=800)), bcp_repr(BCPoint(0.3, V=Velocity.MPS(800))))
PreferredUnits.defaults()

# ---- 3. make_data_points
attempt('mdp-dicts', lambda: repr(dmod.make_data_points(TableG7[:3])))
src = [DragDataPoint(0.5, 0.2), DragDataPoint(1.0, 0.4)]
out = dmod.make_data_points(src)
print('mdp-copy', repr(out), out == src, [o is s for o, s in zip(out, src)], out is src)
attempt('mdp-mixed', lambda: repr(dmod.make_data_points([DragDataPoint(0.5, 0.2), {'Mach': 1, 'CD': 2}, {'CD': 5, 'Mach': 4, 'z': 0}])))
attempt('mdp-empty', lambda: repr(dmod.make_data_points([])))
attempt('mdp-tuple', lambda: repr(dmod.make_data_points(({'Mach': 1, 'CD': 2},))))
attempt('mdp-gen', lambda: repr(dmod.make_data_points(d for d in TableG1[:2])))
attempt('mdp-missing-key', lambda: repr(dmod.make_data_points([{'Mach': 1, 'CD': 2}, {'Mach': 1}])))
attempt('mdp-bad-item', lambda: repr(dmod.make_data_points([{'Mach': 1, 'CD': 2}, 5])))
attempt('mdp-bad-item2', lambda: repr(dmod.make_data_points([(1, 2)])))
attempt('mdp-str', lambda: repr(dmod.make_data_points('ab')))
attempt('mdp-none', lambda: repr(dmod.make_data_points(None)))
attempt('mdp-int', lambda: repr(dmod.make_data_points(7)))

# ---- 4. DragModelMultiBC over tables / point sets / orders / weight+diameter
TABLES = dict(G1=TableG1, G7=TableG7, G2=TableG2, G5=TableG5, G6=TableG6, G8=TableG8, GI=TableGI, GS=TableGS, RA4=TableRA4)
POINT_SETS = {
    'one-mach': lambda: [BCPoint(0.22, Mach=1.7)],
    'one-v': lambda: [BCPoint(0.305, V=Velocity.FPS(2500))],
    'two': lambda: [BCPoint(0.22, V=Velocity.FPS(2700)), BCPoint(0.5, V=Velocity.FPS(3500))],
    'three-v': lambda: [BCPoint(0.275, V=Velocity.MPS(800)), BCPoint(0.255, V=Velocity.MPS(500)), BCPoint(0.26, V=Velocity.MPS(700))],
    'mixed': lambda: [BCPoint(0.3, Mach=2.5), BCPoint(0.28, V=1800), BCPoint(0.31, V=Velocity.KMH(3000)), BCPoint(0.25, Mach=0.9), BCPoint(0.2, Mach=0.5)],
    'dup-mach': lambda: [BCPoint(0.3, Mach=1.0), BCPoint(0.4, Mach=1.0), BCPoint(0.2, Mach=2.0), BCPoint(0.25, Mach=2.0), BCPoint(0.5, Mach=0.5)],
    'on-nodes': lambda: [BCPoint(0.3, Mach=0.5), BCPoint(0.35, Mach=1.0), BCPoint(0.2, Mach=2.0), BCPoint(0.45, Mach=5.0)],
    'outside': lambda: [BCPoint(0.3, Mach=9.0), BCPoint(0.2, Mach=7.5)],
    'below': lambda: [BCPoint(0.3, Mach=-2.0), BCPoint(0.2, Mach=-1.0)],
    'nan-mach': lambda: [BCPoint(0.3, Mach=1.0), BCPoint(0.4, Mach=nan), BCPoint(0.2, Mach=2.0)],
    'tiny-huge': lambda: [BCPoint(1e-300, Mach=1.0), BCPoint(1e300, Mach=2.0)],
}
WD = [dict(), dict(weight=178, diameter=0.308), dict(weight=Weight.Gram(11.5), diameter=Distance.Millimeter(7.82), length=Distance.Inch(1.2)),
      dict(weight=178), dict(diameter=0.308, length=1.3), dict(weight=0, diameter=0), dict(weight=-5, diameter=0.3)]

for tname, table in TABLES.items():
    for pname, mk in POINT_SETS.items():
        for w, kw in enumerate(WD if tname in ('G1', 'G7') else WD[:2]):
            pts = mk()
            pts_before = [bcp_repr(p) for p in pts]
            ids_before = [id(p) for p in pts]
            table_before = copy.deepcopy(table)
            m = DragModelMultiBC(pts, table, **kw)
            print('mbc', tname, pname, w, model_repr(m))
            assert [bcp_repr(p) for p in pts] == pts_before and [id(p) for p in pts] == ids_before, 'points changed'
            assert table == table_before, 'table changed'

# permutations of the point order give the same model; input order is preserved
base = POINT_SETS['mixed']()
for perm in itertools.permutations(range(len(base))):
    pts = [base[i] for i in perm]
    snapshot = list(pts)
    m = DragModelMultiBC(pts, TableG7, weight=168, diameter=0.308)
    print('perm', perm, all(p is q for p, q in zip(pts, snapshot)) and len(pts) == len(snapshot), table_repr(m))
# duplicates: stable order matters
base = POINT_SETS['dup-mach']()
for perm in itertools.permutations(range(len(base))):
    m = DragModelMultiBC([base[i] for i in perm], TableG1)
    print('perm-dup', perm, table_repr(m))
# tuple / generator of points
attempt('pts-tuple', lambda: table_repr(DragModelMultiBC(tuple(POINT_SETS['three-v']()), TableG7)))
attempt('pts-gen', lambda: table_repr(DragModelMultiBC((p for p in POINT_SETS['three-v']()), TableG7)))

# ---- 5. tables given as data points taken from another model; repeated construction; sharing
single = DragModel(0.22, TableG7)
shared = single.drag_table
shared_before = copy.deepcopy(shared)
pts = POINT_SETS['three-v']()
m1 = DragModelMultiBC(pts, shared, weight=178, diameter=0.308)
m2 = DragModelMultiBC(pts, shared, weight=178, diameter=0.308)
m3 = DragModelMultiBC(pts, m1.drag_table)
m4 = DragModelMultiBC(pts, m1.drag_table)
print('share', shared == shared_before, table_repr(m1) == table_repr(m2), table_repr(m3) == table_repr(m4),
      m1.drag_table is shared, m1.drag_table is m2.drag_table, any(p is q for p, q in zip(m1.drag_table, shared)),
      any(p is q for p, q in zip(m3.drag_table, m1.drag_table)))
print('share-m1', model_repr(m1))
print('share-m3', model_repr(m3))
print('share-single', model_repr(single))
# single BC equivalence: effective BC at every node
for tname, table in TABLES.items():
    one = DragModelMultiBC([BCPoint(0.31, Mach=1.3)], table)
    plain = DragModel(0.31, table)
    print('single', tname, repr([(o.CD, p.CD / plain.BC) for o, p in zip(one.drag_table, plain.drag_table)][:8]),
          repr([std['CD'] * one.BC / o.CD for std, o in zip(table, one.drag_table)]))
# effective BC law
m = DragModelMultiBC(POINT_SETS['mixed'](), TableG7, weight=178, diameter=0.308)
print('law', repr([std['CD'] * m.BC / p.CD for std, p in zip(TableG7, m.drag_table)]))
# custom / odd tables
attempt('tab-unsorted', lambda: table_repr(DragModelMultiBC(POINT_SETS['mixed'](), list(reversed(TableG7[::7])))))
attempt('tab-intmach', lambda: table_repr(DragModelMultiBC(POINT_SETS['mixed'](), [{'Mach': 0, 'CD': 1}, {'Mach': 1, 'CD': 2}, {'Mach': 3, 'CD': 1}])))
attempt('tab-nanmach', lambda: table_repr(DragModelMultiBC(POINT_SETS['mixed'](), [{'Mach': nan, 'CD': 1.0}, {'Mach': 1.0, 'CD': 0.0}])))
attempt('tab-mixed', lambda: table_repr(DragModelMultiBC(POINT_SETS['two'](), [DragDataPoint(1.0, 0.3), {'Mach': 2.9, 'CD': 0.2}])))

# ---- 6. error behaviour of DragModelMultiBC / DragModel
attempt('err-empty-table', lambda: DragModelMultiBC(POINT_SETS['two'](), []))
attempt('err-empty-points', lambda: DragModelMultiBC([], TableG7))
attempt('err-empty-both', lambda: DragModelMultiBC([], []))
attempt('err-bad-table', lambda: DragModelMultiBC(POINT_SETS['two'](), [{'Mach': 1}]))
attempt('err-bad-table-and-points', lambda: DragModelMultiBC(None, [{'Mach': 1}]))
attempt('err-none-table', lambda: DragModelMultiBC(POINT_SETS['two'](), None))
attempt('err-none-points', lambda: DragModelMultiBC(None, TableG7))
attempt('err-bad-points', lambda: DragModelMultiBC([1, 2], TableG7))
attempt('err-bad-points-empty-table', lambda: DragModelMultiBC([1, 2], []))
attempt('err-bad-weight', lambda: DragModelMultiBC(POINT_SETS['two'](), TableG7, weight='x', diameter=1))
attempt('err-bad-weight-bad-table', lambda: DragModelMultiBC(POINT_SETS['two'](), None, weight='x', diameter=1))
attempt('err-zero-bc-ratio', lambda: DragModelMultiBC([BCPoint(5e-324, Mach=1.0)], TableG7, weight=7000, diameter=0.1))
attempt('err-str-cd', lambda: DragModelMultiBC(POINT_SETS['two'](), [{'Mach': 1.0, 'CD': 'x'}]))
attempt('err-str-mach', lambda: DragModelMultiBC(POINT_SETS['two'](), [{'Mach': 'x', 'CD': 1.0}]))
attempt('dm-empty', lambda: DragModel(0.3, []))
attempt('dm-zero-bc', lambda: DragModel(0, TableG1))
attempt('dm-bad', lambda: DragModel(0.3, [1]))
attempt('dm-ok', lambda: model_repr(DragModel(0.3, TableG1[:4], 168, 0.308, 1.2)))
attempt('dm-repr', lambda: repr(DragModel(0.3, TableG1[:4], 168, 0.308, 1.2)))

# ---- 7. a trajectory through the solver
weapon = Weapon(4, 12)
calc = Calculator()
for pname in ('one-v', 'three-v', 'mixed'):
    dm = DragModelMultiBC(POINT_SETS[pname](), TableG7, weight=178, diameter=0.308, length=1.2)
    shot = Shot(weapon=weapon, ammo=Ammo(dm, Velocity.FPS(2600)))
    res = calc.fire(shot=shot, trajectory_range=1000, trajectory_step=100)
    print('traj', pname, repr([(r.time, r.distance.raw_value, r.velocity.raw_value, r.height.raw_value, r.mach, r.drag)
                               for r in res.trajectory]))
