"""Equivalence digest for C14 / refactoring 3 (shared BC check, operator getters in make_data_points, named 7000).

Prints a deterministic text; must be identical on the clean worktree and with the patch applied.
Run:  cd <checkout> && PYTHONPATH=<checkout> /venv/bin/python equiv.py
"""
import copy
import hashlib
import warnings

warnings.simplefilter("ignore")

from py_ballisticcalc import (BCPoint, DragModel, DragModelMultiBC, DragDataPoint, Velocity, Weight, Distance,
                              TableG1, TableG7, TableG8, TableGS, TableRA4)
from py_ballisticcalc.drag_model import linear_interpolation, make_data_points, sectional_density

LINES = []


def out(*parts):
    line = " ".join(str(p) for p in parts)
    LINES.append(line)
    print(line)


def call(label, fn, *args):
    """Print repr of the result (and its type) or the exception type + message"""
    try:
        res = fn(*args)
        out(label, "->", type(res).__name__, repr(res))
    except BaseException as exc:  # pylint: disable=broad-except
        out(label, "-> raised", type(exc).__name__, repr(str(exc)))


NAN = float("nan")
INF = float("inf")

# ---------------------------------------------------------------- through DragModelMultiBC
def snapshot_table(table):
    return repr([(type(p).__name__, p.Mach, p.CD) if isinstance(p, DragDataPoint) else sorted(p.items())
                 for p in table])


def reference_bc(mach, pts):
    """Independent clamped piecewise-linear interpolation of BC over Mach (linear scan, same arithmetic)"""
    pts = sorted(pts, key=lambda q: q[0])
    if mach <= pts[0][0]:
        return pts[0][1]
    if mach >= pts[-1][0]:
        return pts[-1][1]
    for (m0, b0), (m1, b1) in zip(pts, pts[1:]):
        if m0 <= mach < m1:
            return b0 + (b1 - b0) / (m1 - m0) * (mach - m0)
    raise AssertionError("unreachable")


def multi(label, make_points, table, **kw):
    points = make_points()
    points_before = repr(points)
    table_before = snapshot_table(table)
    try:
        dm = DragModelMultiBC(points, table, **kw)
    except BaseException as exc:  # pylint: disable=broad-except
        out(label, "-> raised", type(exc).__name__, repr(str(exc)))
        return None
    cds = [p.CD for p in dm.drag_table]
    machs = [p.Mach for p in dm.drag_table]
    std = make_std(table)
    pairs = [(p.Mach, p.BC) for p in points]
    worst = 0.0
    for m, cd, cd_std in zip(machs, cds, std):
        eff = cd_std * dm.BC / cd
        ref = reference_bc(m, pairs)
        worst = max(worst, abs(eff - ref) / ref)
    out(label, "BC", repr(dm.BC), "n", len(cds), "sha", hashlib.sha256(repr(list(zip(machs, cds))).encode()).hexdigest())
    out(label, "first/last/mid", repr(cds[0]), repr(cds[-1]), repr(cds[len(cds) // 2]),
        "law-ok", worst < 1e-12,
        "inputs-intact", repr(points) == points_before and snapshot_table(table) == table_before,
        "attrs", repr(dm), getattr(dm, "sectional_density", None), getattr(dm, "form_factor", None))
    dm2 = DragModelMultiBC(make_points(), table, **kw)
    out(label, "rebuild-same", [p.CD for p in dm2.drag_table] == cds, dm2.BC == dm.BC,
        "distinct-points", all(a is not b for a, b in zip(dm.drag_table, dm2.drag_table)))
    return dm


def make_std(table):
    return [p.CD if isinstance(p, DragDataPoint) else p["CD"] for p in table]


multi("g7-3v", lambda: [BCPoint(0.275, V=Velocity.MPS(800)), BCPoint(0.255, V=Velocity.MPS(500)),
                        BCPoint(0.26, V=Velocity.MPS(700))], TableG7, weight=178, diameter=0.308)
multi("g7-3v-sorted", lambda: [BCPoint(0.255, V=Velocity.MPS(500)), BCPoint(0.26, V=Velocity.MPS(700)),
                               BCPoint(0.275, V=Velocity.MPS(800))], TableG7, weight=178, diameter=0.308)
multi("g7-litz", lambda: [BCPoint(0.417, V=Velocity.MPS(745)), BCPoint(0.409, V=Velocity.MPS(662)),
                          BCPoint(0.4, V=Velocity.MPS(580))], TableG7, weight=Weight.Grain(285),
      diameter=Distance.Inch(0.338), length=Distance.Inch(1.7))
multi("g1-single", lambda: [BCPoint(0.22, Mach=1.3)], TableG1)
multi("g1-mach5", lambda: [BCPoint(0.45, Mach=2.5), BCPoint(0.41, Mach=0.9), BCPoint(0.47, Mach=3.5),
                           BCPoint(0.40, Mach=0.5), BCPoint(0.43, Mach=1.5)], TableG1)
multi("g8-fps", lambda: [BCPoint(0.3, V=Velocity.FPS(2800)), BCPoint(0.28, V=1200), BCPoint(0.29, V=2000.5)], TableG8)
multi("gs-on-nodes", lambda: [BCPoint(0.1, Mach=TableGS[3]["Mach"]), BCPoint(0.12, Mach=TableGS[10]["Mach"]),
                              BCPoint(0.09, Mach=TableGS[-1]["Mach"])], TableGS)
multi("ra4-dup-mach", lambda: [BCPoint(0.12, Mach=1.0), BCPoint(0.14, Mach=1.0), BCPoint(0.13, Mach=2.0)], TableRA4)
multi("g7-outside", lambda: [BCPoint(0.3, Mach=7.0), BCPoint(0.2, Mach=6.0)], TableG7)
multi("g7-kmh", lambda: [BCPoint(0.31, V=Velocity.KMH(2900)), BCPoint(0.29, V=Velocity.KT(900))], TableG7, weight=168)
multi("empty-points", lambda: [], TableG7)
multi("empty-table", lambda: [BCPoint(0.3, Mach=1.0)], [])

# data points of another model as table: the donor must stay unchanged
donor = DragModel(0.3, TableG7)
donor_before = snapshot_table(donor.drag_table)
m = multi("from-donor", lambda: [BCPoint(0.3, Mach=2.0), BCPoint(0.25, Mach=1.0)], donor.drag_table)
out("donor-intact", snapshot_table(donor.drag_table) == donor_before,
    all(a is not b for a, b in zip(donor.drag_table, m.drag_table)))
# shared point list reused for two models with different tables
shared = [BCPoint(0.33, Mach=2.2), BCPoint(0.3, V=Velocity.MPS(300)), BCPoint(0.31, Mach=1.4)]
shared_copy = copy.deepcopy(shared)
a = DragModelMultiBC(shared, TableG1)
b = DragModelMultiBC(shared, TableG7)
a2 = DragModelMultiBC(shared, TableG1)
out("shared-points", repr(shared) == repr(shared_copy), [p.CD for p in a.drag_table] == [p.CD for p in a2.drag_table],
    repr(a.drag_table[40].CD), repr(b.drag_table[40].CD))


# ---------------------------------------------------------------- BC validation (BCPoint and DragModel)
def cause(fn, *args, **kw):
    """exception type, message and its __cause__"""
    try:
        return "ok " + repr(fn(*args, **kw))
    except BaseException as exc:  # pylint: disable=broad-except
        return f"{type(exc).__name__} {str(exc)!r} cause={exc.__cause__!r}"


for bad in (0, 0.0, -0.0, -1, -1e-300, 5e-324, NAN, INF, -INF, "0.3", None, True, False, [0.3]):
    out("BCPoint-bc", repr(bad), cause(BCPoint, bad, Mach=1.0))
    out("DragModel-bc", repr(bad), cause(DragModel, bad, TableG7))
out("BCPoint-order-1", cause(BCPoint, 0, Mach=1.0, V=300))       # BC is checked before Mach/V
out("BCPoint-order-2", cause(BCPoint, -1))
out("BCPoint-both", cause(BCPoint, 0.3, Mach=1.0, V=300))
out("BCPoint-none", cause(BCPoint, 0.3))
out("BCPoint-zero-mach", cause(BCPoint, 0.3, Mach=0))
out("BCPoint-zero-v", cause(BCPoint, 0.3, V=0))
out("BCPoint-zero-velocity-object", cause(BCPoint, 0.3, V=Velocity.MPS(0)))
out("BCPoint-v", cause(BCPoint, 0.3, V=Velocity.MPS(340)), cause(BCPoint, 0.3, None, 1116.45))
out("DragModel-order", cause(DragModel, 0, []), "|", cause(DragModel, -1, None), "|", cause(DragModel, "x", [1]))
out("DragModel-empty-tuple", cause(DragModel, 0.3, ()))

# ---------------------------------------------------------------- make_data_points
class MissingDict(dict):
    def __missing__(self, key):
        return 0.123


class SubPoint(DragDataPoint):
    """Subclass of the data point"""


class Duck:
    """Neither a DragDataPoint nor subscriptable"""
    Mach = 1.0
    CD = 0.2


class Subscriptable:
    def __getitem__(self, key):
        return {"Mach": 2.0, "CD": 0.25}[key]


def show_points(label, table):
    before = snapshot_table(table) if isinstance(table, list) and all(isinstance(i, (dict, DragDataPoint)) for i in table) else None
    try:
        pts = make_data_points(table)
    except BaseException as exc:  # pylint: disable=broad-except
        out(label, "-> raised", type(exc).__name__, repr(str(exc)), "cause", repr(exc.__cause__))
        return
    out(label, type(pts).__name__, [type(q).__name__ for q in pts][:4], repr(pts)[:200], len(pts),
        "fresh", all(q is not i for q, i in zip(pts, table)),
        "intact", before is None or snapshot_table(table) == before)


show_points("dicts", TableG7[:3])
show_points("datapoints", [DragDataPoint(0.5, 0.2), DragDataPoint(1, 0.4)])
show_points("mixed", [DragDataPoint(0.5, 0.2), {"Mach": 1.0, "CD": 0.4}, SubPoint(2.0, 0.3), MissingDict(Mach=3.0),
                      MissingDict(), Subscriptable(), {"Mach": "1", "CD": None, "extra": 1}])
show_points("tuple-of-dicts", tuple(TableG1[:2]))
show_points("generator", (d for d in TableG1[:2]))
show_points("empty", [])
show_points("missing-cd", [{"Mach": 1.0}])
show_points("missing-mach", [{"CD": 1.0}])
show_points("missing-both", [{}])
show_points("int-item", [TableG7[0], 1])
show_points("none-item", [None])
show_points("str-item", ["Mach"])
show_points("list-item", [[1.0, 0.2]])
show_points("tuple-item", [(1.0, 0.2)])
show_points("duck-item", [Duck()])
show_points("none-table", None)
show_points("int-table", 5)
broken = DragDataPoint(1.0, 0.2)
del broken.CD
out("datapoint-without-cd", cause(make_data_points, [broken]), "|", cause(DragModel, 0.3, [broken]))
out("DragModel-bad-item", cause(DragModel, 0.3, [TableG7[0], 1]))
out("DragModel-duck", cause(DragModel, 0.3, [Duck()]))

# ---------------------------------------------------------------- sectional density / form factor
for w, d in ((178, 0.308), (285, 0.338), (55, 0.224), (750, 0.51), (1, 1), (7000, 1), (1e-300, 1e10), (1e300, 1e-200),
             (3, 7), (0.1, 0.3)):
    out("sd", w, d, cause(sectional_density, w, d))
out("sd-zero-diameter", cause(sectional_density, 1, 0), cause(sectional_density, 0, 1), cause(sectional_density, -3, 2))
for kw in (dict(weight=178, diameter=0.308), dict(weight=Weight.Gram(10), diameter=Distance.Millimeter(7.62), length=Distance.Millimeter(30)),
           dict(weight=0, diameter=0.308), dict(weight=178), dict(weight=-1, diameter=0.3), dict(weight=Weight.Pound(1), diameter=Distance.Inch(1))):
    dm = DragModel(0.3, TableG1, **kw)
    out("DragModel-sd", repr(dm), repr(getattr(dm, "sectional_density", None)), repr(getattr(dm, "form_factor", None)),
        sorted(vars(dm)))
# single-BC multi model against plain model (property: equivalent)
plain = DragModel(0.22, TableG7)
single = DragModelMultiBC([BCPoint(0.22, Mach=2.0)], TableG7)
out("single-vs-plain", max(abs(s.CD * 0.22 - q.CD) for s, q in zip(single.drag_table, plain.drag_table)) < 1e-15,
    repr(single.drag_table[17].CD), repr(plain.drag_table[17].CD))

out("TOTAL", hashlib.sha256("\n".join(LINES).encode()).hexdigest())
