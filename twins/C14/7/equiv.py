"""Equivalence digest for C14 / refactoring 1 (linear_interpolation as list(generator)).

Prints a deterministic text; must be identical on the clean worktree and with the patch applied.
Run:  cd <checkout> && PYTHONPATH=<checkout> /venv/bin/python equiv.py
"""
import copy
import hashlib
import warnings

warnings.simplefilter("ignore")

from py_ballisticcalc import (BCPoint, DragModel, DragModelMultiBC, DragDataPoint, Velocity, Weight, Distance,
                              TableG1, TableG7, TableG8, TableGS, TableRA4)
from py_ballisticcalc.drag_model import linear_interpolation

LINES = []


def out(*parts):
    line = " ".join(str(p) for p in parts)
    LINES.append(line)
    print(line)


def call(label, fn, *args):
    """Print repr of the result (and its type) or the exception type + message"""
    try:
        res = fn(*args)
        out(label, "->", type(res).__name__, repr(res))
    except BaseException as exc:  # pylint: disable=broad-except
        out(label, "-> raised", type(exc).__name__, repr(str(exc)))


NAN = float("nan")
INF = float("inf")

# ---------------------------------------------------------------- direct calls
XP = [0.5, 1.0, 1.5, 2.25, 3.0, 4.0, 5.5]
YP = [0.30, 0.31, 0.29, 0.335, 0.36, 0.355, 0.41]
XS = [-1.0, 0.0, 0.5, 0.5000000000000001, 0.75, 0.9999999999999999, 1.0, 1.0000000000000002, 1.2, 1.5, 2.0, 2.25,
      2.9, 3.0, 3.7, 4.0, 5.4999999999999, 5.5, 6.0, 100.0, INF, -INF, NAN, 1, 3, 0]
call("sorted7", linear_interpolation, XS, XP, YP)
call("sorted7-tuples", linear_interpolation, tuple(XS), tuple(XP), tuple(YP))
call("sorted7-reversed-x", linear_interpolation, XS[::-1], XP, YP)
call("two-points", linear_interpolation, XS, [1.0, 2.0], [10.0, 20.0])
call("one-point", linear_interpolation, XS, [1.5], [7.0])
call("three-points", linear_interpolation, XS, [0.7, 1.9, 2.6], [0.2, 0.25, 0.22])
call("dup-nodes", linear_interpolation, XS, [1.0, 1.0, 2.0, 2.0, 2.0, 3.0], [1.0, 2.0, 3.0, 4.0, 5.0, 6.0])
call("all-equal-nodes", linear_interpolation, XS, [2.0, 2.0, 2.0], [1.0, 2.0, 3.0])
call("unsorted-nodes", linear_interpolation, XS, [3.0, 1.0, 2.0, 0.5, 4.0], [1.0, 2.0, 3.0, 4.0, 5.0])
call("descending-nodes", linear_interpolation, XS, [4.0, 3.0, 2.0, 1.0], [1.0, 2.0, 3.0, 4.0])
call("nan-node", linear_interpolation, XS, [0.5, NAN, 2.0, 3.0], [1.0, 2.0, 3.0, 4.0])
call("inf-nodes", linear_interpolation, XS, [-INF, 0.0, 1.0, INF], [1.0, 2.0, 3.0, 4.0])
call("int-nodes", linear_interpolation, [0, 1, 2, 3, 4, 5, 2.5], [1, 2, 4], [10, 20, 40])
call("empty-x", linear_interpolation, [], XP, YP)
call("empty-x-empty-nodes", linear_interpolation, [], [], [])
call("empty-nodes", linear_interpolation, [1.0], [], [])
call("length-mismatch", linear_interpolation, [1.0], [1.0, 2.0], [1.0])
call("string-x", linear_interpolation, [1.0, "a"], XP, YP)
call("none-x", linear_interpolation, None, XP, YP)
call("generator-x", linear_interpolation, (v for v in XS), XP, YP)
many_x = [i * 0.0137 for i in range(-20, 500)]
many_xp = [0.1 * k * k for k in range(1, 40)]
many_yp = [0.2 + ((k * 37) % 11) / 50 for k in range(1, 40)]
res = linear_interpolation(many_x, many_xp, many_yp)
out("many", len(res), hashlib.sha256(repr(res).encode()).hexdigest())
# the result is a fresh list every time and inputs are untouched
r1 = linear_interpolation(XS, XP, YP)
r2 = linear_interpolation(XS, XP, YP)
out("fresh-list", r1 is not r2, type(r1).__name__, repr(r1) == repr(r2), XP[0], XP[-1], YP[0], YP[-1], len(XS))


# ---------------------------------------------------------------- through DragModelMultiBC
def snapshot_table(table):
    return repr([(type(p).__name__, p.Mach, p.CD) if isinstance(p, DragDataPoint) else sorted(p.items())
                 for p in table])


def reference_bc(mach, pts):
    """Independent clamped piecewise-linear interpolation of BC over Mach (linear scan, same arithmetic)"""
    pts = sorted(pts, key=lambda q: q[0])
    if mach <= pts[0][0]:
        return pts[0][1]
    if mach >= pts[-1][0]:
        return pts[-1][1]
    for (m0, b0), (m1, b1) in zip(pts, pts[1:]):
        if m0 <= mach < m1:
            return b0 + (b1 - b0) / (m1 - m0) * (mach - m0)
    raise AssertionError("unreachable")


def multi(label, make_points, table, **kw):
    points = make_points()
    points_before = repr(points)
    table_before = snapshot_table(table)
    try:
        dm = DragModelMultiBC(points, table, **kw)
    except BaseException as exc:  # pylint: disable=broad-except
        out(label, "-> raised", type(exc).__name__, repr(str(exc)))
        return None
    cds = [p.CD for p in dm.drag_table]
    machs = [p.Mach for p in dm.drag_table]
    std = make_std(table)
    pairs = [(p.Mach, p.BC) for p in points]
    worst = 0.0
    for m, cd, cd_std in zip(machs, cds, std):
        eff = cd_std * dm.BC / cd
        ref = reference_bc(m, pairs)
        worst = max(worst, abs(eff - ref) / ref)
    out(label, "BC", repr(dm.BC), "n", len(cds), "sha", hashlib.sha256(repr(list(zip(machs, cds))).encode()).hexdigest())
    out(label, "first/last/mid", repr(cds[0]), repr(cds[-1]), repr(cds[len(cds) // 2]),
        "law-ok", worst < 1e-12,
        "inputs-intact", repr(points) == points_before and snapshot_table(table) == table_before,
        "attrs", repr(dm), getattr(dm, "sectional_density", None), getattr(dm, "form_factor", None))
    dm2 = DragModelMultiBC(make_points(), table, **kw)
    out(label, "rebuild-same", [p.CD for p in dm2.drag_table] == cds, dm2.BC == dm.BC,
        "distinct-points", all(a is not b for a, b in zip(dm.drag_table, dm2.drag_table)))
    return dm


def make_std(table):
    return [p.CD if isinstance(p, DragDataPoint) else p["CD"] for p in table]


multi("g7-3v", lambda: [BCPoint(0.275, V=Velocity.MPS(800)), BCPoint(0.255, V=Velocity.MPS(500)),
                        BCPoint(0.26, V=Velocity.MPS(700))], TableG7, weight=178, diameter=0.308)
multi("g7-3v-sorted", lambda: [BCPoint(0.255, V=Velocity.MPS(500)), BCPoint(0.26, V=Velocity.MPS(700)),
                               BCPoint(0.275, V=Velocity.MPS(800))], TableG7, weight=178, diameter=0.308)
multi("g7-litz", lambda: [BCPoint(0.417, V=Velocity.MPS(745)), BCPoint(0.409, V=Velocity.MPS(662)),
                          BCPoint(0.4, V=Velocity.MPS(580))], TableG7, weight=Weight.Grain(285),
      diameter=Distance.Inch(0.338), length=Distance.Inch(1.7))
multi("g1-single", lambda: [BCPoint(0.22, Mach=1.3)], TableG1)
multi("g1-mach5", lambda: [BCPoint(0.45, Mach=2.5), BCPoint(0.41, Mach=0.9), BCPoint(0.47, Mach=3.5),
                           BCPoint(0.40, Mach=0.5), BCPoint(0.43, Mach=1.5)], TableG1)
multi("g8-fps", lambda: [BCPoint(0.3, V=Velocity.FPS(2800)), BCPoint(0.28, V=1200), BCPoint(0.29, V=2000.5)], TableG8)
multi("gs-on-nodes", lambda: [BCPoint(0.1, Mach=TableGS[3]["Mach"]), BCPoint(0.12, Mach=TableGS[10]["Mach"]),
                              BCPoint(0.09, Mach=TableGS[-1]["Mach"])], TableGS)
multi("ra4-dup-mach", lambda: [BCPoint(0.12, Mach=1.0), BCPoint(0.14, Mach=1.0), BCPoint(0.13, Mach=2.0)], TableRA4)
multi("g7-outside", lambda: [BCPoint(0.3, Mach=7.0), BCPoint(0.2, Mach=6.0)], TableG7)
multi("g7-kmh", lambda: [BCPoint(0.31, V=Velocity.KMH(2900)), BCPoint(0.29, V=Velocity.KT(900))], TableG7, weight=168)
multi("empty-points", lambda: [], TableG7)
multi("empty-table", lambda: [BCPoint(0.3, Mach=1.0)], [])

# data points of another model as table: the donor must stay unchanged
donor = DragModel(0.3, TableG7)
donor_before = snapshot_table(donor.drag_table)
m = multi("from-donor", lambda: [BCPoint(0.3, Mach=2.0), BCPoint(0.25, Mach=1.0)], donor.drag_table)
out("donor-intact", snapshot_table(donor.drag_table) == donor_before,
    all(a is not b for a, b in zip(donor.drag_table, m.drag_table)))
# shared point list reused for two models with different tables
shared = [BCPoint(0.33, Mach=2.2), BCPoint(0.3, V=Velocity.MPS(300)), BCPoint(0.31, Mach=1.4)]
shared_copy = copy.deepcopy(shared)
a = DragModelMultiBC(shared, TableG1)
b = DragModelMultiBC(shared, TableG7)
a2 = DragModelMultiBC(shared, TableG1)
out("shared-points", repr(shared) == repr(shared_copy), [p.CD for p in a.drag_table] == [p.CD for p in a2.drag_table],
    repr(a.drag_table[40].CD), repr(b.drag_table[40].CD))

out("TOTAL", hashlib.sha256("\n".join(LINES).encode()).hexdigest())
