"""Equivalence digest for C14 refactoring 2 (DragModelMultiBC body, shared sectional-density helpers).

Prints a deterministic text; must be identical on the clean worktree and with the patch.
"""
import copy
import hashlib
import itertools

from py_ballisticcalc import (DragModel, DragModelMultiBC, BCPoint, DragDataPoint, Velocity, Weight, Distance,
                              Ammo, Weapon, Shot, Calculator, PreferredUnits, Unit,
                              TableG1, TableG7, TableG2, TableG5, TableG6, TableG8, TableGI, TableGS, TableRA4)
from py_ballisticcalc.drag_model import linear_interpolation, make_data_points

LINES = []


def emit(*parts):
    LINES.append(' '.join(str(p) for p in parts))


def table_digest(points):
    h = hashlib.sha256()
    for p in points:
        h.update(repr((p.Mach, p.CD)).encode())
    return h.hexdigest()[:20]


def model_digest(dm):
    extra = (getattr(dm, 'sectional_density', None), getattr(dm, 'form_factor', None))
    return f"BC={dm.BC!r} n={len(dm.drag_table)} tbl={table_digest(dm.drag_table)} " \
           f"first={dm.drag_table[0].CD!r} last={dm.drag_table[-1].CD!r} sd/ff={extra!r} repr={dm!r}"


def attempt(label, fn):
    try:
        emit(label, '->', fn())
    except Exception as exc:  # pylint: disable=broad-except
        emit(label, '-> EXC', type(exc).__name__, exc.args, 'cause=', type(exc.__cause__).__name__)


TABLES = dict(G1=TableG1, G7=TableG7, G2=TableG2, G5=TableG5, G6=TableG6, G8=TableG8, GI=TableGI, GS=TableGS,
              RA4=TableRA4)

# ---------------------------------------------------------------- 1. linear_interpolation directly
nan = float('nan')
inf = float('inf')
XS = [-1.0, 0.0, 0.5, 1.0, 1.0000000000000002, 1.5, 2.0, 2.5, 2.9999999999999996, 3.0, 3.5, 4.0, 7.0, nan, inf, -inf,
      1, 2, 3]
CASES = {
    'one': ([1.0], [0.5]),
    'two': ([1.0, 3.0], [0.2, 0.4]),
    'three': ([1.0, 2.0, 3.0], [0.2, 0.5, 0.3]),
    'four': ([0.5, 1.0, 2.5, 3.5], [0.1, 0.2, 0.25, 0.3]),
    'seven': ([0.5, 1.0, 1.5, 2.0, 2.5, 3.0, 3.5], [1.0, 2.0, 4.0, 8.0, 16.0, 32.0, 64.0]),
    'dups': ([1.0, 2.0, 2.0, 3.0], [0.1, 0.2, 0.3, 0.4]),
    'dups_all': ([2.0, 2.0, 2.0], [0.1, 0.2, 0.3]),
    'dup_head': ([1.0, 1.0, 2.0, 3.0, 4.0], [0.1, 0.2, 0.3, 0.4, 0.5]),
    'dup_tail': ([0.0, 1.0, 2.0, 4.0, 4.0], [0.1, 0.2, 0.3, 0.4, 0.5]),
    'unsorted': ([0.0, 3.0, 1.0, 2.0, 4.0], [0.1, 0.2, 0.3, 0.4, 0.5]),
    'unsorted2': ([0.0, 2.5, 2.0, 1.5, 1.0, 0.75, 5.0], [1.0, 2.0, 3.0, 4.0, 5.0, 6.0, 7.0]),
    'descending_mid': ([0.0, 3.0, 2.0, 1.0, 4.0], [0.1, 0.2, 0.3, 0.4, 0.5]),
    'nan_node': ([0.0, 1.0, nan, 3.0, 4.0], [0.1, 0.2, 0.3, 0.4, 0.5]),
    'nan_first': ([nan, 1.0, 2.0, 3.0], [0.1, 0.2, 0.3, 0.4]),
    'nan_last': ([0.0, 1.0, 2.0, nan], [0.1, 0.2, 0.3, 0.4]),
    'ints': ([1, 2, 3, 4], [10, 20, 40, 80]),
    'tuples': ((0.5, 1.5, 2.5), (0.3, 0.2, 0.1)),
}
for name, (xp, yp) in CASES.items():
    xp0, yp0 = copy.deepcopy(xp), copy.deepcopy(yp)
    out = linear_interpolation(XS, xp, yp)
    emit('li', name, repr(out), type(out).__name__, 'inputs_intact=', repr(xp) == repr(xp0) and repr(yp) == repr(yp0))
# exhaustive small grid, sorted and unsorted node orders, x on a fine grid
grid_x = [i / 8.0 for i in range(-4, 45)]
h = hashlib.sha256()
for n in range(1, 6):
    for perm in itertools.permutations([0.5, 1.25, 2.0, 3.125, 4.5][:n]):
        ys = [0.2 + 0.07 * ((3 * k) % 5) for k in range(n)]
        h.update(repr(linear_interpolation(grid_x, list(perm), ys)).encode())
emit('li grid digest', h.hexdigest())
emit('li empty x', linear_interpolation([], [1.0, 2.0], [0.1, 0.2]), linear_interpolation([], [], []),
     linear_interpolation((), [1.0], [2.0]))
attempt('li empty xp', lambda: linear_interpolation([1.0], [], []))
attempt('li len mismatch', lambda: linear_interpolation([1.0], [1.0, 2.0], [0.1]))
attempt('li short yp no assert path', lambda: linear_interpolation(iter([0.0, 1.5, 5.0]), (1.0, 2.0), (3.0, 4.0)))
attempt('li str x', lambda: linear_interpolation(['a'], [1.0, 2.0], [0.1, 0.2]))
attempt('li None x', lambda: linear_interpolation([None], [1.0, 2.0], [0.1, 0.2]))

# ---------------------------------------------------------------- 2. multi-BC models through the public constructor
POINT_SETS = {
    'single_mach': lambda: [BCPoint(0.22, Mach=1.0)],
    'single_v': lambda: [BCPoint(0.22, V=Velocity.FPS(2500))],
    'same_bc': lambda: [BCPoint(.22, V=Velocity.FPS(2500)), BCPoint(.22, V=Velocity.FPS(1500)), BCPoint(BC=.22, Mach=3)],
    'two_desc': lambda: [BCPoint(0.5, Mach=2.5), BCPoint(0.3, Mach=0.9)],
    'three_mps_shuffled': lambda: [BCPoint(0.275, V=Velocity.MPS(800)), BCPoint(0.255, V=Velocity.MPS(500)),
                                   BCPoint(0.26, V=Velocity.MPS(700))],
    'litz': lambda: [BCPoint(0.417, V=Velocity.MPS(745)), BCPoint(0.409, V=Velocity.MPS(662)),
                     BCPoint(0.4, V=Velocity.MPS(580))],
    'mixed_units': lambda: [BCPoint(0.31, V=Velocity.KMH(3000)), BCPoint(0.29, V=1800), BCPoint(0.33, Mach=0.7),
                            BCPoint(0.27, V=Velocity.MPH(900)), BCPoint(0.35, V=Velocity.KT(2400))],
    'on_nodes': lambda: [BCPoint(0.2, Mach=0.5), BCPoint(0.3, Mach=1.0), BCPoint(0.25, Mach=1.2), BCPoint(0.4, Mach=5.0)],
    'dup_mach': lambda: [BCPoint(0.2, Mach=1.0), BCPoint(0.3, Mach=1.0), BCPoint(0.25, Mach=2.0), BCPoint(0.35, Mach=2.0)],
    'outside_low': lambda: [BCPoint(0.2, Mach=1e-9), BCPoint(0.3, Mach=1e-6)],
    'outside_high': lambda: [BCPoint(0.2, Mach=50.0), BCPoint(0.3, Mach=60.0), BCPoint(0.1, Mach=55.0)],
    'many': lambda: [BCPoint(0.2 + 0.01 * ((7 * k) % 11), Mach=0.3 + 0.37 * ((5 * k) % 13)) for k in range(13)],
    'int_mach': lambda: [BCPoint(1, Mach=1), BCPoint(2, Mach=3), BCPoint(3, Mach=2)],
}
BODIES = {
    'bare': {},
    'wd_float': dict(weight=178, diameter=.308),
    'wd_units': dict(weight=Weight.Gram(11.5), diameter=Distance.Millimeter(7.82), length=Distance.Inch(1.3)),
    'w_only': dict(weight=168),
}


def point_state(points):
    return repr([(p.BC, p.Mach, repr(p.V)) for p in points])


for tname, table in TABLES.items():
    for pname, maker in POINT_SETS.items():
        for bname, body in BODIES.items():
            points = maker()
            ids_before = [id(p) for p in points]
            state_before = point_state(points)
            table_before = repr(table)
            dm1 = DragModelMultiBC(points, table, **body)
            dm2 = DragModelMultiBC(points, table, **body)
            intact = (state_before == point_state(points) and ids_before == [id(p) for p in points]
                      and table_before == repr(table))
            emit('mbc', tname, pname, bname, model_digest(dm1), 'again_same=', model_digest(dm1) == model_digest(dm2),
                 'inputs_intact=', intact)

# data-point lists taken from another model; the donor must stay unchanged, rebuilding is idempotent
for tname in ('G1', 'G7', 'RA4'):
    donor = DragModel(0.3, TABLES[tname], weight=150, diameter=0.284)
    donor_before = table_digest(donor.drag_table)
    donor_ids = [id(p) for p in donor.drag_table]
    shared = donor.drag_table
    pts = POINT_SETS['mixed_units']()
    a = DragModelMultiBC(pts, shared)
    a_before = table_digest(a.drag_table)
    b = DragModelMultiBC(pts, shared, weight=150, diameter=0.284)
    c = DragModelMultiBC(pts, a.drag_table)  # table of a multi-BC model re-used as an input
    emit('shared', tname, model_digest(a), '|', model_digest(b), '|', model_digest(c),
         'donor_intact=', donor_before == table_digest(donor.drag_table) and donor_ids == [id(p) for p in shared],
         'a_intact=', a_before == table_digest(a.drag_table),
         'no_alias=', not ({id(p) for p in a.drag_table} & set(donor_ids)))

# effective BC law: standard CD * model BC / model CD on every node of the table
for tname in ('G1', 'G7'):
    std = make_data_points(TABLES[tname])
    for pname in ('three_mps_shuffled', 'mixed_units', 'dup_mach', 'on_nodes'):
        for bname in ('bare', 'wd_float'):
            dm = DragModelMultiBC(POINT_SETS[pname](), TABLES[tname], **BODIES[bname])
            eff = [s.CD * dm.BC / p.CD if p.CD else None for s, p in zip(std, dm.drag_table)]
            emit('effbc', tname, pname, bname, hashlib.sha256(repr(eff).encode()).hexdigest()[:20],
                 repr(eff[0]), repr(eff[len(eff) // 2]), repr(eff[-1]))

# preferred units switched: velocity given as bare numbers is read in the preferred unit
PreferredUnits.velocity = Unit.MPS
PreferredUnits.weight = Unit.Gram
PreferredUnits.diameter = Unit.Millimeter
try:
    pts = [BCPoint(0.3, V=800), BCPoint(0.28, V=400), BCPoint(0.29, V=Velocity.FPS(2000))]
    emit('prefs', point_state(pts), model_digest(DragModelMultiBC(pts, TableG7, weight=11.5, diameter=7.82)))
finally:
    PreferredUnits.defaults()

# error paths
attempt('err empty points', lambda: DragModelMultiBC([], TableG7))
attempt('err empty table', lambda: DragModelMultiBC([BCPoint(0.2, Mach=1)], []))
attempt('err bad table item', lambda: DragModelMultiBC([BCPoint(0.2, Mach=1)], [{'Mach': 1.0}]))
attempt('err bad table type', lambda: DragModelMultiBC([BCPoint(0.2, Mach=1)], [(1.0, 0.2)]))
attempt('err table None', lambda: DragModelMultiBC([BCPoint(0.2, Mach=1)], None))
attempt('err bc 0', lambda: BCPoint(0, Mach=1))
attempt('err bc neg', lambda: BCPoint(-0.1, V=100))
attempt('err both', lambda: BCPoint(0.2, Mach=1, V=100))
attempt('err none', lambda: BCPoint(0.2))
attempt('err mach 0', lambda: BCPoint(0.2, Mach=0))
attempt('err neg weight', lambda: model_digest(DragModelMultiBC([BCPoint(0.2, Mach=1)], TableG1, weight=-1, diameter=1)))
attempt('zero CD table', lambda: model_digest(DragModelMultiBC([BCPoint(0.2, Mach=1)],
                                                                 [DragDataPoint(0.5, 0.0), DragDataPoint(1.5, 0.3)])))
attempt('nan mach table', lambda: model_digest(DragModelMultiBC(
    [BCPoint(0.2, Mach=1), BCPoint(0.4, Mach=2), BCPoint(0.3, Mach=3)],
    [DragDataPoint(nan, 0.1), DragDataPoint(1.5, 0.3), DragDataPoint(2.5, 0.3)])))

# ---------------------------------------------------------------- 2b. reference BC / sectional density / form factor
from py_ballisticcalc.drag_model import sectional_density  # noqa: E402
WD = [(0, 0), (178, 0), (0, .308), (178, .308), (-178, .308), (178, -.308), (nan, .308), (178, nan), (inf, .308),
      (1e-300, 1e-300), (1e300, 1e-3), (Weight.Gram(11.5), Distance.Millimeter(7.82)),
      (Weight.Pound(0.02), Distance.Centimeter(0.9)), (Weight.Grain(0), Distance.Inch(0.3)), (True, 1),
      (Weight.Kilogram(0.05), 0.5), (300, Distance.Line(3))]
for w, d in WD:
    label = f'wd w={w!r} d={d!r}'
    attempt(label + ' multi', lambda: model_digest(DragModelMultiBC(POINT_SETS['litz'](), TableG7, w, d)))
    attempt(label + ' multi kw+len', lambda: model_digest(
        DragModelMultiBC(POINT_SETS['single_mach'](), TableG1, weight=w, diameter=d, length=Distance.Millimeter(30))))
    attempt(label + ' plain', lambda: model_digest(DragModel(0.3, TableG7, w, d, 1.1)))


def sd_methods():
    dm = DragModel(0.25, TableG1, Weight.Gram(10), Distance.Millimeter(7.62), 1.2)
    return repr((dm._get_sectional_density(), dm._get_form_factor(0.5), dm.sectional_density, dm.form_factor,
                 sectional_density(168, 0.308)))


attempt('sd methods', sd_methods)
attempt('sd methods no wd', lambda: repr(DragModel(0.25, TableG1)._get_sectional_density()))
PreferredUnits.weight = Unit.Gram
PreferredUnits.diameter = Unit.Centimeter
PreferredUnits.length = Unit.Millimeter
try:
    attempt('prefs2 multi', lambda: model_digest(DragModelMultiBC(POINT_SETS['litz'](), TableG7, 18.5, 0.86, 40)))
    attempt('prefs2 plain', lambda: model_digest(DragModel(0.4, TableG7, 18.5, 0.86, 40)))
    attempt('prefs2 sd', sd_methods)
finally:
    PreferredUnits.defaults()
# single BC value: multi-BC without weight/diameter scales CD by the BC, BC attribute is 1
for bc_value in (0.22, 0.5, 1.0, 1e-3, 7):
    multi = DragModelMultiBC([BCPoint(bc_value, Mach=2.0)], TableG7)
    plain = DragModel(bc_value, TableG7)
    emit('single', bc_value, model_digest(multi), '| plain', model_digest(plain),
         'ratio_ok=', all(m.CD == p.CD / (bc_value / 1.0) for m, p in zip(multi.drag_table, plain.drag_table)))
attempt('tiny relative bc -> zero division', lambda: model_digest(
    DragModelMultiBC([BCPoint(1e-320, Mach=1.0)], TableG1, weight=1e300, diameter=1e-3)))
attempt('points not a list (tuple)', lambda: model_digest(DragModelMultiBC(tuple(POINT_SETS['litz']()), tuple(TableG7))))
attempt('points generator', lambda: model_digest(DragModelMultiBC(iter(POINT_SETS['litz']()), TableG7)))
attempt('points with foreign item', lambda: model_digest(DragModelMultiBC([BCPoint(0.3, Mach=1), object()], TableG7)))
attempt('bad weight type', lambda: model_digest(DragModelMultiBC(POINT_SETS['litz'](), TableG7, 'x', 1)))
attempt('weight given as Distance', lambda: model_digest(DragModelMultiBC(POINT_SETS['litz'](), TableG7, Distance.Inch(1), 1)))

# ---------------------------------------------------------------- 3. trajectories
calc = Calculator()
weapon = Weapon(4, 12)
for pname in ('same_bc', 'three_mps_shuffled', 'mixed_units'):
    dm = DragModelMultiBC(POINT_SETS[pname](), TableG7, weight=178, diameter=.308, length=1.2)
    shot = Shot(weapon=weapon, ammo=Ammo(dm, Velocity.FPS(2600)))
    traj = calc.fire(shot=shot, trajectory_range=1000, trajectory_step=100).trajectory
    emit('traj', pname, hashlib.sha256(repr([(r.time, r.distance.raw_value, r.velocity.raw_value, r.height.raw_value,
                                               r.windage.raw_value) for r in traj]).encode()).hexdigest()[:24],
         repr(traj[-1].velocity.raw_value), repr(traj[-1].height.raw_value))

text = '\n'.join(LINES)
print(text)
print('TOTAL', len(LINES), hashlib.sha256(text.encode()).hexdigest())
