"""Equivalence digest for refactoring 3 (trajectory rows built with the regular quantity constructors
instead of the slot-poking `_new_*` helpers in trajectory_calc/_trajectory_calc.py).

Everything printed is repr() of numbers / names of units / str() of quantities, so the text must be identical
on the clean worktree and with the patch applied.
"""
import hashlib
import math

from py_ballisticcalc import (Calculator, Shot, Weapon, Ammo, Atmo, Wind, DragModel, TableG7, TableG1,
                              Unit, Distance, Angular, Velocity, Energy, Weight, PreferredUnits, TrajFlag)
from py_ballisticcalc.trajectory_calc._trajectory_calc import create_trajectory_row
from py_ballisticcalc.trajectory_calc import TrajectoryCalc
from py_ballisticcalc.unit import AbstractDimension
from py_ballisticcalc.vector import Vector

assert TrajectoryCalc.__module__ == 'py_ballisticcalc.trajectory_calc._trajectory_calc', 'pure-Python backend expected'

lines = []


def out(*a):
    lines.append(' '.join(str(x) for x in a))


def attempt(fn):
    try:
        return repr(fn())
    except Exception as e:  # pylint: disable=broad-except
        return f'{type(e).__name__}: {e}'


UNITS_OF = {
    Distance: [u for u in Unit if 10 <= u < 20],
    Velocity: [u for u in Unit if 60 <= u < 70],
    Angular: [u for u in Unit if 0 <= u < 10],
    Energy: [u for u in Unit if 30 <= u < 40],
    Weight: [u for u in Unit if 70 <= u < 80],
}


def dump_quantity(tag, q):
    """state of a quantity, then a history of operations, then the state again"""
    cls = type(q)
    raw = q.raw_value
    out(tag, cls.__name__, q.units.name, repr(raw), type(raw).__name__, repr(q.unit_value), str(q), repr(q),
        attempt(lambda: float(q)), hash(q) if raw == raw else 'nan-hash', sorted(vars(q)))
    units = UNITS_OF[cls]
    reads = [repr(q >> u) for u in units]
    out('   reads', *reads)
    h = hash(q)
    for u in units:
        assert (q << u) is q and u(q) is q
        out('   as', u.name, str(q), repr(q.unit_value), q == raw, q <= raw, q > raw, hash(q) == h)
    foreign = Unit.Celsius
    out('   foreign', attempt(lambda: q >> foreign), attempt(lambda: q >> 'foot'))
    out('   after', q.units.name, repr(q.raw_value), reads == [repr(q >> u) for u in units], hash(q) == h)


def dump_row(tag, row):
    out(tag, 'time', repr(row.time), 'mach', repr(row.mach), 'df', repr(row.density_factor), 'drag', repr(row.drag),
        'flag', row.flag)
    for name in ('distance', 'velocity', 'height', 'target_drop', 'drop_adj', 'windage', 'windage_adj',
                 'look_distance', 'angle', 'energy', 'ogw'):
        dump_quantity(f' {tag}.{name}', getattr(row, name))


# 1. create_trajectory_row called directly (it is exported) on ordinary and on edge inputs
CASES = [
    (0.0, Vector(0.0, -0.2, 0.0), Vector(2700.0, 10.0, 0.0), 2700.0, 1116.4, 0.0, 0.0, 1.0, 0.0, 168.0, TrajFlag.RANGE),
    (1.5, Vector(3000.0, -120.5, 3.25), Vector(1500.0, -40.0, 2.0), 1500.6, 1100.0, 0.7, 0.05, 0.98, 1e-4, 168.0,
     TrajFlag.ZERO_DOWN | TrajFlag.RANGE),
    (2, Vector(100, 2, 1), Vector(3, 4, 0), 5, 1000, 0, 0, 1, 0, 300, 0),  # all ints
    (0.1, Vector(-50.0, 7.0, -1.0), Vector(-800.0, 0.0, 0.0), 800.0, 1116.0, -0.3, -0.2, 1.2, 0.3, 55.0, TrajFlag.APEX),
    (9.9, Vector(1e7, -1e6, 1e5), Vector(1e-9, -1e-9, 0.0), 1e-9, 1116.0, 12.0, 1.5, 0.5, 2.0, 750.0, TrajFlag.MACH),
    (1.0, Vector(float('inf'), 1.0, 0.0), Vector(1.0, 1.0, 0.0), float('nan'), 1116.0, 0.0, 0.1, 1.0, 0.0, 100.0, 0),
    (1.0, Vector(10.0, 1.0, 0.0), Vector(0.0, 0.0, 0.0), 0.0, 1116.0, 0.0, 7.0, 1.0, 0.0, 0.0, 0),  # look angle > 2 pi
    (1.0, Vector(10.0, 1.0, 0.0), Vector(0.0, 0.0, 0.0), 10.0, 0.0, 0.0, 0.0, 1.0, 0.0, 10.0, 0),  # mach 0 -> error
    (1.0, Vector(10.0, None, 0.0), Vector(0.0, 0.0, 0.0), 10.0, 1.0, 0.0, 0.0, 1.0, 0.0, 10.0, 0),  # bad input -> error
    (1.0, Vector(10.0, 1.0, 0.0), Vector(1.0, 0.0, 0.0), 'abc', 1.0, 0.0, 0.0, 1.0, 0.0, 10.0, 0),  # fails while building velocity
    (1.0, Vector([1], 1.0, 0.0), Vector(1.0, 0.0, 0.0), 10.0, 1.0, 0.0, 0.0, 1.0, 0.0, 10.0, 0),  # fails in get_correction
]
for i, args in enumerate(CASES):
    try:
        row = create_trajectory_row(*args)
    except Exception as e:  # pylint: disable=broad-except
        out(f'row{i}', f'{type(e).__name__}: {e}')
        continue
    dump_row(f'row{i}', row)

# 2. whole trajectories through the public API
PreferredUnits.defaults()
calc = Calculator()
dm = DragModel(0.223, TableG7, 168, 0.308, Distance.Inch(1.282))
ammo = Ammo(dm, Velocity.FPS(2750), Unit.Celsius(15), use_powder_sensitivity=True)
ammo.calc_powder_sens(Velocity.FPS(2723), Unit.Celsius(0))
shot = Shot(weapon=Weapon(sight_height=Unit.Centimeter(9), twist=12), ammo=ammo,
            atmo=Atmo(Unit.Meter(110), Unit.InHg(29.8), Unit.Celsius(15), 72), winds=[Wind(Unit.MPS(2), Unit.Degree(90))])
zero = calc.set_weapon_zero(shot, Distance.Meter(100))
dump_quantity('zero', zero)
res = calc.fire(shot, trajectory_range=Distance.Meter(1000), trajectory_step=Distance.Meter(100))
out('rows', len(res.trajectory))
for i, row in enumerate(res):
    dump_row(f'A{i}', row)
    out('  formatted', row.formatted())
    out('  in_def_units', row.in_def_units())

shot2 = Shot(weapon=Weapon(sight_height=2, twist=-9, zero_elevation=Unit.Mil(1.5)),
             ammo=Ammo(DragModel(0.45, TableG1, 300, 0.338, 1.7), Unit.MPS(815)),
             look_angle=Unit.Degree(5), relative_angle=Unit.MOA(3), cant_angle=Unit.Degree(2),
             winds=[Wind(Unit.MPH(10), Unit.OClock(3), Unit.Yard(300)), Wind(Unit.MPH(5), Unit.OClock(9))])
res2 = calc.fire(shot2, Distance.Yard(600), Distance.Yard(150), extra_data=True)
out('rows2', len(res2.trajectory))
for i, row in enumerate(res2):
    if row.flag or i % 97 == 0:
        dump_row(f'B{i}', row)
digest_all = hashlib.sha256()
for row in res2:
    for f in row:
        digest_all.update(repr((f.raw_value, int(f.units)) if isinstance(f, AbstractDimension) else f).encode())
out('rows2-all', digest_all.hexdigest())
out('zeros', [(repr(r.distance.raw_value), r.flag) for r in res2.zeros()])
out('at', repr(res2.get_at_distance(Distance.Meter(300)).distance.raw_value), res2.index_at_distance(Distance.Foot(900)),
    res2.index_at_distance(Distance.Mile(5)))
ds = res2.danger_space(Distance.Yard(450), Distance.Meter(1.5), Unit.Degree(5))
out('danger', str(ds), repr(ds.begin.distance.raw_value), repr(ds.end.distance.raw_value))

# rows keep their magnitude after having been formatted / compared / searched
for i, row in enumerate(res):
    out('again', i, repr(row.distance.raw_value), row.distance.units.name, repr(row.velocity.raw_value),
        row.velocity.units.name, repr(row.drop_adj.raw_value), row.drop_adj.units.name,
        repr(row.energy.raw_value), row.energy.units.name, repr(row.ogw.raw_value), row.ogw.units.name)

text = '\n'.join(lines)
print(text)
print('LINES', len(lines))
print('SHA256', hashlib.sha256(text.encode()).hexdigest())
