"""Equivalence digest for refactoring 2 (py_ballisticcalc.munition: Sight / Ammo).

Drives Sight.get_adjustment / get_trajectory_adjustment / _adjust_sfp_reticle_steps and
Ammo.calc_powder_sens / get_velocity_for_temp with numbers and quantities in several display
units, and records - besides the results - what the calls did to the quantities handed in
(C13: magnitude unchanged, only the display unit may change).
Prints a deterministic digest; must be identical before / after the patch.
"""
import warnings

warnings.simplefilter('ignore')

from py_ballisticcalc import (Ammo, Atmo, Calculator, DragModel, PreferredUnits, Shot, Sight, TableG7,  # noqa: E402
                              Unit, Weapon, Wind)
from py_ballisticcalc.unit import AbstractDimension, Angular, Distance, Temperature, Velocity  # noqa: E402

out = []


def emit(*parts):
    out.append(' | '.join(str(outcome(str, p)) for p in parts))


def outcome(fn, *args, **kwargs):
    try:
        return fn(*args, **kwargs)
    except Exception as exc:  # pylint: disable=broad-except
        return f'EXC {type(exc).__module__}.{type(exc).__name__}: {exc}'


def q(x):
    """state of a quantity: class, raw magnitude, display unit, hash"""
    if isinstance(x, AbstractDimension):
        h = hash(x) if x.raw_value == x.raw_value else 'id-based (nan)'
        return f'{type(x).__name__}(raw={x.raw_value!r}, units={x.units!r}, hash={h})'
    if isinstance(x, tuple) and hasattr(x, '_fields'):
        return type(x).__name__ + '(' + ', '.join(f'{f}={q(getattr(x, f))}' for f in x._fields) + ')'
    return str(outcome(repr, x))


def sights():
    yield 'FFP-mil', lambda: Sight('FFP', None, Unit.Mil(0.2), Unit.Mil(0.1))
    yield 'FFP-num', lambda: Sight('FFP', 2, 0.25, 0.25)
    yield 'FFP-moa', lambda: Sight(h_click_size=Unit.MOA(0.25), v_click_size=Unit.MOA(0.125))
    yield 'SFP-m', lambda: Sight('SFP', Unit.Meter(100), Unit.Mil(0.2), Unit.Mil(0.1))
    yield 'SFP-num', lambda: Sight('SFP', 100, 0.25, Unit.CmPer100m(1))
    yield 'SFP-in100', lambda: Sight('SFP', Unit.Yard(100), Unit.InchesPer100Yd(0.25), Unit.Thousandth(0.5))
    yield 'LWIR', lambda: Sight('LWIR', None, Unit.Mil(0.36), Unit.Mil(0.36))
    yield 'LWIR-int', lambda: Sight('LWIR', 0, Unit.Radian(1), Unit.Radian(2))


for prefs in [dict(), dict(distance=Unit.Meter, adjustment=Unit.MOA, temperature=Unit.Celsius, velocity=Unit.MPS)]:
    PreferredUnits.defaults()
    PreferredUnits.set(**prefs)
    emit('PREFS', prefs)

    # ---- construction errors ----
    for args in [('XXX', 1, 0.1, 0.1), ('SFP', None, 0.1, 0.1), ('SFP', 0, 0.1, 0.1), ('FFP', None, None, 0.1),
                 ('FFP', None, '0.1', 0.1), ('FFP', None, 0, 0.1), ('FFP', None, 0.1, Unit.Mil(-1)),
                 ('FFP', None, Unit.Meter(1), 0.1), ('FFP', Unit.Mil(1), 0.1, 0.1), ('LWIR', None, True, 1)]:
        emit('Sight-init', args, q(outcome(lambda: Sight(*args))))

    for name, make in sights():
        for td in [Unit.Meter(250), Unit.Yard(100), 300, 0.5, Unit.Inch(0), 0, -100, Unit.Kilometer(1.2),
                   None, 'x', Unit.Mil(3), float('inf'), float('nan')]:
            for mag in [1, 4, 12.5, 0, -2, 0.0, None, float('inf')]:
                for drop, wind in [(Unit.Mil(1.5), Unit.Mil(-0.3)), (Unit.MOA(7.25), Unit.CmPer100m(12)),
                                   (Unit.Radian(0), Unit.Radian(0.001)), (Angular.Degree(1), Unit.Radian(1)),
                                   (1.5, Unit.Mil(1)), (Unit.Mil(1), None), (Unit.Meter(1), Unit.FPS(3))]:
                    s = make()
                    before = (q(td), q(drop), q(wind), q(s.scale_factor), q(s.h_click_size), q(s.v_click_size))
                    r = outcome(s.get_adjustment, td, drop, wind, mag)
                    after = (q(td), q(drop), q(wind), q(s.scale_factor), q(s.h_click_size), q(s.v_click_size))
                    emit('adj', name, q(r), 'unchanged' if before == after else f'{before} -> {after}')
                s = make()
                emit('sfp-steps', name, q(td), repr(mag), q(outcome(s._adjust_sfp_reticle_steps, td, mag)), q(td))
        s = make()
        s.focal_plane = 'OTHER'
        emit('adj-other', name, outcome(s.get_adjustment, Unit.Meter(100), Unit.Mil(1), Unit.Mil(1), 2))
        emit('eq', name, make() == make(), repr(make()))

    # ---- Ammo ----
    dm = DragModel(0.223, TableG7, 168, 0.308, 1.282)
    for mv in [Unit.MPS(800), Unit.FPS(2750), 2600, 0, Unit.KMH(0), None, Unit.MPS(-10)]:
        for pt in [None, Unit.Celsius(15), Unit.Fahrenheit(59), 20, Unit.Kelvin(0)]:
            for ov, ot in [(Unit.MPS(820), Unit.Celsius(30)), (Unit.FPS(2700), Unit.Fahrenheit(0)), (2650, 25),
                           (mv, Unit.Celsius(40)), (Unit.MPS(790), pt), (Unit.Meter(3), Unit.Celsius(1)),
                           (Unit.MPS(810), Unit.Mil(1)), ('a', 1), (None, None)]:
                a = outcome(Ammo, dm, mv, pt, 0, True)
                if isinstance(a, str):
                    emit('ammo-init', a)
                    continue
                before = (q(ov), q(ot))
                r = outcome(a.calc_powder_sens, ov, ot)
                emit('sens', q(mv), q(pt), repr(r), repr(a.temp_modifier), q(a.mv), q(a.powder_temp),
                     before, '->', (q(ov), q(ot)))
                for ct in [Unit.Celsius(-20), Unit.Fahrenheit(100), 15, 0, pt, Unit.Kelvin(300), Unit.Yard(1), 'x']:
                    for flag in (True, False):
                        a.use_powder_sensitivity = flag
                        v = outcome(a.get_velocity_for_temp, ct)
                        emit('v4t', flag, q(ct), q(v), v is a.mv, q(a.mv), q(a.powder_temp))
        for tm in [0, 0.8, -1.5, None, float('inf')]:
            a = Ammo(dm, mv, Unit.Celsius(15), tm, True)
            emit('v4t-tm', q(mv), repr(tm), q(outcome(a.get_velocity_for_temp, Unit.Celsius(35))),
                 q(outcome(a.get_velocity_for_temp, 35)))

    # ---- through the calculator: powder sensitivity + sight clicks on trajectory rows ----
    for fp, sf in [('FFP', None), ('SFP', Unit.Meter(100)), ('LWIR', None)]:
        sight = Sight(fp, sf, Unit.Mil(0.1), Unit.Mil(0.1))
        weapon = Weapon(Unit.Centimeter(9), Unit.Inch(12), sight=sight)
        ammo = Ammo(dm, Unit.MPS(800), Unit.Celsius(15), 0, True)
        emit('calc-sens', repr(ammo.calc_powder_sens(Unit.MPS(815), Unit.Celsius(30))))
        atmo = Atmo(Unit.Meter(150), Unit.hPa(1000), Unit.Celsius(-5), 50)
        calc = Calculator()
        zero = Shot(weapon, ammo, atmo=atmo)
        emit('zero', q(calc.set_weapon_zero(zero, Unit.Meter(100))))
        shot = Shot(weapon, ammo, look_angle=Unit.Degree(3), atmo=atmo, winds=[Wind(Unit.MPS(4), Unit.Degree(90))])
        hit = calc.fire(shot, Unit.Meter(600), Unit.Meter(100))
        for row in hit:
            emit('row', fp, q(row.distance), q(row.velocity), q(row.drop_adj), q(row.windage_adj),
                 q(outcome(sight.get_trajectory_adjustment, row, 10)), q(row.distance), q(row.drop_adj))
        emit('after', q(ammo.mv), q(ammo.powder_temp), q(sight.h_click_size), q(sight.scale_factor))

PreferredUnits.defaults()
print('\n'.join(out))
