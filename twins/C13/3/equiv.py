"""Equivalence digest for refactoring 3 (_validate_unit_type guard inversion, __repr__ without self-conversion,
table driven Velocity / Energy conversions).

Prints a deterministic text; must be identical on the clean and on the patched worktree.
"""
import warnings
warnings.simplefilter("ignore")

import struct
from fractions import Fraction

from py_ballisticcalc import Calculator, Shot, Ammo, Weapon, DragModel, TableG7, Atmo, Wind
from py_ballisticcalc.unit import (Unit, AbstractDimension, Distance, Velocity, Angular, Temperature,
                                   Pressure, Energy, Weight, PreferredUnits)

out = []


def rec(*a):
    out.append(" | ".join(str(x) for x in a))


def bits(x):
    if isinstance(x, float):
        return repr(x) + "/" + struct.pack(">d", x).hex()
    return type(x).__name__ + ":" + repr(x)


def attempt(label, fn):
    try:
        r = fn()
        rec(label, "OK", bits(r) if isinstance(r, (int, float)) else type(r).__name__ + ":" + repr(r))
    except BaseException as e:  # pylint: disable=broad-except
        rec(label, "EXC", type(e).__name__, str(e))


DIMS = (Distance, Velocity, Angular, Temperature, Pressure, Energy, Weight)
VALUES = (0, 1, -1, 2750, 2.5, -0.0, 1e-9, 123456.789, 10 / 3, 0.1, 838.2, 1e308, -1e308, 5e-324,
          float("inf"), float("nan"), True, Fraction(7, 3))

# 1. every dimension class x every unit x values: construction, magnitude, read back in every unit, str/repr
for cls in DIMS:
    for u in Unit:
        for v in VALUES:
            try:
                q = cls(v, u)
            except BaseException as e:  # pylint: disable=broad-except
                rec("ctor", cls.__name__, u.name, repr(v), "EXC", type(e).__name__, str(e))
                continue
            rec("ctor", cls.__name__, u.name, repr(v), bits(q.raw_value), q.units.name)
            if cls in (Velocity, Energy):
                for u2 in Unit:
                    attempt(f"  get_in {u2.name}", lambda: q >> u2)
                attempt("  unit_value", lambda: q.unit_value)
                attempt("  str", lambda: str(q))
                attempt("  repr", lambda: repr(q))

# 2. units that are not Unit members (equal ints, floats, strings, None, unhashable, other enums' values)
for cls in DIMS:
    q = cls(10, [u for u in Unit if u in vars(cls).values()][0])
    for fake in (60, 62, 62.0, 31, 30, 12, True, 0, "fps", "FPS", None, [62], (62,), 1e3, -1, Fraction(62), 62 + 0j,
                 object):
        attempt(f"fake-unit ctor {cls.__name__} {fake!r}", lambda: cls(5, fake).raw_value)
        attempt(f"fake-unit get_in {cls.__name__} {fake!r}", lambda: q.get_in(fake))
        attempt(f"fake-unit >> {cls.__name__} {fake!r}", lambda: q >> fake)
        attempt(f"fake-unit to_raw {cls.__name__} {fake!r}", lambda: q.to_raw("v", fake))
        attempt(f"fake-unit from_raw {cls.__name__} {fake!r}", lambda: q.from_raw("v", fake))
        attempt(f"fake-unit validate {cls.__name__} {fake!r}", lambda: q._validate_unit_type(3.5, fake))

# 3. the validator itself, incl. the slots-only base class and a value whose formatting fails
class Unprintable:
    def __format__(self, spec):
        raise RuntimeError("no format")

    __str__ = __repr__ = lambda self: "unprintable"


for cls in DIMS:
    q = cls.__new__(cls)
    for u in (Unit.Inch, Unit.FPS, Unit.Joule, Unit.MPS, Unit.FootPound, 5, "x"):
        attempt(f"validate {cls.__name__} {u!r}", lambda: q._validate_unit_type(1.5, u))
        attempt(f"validate-unprintable {cls.__name__} {u!r}", lambda: q._validate_unit_type(Unprintable(), u))
attempt("base ctor unit", lambda: AbstractDimension(1, Unit.Inch))
attempt("base ctor non-unit", lambda: AbstractDimension(1, 10))
base = AbstractDimension.__new__(AbstractDimension)
attempt("base validate unit", lambda: base._validate_unit_type(1, Unit.MPS))
attempt("base validate non-unit", lambda: base._validate_unit_type(1, "mps"))
attempt("base repr", lambda: repr(base))
attempt("base str", lambda: str(base))

# 4. histories on Velocity and Energy: <<, Unit(q), >>, str, repr, comparisons, hash; foreign display unit
for make in (lambda: Velocity.FPS(2750), lambda: Velocity.KT(12.5), lambda: Velocity.MPS(0),
             lambda: Energy.Joule(3456.789), lambda: Energy.FootPound(2), lambda: Distance.Yard(10),
             lambda: Temperature.Celsius(-40), lambda: Angular.OClock(3)):
    q = make()
    twin = make()
    raw0, h0 = q.raw_value, hash(q)
    for u in (Unit.MPS, Unit.KMH, Unit.FPS, Unit.MPH, Unit.KT, Unit.Joule, Unit.FootPound, Unit.Inch,
              Unit.Kelvin, Unit.Degree, Unit.KT, Unit.Joule):
        r1 = q << u
        r2 = u(q)
        rec("hist", type(q).__name__, u.name, r1 is q, r2 is q, q.units.name, bits(q.raw_value),
            q.raw_value is raw0, hash(q) == h0, q == twin, q <= twin, q < twin, hash(q) == hash(twin))
        attempt("  repr", lambda: repr(q))
        attempt("  units-after-repr", lambda: q.units.name)
        attempt("  str", lambda: str(q))
        attempt("  unit_value", lambda: q.unit_value)
        attempt("  >>", lambda: q >> u)
        attempt("  twin >> u", lambda: twin >> u)
        attempt("  twin.units", lambda: twin.units.name)

# 5. subclass that extends a table driven class still falls through to it and on to the validator
class MyVelocity(Velocity):
    def to_raw(self, value, units):
        if units == Unit.Inch:
            return value * 2
        return super().to_raw(value, units)


attempt("sub inch", lambda: MyVelocity(4, Unit.Inch).raw_value)
attempt("sub fps", lambda: MyVelocity(4, Unit.FPS).raw_value)
attempt("sub joule", lambda: MyVelocity(4, Unit.Joule).raw_value)
attempt("sub read inch", lambda: MyVelocity(4, Unit.FPS) >> Unit.Inch)

# 6. solver run (velocities and energies in every row)
PreferredUnits.defaults()
dm = DragModel(0.223, TableG7, Weight.Grain(168), Distance.Inch(0.308), Distance.Inch(1.282))
ammo = Ammo(dm, Velocity.MPS(838.2), Temperature.Celsius(15), Velocity.MPS(1.2))
ammo.calc_powder_sens(Velocity.MPS(830), Temperature.Celsius(0))
weapon = Weapon(Distance.Inch(2), Distance.Inch(11.24))
calc = Calculator()
shot = Shot(weapon=weapon, ammo=ammo, atmo=Atmo(Distance.Meter(300), Pressure.hPa(980), Temperature.Celsius(5), 0.6),
            winds=[Wind(Velocity.KMH(15), Angular.OClock(2), Distance.Meter(400)),
                   Wind(Velocity.KT(6), Angular.Degree(270), Distance.Meter(900))])
el = calc.set_weapon_zero(shot, Distance.Meter(100))
rec("zero", bits(el.raw_value), el.units.name)
res = calc.fire(shot, Distance.Meter(1000), Distance.Meter(100), extra_data=True)
for p in res.trajectory:
    rec("traj", bits(p.time), bits(p.distance.raw_value), bits(p.velocity.raw_value), bits(p.velocity >> Unit.KMH),
        bits(p.height.raw_value), bits(p.windage.raw_value), bits(p.energy.raw_value), bits(p.energy >> Unit.Joule),
        str(p.velocity), str(p.energy), repr(p.energy), p.flag)

print("\n".join(out))
