"""Equivalence digest for refactoring 1 (to_raw / from_raw early returns, Angular full-turn helper).

Prints repr() of every number produced, so the text must be bit-for-bit identical
on the clean worktree and with the patch applied.
"""
import math
import hashlib

from py_ballisticcalc.unit import (Unit, AbstractDimension, Distance, Pressure, Weight, Temperature,
                                   Angular, Velocity, Energy)

DIMS = {
    Angular: [u for u in Unit if 0 <= u < 10],
    Distance: [u for u in Unit if 10 <= u < 20],
    Energy: [u for u in Unit if 30 <= u < 40],
    Pressure: [u for u in Unit if 40 <= u < 50],
    Temperature: [u for u in Unit if 50 <= u < 60],
    Velocity: [u for u in Unit if 60 <= u < 70],
    Weight: [u for u in Unit if 70 <= u < 80],
}
VALUES = [0, 1, -1, 0.1, 10 / 3, -273.15, 359.99999, 360, 360.0000001, 361, 720, -720, 6400, 1e9, 1e-300,
          1.7976931348623157e308, float('inf'), float('-inf'), float('nan'), 7, True]

lines = []


def out(*a):
    lines.append(' '.join(str(x) for x in a))


def attempt(fn):
    try:
        return repr(fn())
    except Exception as e:  # pylint: disable=broad-except
        return f'{type(e).__name__}: {e}'


# 1. construction in every unit, read-back in every unit of the same dimension
for cls, units in DIMS.items():
    for u in units:
        for v in VALUES:
            q = attempt(lambda: cls(v, u))
            if not q.startswith('<'):
                out('ctor', cls.__name__, u.name, repr(v), q)
                continue
            q = cls(v, u)
            out('ctor', cls.__name__, u.name, repr(v), repr(q.raw_value), type(q.raw_value).__name__)
            for t in units:
                out('  get_in', t.name, attempt(lambda: q >> t), attempt(lambda: q.get_in(t)))
            out('  float/hash', attempt(lambda: float(q)), hash(q) == hash(q.raw_value),
                attempt(lambda: hash(q)) if q.raw_value == q.raw_value else 'nan-hash')

# 2. foreign units and non-units: which exception, which text, object unchanged afterwards
for cls, units in DIMS.items():
    q = cls(3.25, units[-1])
    before = (repr(q.raw_value), q.units)
    for other_cls, other_units in DIMS.items():
        if other_cls is cls:
            continue
        for t in other_units:
            out('foreign', cls.__name__, t.name, attempt(lambda: q >> t), attempt(lambda: cls(1, t)),
                attempt(lambda: q.to_raw(2.5, t)), attempt(lambda: q.from_raw(2.5, t)))
    for bad in (None, 'inch', 12.5, 9, 20, 29, 80, -1, (1,), Unit):
        out('bad', cls.__name__, repr(bad), attempt(lambda: q >> bad), attempt(lambda: cls(1, bad)))
    # plain ints equal to a member of the dimension are accepted by the == chain
    for t in units:
        out('int-unit', cls.__name__, int(t), attempt(lambda: q >> int(t)), attempt(lambda: cls(2, int(t)).raw_value))
    out('unchanged', cls.__name__, before == (repr(q.raw_value), q.units))

out('abstract', attempt(lambda: AbstractDimension(1, Unit.Inch)), attempt(lambda: AbstractDimension(1, 'x')))

# 3. histories: conversions, formatting, comparison, hashing never move the magnitude
for cls, units in DIMS.items():
    for v in (0.5, 123.456, -40):
        q = cls(v, units[0])
        raw0, h0 = q.raw_value, hash(q)
        reads0 = [repr(q >> t) for t in units]
        for t in units + units[::-1]:
            r = q << t
            assert r is q
            out('hist', cls.__name__, t.name, str(q), repr(q), repr(q.unit_value), q.units.name)
            _ = t(q)
            _ = q == cls(v, units[0]), q < 1, q >= cls(1, units[-1]), hash(q)
            foreign = Unit.Inch if cls is Energy else Unit.Joule
            out('   x', attempt(lambda: q >> foreign), attempt(lambda: q.get_in(None)))
        out('hist-end', cls.__name__, repr(q.raw_value), raw0 == q.raw_value or (raw0 != raw0), hash(q) == h0,
            reads0 == [repr(q >> t) for t in units])

# 4. Angular full-turn reduction around the threshold
two_pi = 2 * math.pi
for v in (two_pi, math.nextafter(two_pi, 7), math.nextafter(two_pi, 0), -two_pi, 4 * math.pi, 1e16, -1e16):
    for u in DIMS[Angular]:
        a = Angular(v, Unit.Radian)
        x = a >> u
        out('wrap', repr(v), u.name, repr(x), attempt(lambda: Angular(x, u).raw_value))
for deg in (359.9999999999999, 360, 360.00000000000006, 450, 1080, -1080, 1e12):
    out('wrap-deg', repr(deg), repr(Angular(deg, Unit.Degree).raw_value), repr(Angular.Degree(deg) >> Angular.Degree),
        repr(Unit.OClock(deg / 30).raw_value), repr(Unit.Mil(deg * 6400 / 360).raw_value),
        repr(Unit.MOA(deg * 60).raw_value), repr(Unit.Thousandth(deg * 6000 / 360).raw_value),
        repr(Unit.MRad(deg * 17.453292519943295).raw_value))
for big in (1e3, 1e8, 1e300):
    out('atan', repr(big), repr(Unit.InchesPer100Yd(big).raw_value), repr(Unit.CmPer100m(big).raw_value))

# 5. ordering / equality across display units
d1, d2 = Distance.Yard(100), Distance.Meter(91.44)
out('cmp', d1 == d2, d1 < d2, d1 > d2, d1 <= d2, d1 >= d2, repr(d1.raw_value), repr(d2.raw_value),
    hash(d1) == hash(d2), d1 == 3600, 3600 == d1, d1 > 3599.999, sorted([d1, Distance.Foot(1), d2, Distance.Mile(1)]))
t1, t2 = Temperature.Celsius(-40), Temperature.Fahrenheit(-40)
out('cmp', t1 == t2, hash(t1) == hash(t2), repr(t1.raw_value), repr(Temperature.Kelvin(0).raw_value),
    repr(Temperature.Rankin(0) >> Temperature.Kelvin))

text = '\n'.join(lines)
print(text)
print('LINES', len(lines))
print('SHA256', hashlib.sha256(text.encode()).hexdigest())
