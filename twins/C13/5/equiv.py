"""Equivalence digest for refactoring 2 (state readers of AbstractDimension: `units`, `raw_value`, `unit_value`,
`__str__`, the `_inch` / `_grain` / `_F` / `_rad` shortcuts).

Everything printed is repr() of numbers, names of units, str()/repr() of quantities or exception type + text,
so the text must be identical on the clean worktree and with the patch applied.
"""
import copy
import hashlib
import pickle

from py_ballisticcalc import (Unit, Distance, Angular, Velocity, Energy, Weight, Pressure, Temperature, PreferredUnits,
                              Sight, Weapon, Ammo, Atmo, Wind, DragModel, TableG7)
from py_ballisticcalc.unit import AbstractDimension, UnitPropsDict, _parse_value

lines = []


def out(*a):
    lines.append(' '.join(str(x) for x in a))


def attempt(fn):
    try:
        return repr(fn())
    except Exception as e:  # pylint: disable=broad-except
        return f'{type(e).__name__}: {e}'


DIMS = {
    Angular: [u for u in Unit if 0 <= u < 10],
    Distance: [u for u in Unit if 10 <= u < 20],
    Energy: [u for u in Unit if 30 <= u < 40],
    Pressure: [u for u in Unit if 40 <= u < 50],
    Temperature: [u for u in Unit if 50 <= u < 60],
    Velocity: [u for u in Unit if 60 <= u < 70],
    Weight: [u for u in Unit if 70 <= u < 80],
}
SHORTCUTS = {Distance: ('_inch', '_feet'), Weight: ('_grain',), Temperature: ('_F',), Angular: ('_rad',),
             Velocity: ('_fps',), Pressure: ('_inHg',), Energy: ()}
VALUES = [0, 1, -1, 2.5, 10 / 3, -459.67, 1e-7, 123456.789, 1e30, float('inf'), float('nan'), True]


def state(q):
    cls = type(q)
    return (q.units.name if isinstance(q.units, Unit) else repr(q.units), repr(q.raw_value), type(q.raw_value).__name__,
            attempt(lambda: q.unit_value), attempt(lambda: str(q)), attempt(lambda: repr(q)),
            *(attempt(lambda n=n: getattr(q, n)) for n in SHORTCUTS[cls]))


# 1. every unit x values: accessors, formatting
for cls, units in DIMS.items():
    for u in units:
        for v in VALUES:
            q = u(v)
            assert type(q) is cls
            out('new', cls.__name__, u.name, repr(v), *state(q))
            out('   ', q.units is u, q.raw_value is q.raw_value, q.unit_value == (q >> u) or q.raw_value != q.raw_value,
                f'{q}', f'{q!r}', '%s' % q)

# 2. histories: display unit walks over all units, accessors in between, magnitude checked at the end
for cls, units in DIMS.items():
    for v in (0.75, -12.5, 4000):
        q = cls(v, units[len(units) // 2])
        raw0, h0 = q.raw_value, hash(q)
        alias = q
        for u in units + units[::-1]:
            r = q.convert(u) if int(u) % 2 else (q << u)
            r2 = u(q)
            assert r is q and r2 is q and alias is q
            out('hist', cls.__name__, u.name, *state(q))
            _ = (q == raw0, q != raw0, q < cls(v, units[0]), q >= 0, hash(q), float(q), str(q), repr(q), q.unit_value)
            out('    ', attempt(lambda: q >> Unit.Newton if cls is not Weight else q >> Unit.Inch),
                attempt(lambda: q.get_in(1.5)), q.units.name)
        out('hist-end', cls.__name__, repr(q.raw_value), q.raw_value is raw0, hash(q) == h0)

# 3. display unit of another dimension / a non-unit (convert() does not validate): which error, where
for cls, units in DIMS.items():
    q = cls(1.25, units[0])
    foreign = Unit.Joule if cls is not Energy else Unit.Kelvin
    q << foreign
    out('foreign-display', cls.__name__, q.units.name, repr(q.raw_value), attempt(lambda: q.unit_value),
        attempt(lambda: str(q)), attempt(lambda: repr(q)), attempt(lambda: q >> units[-1]))
    for bad in ('yard', None, 3.5, 12, 99, (Unit.Inch,)):
        q.convert(bad)
        out('bad-display', cls.__name__, repr(bad), repr(q.units), repr(q.raw_value), attempt(lambda: q.unit_value),
            attempt(lambda: str(q)), attempt(lambda: repr(q)))
    q << units[-1]
    out('recovered', cls.__name__, *state(q))

# 4. objects without initialised slots, read-only-ness of the properties, class access
for cls in DIMS:
    bare = object.__new__(cls)
    out('bare', cls.__name__, attempt(lambda: bare.units), attempt(lambda: bare.raw_value), attempt(lambda: bare.unit_value),
        attempt(lambda: str(bare)), *(attempt(lambda n=n: getattr(bare, n)) for n in SHORTCUTS[cls]))
    q = cls(2, DIMS[cls][0])
    for name in ('units', 'raw_value', 'unit_value') + SHORTCUTS[cls]:
        out('ro', cls.__name__, name, type(getattr(cls, name)).__name__,
            attempt(lambda: setattr(q, name, 5)), attempt(lambda: delattr(q, name)))
    out('ro-state', cls.__name__, *state(q), sorted(vars(q)))
    half1, half2 = object.__new__(cls), object.__new__(cls)
    half1._value = 1.5
    half2._defined_units = DIMS[cls][-1]
    for tag, h in (('half-value', half1), ('half-units', half2)):
        out(tag, cls.__name__, attempt(lambda: h.units), attempt(lambda: h.raw_value), attempt(lambda: h.unit_value),
            attempt(lambda: str(h)), attempt(lambda: repr(h)), attempt(lambda: float(h)), attempt(lambda: hash(h)),
            attempt(lambda: h >> DIMS[cls][0]))
out('abstract', attempt(lambda: AbstractDimension(1, Unit.Inch)))

# 5. copies and pickles read the same
for cls, units in DIMS.items():
    q = cls(7.5, units[-1])
    for c in (copy.copy(q), copy.deepcopy(q), pickle.loads(pickle.dumps(q))):
        out('copy', cls.__name__, c is not q, c == q, hash(c) == hash(q), *state(c))

# 6. UnitPropsDict drives __str__ (accuracy, symbol) - all units, a value that rounds
for u in Unit:
    q = u(1234.56789123)
    out('fmt', u.name, UnitPropsDict[u], str(q), repr(q.unit_value))

# 7. library calls that take quantities: the caller's objects keep their magnitude
PreferredUnits.defaults()
args = dict(sh=Unit.Centimeter(9), tw=Unit.Inch(12), ze=Unit.MOA(3), mv=Unit.MPS(800), pt=Unit.Celsius(15),
            alt=Unit.Meter(110), pr=Unit.hPa(1000), te=Unit.Celsius(20), wv=Unit.KMH(10), wd=Unit.OClock(3),
            ud=Unit.Meter(500), w=Unit.Gram(10.9), d=Unit.Millimeter(7.82), l=Unit.Millimeter(32.5),
            click=Unit.Mil(0.1), sf=Unit.Meter(100))
before = {k: (repr(v.raw_value), hash(v)) for k, v in args.items()}
sight = Sight('SFP', args['sf'], args['click'], args['click'])
weapon = Weapon(args['sh'], args['tw'], args['ze'], sight)
ammo = Ammo(DragModel(0.223, TableG7, args['w'], args['d'], args['l']), args['mv'], args['pt'])
atmo = Atmo(args['alt'], args['pr'], args['te'], 50)
wind = Wind(args['wv'], args['wd'], args['ud'])
step = sight._adjust_sfp_reticle_steps(Unit.Meter(200), 5)
out('sfp', repr(step.vertical.raw_value), step.vertical.units.name, repr(step.vertical.unit_value), str(step.horizontal))
out('clicks', sight.get_adjustment(Unit.Meter(200), Unit.Mil(1.2), Unit.Mil(0.3), 5))
for k, v in args.items():
    out('arg', k, *state(v), before[k] == (repr(v.raw_value), hash(v)))
for text in ('10', '10.5yd', '-3 mil', '2e', '15 ft*lb', '7 foo'):
    out('parse', repr(text), attempt(lambda: state(_parse_value(text, 'distance'))))

text = '\n'.join(lines)
print(text)
print('LINES', len(lines))
print('SHA256', hashlib.sha256(text.encode()).hexdigest())
