"""Equivalence digest for refactoring 1 (Unit.__call__ dispatch by block of ten).

Prints a deterministic text; must be identical on the clean and on the patched worktree.
"""
import warnings
warnings.simplefilter("ignore")

from py_ballisticcalc.unit import (Unit, AbstractDimension, Distance, Velocity, Angular, Temperature,
                                   Pressure, Energy, Weight, PreferredUnits, _parse_value)
from py_ballisticcalc.exceptions import UnitTypeError, UnitConversionError

out = []


def rec(*a):
    out.append(" | ".join(str(x) for x in a))


def attempt(label, fn):
    try:
        r = fn()
        rec(label, "OK", type(r).__name__, repr(r))
    except BaseException as e:  # pylint: disable=broad-except
        rec(label, "EXC", type(e).__name__, str(e))


VALUES = (0, 1, -1, 2.5, -0.0, 1e-9, 123456.789, 10 / 3, 720.0, float("inf"))

# 1. every unit called with plain numbers: class chosen, magnitude, display unit
for u in Unit:
    for v in VALUES:
        q = u(v)
        rec("new", u.name, repr(v), type(q).__name__, repr(q.raw_value), q.units.name,
            repr(q.unit_value), type(q.raw_value).__name__)

# 2. every unit called with an existing quantity of every dimension: converts in place, same object,
#    magnitude untouched; reading afterwards works only inside the dimension
samples = [Unit.Yard(100), Unit.MOA(3.5), Unit.FPS(2750), Unit.Celsius(15), Unit.InHg(29.92),
           Unit.Joule(3000), Unit.Grain(168)]
for s in samples:
    raw_before = s.raw_value
    h_before = hash(s)
    for u in Unit:
        r = u(s)
        rec("call-on-quantity", type(s).__name__, u.name, r is s, repr(s.raw_value), s.units.name,
            s.raw_value is raw_before or s.raw_value == raw_before, hash(s) == h_before)
        attempt(f"  str {type(s).__name__} as {u.name}", lambda: str(s))
        attempt(f"  unit_value {type(s).__name__} as {u.name}", lambda: s.unit_value)
        attempt(f"  >> {type(s).__name__} {u.name}", lambda: s >> u)

# 3. odd arguments go through the same constructor path
for bad in ("7", None, [1], 1 + 2j, True):
    for u in (Unit.Inch, Unit.Meter, Unit.Radian, Unit.Degree, Unit.FootPound, Unit.Joule, Unit.KT,
              Unit.Kelvin, Unit.Pound, Unit.MmHg, Unit.PSI):
        attempt(f"odd {u.name}({bad!r})", lambda: u(bad).raw_value)

# 4. unbound call with something that is not a Unit member behaves as before
for fake in (5, 12, 25, 35, 79, 80, -1, -10, 1000, 7.5):
    attempt(f"Unit.__call__({fake!r}, 2)", lambda: (lambda q: (type(q).__name__, q.raw_value))(Unit.__call__(fake, 2)))

# 5. histories: chains of <<, >>, Unit(q), comparison, hash, formatting
d = Distance.Yard(10)
e = Unit.Inch(360)
rec("eq", d == e, e == d, d == 360, 360 == d, d != e, hash(d) == hash(e))
for u in (Unit.Meter, Unit.Foot, Unit.Kilometer, Unit.Line, Unit.Yard):
    u(d)
    d << u
    rec("hist", u.name, repr(d.raw_value), repr(d >> u), repr(d.get_in(Unit.Inch)), str(d), repr(d),
        d == e, d < e, d <= e, d > e, d >= e, hash(d) == hash(e), d < 361, d > 359.5)
attempt("cross", lambda: Unit.FPS(d))
attempt("cross-read", lambda: d.unit_value)
attempt("cross-str", lambda: str(d))
attempt("back", lambda: (Unit.Yard(d), d.unit_value, d.raw_value))

# 6. library entry points that construct through Unit.__call__
for text, pref in (("10yd", None), ("2.5", Unit.Meter), (3, "fps"), ("15 degC", None), ("1.5mil", Unit.MOA),
                   (7, Unit.Pound), ("100", "distance"), ("5 bogus", None), (1, "bogus")):
    attempt(f"_parse_value({text!r},{pref!r})", lambda: (lambda q: (type(q).__name__, q.raw_value, q.units.name))(
        _parse_value(text, pref)))

PreferredUnits.defaults()
print("\n".join(out))
