"""Equivalence driver for refactoring 1 (explicit << / >> / r<< operator methods of AbstractDimension).

Prints a deterministic digest; the text must be identical on the clean tree and with the patch.
Run:  cd /tmp/wt/C13 && PYTHONPATH=/tmp/wt/C13 /venv/bin/python /tmp/twins3/C13/1/equiv.py
"""
import copy
import pickle
import warnings

warnings.simplefilter('ignore')  # the "pure python mode" warning carries the checkout path (stderr only)

# pylint: disable=wrong-import-position
from py_ballisticcalc.unit import (Unit, AbstractDimension, Angular, Distance, Energy, Pressure,
                                   Temperature, Velocity, Weight, PreferredUnits)
from py_ballisticcalc.exceptions import UnitConversionError

DIMS = {
    Angular: [u for u in Unit if 0 <= u < 10],
    Distance: [u for u in Unit if 10 <= u < 20],
    Energy: [u for u in Unit if 30 <= u < 40],
    Pressure: [u for u in Unit if 40 <= u < 50],
    Temperature: [u for u in Unit if 50 <= u < 60],
    Velocity: [u for u in Unit if 60 <= u < 70],
    Weight: [u for u in Unit if 70 <= u < 80],
}
VALUES = [0, 1, -2.5, 3, 1e-9, 123456.789, 7200, float('inf')]

out = []


def emit(*parts):
    out.append(' | '.join(str(p) for p in parts))


def outcome(fn):
    try:
        return repr(fn())
    except Exception as exc:  # pylint: disable=broad-except
        return f'{type(exc).__name__}: {exc}'


def stable_hash(q):
    # hash(nan) depends on the object's address (Python >= 3.10): not reproducible between runs
    return hash(q) if q.raw_value == q.raw_value else 'nan-hash'


def state(q):
    return f'raw={q.raw_value!r} units={q.units!r} uv={outcome(lambda: q.unit_value)} hash={stable_hash(q)}'


# 1. every unit of every dimension: construct, then a fixed sequence of conversions / reads
for cls, units in DIMS.items():
    for u in units:
        for v in VALUES:
            q = u(v)
            assert type(q) is cls
            raw0 = q.raw_value
            h0 = hash(q)
            emit(cls.__name__, u.name, repr(v), state(q))
            for target in units:
                r1 = outcome(lambda: q >> target)
                r2 = outcome(lambda: q.get_in(target))
                same = (q << target) is q
                r3 = outcome(lambda: q.unit_value)
                same2 = (target << q) is q          # __rlshift__
                same3 = q.convert(target) is q
                same4 = target(q) is q               # Unit.__call__ on an existing quantity
                emit('   ', target.name, r1, r2, r3, same, same2, same3, same4,
                     outcome(lambda: str(q)), outcome(lambda: repr(q)), q.units.name)
                assert q.raw_value is raw0 or q.raw_value == raw0 or raw0 != raw0
                assert hash(q) == h0
            emit('   after', state(q))

# 2. augmented assignment forms and keyword spelling of the dunders
q = Distance.Yard(100)
q <<= Distance.Meter
emit('ilshift', state(q), str(q))
x = Distance.Yard(100)
x >>= Distance.Meter
emit('irshift', repr(x), type(x).__name__)
q2 = Distance.Foot(3)
emit('kw', q2.__lshift__(units=Unit.Inch) is q2, q2.__rlshift__(units=Unit.Yard) is q2,
     repr(q2.__rshift__(units=Unit.Meter)), repr(q2.get_in(units=Unit.Meter)), q2.convert(units=Unit.Line) is q2,
     state(q2))

# 3. cross-dimension: never a number, always a conversion error; the display unit IS switched by << (historic)
for cls, units in DIMS.items():
    q = units[0](1.5)
    for other_cls, other_units in DIMS.items():
        if other_cls is cls:
            continue
        foreign = other_units[-1]
        emit('foreign', cls.__name__, foreign.name,
             outcome(lambda: q >> foreign), outcome(lambda: q.get_in(foreign)))
        probe = units[0](1.5)
        emit('foreign<<', outcome(lambda: (probe << foreign).units), repr(probe.raw_value),
             outcome(lambda: str(probe)), outcome(lambda: repr(probe)), outcome(lambda: probe.unit_value))
        probe2 = units[0](1.5)
        emit('foreign()', outcome(lambda: foreign(probe2).units), outcome(lambda: (foreign << probe2).units),
             repr(probe2.raw_value))
    for bad in (None, 'yard', 12, 12.0):
        emit('notunit', cls.__name__, repr(bad), outcome(lambda: q >> bad), outcome(lambda: q.get_in(bad)),
             outcome(lambda: (copy.copy(q) << bad).units))

# 4. comparisons / hashing follow the base magnitude whatever the display unit is
a = Distance.Yard(10)
b = Distance.Foot(30)
c = Distance.Meter(9.144)
for _ in range(3):
    for t in (Distance.Inch, Distance.Kilometer, Distance.Line):
        a << t
        t << b
        emit('cmp', a == b, a != b, a < b, a <= b, a > b, a >= b, a == 360, 360 == a, a < 361, 359 < a,
             hash(a) == hash(b), hash(a), a == c, a < c, a > c, float(a), float(b))
emit('set', len({Distance.Yard(10), Distance.Foot(30), Distance.Inch(360)}))
emit('sorted', [str(s) for s in sorted([Distance.Meter(1), Distance.Yard(1), Distance.Foot(1), Distance.Inch(1)])])

# 5. copies and pickles keep value and unit; operators work on the copies
q = Velocity.FPS(2750)
q << Velocity.KMH
for clone in (copy.copy(q), copy.deepcopy(q), pickle.loads(pickle.dumps(q))):
    emit('clone', state(clone), repr(clone >> Velocity.MPS), str(clone << Velocity.KT), clone == q)

# 6. preferred units as converters (library style), with a changed preference
PreferredUnits.distance = Unit.Meter
d = Distance.Yard(109.361)
emit('pref', PreferredUnits.distance(d) is d, state(d), str(d))
PreferredUnits.defaults()
emit('pref', PreferredUnits.distance(d) is d, state(d), str(d))

# 7. the operator protocol is provided by the base class for every dimension
for name in ('__lshift__', '__rlshift__', '__rshift__', 'convert', 'get_in'):
    emit('proto', name, all(getattr(cls, name) is getattr(AbstractDimension, name) for cls in DIMS))

print('\n'.join(out))
