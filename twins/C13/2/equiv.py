"""Equivalence digest for refactoring 2 (comparison dunders built from operator.* by a factory).

Prints a deterministic text; must be identical on the clean and on the patched worktree.
"""
import warnings
warnings.simplefilter("ignore")

import operator
from fractions import Fraction
from decimal import Decimal

from py_ballisticcalc import Calculator, Shot, Ammo, Weapon, DragModel, TableG7, Atmo, Wind
from py_ballisticcalc.unit import (Unit, AbstractDimension, Distance, Velocity, Angular, Temperature,
                                   Pressure, Energy, Weight, PreferredUnits)

out = []


def rec(*a):
    out.append(" | ".join(str(x) for x in a))


def attempt(label, fn):
    try:
        r = fn()
        rec(label, "OK", type(r).__name__, repr(r))
    except BaseException as e:  # pylint: disable=broad-except
        rec(label, "EXC", type(e).__name__, str(e))


OPS = (("==", operator.eq), ("!=", operator.ne), ("<", operator.lt), ("<=", operator.le),
       (">", operator.gt), (">=", operator.ge))

quantities = [
    Distance.Yard(10), Distance.Inch(360), Distance.Foot(30), Distance.Meter(9.144), Distance.Meter(9.1440001),
    Distance.Inch(0), Distance.Inch(-0.0), Distance.Inch(float("nan")), Distance.Inch(float("inf")),
    Distance.Inch(360),  # int magnitude
    Velocity.FPS(2750), Velocity.MPS(838.2), Velocity.MPS(360), Angular.Degree(0.5), Angular.MOA(30),
    Angular.Radian(360), Temperature.Celsius(15), Temperature.Fahrenheit(59), Temperature.Kelvin(288.15),
    Pressure.InHg(29.92), Pressure.MmHg(760), Energy.Joule(3000), Energy.FootPound(360), Weight.Grain(168),
    Weight.Gram(10.886), Weight.Grain(360),
]
others = [0, 360, 360.0, -1, 1e300, float("nan"), float("inf"), True, Fraction(360), Decimal(360),
          "360", None, 3 + 0j, (360,), Unit.Inch, Unit.Yard]

# 1. quantity (op) quantity - all pairs, both display-unit states
for rnd in range(2):
    for i, a in enumerate(quantities):
        for j, b in enumerate(quantities):
            row = []
            for name, op in OPS:
                try:
                    row.append(repr(op(a, b)))
                except BaseException as e:  # pylint: disable=broad-except
                    row.append(f"{type(e).__name__}:{e}")
            rec("qq", rnd, i, j, *row)
    # change display units of everything in place, magnitudes and comparisons must not move
    for q in quantities:
        cls = type(q)
        unit_list = [u for u in Unit if u in vars(cls).values()]
        q << unit_list[(unit_list.index(q.units) + 1) % len(unit_list)]

# 2. quantity (op) plain object and reflected
for i, a in enumerate(quantities):
    for o in others:
        row = []
        for name, op in OPS:
            for x, y in ((a, o), (o, a)):
                try:
                    row.append(repr(op(x, y)))
                except BaseException as e:  # pylint: disable=broad-except
                    row.append(f"{type(e).__name__}:{e}")
        rec("qo", i, repr(o), *row)

# 3. direct dunder calls and what the type advertises
for name in ("__eq__", "__ne__", "__lt__", "__le__", "__gt__", "__ge__"):
    f = getattr(AbstractDimension, name)
    rec("dunder", name, f.__name__, f.__qualname__, type(f).__name__,
        repr(f(Distance.Yard(10), 360)), repr(f(Distance.Yard(10), Distance.Foot(30))),
        repr(f(Distance.Yard(10), "x")) if name in ("__eq__", "__ne__") else "-",
        name in vars(AbstractDimension), name in vars(Distance))
rec("hashable", AbstractDimension.__hash__ is not None, Distance.__hash__ is AbstractDimension.__hash__)

# 4. hashing / containers / sorting, before and after display-unit changes
a, b, c = Distance.Yard(10), Distance.Inch(360.0), Distance.Meter(5)
h = (hash(a), hash(b), hash(c))
st = {a, b, c}
dk = {a: "a"}
rec("hash", h[0] == h[1], h[0] == hash(360.0), len(st), dk.get(b), dk.get(360), a in [b], c in [a, b])
for u in (Unit.Meter, Unit.Line, Unit.Kilometer, Unit.FPS):
    a << u
    u(b)
    rec("hash-after", u.name, (hash(a), hash(b), hash(c)) == h, len({a, b, c}), dk.get(b), a in st, a == b,
        repr(a.raw_value), repr(b.raw_value))
a << Unit.Yard
b << Unit.Inch
vals = [Distance.Meter(3), Distance.Yard(3), Distance.Inch(120), Distance.Foot(9.5), Distance.Centimeter(1), 100, 5.5]
rec("sorted", [repr(float(x)) for x in sorted(vals)], repr(float(min(vals))), repr(float(max(vals))))
rec("sorted-rev", [repr(float(x)) for x in sorted(vals, reverse=True)])
rec("chained", Distance.Inch(1) < Distance.Foot(1) < Distance.Yard(1) <= 36 < Distance.Meter(1))
rec("bool-ctx", bool(Distance.Inch(0) == 0), bool(Distance.Inch(0) < 0), bool(Velocity.MPS(0) >= Velocity.FPS(0)))

# 5. broken magnitude: float() fails inside the comparison exactly as before
bad = Unit.Inch("abc")
for name, op in OPS:
    attempt(f"bad {name}", lambda: op(bad, 1))
attempt("bad hash", lambda: hash(bad) == hash("abc"))

# 6. the solver compares quantities all over; a trajectory must come out bit-identical
PreferredUnits.defaults()
dm = DragModel(0.223, TableG7, Weight.Grain(168), Distance.Inch(0.308), Distance.Inch(1.282))
ammo = Ammo(dm, Velocity.FPS(2750), Temperature.Celsius(15))
weapon = Weapon(Distance.Inch(2), Distance.Inch(11.24))
calc = Calculator()
for look, winds in ((0, []), (5, [Wind(Velocity.MPH(10), Angular.OClock(3), Distance.Yard(500))])):
    shot = Shot(weapon=weapon, ammo=ammo, atmo=Atmo.icao(), look_angle=Angular.Degree(look), winds=winds)
    zero = Distance.Yard(100)
    el = calc.set_weapon_zero(shot, zero)
    rec("zero", look, repr(el.raw_value), el.units.name, repr(zero.raw_value), zero.units.name)
    res = calc.fire(shot, Distance.Yard(1000), Distance.Yard(100), extra_data=(look == 5))
    for p in res.trajectory:
        rec("traj", look, repr(p.time), repr(p.distance.raw_value), repr(p.height.raw_value),
            repr(p.velocity.raw_value), repr(p.windage.raw_value), repr(p.energy.raw_value), p.flag)

print("\n".join(out))
