"""Equivalence digest for refactoring 3 (conditions.py: Atmo / Wind / Shot; interface.py: Calculator;
trajectory_calc: global step size).

Builds atmospheres, winds and shots from numbers and from quantities in several display units, fires
trajectories with / without an explicit step, zeroes a weapon, sets the global step size, and records
- besides the results - the state (magnitude, display unit, hash) of every quantity handed to the
library before and after the call (C13: the magnitude never changes, only the display unit may).
Prints a deterministic digest; must be identical before / after the patch.
"""
import warnings

warnings.simplefilter('ignore')

from py_ballisticcalc import (Ammo, Atmo, BCPoint, Calculator, DragModel, DragModelMultiBC, PreferredUnits, Shot, TableG1, TableG7,  # noqa: E402
                              Unit, Vacuum, Weapon, Wind, get_global_max_calc_step_size, reset_globals,
                              set_global_max_calc_step_size)
from py_ballisticcalc.unit import AbstractDimension  # noqa: E402

out = []


def outcome(fn, *args, **kwargs):
    try:
        return fn(*args, **kwargs)
    except Exception as exc:  # pylint: disable=broad-except
        return f'EXC {type(exc).__module__}.{type(exc).__name__}: {exc}'


def emit(*parts):
    out.append(' | '.join(str(outcome(str, p)) for p in parts))


def q(x):
    """state of a quantity: class, raw magnitude, display unit, hash"""
    if isinstance(x, AbstractDimension):
        h = hash(x) if isinstance(x.raw_value, (int, float)) and x.raw_value == x.raw_value else 'not deterministic'
        return f'{type(x).__name__}(raw={x.raw_value!r}, units={x.units!r}, hash={h})'
    if isinstance(x, tuple):
        return type(x).__name__ + '(' + ', '.join(q(e) for e in x) + ')'
    return str(outcome(repr, x))


def atmo_state(a):
    if not isinstance(a, Atmo):
        return q(a)
    return (f'{type(a).__name__}[alt={q(a.altitude)} p={q(a.pressure)} t={q(a.temperature)} '
            f'pt={q(a.powder_temp)} same_pt={a.powder_temp is a.temperature} hum={a.humidity!r} '
            f'dr={a.density_ratio!r} mach={q(a.mach)} a0={a._a0!r} t0={a._t0!r} p0={a._p0!r} _mach={a._mach!r} '
            f'dm={a.density_metric!r} di={a.density_imperial!r} str={outcome(str, a)}]')


def caught(fn, *args, **kwargs):
    """result plus the (category, text) of the warnings raised on the way"""
    with warnings.catch_warnings(record=True) as rec:
        warnings.simplefilter('always')
        r = outcome(fn, *args, **kwargs)
    return r, [(w.category.__name__, str(w.message)) for w in rec]


warnings.simplefilter('ignore')

for prefs in [dict(), dict(distance=Unit.Meter, pressure=Unit.hPa, temperature=Unit.Celsius, velocity=Unit.MPS,
                           angular=Unit.Mil, sight_height=Unit.Centimeter)]:
    PreferredUnits.defaults()
    PreferredUnits.set(**prefs)
    emit('PREFS', prefs)

    # ---- Atmo / Vacuum / icao ----
    alts = [None, 0, 1500, -200, Unit.Meter(350), Unit.Foot(0), Unit.Kilometer(12), Unit.FPS(10), 'x', float('nan')]
    press = [None, 29.92, 0, Unit.hPa(1000), Unit.MmHg(700), Unit.Meter(1), -5]
    temps = [None, 59, 0, Unit.Celsius(-40), Unit.Kelvin(300), Unit.Fahrenheit(-500), Unit.Celsius(-300), Unit.Yard(1)]
    hums = [0.0, 50, 0.5, 1, 100, 101, -1]
    powders = [None, 70, Unit.Celsius(15), Unit.Rankin(500)]
    n = 0
    for alt in alts:
        for p in press:
            for t in temps:
                n += 1
                hum = hums[n % len(hums)]
                pw = powders[n % len(powders)]
                before = (q(alt), q(p), q(t), q(pw))
                a, warns = caught(Atmo, alt, p, t, hum, pw)
                emit('Atmo', before, '->', (q(alt), q(p), q(t), q(pw)), repr(hum), atmo_state(a), warns)
                if isinstance(a, Atmo) and n % 5 == 0:
                    for h in [-2000, a._a0 - 30, a._a0 - 29.999, a._a0, a._a0 + 29.999, a._a0 + 30, 5000, 36089,
                              36090, 120000, float('nan'), float('inf')]:
                        emit('dens', repr(h), *caught(a.get_density_factor_and_mach_for_altitude, h))
                    emit('hum-set', outcome(setattr, a, 'humidity', 80), atmo_state(a))
    for alt in alts:
        for t in [None, Unit.Celsius(5), 40]:
            before = (q(alt), q(t))
            a, warns = caught(Atmo.icao, alt, t) if alt is not None else caught(Atmo.icao, temperature=t)
            emit('icao', before, '->', (q(alt), q(t)), atmo_state(a), warns)
            v, warns = caught(Vacuum, alt, t)
            emit('Vacuum', (q(alt), q(t)), atmo_state(v), warns)
            if isinstance(v, Atmo):
                emit('vac-dens', *caught(v.get_density_factor_and_mach_for_altitude, 9000))
    emit('std', q(Atmo.standard_pressure(Unit.Meter(1000))), q(Atmo.standard_temperature(Unit.Meter(1000))),
         outcome(Atmo.standard_pressure, 1000), outcome(Atmo.standard_temperature, Unit.MPS(1)))

    # ---- Wind ----
    winds = []
    for vel in [None, 0, 10, Unit.MPS(5), Unit.KMH(20), Unit.Meter(2), 'v']:
        for dirn in [None, 90, Unit.Degree(45), Unit.OClock(3), Unit.Radian(7), Unit.Degree(-30)]:
            for until in [None, 0, 500, Unit.Meter(300), Unit.Yard(300), Unit.Mil(3)]:
                for mdf in [None, 0, 5000, 1e8]:
                    before = (q(vel), q(dirn), q(until))
                    w = outcome(lambda: Wind(vel, dirn, until, max_distance_feet=mdf))
                    if not isinstance(w, Wind):
                        emit('Wind', before, repr(mdf), w)
                        continue
                    emit('Wind', before, '->', (q(vel), q(dirn), q(until)), repr(mdf), q(w.velocity),
                         q(w.direction_from), q(w.until_distance), repr(w.MAX_DISTANCE_FEET),
                         q(outcome(lambda: w.vector)), q(w.velocity), q(w.direction_from))
                    if mdf is None and isinstance(until, (type(None), AbstractDimension)) and vel != 'v':
                        winds.append(w)
    emit('Wind()', outcome(repr, Wind()), Wind() == Wind())

    # ---- Shot ----
    dm = DragModel(0.223, TableG7, 168, 0.308, 1.282)
    weapon = Weapon(Unit.Inch(2), Unit.Inch(11.24), Unit.Mil(1.3))
    ammo = Ammo(dm, Unit.FPS(2750), Unit.Celsius(15))
    for la in [None, 0, 5, Unit.Degree(-12), Unit.Mil(100), Unit.Meter(1)]:
        for ra in [None, 0.3, Unit.MOA(20), Unit.Radian(-0.01)]:
            for ca in [None, 0, 90, Unit.Degree(33), Unit.Degree(-180), Unit.OClock(1)]:
                before = (q(la), q(ra), q(ca))
                s = outcome(Shot, weapon, ammo, la, ra, ca)
                if not isinstance(s, Shot):
                    emit('Shot', before, s)
                    continue
                emit('Shot', before, '->', (q(la), q(ra), q(ca)), q(s.look_angle), q(s.relative_angle), q(s.cant_angle),
                     q(outcome(lambda: s.barrel_elevation)), q(outcome(lambda: s.barrel_azimuth)),
                     q(s.look_angle), q(s.relative_angle), q(s.cant_angle), q(weapon.zero_elevation))
    s = Shot(weapon, ammo, winds=winds[::7])
    emit('winds', [q(w.until_distance) for w in s.winds], [q(w.until_distance) for w in s._winds])
    s.winds = [Wind(1, 2, Unit.Meter(900)), Wind(3, 4, Unit.Yard(100)), Wind(5, 6, Unit.Meter(91.44)), Wind(7, 8)]
    emit('winds2', [(q(w.velocity), q(w.until_distance)) for w in s.winds])
    s.winds = None
    emit('winds3', [(q(w.velocity), q(w.until_distance)) for w in s.winds], atmo_state(s.atmo))
    s._winds = [Wind(), object()]
    emit('winds4', outcome(lambda: s.winds))

    # ---- Calculator ----
    reset_globals()
    for rng, step in [(Unit.Meter(500), Unit.Meter(100)), (Unit.Yard(400), 0), (300, None), (Unit.Meter(250), 50),
                      (Unit.Foot(900), Unit.Inch(0)), (Unit.Meter(200), 0.0), (Unit.Meter(200), False),
                      (Unit.Mil(3), 0), (None, 0), ('500', 0), (Unit.Meter(100), Unit.FPS(10)), (0, 0)]:
        weapon = Weapon(Unit.Centimeter(9), Unit.Inch(12))
        ammo = Ammo(DragModel(0.5, TableG1, 150, 0.308, 1.1), Unit.MPS(850), Unit.Celsius(15), 0.012, True)
        atmo = Atmo(Unit.Meter(200), Unit.hPa(990), Unit.Celsius(3), 40, Unit.Celsius(-10))
        calc = Calculator()
        zd = Unit.Meter(100)
        shot = Shot(weapon, ammo, Unit.Degree(2), atmo=atmo,
                    winds=[Wind(Unit.MPS(3), Unit.Degree(90), Unit.Meter(150)), Wind(Unit.MPS(6), Unit.Degree(270))])
        ze = outcome(calc.set_weapon_zero, shot, zd)
        emit('zero', q(ze), ze is weapon.zero_elevation, q(zd), q(outcome(calc.barrel_elevation_for_target, shot, 200)))
        shot.relative_angle = Unit.Mil(0.5)
        shot.cant_angle = Unit.Degree(10)
        before = (q(rng), q(step))
        hit = outcome(calc.fire, shot, rng, step)
        emit('fire', before, '->', (q(rng), q(step)))
        if isinstance(hit, str):
            emit('fire-exc', hit)
            continue
        for row in hit:
            emit('row', repr(row.time), q(row.distance), q(row.velocity), repr(row.mach), q(row.height),
                 q(row.target_drop), q(row.drop_adj), q(row.windage), q(row.windage_adj), q(row.look_distance),
                 q(row.angle), repr(row.density_factor), repr(row.drag), q(row.energy), q(row.ogw), row.flag)
        hit = outcome(calc.fire, shot, rng, step, True, 0.05)
        emit('fire-extra', len(hit.trajectory) if not isinstance(hit, str) else hit,
             '' if isinstance(hit, str) else q(hit[-1].distance), '' if isinstance(hit, str) else q(hit[-1].height))

    # ---- DragModel / DragModelMultiBC: quantities compared with plain numbers ----
    for w in [0, 168, Unit.Grain(168), Unit.Gram(10.9), Unit.Grain(0), -1, Unit.Kilogram(-0.01), float('nan'),
              5e-324, Unit.Gram(5e-324), Unit.Meter(1), None, 'w']:
        for d in [0, 0.308, Unit.Millimeter(7.82), Unit.Inch(0), Unit.Centimeter(-1), float('nan'), Unit.Grain(3)]:
            ln = Unit.Inch(1.2)
            before = (q(w), q(d), q(ln))
            m = outcome(DragModel, 0.31, TableG7, w, d, ln)
            if isinstance(m, str):
                emit('DragModel', before, m)
            else:
                emit('DragModel', before, '->', (q(w), q(d), q(ln)), q(m.weight), q(m.diameter), q(m.length),
                     repr(getattr(m, 'sectional_density', 'unset')), repr(getattr(m, 'form_factor', 'unset')),
                     outcome(repr, m))
            pts = [BCPoint(0.275, V=Unit.MPS(800)), BCPoint(0.26, Mach=1.2), BCPoint(0.255, V=1500)]
            m = outcome(DragModelMultiBC, pts, TableG7, w, d, ln)
            if isinstance(m, str):
                emit('MultiBC', before, m)
            else:
                emit('MultiBC', (q(w), q(d)), repr(m.BC), q(m.weight), q(m.diameter),
                     repr(getattr(m, 'sectional_density', 'unset')), repr(getattr(m, 'form_factor', 'unset')),
                     [repr(p.CD) for p in m.drag_table[::9]], [q(p.V) for p in pts], [repr(p.Mach) for p in pts])

    # ---- global step size ----
    for v in [Unit.Foot(1), Unit.Meter(0.2), 0.75, Unit.Inch(3), 0, -1, Unit.Foot(0), Unit.Meter(-1), None, 'x',
              Unit.FPS(3), float('nan'), float('inf')]:
        before = q(v)
        r = outcome(set_global_max_calc_step_size, v)
        g = outcome(get_global_max_calc_step_size)
        emit('gstep', before, '->', q(v), r, q(g), repr(outcome(lambda: Calculator()._calc._config.max_calc_step_size_feet)))
        reset_globals()
    reset_globals()
    emit('gstep-reset', q(get_global_max_calc_step_size()))

PreferredUnits.defaults()
print('\n'.join(out))
