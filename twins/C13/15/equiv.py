"""Equivalence digest for refactoring 3 (display-unit slot renamed, engine fast constructors merged,
_validate_unit_type restructured).

Prints a deterministic text; must be identical on the clean worktree and with the patch.
"""
import copy
import math
import pickle
import warnings

warnings.simplefilter("ignore")

from py_ballisticcalc import *  # noqa: E402,F401,F403
from py_ballisticcalc import unit as unit_module  # noqa: E402
from py_ballisticcalc.unit import AbstractDimension, _parse_value, _parse_unit  # noqa: E402

OUT = []


def emit(*args):
    OUT.append(" ".join(str(a) for a in args))


def attempt(label, fn):
    try:
        r = fn()
        emit(label, "->", type(r).__name__, repr(r))
        return r
    except BaseException as e:  # pylint: disable=broad-except
        emit(label, "!!", type(e).__name__, str(e))
        return None


def snapshot(q):
    raw = q.raw_value
    # hash(nan) is identity based in CPython >= 3.10, so it is not reproducible between runs
    h = "nan-hash" if isinstance(raw, float) and raw != raw else hash(q)
    return (type(q).__name__, repr(raw), int(q.units), h, repr(float(q)))


ALL_UNITS = list(Unit)
VALUES = [0, 1, -3, 1.25, -0.0, 1e-9, 12345.678, 7.0, float("inf")]

# 1. construction by dot syntax for every unit and a set of values
for u in ALL_UNITS:
    for v in VALUES:
        q = attempt(f"new {u!r}({v!r})", lambda: u(v))
        if q is not None:
            emit("   snap", snapshot(q), "unit_value", repr(q.unit_value), "str", str(q))
            emit("   repr", repr(q))

# 2. every unit applied to an existing quantity of every dimension (in-place conversion path)
for u in ALL_UNITS:
    for src in (Unit.Yard, Unit.MOA, Unit.Joule, Unit.Bar, Unit.Kelvin, Unit.KMH, Unit.Gram):
        q = src(3.5)
        before = snapshot(q)
        r = attempt(f"{u!r}({src!r}(3.5))", lambda: u(q))
        emit("   same-object", r is q, "before", before, "after", snapshot(q))
        attempt("   str-after", lambda: str(q))
        attempt("   unit_value-after", lambda: q.unit_value)
        attempt("   back >> src", lambda: q >> src)

# 3. reads in every unit (cross-dimension reads must raise the conversion error)
for src in (Unit.Yard, Unit.MOA, Unit.Joule, Unit.Bar, Unit.Kelvin, Unit.KMH, Unit.Gram):
    q = src(2.75)
    for u in ALL_UNITS:
        attempt(f"{src!r}(2.75) >> {u!r}", lambda: q >> u)
        attempt(f"{src!r}(2.75).get_in {u!r}", lambda: q.get_in(u))
    emit("   after-all-reads", snapshot(q))

# 4. non-Unit operands
q = Distance.Yard(10)
for bad in ("inch", 12, 12.0, 999, None, 3.5, [Unit.Inch], True):
    attempt(f"Yard(10) >> {bad!r}", lambda: q >> bad)
    attempt(f"Distance({bad!r}) ctor", lambda: Distance(1, bad))
emit("after-bad", snapshot(q))
attempt("AbstractDimension direct", lambda: AbstractDimension(1, Unit.Inch))
attempt("Unit(99)", lambda: Unit(99))
attempt("unbound call 25", lambda: Unit.__call__(25, 1.0))
attempt("unbound call -1", lambda: Unit.__call__(-1, 1.0))
attempt("unbound call 85", lambda: Unit.__call__(85, 1.0))
attempt("unbound call -0.5", lambda: Unit.__call__(-0.5, 1.0))
attempt("unbound call nan", lambda: Unit.__call__(float("nan"), 1.0))
attempt("unbound call 15.5", lambda: snapshot(Unit.__call__(15.5, 2.0)))
attempt("unbound call 9.99", lambda: snapshot(Unit.__call__(9.99, 2.0)))
attempt("unbound call 15", lambda: snapshot(Unit.__call__(15, 2.0)))
attempt("unbound call 62.0", lambda: (type(Unit.__call__(62.0, 2.0)).__name__))

# 5. operation histories: the magnitude and hash never change
q = Distance.Yard(100)
h0, raw0 = hash(q), q.raw_value
history = [
    lambda: q << Distance.Meter, lambda: q >> Distance.Foot, lambda: str(q), lambda: repr(q),
    lambda: q.convert(Distance.Kilometer), lambda: q.get_in(Distance.Line), lambda: hash(q),
    lambda: q == Distance.Foot(300), lambda: q < Distance.Meter(92), lambda: q > 3599.9,
    lambda: q <= 3600, lambda: q >= Distance.Mile(1), lambda: Unit.Centimeter(q),
    lambda: Distance.Inch << q, lambda: q != Distance.Inch(3600), lambda: float(q),
    lambda: PreferredUnits.distance(q), lambda: copy.copy(q), lambda: copy.deepcopy(q),
    lambda: pickle.loads(pickle.dumps(q)), lambda: q.unit_value, lambda: q.units,
]
for i, op in enumerate(history * 2):
    r = attempt(f"hist[{i}]", op)
    emit("   state", snapshot(q), hash(q) == h0, q.raw_value == raw0)

# 6. ordering / equality / hashing across display units and with numbers
a, b, c = Distance.Foot(3), Distance.Yard(1), Distance.Inch(36)
d = Distance.Meter(1)
for x in (a, b, c, d):
    for y in (a, b, c, d, 36, 36.0, 39.37, float("nan"), "36", None):
        for name, fn in (("==", lambda: x == y), ("!=", lambda: x != y), ("<", lambda: x < y),
                         (">", lambda: x > y), ("<=", lambda: x <= y), (">=", lambda: x >= y)):
            attempt(f"{snapshot(x)[1:3]} {name} {y if not isinstance(y, AbstractDimension) else snapshot(y)[1:3]}", fn)
for y in (a, b, c, d):
    attempt("num == q", lambda: 36 == y)
    attempt("num < q", lambda: 36.5 < y)
    attempt("num >= q", lambda: 36 >= y)
emit("hashes", hash(a) == hash(b) == hash(c), hash(a) == hash(36), len({a, b, c, d}), sorted(map(float, {a, b, c, d})))
emit("dict", {a: 1, b: 2, c: 3}[Distance.Centimeter(91.44) if False else Distance.Inch(36)])
emit("sorted", [snapshot(x) for x in sorted([d, Distance.Mile(0.001), a, Distance.Line(1), Distance.Kilometer(0.002)])])
emit("cross-dim eq", Distance.Inch(5) == Weight.Grain(5), Velocity.MPS(2) < Temperature.Fahrenheit(3),
     hash(Energy.FootPound(4.5)) == hash(Pressure.MmHg(4.5)))

# 7. angular wrap and round trips in each dimension
for v in (0, 359.9, 360, 361, 725.5, -10, 6400):
    for u in (Unit.Degree, Unit.Mil, Unit.OClock, Unit.MOA, Unit.InchesPer100Yd):
        q = u(v)
        emit("ang", u.key, v, snapshot(q), repr(q >> u), repr(q >> Unit.Radian), str(q))

# 8. string parsing and preferred units (callers of Unit.__call__)
for text, pref in (("10", Unit.Meter), ("10yd", None), (" 2.5 m/s", None), ("-3.5", "ft"), ("1e3", Unit.Inch),
                   ("15 psi", Unit.Bar), (5, "degC"), (7.5, Unit.Grain), ("abc", Unit.Inch), ("5 zz", Unit.Inch),
                   (3, "nothing"), (None, Unit.Inch), ("12", "distance"), (".5kg", None)):
    r = attempt(f"parse {text!r} {pref!r}", lambda: _parse_value(text, pref))
    if r is not None:
        emit("   snap", snapshot(r))
for s in ("yd", "MOA", "sight_height", "zz", " Meter ", "meter"):
    attempt(f"_parse_unit {s!r}", lambda: _parse_unit(s))

# 9. quantities passed to library calls keep magnitude; outputs are quantities built by the engine
PreferredUnits.defaults()
length = Distance.Inch(1.282)
weight = Weight.Grain(168)
diameter = Distance.Millimeter(7.82)
mv = Velocity.MPS(838)
temp = Temperature.Celsius(15)
sight = Distance.Centimeter(9)
twist = Distance.Inch(12)
zero_d = Distance.Meter(100)
rng = Distance.Meter(600)
step = Distance.Yard(150)
inputs = [length, weight, diameter, mv, temp, sight, twist, zero_d, rng, step]
before = [snapshot(x) for x in inputs]
dm = DragModel(0.223, TableG7, weight, diameter, length)
ammo = Ammo(dm, mv, temp)
gun = Weapon(sight_height=sight, twist=twist)
atmo = Atmo(Distance.Meter(150), Pressure.hPa(1000), Temperature.Celsius(12), 55)
wind_v, wind_a = Velocity.KMH(10), Angular.OClock(3)
shot = Shot(weapon=gun, ammo=ammo, atmo=atmo, winds=[Wind(wind_v, wind_a)])
calc = Calculator()
ze = calc.set_weapon_zero(shot, zero_d)
emit("zero", snapshot(ze), str(ze))
res = calc.fire(shot, trajectory_range=rng, trajectory_step=step)
after = [snapshot(x) for x in inputs]
emit("inputs-before", before)
emit("inputs-after ", after)
emit("raw-unchanged", [b[1] == a_[1] and b[3] == a_[3] for b, a_ in zip(before, after)])
emit("wind", snapshot(wind_v), snapshot(wind_a))
for row in res:
    emit("row", repr(row.time), repr(row.mach), [snapshot(f) for f in row if isinstance(f, AbstractDimension)])
    emit("   fmt", row.formatted())
    emit("   in_def", row.in_def_units())

PreferredUnits.set(distance="m", velocity=Unit.MPS, drop="cm", adjustment="moa", bogus=1, weight=5)
emit("pref", repr(PreferredUnits).replace("\n", ";"))
for row in calc.fire(shot, trajectory_range=300, trajectory_step=100):
    emit("   fmt2", row.formatted())
PreferredUnits.defaults()

emit("helpers", sorted(n for n in dir(unit_module) if n in ("Unit", "Distance", "AbstractDimension")))
emit("isfinite-check", all(math.isfinite(float(x)) for x in inputs))

# 10. (refactoring 3) quantities built by the engine's fast constructors behave like ordinary ones
rows = list(calc.fire(shot, trajectory_range=Distance.Yard(500), trajectory_step=Distance.Yard(250), extra_data=True))
emit("nrows", len(rows))
for row in rows[:3] + rows[-3:]:
    for name in ("distance", "velocity", "height", "target_drop", "drop_adj", "windage", "windage_adj",
                 "look_distance", "angle", "energy", "ogw"):
        f = getattr(row, name)
        s0 = snapshot(f)
        emit("field", name, s0, "dict-empty", f.__dict__ == {}, "str", str(f), "repr", repr(f))
        for u in ALL_UNITS:
            attempt(f"   {name} >> {u!r}", lambda: f >> u)
        attempt("   convert-foreign", lambda: snapshot(f << Unit.Kelvin))
        attempt("   str-foreign", lambda: str(f))
        attempt("   unit_value-foreign", lambda: f.unit_value)
        attempt("   convert-back", lambda: snapshot(f << Unit(s0[2])))
        emit("   unchanged", snapshot(f) == s0, f == f.raw_value, hash(f) == hash(f.raw_value) if f.raw_value == f.raw_value else None)
        emit("   copies", snapshot(copy.copy(f)), snapshot(copy.deepcopy(f)), snapshot(pickle.loads(pickle.dumps(f))))
        emit("   as-arg", snapshot(Unit.Radian(f)) if isinstance(f, Angular) else snapshot(PreferredUnits.distance(f)) if isinstance(f, Distance) else None)

# the validation helper itself, reached through every dimension
for cls, good in ((Distance, Unit.Inch), (Pressure, Unit.MmHg), (Weight, Unit.Grain), (Temperature, Unit.Fahrenheit),
                  (Angular, Unit.Radian), (Velocity, Unit.MPS), (Energy, Unit.FootPound)):
    q = cls(1.5, good)
    for u in (Unit.Inch, Unit.MmHg, Unit.Grain, Unit.Fahrenheit, Unit.Radian, Unit.MPS, Unit.FootPound,
              "x", 3.25, None, (Unit.Inch,), 10, 40, 70, 50, 0, 60, 30):
        attempt(f"{cls.__name__}._validate_unit_type {u!r}", lambda: q._validate_unit_type(2.5, u))
        attempt(f"{cls.__name__}.to_raw {u!r}", lambda: q.to_raw(2.5, u))
        attempt(f"{cls.__name__}.from_raw {u!r}", lambda: q.from_raw(2.5, u))
        attempt(f"{cls.__name__} ctor {u!r}", lambda: snapshot(cls(2.5, u)))
    emit("   state", snapshot(q), q.__dict__ == {})


class Odd:
    def __format__(self, spec):
        raise RuntimeError("no format")


attempt("unformattable value", lambda: Distance.Inch(1)._validate_unit_type(Odd(), "x"))
attempt("unformattable value, foreign unit", lambda: Distance.Inch(1)._validate_unit_type(Odd(), Unit.MOA))

# an attribute that holds a Unit in the instance dictionary makes that unit "supported" (returns 0)
q = Distance.Inch(7)
q.note = Unit.MOA
attempt("dict-held unit: validate", lambda: q._validate_unit_type(1, Unit.MOA))
attempt("dict-held unit: >>", lambda: q >> Unit.MOA)
attempt("dict-held unit: other", lambda: q >> Unit.Mil)
emit("   state", snapshot(q), sorted(q.__dict__))

print("\n".join(OUT))
