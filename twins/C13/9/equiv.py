"""Equivalence driver for refactoring 3 (TrajectoryData.formatted / in_def_units driven by a column table,
DangerSpace.__str__ assembled from parts).

Prints a deterministic digest; the text must be identical on the clean tree and with the patch.
Run:  cd /tmp/wt/C13 && PYTHONPATH=/tmp/wt/C13 /venv/bin/python /tmp/twins3/C13/3/equiv.py
"""
import re
import warnings

warnings.simplefilter('ignore')

# pylint: disable=wrong-import-position
from py_ballisticcalc import (Calculator, DragModel, TableG7, Ammo, Weapon, Shot, Wind, Unit, Distance, Angular,
                              Velocity, Temperature, Energy, Weight, PreferredUnits, HitResult, TrajectoryData,
                              TrajFlag, DangerSpace)

out = []


def emit(*parts):
    out.append(' | '.join(str(p) for p in parts))


def outcome(fn):
    try:
        return fn()
    except Exception as exc:  # pylint: disable=broad-except
        return re.sub(r'0x[0-9a-fA-F]+', '0x?', f'{type(exc).__name__}: {exc}')


def state(q):
    if not hasattr(q, 'raw_value'):
        return repr(q)
    # hash(nan) depends on the object's address (Python >= 3.10): not reproducible between runs
    stable_hash = hash(q) if q.raw_value == q.raw_value else 'nan-hash'
    return f'{type(q).__name__}(raw={q.raw_value!r}, units={q.units!r}, hash={stable_hash})'


def row_state(r):
    return [state(v) for v in r]


def make_shot(look=0.0):
    dm = DragModel(0.223, TableG7, 168, 0.308, Distance.Inch(1.282))
    ammo = Ammo(dm, Velocity.FPS(2750), Temperature.Celsius(15))
    return Shot(weapon=Weapon(sight_height=Distance.Inch(2), twist=Distance.Inch(11.24)), ammo=ammo,
                winds=[Wind(Velocity.MPH(5), Angular.OClock(3))], look_angle=Angular.Degree(look))


PREFERENCES = {
    'defaults': {},
    'metric': dict(distance=Unit.Meter, velocity=Unit.MPS, drop=Unit.Centimeter, adjustment=Unit.MRad,
                   angular=Unit.Radian, energy=Unit.Joule, ogw=Unit.Kilogram, target_height=Unit.Centimeter),
    'odd': dict(distance=Unit.NauticalMile, velocity=Unit.KT, drop=Unit.Line, adjustment=Unit.InchesPer100Yd,
                angular=Unit.OClock, energy=Unit.FootPound, ogw=Unit.Newton),
    'by name': dict(distance='km', velocity='kmh', drop='mm', adjustment='moa', angular='mil', ogw='oz'),
    # a preference of another dimension: reading must raise a conversion error, never give a number
    'foreign drop': dict(drop=Unit.Degree),
    'foreign distance': dict(distance=Unit.FPS),
    'foreign ogw': dict(ogw=Unit.Joule),
    'foreign adjustment+energy': dict(adjustment=Unit.Yard, energy=Unit.Grain),
}


def show_rows(tag, rows):
    for pref_name, prefs in PREFERENCES.items():
        PreferredUnits.defaults()
        PreferredUnits.set(**prefs)
        for i, r in enumerate(rows):
            before = row_state(r)
            emit(tag, pref_name, i, 'units', outcome(lambda: tuple(repr(v) for v in r.in_def_units())))
            emit(tag, pref_name, i, 'fmt', outcome(r.formatted))
            # neither call may touch the stored quantities (not even their display units)
            emit(tag, pref_name, i, 'untouched', row_state(r) == before)
    PreferredUnits.defaults()


# ---------------------------------------------------------------- rows of real trajectories
calc = Calculator()
for look in (0.0, 7.5):
    shot = make_shot(look)
    calc.set_weapon_zero(shot, Distance.Meter(100))
    result = calc.fire(shot, trajectory_range=Distance.Yard(800), trajectory_step=Distance.Yard(100),
                       extra_data=True)
    flagged = [r for r in result.trajectory if r.flag not in (TrajFlag.NONE, TrajFlag.RANGE)]
    picked = [result.trajectory[0], result.trajectory[1], result.trajectory[len(result.trajectory) // 2],
              result.trajectory[-1]] + flagged
    emit('fired', look, len(result.trajectory), [r.flag for r in flagged])
    show_rows(f'real{look}', picked)
    emit('row0', look, row_state(result.trajectory[0]))

    # danger space text: in-place display-unit switch of the referenced quantities, magnitudes untouched
    for pref_name in ('defaults', 'metric', 'odd', 'foreign drop', 'foreign distance'):
        PreferredUnits.defaults()
        for case, (at, h, la) in {
            'q': (Distance.Yard(400), Distance.Meter(1.5), None),
            'la0': (Distance.Meter(300), Distance.Inch(20), Angular.Degree(0)),
            'la-': (Distance.Meter(300), Distance.Inch(20), Angular.Mil(-3)),
            'f': (350, 15, 2),
            'lanan': (Distance.Yard(100), Distance.Foot(1), Angular.Radian(float('nan'))),
        }.items():
            ds = outcome(lambda: result.danger_space(at, h, la))
            PreferredUnits.defaults()
            PreferredUnits.set(**PREFERENCES[pref_name])
            quantities = (ds.at_range.distance, ds.target_height, ds.look_angle, ds.begin.distance, ds.end.distance)
            before = [state(q) for q in quantities]
            emit('ds', look, pref_name, case, outcome(lambda: str(ds)))
            emit('ds', look, pref_name, case, outcome(lambda: f'{ds}'), outcome(lambda: '%s' % (ds,)))
            emit('ds', look, pref_name, case, 'before', before)
            emit('ds', look, pref_name, case, 'after ', [state(q) for q in quantities])
            emit('ds', look, pref_name, case, 'raw kept',
                 [b.split(', units')[0] for b in before] == [state(q).split(', units')[0] for q in quantities])
            PreferredUnits.defaults()


# ---------------------------------------------------------------- synthetic rows with unusual content
def row(**kw):
    base = dict(
        time=0.5, distance=Distance.Foot(300), velocity=Velocity.FPS(2000), mach=1.8,
        height=Distance.Foot(-1), target_drop=Distance.Foot(-1.25), drop_adj=Angular.Radian(-0.004),
        windage=Distance.Foot(0.1), windage_adj=Angular.Radian(0.0003), look_distance=Distance.Foot(300.5),
        angle=Angular.Radian(-0.01), density_factor=-0.02, drag=0.3, energy=Energy.FootPound(1000),
        ogw=Weight.Pound(100), flag=TrajFlag.RANGE)
    base.update(kw)
    return TrajectoryData(**base)


nan, inf = float('nan'), float('inf')
odd_rows = [
    row(),
    row(time=0, mach=2, density_factor=0, drag=1, flag=0),                      # ints in the plain columns
    row(time=nan, mach=inf, density_factor=-inf, drag=nan, flag=TrajFlag.ALL),
    row(distance=Distance.Meter(nan), velocity=Velocity.MPS(inf), height=Distance.Inch(-inf)),
    row(distance=Distance.Kilometer(1), velocity=Velocity.KMH(3000), energy=Energy.Joule(4000),
        ogw=Weight.Kilogram(300), drop_adj=Angular.MOA(-12), windage_adj=Angular.Thousandth(2),
        angle=Angular.Degree(400), flag=TrajFlag.ZERO_UP | TrajFlag.MACH),
    row(flag=TrajFlag.ZERO | TrajFlag.APEX), row(flag=32), row(flag=TrajFlag.RANGE | 64), row(flag=-1),
    row(time='soon'), row(drag=None), row(flag='x'), row(flag=None),            # malformed plain columns
    row(distance=300.0), row(ogw=None), row(height='low'),                      # malformed quantity columns
    row(velocity=Distance.Foot(5)), row(drop_adj=Distance.Inch(1), energy=Weight.Grain(5)),  # wrong dimension
]
show_rows('odd', odd_rows)

# a hand-made DangerSpace whose parts share one row object
r = row()
for la in (Angular.Degree(0), Angular.Degree(1e-300), Angular.MOA(5), 0, 0.0, 2, None, Distance.Inch(0), Distance.Inch(2)):
    for th in (Distance.Inch(18), 18, None):
        ds = DangerSpace(r, th, r, row(distance=Distance.Meter(500)), la)
        emit('handmade', repr(la) if not hasattr(la, 'raw_value') else state(la), state(th), outcome(lambda: str(ds)),
             state(r.distance), state(ds.end.distance), state(la), state(th))

print('\n'.join(out))
