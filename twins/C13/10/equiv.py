"""Equivalence digest for refactoring 1 (parsing family of py_ballisticcalc.unit).

Exercises _parse_value / _parse_unit / _find_unit_by_alias / PreferredUnits.set through the
names the unit module exports, then drives the parsed quantities through sequences of
conversions, comparisons, hashing and cross-dimension reads (the C13 property).
Prints a deterministic digest; must be identical before / after the patch.
"""
import logging
import warnings

warnings.simplefilter('ignore')

from py_ballisticcalc import unit as U  # noqa: E402
from py_ballisticcalc.unit import (Unit, PreferredUnits, Distance, Energy, Velocity, Angular, Weight,
                                   Temperature, Pressure, UnitAliases, _parse_unit, _parse_value)
from py_ballisticcalc.logger import logger

out = []


def emit(*parts):
    out.append(' | '.join(str(p) for p in parts))


class Capture(logging.Handler):
    def emit(self, record):  # noqa: D102
        out.append('LOG ' + record.levelname + ' ' + record.getMessage())


logger.handlers[:] = [Capture()]
logger.setLevel(logging.INFO)


def outcome(fn, *args, **kwargs):
    try:
        r = fn(*args, **kwargs)
    except Exception as exc:  # pylint: disable=broad-except
        return f'EXC {type(exc).__module__}.{type(exc).__name__}: {exc}'
    return r


def describe(q):
    if isinstance(q, U.AbstractDimension):
        return (f'{type(q).__name__} raw={q.raw_value!r} units={q.units!r} '
                f'unit_value={outcome(lambda: q.unit_value)!r} str={outcome(str, q)} '
                f'hash={hash(q) if q.raw_value == q.raw_value else "id-based (nan)"}')
    return repr(q)


# ---- _parse_unit ---------------------------------------------------------------------------
for text in ['ft*lb', 'newton', 'Newton', '  YD ', 'yard', 'm', 'M', 'mps', 'distance', 'Distance', 'velocity',
             'adjustment', 'ogw', 'hpa', 'hPa', 'inHg', '″Hg', 'K', 'degc', 'liniа', 'line', 'mi.', 'nmi', 'kt',
             '', ' ', 'parsec', 'in/100yd', 'cm/100m', 'oclock', 'h', 'J', 'j', 'Radian', 'radian', 'rad',
             'MOA', 'mil', 'thousandth', 'lbf/in2', 'kilogramme', 'N', 'n', 'set', 'defaults']:
    emit('parse_unit', repr(text), repr(outcome(_parse_unit, text)))
for bad in [None, 10, 1.5, Unit.Meter, b'yd', ['yd']]:
    emit('parse_unit-bad', repr(bad), outcome(_parse_unit, bad))

# ---- _find_unit_by_alias (module-private, called with own tables too) ----------------------
find = U._find_unit_by_alias
small = {('A', 'b'): Unit.Meter, ('b', 'C'): Unit.Yard, (): Unit.Inch, ('',): Unit.Foot}
for text in ['a', 'A', 'b', 'c', '', 'zz']:
    emit('find_alias', repr(text), repr(find(text, small)), repr(find(text, UnitAliases)), repr(find(text, {})))

# ---- _parse_value --------------------------------------------------------------------------
preferreds = [Unit.FootPound, 'footpound', 'ft*lb', 'energy', Unit.Meter, 'yd', 'distance', 'nonsense', '', None, 5,
              Unit.Celsius, 'adjustment']
inputs = ['10', '10.2', '.2', '0.', '-3.5', '-.5', '-0.', '10ft*lb', '10footpound', '10 ft*lb', ' 1 0 . 5 yd ',
          '5m', '5 M', '-12.25mil', '3mps', '1e3', '1e3m', '10parsec', 'abc', '', ' ', '-', '.', '10\n', '10yd\n',
          '10\nyd', '1.2.3', '--1', '+1', '٣', '٣m', '10J', '2inHg', '20°C', '20C', '300K', '7.5mi.', 10, 10.5, -2,
          0, True, False, float('inf'), float('nan'), 10 ** 30, None, b'10', [10], Distance.Yard(3), 1 + 2j]
for pref in preferreds:
    for inp in inputs:
        r = outcome(_parse_value, inp, pref)
        emit('parse_value', repr(inp), repr(pref), describe(r))

# ---- C13 property over parsed quantities: sequences of operations keep the magnitude ----------
samples = [_parse_value('100yd', None), _parse_value('91.44', 'm'), _parse_value(3600, Unit.Inch),
           _parse_value('2700fps', 'mps'), _parse_value('15', Unit.Celsius), _parse_value('59F', 'temperature'),
           _parse_value('29.92inHg', None), _parse_value('1.5mil', 'adjustment'), _parse_value('168gr', 'weight'),
           _parse_value('2000', 'energy'), _parse_value('-0.', Unit.Degree), _parse_value('725deg', None)]
all_units = list(Unit)
for q in samples:
    raw0, h0 = q.raw_value, hash(q)
    for u in all_units:
        emit('seq', type(q).__name__, repr(u), repr(outcome(lambda: q >> u)), repr(outcome(q.get_in, u)))
        conv = outcome(lambda: q << u)
        emit('seq<<', conv is q, repr(q.units), repr(q.raw_value), repr(q.raw_value == raw0 or raw0 != raw0),
             hash(q) == h0, describe(outcome(u, q)), repr(outcome(str, q)), repr(outcome(repr, q)))
    for other in samples:
        emit('cmp', repr(outcome(lambda: q == other)), repr(outcome(lambda: q < other)),
             repr(outcome(lambda: q >= other)), repr(outcome(lambda: q == other.raw_value)),
             repr(outcome(lambda: q > 1)), repr(hash(q) == hash(other)))

# ---- PreferredUnits.set (and the config-style call with strings) ----------------------------------
PreferredUnits.defaults()
emit('pu0', repr(PreferredUnits))
PreferredUnits.set(distance='m', velocity=Unit.MPS, drop=' CM ', nothing='m', adjustment='parsec', weight=5,
                   energy='J', ogw=True, temperature=None, pressure='hpa', angular='distance', twist=1.5,
                   length=b'm', sight_height='sight_height', target_height=Unit.Meter, diameter='')
emit('pu1', repr(PreferredUnits))
emit('pu-val', describe(_parse_value('10', 'distance')), describe(_parse_value('10', 'angular')),
     describe(outcome(_parse_value, '10', 'ogw')), describe(outcome(_parse_value, '10', 'diameter')))
PreferredUnits.set()
PreferredUnits.set(**{'distance': Unit.Yard})
emit('pu2', repr(PreferredUnits))
PreferredUnits.defaults()
emit('pu3', repr(PreferredUnits))

print('\n'.join(out))
