"""Equivalence driver for refactoring 2 (HitResult: range lookup and danger-space search restructured).

Prints a deterministic digest; the text must be identical on the clean tree and with the patch.
Run:  cd /tmp/wt/C13 && PYTHONPATH=/tmp/wt/C13 /venv/bin/python /tmp/twins3/C13/2/equiv.py
"""
import re
import warnings

warnings.simplefilter('ignore')

# pylint: disable=wrong-import-position
from py_ballisticcalc import (Calculator, DragModel, TableG7, Ammo, Weapon, Shot, Wind, Unit, Distance, Angular,
                              Velocity, Temperature, Energy, Weight, PreferredUnits, HitResult, TrajectoryData,
                              TrajFlag)

out = []


def emit(*parts):
    out.append(' | '.join(str(p) for p in parts))


def outcome(fn):
    try:
        return fn()
    except Exception as exc:  # pylint: disable=broad-except
        # object addresses (the no-extra-data message embeds object.__repr__) differ between runs
        return re.sub(r'0x[0-9a-fA-F]+', '0x?', f'{type(exc).__name__}: {exc}')


def state(q):
    # hash(nan) depends on the object's address (Python >= 3.10): not reproducible between runs
    stable_hash = hash(q) if q.raw_value == q.raw_value else 'nan-hash'
    return f'{type(q).__name__}(raw={q.raw_value!r}, units={q.units!r}, hash={stable_hash})'


def make_shot(look=0.0):
    dm = DragModel(0.223, TableG7, 168, 0.308, Distance.Inch(1.282))
    ammo = Ammo(dm, Velocity.FPS(2750), Temperature.Celsius(15))
    return Shot(weapon=Weapon(sight_height=Distance.Inch(2)), ammo=ammo, winds=[Wind(2, 90)],
                look_angle=Angular.Degree(look))


def where(result, row):
    """position of a returned row in the trajectory, by identity"""
    return next((i for i, r in enumerate(result.trajectory) if r is row), None)


def probe_lookup(tag, result, probes):
    for name, d in probes:
        before = state(d) if hasattr(d, 'raw_value') else repr(d)
        idx = outcome(lambda: result.index_at_distance(d))
        row = outcome(lambda: result.get_at_distance(d))
        row_pos = where(result, row) if isinstance(row, TrajectoryData) else row
        after = state(d) if hasattr(d, 'raw_value') else repr(d)
        emit(tag, name, idx, row_pos, before, after)


def probe_danger(tag, result, cases):
    for name, at_range, height, look in cases:
        args = [a for a in (at_range, height, look) if hasattr(a, 'raw_value')]
        before = [state(a) for a in args]
        ds = outcome(lambda: result.danger_space(at_range, height, look))
        after = [state(a) for a in args]
        if isinstance(ds, str):
            emit(tag, name, ds, before, after)
            continue
        emit(tag, name, where(result, ds.at_range), where(result, ds.begin), where(result, ds.end),
             state(ds.target_height), state(ds.look_angle),
             ds.target_height is height, ds.look_angle is look or ds.look_angle is result.shot.look_angle,
             before, after)
        emit(tag, name, 'str', outcome(lambda: str(ds)))
        emit(tag, name, 'after str', state(ds.at_range.distance), state(ds.begin.distance), state(ds.end.distance),
             state(ds.target_height), state(ds.look_angle))


# ---------------------------------------------------------------- real trajectories
calc = Calculator()
for look in (0.0, 4.0):
    shot = make_shot(look)
    calc.set_weapon_zero(shot, Distance.Yard(100))
    full = calc.fire(shot, trajectory_range=Distance.Yard(600), trajectory_step=Distance.Yard(5), extra_data=True)
    brief = calc.fire(shot, trajectory_range=Distance.Yard(600), trajectory_step=Distance.Yard(100))
    emit('fired', look, len(full.trajectory), len(brief.trajectory), full.extra, brief.extra)

    probes = [
        ('yd0', Distance.Yard(0)), ('yd-5', Distance.Yard(-5)), ('yd100', Distance.Yard(100)),
        ('m100', Distance.Meter(100)), ('ft900', Distance.Foot(900)), ('km0.5', Distance.Kilometer(0.5)),
        ('yd600', Distance.Yard(600)), ('yd601', Distance.Yard(601)), ('mile1', Distance.Mile(1)),
        ('float3600', 3600.0), ('int7200', 7200), ('zero', 0), ('neg', -1.5), ('huge', 1e9),
        ('nan', float('nan')), ('inf', float('inf')), ('-inf', float('-inf')),
        ('str', '100yd'), ('none', None),
        ('velocity', Velocity.FPS(3600)),   # another dimension: compared by raw magnitude, as before
        ('rowdist', full.trajectory[len(full.trajectory) // 2].distance),
    ]
    probe_lookup(f'full{look}', full, probes)
    probe_lookup(f'brief{look}', brief, probes)

    cases = [
        ('q/q/q', Distance.Yard(300), Distance.Meter(1.5), Angular.Degree(look)),
        ('q/q/None', Distance.Meter(400), Distance.Inch(10), None),
        ('f/f/f', 250, 20, 0.5),
        ('f/q/None', 500.0, Distance.Centimeter(45), None),
        ('small', Distance.Yard(200), Distance.Inch(0.01), Angular.Mil(1)),
        ('zero height', Distance.Yard(200), Distance.Inch(0), None),
        ('negative height', Distance.Yard(200), Distance.Inch(-4), None),
        ('huge height', Distance.Yard(200), Distance.Mile(1), None),
        ('nan height', Distance.Yard(200), Distance.Inch(float('nan')), None),
        ('at 0', Distance.Yard(0), Distance.Inch(10), None),
        ('at end', Distance.Yard(600), Distance.Inch(10), None),
        ('beyond', Distance.Yard(700), Distance.Inch(10), None),
        ('beyond float', 5000, 10, None),
        ('bad height', Distance.Yard(200), 'tall', None),
        ('bad range', 'far', Distance.Inch(10), None),
        ('foreign look', Distance.Yard(200), Distance.Inch(10), Distance.Inch(3)),
    ]
    PreferredUnits.defaults()
    probe_danger(f'full{look}', full, cases)
    probe_danger(f'brief{look}', brief, cases[:2])        # no extra data -> AttributeError text w/o address
    PreferredUnits.set(distance=Unit.Meter, target_height=Unit.Centimeter, drop=Unit.Centimeter, angular=Unit.Mil)
    probe_danger(f'full{look}/metric', full, cases[:4] + cases[11:13])
    PreferredUnits.defaults()

# the no-extra error carries an address; print it with the address removed
msg = outcome(lambda: brief.danger_space(Distance.Yard(100), Distance.Inch(10)))
emit('noextra', msg.split(' object at ')[0], msg.split('>')[-1])
emit('zeros', outcome(lambda: [where(full, r) for r in full.zeros()]), outcome(lambda: brief.zeros()).split(' object at ')[0])


# ---------------------------------------------------------------- synthetic trajectories
def row(x_ft, drop_ft, t=0.0):
    return TrajectoryData(
        time=t, distance=Distance.Foot(x_ft), velocity=Velocity.FPS(2000), mach=1.8,
        height=Distance.Foot(drop_ft), target_drop=Distance.Foot(drop_ft), drop_adj=Angular.Radian(0),
        windage=Distance.Foot(0), windage_adj=Angular.Radian(0), look_distance=Distance.Foot(x_ft),
        angle=Angular.Radian(0), density_factor=0.0, drag=0.3, energy=Energy.FootPound(1000),
        ogw=Weight.Pound(100), flag=TrajFlag.RANGE)


shot = make_shot(0.0)
nan = float('nan')
synthetic = {
    'empty': [],
    'single': [row(0, 0)],
    'two equal': [row(10, 1), row(10, 1)],
    'rising': [row(i * 10, (i - 5) ** 2 / 10) for i in range(12)],
    'plateau': [row(i * 10, 0.0) for i in range(6)],
    'bending back': [row(x, d) for x, d in ((0, 0), (30, 2), (60, 3), (50, 1), (40, -2), (70, -6), (20, -9))],
    'nan drops': [row(0, 0), row(10, nan), row(20, 0.5), row(30, nan), row(40, -3)],
    'nan distances': [row(nan, 0), row(10, 1), row(nan, 2), row(30, 3)],
    'int raw': [row(0, 0), row(1, 1), row(2, 4), row(3, 9)],
}
for name, rows in synthetic.items():
    res = HitResult(shot, rows, extra=True)
    probe_lookup(f'syn {name}', res, [
        ('ft0', Distance.Foot(0)), ('ft10', Distance.Foot(10)), ('in121', Distance.Inch(121)),
        ('ft25', Distance.Foot(25)), ('ft45', Distance.Foot(45)), ('ft70', Distance.Foot(70)),
        ('ft1000', Distance.Foot(1000)), ('f-1', -1), ('f360', 360.0), ('nan', nan),
    ])
    probe_danger(f'syn {name}', res, [
        ('a', Distance.Foot(0), Distance.Foot(1), None),
        ('b', Distance.Foot(20), Distance.Foot(2), Angular.Degree(1)),
        ('c', Distance.Foot(45), Distance.Inch(30), None),
        ('d', Distance.Foot(60), Distance.Foot(0), None),
        ('e', 720, 6, 0),
        ('f', Distance.Foot(1000), Distance.Foot(1), None),
    ])
    # a tuple as the row container behaves like the list
    res_t = HitResult(shot, tuple(rows), extra=True)
    emit(f'syn {name} tuple', outcome(lambda: res_t.index_at_distance(Distance.Foot(25))),
         outcome(lambda: where(res_t, res_t.get_at_distance(Distance.Foot(25)))),
         outcome(lambda: [where(res_t, r) for r in res_t.danger_space(Distance.Foot(20), Distance.Foot(2))[2:4]]))

print('\n'.join(out))
