"""Digest of Sight behaviour (construction, SFP reticle steps, click counts, side effects).

Prints the same text on the clean worktree and on the refactored one.
"""
import math

from py_ballisticcalc import (Sight, Unit, PreferredUnits, Calculator, Shot, Weapon, Ammo, DragModel,
                              TableG7, Distance, Angular)
from py_ballisticcalc.munition import SightClicks, SightReticleStep

OUT = []


def h(x):
    """exact, deterministic spelling of a float (or anything else)"""
    if isinstance(x, float):
        return x.hex() if math.isfinite(x) else repr(x)
    return repr(x)


def emit(*parts):
    OUT.append(' | '.join(str(p) for p in parts))


def attempt(label, fn):
    try:
        res = fn()
    except BaseException as exc:  # digest the exact exception type and text
        emit(label, 'EXC', type(exc).__name__, str(exc))
        return None
    emit(label, 'OK', res)
    return res


def dim(d):
    if d is None:
        return 'None'
    return f'{type(d).__name__}({h(d.raw_value)}, {d.units!r})'


def sight_digest(s):
    return (f'{type(s).__name__}[{s.focal_plane!r}, sf={dim(s.scale_factor)}, '
            f'h={dim(s.h_click_size)}, v={dim(s.v_click_size)}]')


def clicks_digest(c):
    return f'{type(c).__name__}(vertical={h(c.vertical)}, horizontal={h(c.horizontal)}) len={len(c)} ' \
           f'idx=({h(c[0])}, {h(c[1])})'


# ------------------------------------------------------------------ construction
def construction():
    nan = float('nan')
    cases = [
        dict(),
        dict(focal_plane='FFP'),
        dict(focal_plane='FFP', h_click_size=0.25, v_click_size=0.25),
        dict(focal_plane='FFP', h_click_size=1, v_click_size=2),
        dict(focal_plane='FFP', h_click_size=True, v_click_size=2),
        dict(focal_plane='FFP', h_click_size=Unit.MOA(0.25), v_click_size=Unit.Mil(0.1)),
        dict(focal_plane='FFP', scale_factor=0, h_click_size=0.1, v_click_size=0.1),
        dict(focal_plane='FFP', scale_factor=Unit.Meter(0), h_click_size=0.1, v_click_size=0.1),
        dict(focal_plane='LWIR', h_click_size=Unit.CmPer100m(1), v_click_size=Unit.InchesPer100Yd(0.5)),
        dict(focal_plane='SFP', h_click_size=0.1, v_click_size=0.1),
        dict(focal_plane='SFP', scale_factor=0, h_click_size=0.1, v_click_size=0.1),
        dict(focal_plane='SFP', scale_factor=0.0, h_click_size=0.1, v_click_size=0.1),
        dict(focal_plane='SFP', scale_factor=Unit.Meter(0), h_click_size=0.1, v_click_size=0.1),
        dict(focal_plane='SFP', scale_factor=100, h_click_size=0.1, v_click_size=0.1),
        dict(focal_plane='SFP', scale_factor=Unit.Meter(100), h_click_size=0.1, v_click_size=Unit.MOA(0.25)),
        dict(focal_plane='SFP', scale_factor=-100, h_click_size=0.1, v_click_size=0.1),
        dict(focal_plane='sfp', scale_factor=100, h_click_size=0.1, v_click_size=0.1),
        dict(focal_plane='XYZ', scale_factor=100, h_click_size=0.1, v_click_size=0.1),
        dict(focal_plane=None, scale_factor=100, h_click_size=0.1, v_click_size=0.1),
        dict(focal_plane=['SFP'], scale_factor=100, h_click_size=0.1, v_click_size=0.1),
        dict(focal_plane='XYZ'),                       # which error wins: plane or click type
        dict(focal_plane='SFP'),                       # which error wins: scale or click type
        dict(focal_plane='SFP', scale_factor=100),
        dict(focal_plane='FFP', h_click_size=0.1),
        dict(focal_plane='FFP', v_click_size=0.1),
        dict(focal_plane='FFP', h_click_size='0.1', v_click_size=0.1),
        dict(focal_plane='FFP', h_click_size=0.1, v_click_size='0.1'),
        dict(focal_plane='FFP', h_click_size=Unit.Meter(1), v_click_size=0.1),
        dict(focal_plane='FFP', h_click_size=0, v_click_size=0.1),
        dict(focal_plane='FFP', h_click_size=0.1, v_click_size=0),
        dict(focal_plane='FFP', h_click_size=0.0, v_click_size=0.0),
        dict(focal_plane='FFP', h_click_size=-0.1, v_click_size=0.1),
        dict(focal_plane='FFP', h_click_size=0.1, v_click_size=-0.1),
        dict(focal_plane='FFP', h_click_size=Unit.MOA(-1), v_click_size=Unit.MOA(-1)),
        dict(focal_plane='FFP', h_click_size=nan, v_click_size=0.1),
        dict(focal_plane='FFP', h_click_size=0.1, v_click_size=nan),
        dict(focal_plane='FFP', h_click_size=nan, v_click_size=-0.1),
        dict(focal_plane='FFP', h_click_size=-0.1, v_click_size=nan),
        dict(focal_plane='FFP', h_click_size=float('inf'), v_click_size=0.1),
        dict(focal_plane='FFP', h_click_size=5e-324, v_click_size=0.1),
        dict(focal_plane='FFP', h_click_size=7000, v_click_size=0.1),  # > 2*pi rad: wrapped by Angular
        dict(focal_plane='LWIR', scale_factor=Unit.Foot(3), h_click_size=Unit.Degree(0.01), v_click_size=3),
    ]
    for pref in (None, dict(distance=Unit.Meter, adjustment=Unit.MOA)):
        PreferredUnits.defaults()
        if pref:
            PreferredUnits.set(**pref)
        for i, kw in enumerate(cases):
            shown = {k: (dim(v) if isinstance(v, (Distance, Angular)) else repr(v)) for k, v in kw.items()}
            s = attempt(f'ctor[{"pref" if pref else "def"}][{i}] {shown}', lambda: sight_digest(Sight(**kw)))
            # the constructor re-labels unit objects handed to it: show them afterwards
            emit('   args after', {k: dim(v) for k, v in kw.items() if isinstance(v, (Distance, Angular))})
    PreferredUnits.defaults()
    # positional construction, shared click object, equality / repr of the dataclass
    click = Unit.Mil(0.25)
    a = Sight('SFP', Unit.Meter(100), click, click)
    b = Sight('SFP', Unit.Meter(100), Unit.Mil(0.25), Unit.Mil(0.25))
    emit('shared click identity', a.h_click_size is click, a.v_click_size is click, a == b, repr(a) == repr(b))
    emit('repr', repr(a))


# ------------------------------------------------------------------ adjustments
def adjustments():
    PreferredUnits.defaults()
    planes = {
        'FFP': lambda: Sight('FFP', None, Unit.Mil(0.25), Unit.MOA(0.25)),
        'FFPsf': lambda: Sight('FFP', Unit.Meter(50), 0.1, 0.2),
        'SFP': lambda: Sight('SFP', Unit.Meter(100), Unit.Mil(0.25), Unit.MOA(0.25)),
        'SFPyd': lambda: Sight('SFP', 100, Unit.CmPer100m(1), Unit.InchesPer100Yd(1)),
        'SFPneg': lambda: Sight('SFP', Unit.Meter(-100), Unit.Mil(0.1), Unit.Mil(0.2)),
        'LWIR': lambda: Sight('LWIR', None, Unit.Mil(0.36), Unit.Mil(0.18)),
        'LWIRmoa': lambda: Sight('LWIR', Unit.Yard(100), Unit.MOA(1), Unit.Thousandth(1)),
    }
    targets = [lambda: Unit.Meter(100), lambda: Unit.Meter(200), lambda: Unit.Yard(437.5), lambda: Unit.Foot(50),
               lambda: 100, lambda: 250.5, lambda: Unit.Meter(0), lambda: 0, lambda: Unit.Meter(-100),
               lambda: Unit.Kilometer(1.2), lambda: float('inf'), lambda: float('nan')]
    corrections = [
        (lambda: Unit.Mil(1), lambda: Unit.Mil(1)),
        (lambda: Unit.Mil(-1), lambda: Unit.MOA(3.5)),
        (lambda: Unit.MOA(7.25), lambda: Unit.Mil(-0.3)),
        (lambda: Unit.Mil(0), lambda: Unit.Mil(-0.0)),
        (lambda: Unit.Degree(-2), lambda: Unit.CmPer100m(12)),
        (lambda: Unit.Radian(0.001), lambda: Unit.Radian(-0.002)),
        (lambda: Unit.Radian(float('nan')), lambda: Unit.Radian(float('inf'))),
    ]
    mags = [1, 10, 4.5, 0.5, 0, -2, 1e6, 1e-6, float('inf'), float('nan'), True]
    for name, mk in planes.items():
        for ti, mk_td in enumerate(targets):
            for ci, (mk_d, mk_w) in enumerate(corrections):
                for mag in mags:
                    s, td, d, w = mk(), mk_td(), mk_d(), mk_w()
                    attempt(f'adj {name} t{ti} c{ci} m{mag!r}',
                            lambda: clicks_digest(s.get_adjustment(td, d, w, mag)))
                    # side effects on the arguments / the sight
                    emit('   after', dim(td) if isinstance(td, Distance) else repr(td), dim(d), dim(w),
                         sight_digest(s))


def linearity_and_sign():
    PreferredUnits.defaults()
    for plane, sf in (('FFP', None), ('SFP', Unit.Meter(100)), ('LWIR', None)):
        s = Sight(plane, sf, Unit.Mil(0.1), Unit.MOA(0.25))
        for k in (-3, -1, 0, 1, 2, 7):
            c = s.get_adjustment(Unit.Meter(300), Unit.Mil(0.37 * k), Unit.MOA(1.3 * k), 6)
            emit('lin', plane, k, clicks_digest(c))


def sfp_steps():
    PreferredUnits.defaults()
    for pref in (None, dict(distance=Unit.Meter), dict(distance=Unit.Foot, adjustment=Unit.MOA)):
        PreferredUnits.defaults()
        if pref:
            PreferredUnits.set(**pref)
        s = Sight('SFP', Unit.Meter(100), Unit.Mil(0.25), Unit.MOA(0.5))
        for mk_td in (lambda: Unit.Meter(100), lambda: Unit.Yard(300), lambda: 150, lambda: 75.5,
                      lambda: Unit.Meter(0), lambda: 'abc', lambda: None):
            for mag in (1, 10, 3.3, 0, -4, 1e7, 'x', None):
                td = mk_td()

                def run():
                    st = s._adjust_sfp_reticle_steps(td, mag)
                    return (f'{type(st).__name__} v={dim(st.vertical)} h={dim(st.horizontal)} '
                            f'v.unit_value={h(st.vertical.unit_value)} h.unit_value={h(st.horizontal.unit_value)} '
                            f'idx0_is_v={st[0] is st.vertical} idx1_is_h={st[1] is st.horizontal} '
                            f'fresh={st.vertical is not s.v_click_size and st.horizontal is not s.h_click_size}')
                attempt(f'steps pref={pref} td={dim(td) if isinstance(td, Distance) else repr(td)} mag={mag!r}', run)
                emit('   after', dim(td) if isinstance(td, Distance) else repr(td), sight_digest(s))
        # the click sizes may later be re-labelled by the user (unit objects are mutable)
        s.h_click_size << Unit.MOA
        s.v_click_size << Unit.CmPer100m
        attempt('steps relabelled', lambda: [dim(x) for x in s._adjust_sfp_reticle_steps(Unit.Meter(250), 8)])
        attempt('adj relabelled', lambda: clicks_digest(s.get_adjustment(Unit.Meter(250), Unit.Mil(1), Unit.Mil(-2), 8)))
    PreferredUnits.defaults()
    for plane in ('FFP', 'LWIR'):
        s = Sight(plane, None, 0.1, 0.1)
        attempt(f'steps on {plane}', lambda: s._adjust_sfp_reticle_steps(Unit.Meter(100), 1))


def misuse():
    """wrong argument kinds and a sight edited after construction: same exception, same moment"""
    PreferredUnits.defaults()
    for plane, sf in (('FFP', None), ('SFP', Unit.Meter(100)), ('LWIR', None)):
        mk = lambda: Sight(plane, sf, Unit.Mil(0.1), Unit.MOA(0.25))
        attempt(f'{plane} drop None', lambda: mk().get_adjustment(Unit.Meter(100), None, Unit.Mil(1), 4))
        attempt(f'{plane} wind None', lambda: mk().get_adjustment(Unit.Meter(100), Unit.Mil(1), None, 4))
        attempt(f'{plane} both None mag0', lambda: mk().get_adjustment(Unit.Meter(100), None, None, 0))
        attempt(f'{plane} drop None mag0', lambda: mk().get_adjustment(Unit.Meter(100), None, Unit.Mil(1), 0))
        attempt(f'{plane} wind None mag0', lambda: mk().get_adjustment(Unit.Meter(100), Unit.Mil(1), None, 0))
        attempt(f'{plane} drop float', lambda: mk().get_adjustment(Unit.Meter(100), 1.0, Unit.Mil(1), 4))
        attempt(f'{plane} mag str', lambda: clicks_digest(mk().get_adjustment(Unit.Meter(100), Unit.Mil(1), Unit.Mil(1), '4')))
        attempt(f'{plane} mag None', lambda: clicks_digest(mk().get_adjustment(Unit.Meter(100), Unit.Mil(1), Unit.Mil(1), None)))
        attempt(f'{plane} td None', lambda: clicks_digest(mk().get_adjustment(None, Unit.Mil(1), Unit.Mil(1), 4)))
        attempt(f'{plane} td str', lambda: clicks_digest(mk().get_adjustment('far', Unit.Mil(1), Unit.Mil(1), 4)))
        attempt(f'{plane} td angular', lambda: clicks_digest(mk().get_adjustment(Unit.Mil(5), Unit.Mil(1), Unit.Mil(1), 4)))
        for new_plane in ('XYZ', None, 'sfp', ['SFP'], 'SFP', 'FFP', 'LWIR'):
            s = mk()
            s.focal_plane = new_plane
            td = Unit.Meter(100)
            attempt(f'{plane}->{new_plane!r}', lambda: clicks_digest(s.get_adjustment(td, Unit.Mil(1), Unit.Mil(-1), 4)))
            attempt(f'{plane}->{new_plane!r} drop None', lambda: s.get_adjustment(td, None, None, 0))
            emit('   after', dim(td))
        s = mk()
        s.v_click_size = Unit.Mil(0)
        attempt(f'{plane} zero v click later', lambda: clicks_digest(s.get_adjustment(Unit.Meter(100), Unit.Mil(1), Unit.Mil(1), 4)))
        s = mk()
        s.h_click_size = Unit.Mil(0)
        attempt(f'{plane} zero h click later', lambda: clicks_digest(s.get_adjustment(Unit.Meter(100), Unit.Mil(1), Unit.Mil(1), 4)))
        s = mk()
        s.scale_factor = Unit.Meter(0)
        attempt(f'{plane} zero scale later', lambda: clicks_digest(s.get_adjustment(Unit.Meter(100), Unit.Mil(1), Unit.Mil(1), 4)))


def trajectory_rows():
    PreferredUnits.defaults()
    dm = DragModel(0.223, TableG7, 168, 0.308, 1.282)
    ammo = Ammo(dm, Unit.MPS(800))
    for plane, sf in (('FFP', None), ('SFP', Unit.Meter(100)), ('LWIR', None)):
        sight = Sight(plane, sf, Unit.Mil(0.1), Unit.MOA(0.25))
        weapon = Weapon(Unit.Centimeter(9), Unit.Inch(12), sight=sight)
        calc = Calculator()
        zero = Shot(weapon=weapon, ammo=ammo)
        calc.set_weapon_zero(zero, Unit.Meter(100))
        from py_ballisticcalc import Wind
        shot = Shot(weapon=weapon, ammo=ammo, winds=[Wind(Unit.MPS(5), Unit.Degree(90), Unit.Meter(2000))])
        shot.weapon.zero_elevation = zero.weapon.zero_elevation
        res = calc.fire(shot, Unit.Meter(1000), Unit.Meter(100))
        for row in res:
            for mag in (1, 12.5):
                before = dim(row.distance)
                c = attempt(f'row {plane} {before} m{mag}',
                            lambda: clicks_digest(sight.get_trajectory_adjustment(row, mag)))
                emit('   row after', dim(row.distance), dim(row.drop_adj), dim(row.windage_adj))
        attempt(f'row None {plane}', lambda: sight.get_trajectory_adjustment(None, 1))
        attempt(f'row tuple {plane}', lambda: sight.get_trajectory_adjustment((1, 2, 3), 1))

        class Row:  # duck-typed row; attribute reads are logged to pin their order
            def __init__(self):
                self.log = []

            def __getattr__(self, item):
                self.log.append(item)
                if item == 'distance':
                    return Unit.Meter(300)
                if item in ('drop_adj', 'windage_adj'):
                    return Unit.Mil(-1.5 if item == 'drop_adj' else 0.4)
                raise AttributeError(item)
        r = Row()
        attempt(f'duck row {plane}', lambda: clicks_digest(sight.get_trajectory_adjustment(r, 3)))
        emit('   reads', r.log)


if __name__ == '__main__':
    construction()
    adjustments()
    linearity_and_sign()
    sfp_steps()
    misuse()
    trajectory_rows()
    PreferredUnits.defaults()
    text = '\n'.join(OUT)
    import hashlib
    print(text)
    print('LINES', len(OUT), 'SHA256', hashlib.sha256(text.encode()).hexdigest())
