"""Equivalence digest for property C19 (sight click counts).

Exercises Sight construction, Sight.get_adjustment, Sight.get_trajectory_adjustment and
Sight._adjust_sfp_reticle_steps through the public package API and prints repr() of
every number (bit-exact), of every exception (type + message) and of the visible side effects
(display units of the objects that were passed in).

Run:  cd <checkout> && PYTHONPATH=<checkout> python equiv.py
The text printed must be identical before and after the refactoring.
"""
import math
import warnings
from types import SimpleNamespace

warnings.simplefilter("ignore")

from py_ballisticcalc import (Sight, Unit, PreferredUnits, Calculator, Shot, Weapon, Ammo, Atmo, Wind,  # noqa: E402
                              DragModel, TableG7, Distance, Angular, SightClicks, SightReticleStep)

OUT = []


def emit(*parts):
    OUT.append(" ".join(str(p) for p in parts))


def dim(d):
    """bit exact picture of a dimension object"""
    if isinstance(d, (Distance, Angular)):
        return f"{type(d).__name__}(raw={d.raw_value!r}, units={d.units!r})"
    return repr(d)


def attempt(label, fn):
    try:
        res = fn()
    except BaseException as exc:  # pylint: disable=broad-except
        emit(label, "->", "EXC", type(exc).__name__, repr(str(exc)))
        return None
    if isinstance(res, (SightClicks, SightReticleStep)):
        emit(label, "->", type(res).__name__, dim(res.vertical), dim(res.horizontal))
    else:
        emit(label, "->", repr(res))
    return res


def describe(s):
    return (f"Sight(fp={s.focal_plane!r}, scale={dim(s.scale_factor)}, "
            f"h={dim(s.h_click_size)}, v={dim(s.v_click_size)})")


# --------------------------------------------------------------------------------------
# 1. construction: accepted and rejected definitions
# --------------------------------------------------------------------------------------
def construction():
    emit("== construction")
    nan = float("nan")
    cases = [
        dict(),
        dict(focal_plane='FFP'),
        dict(focal_plane='FFP', h_click_size=0.25, v_click_size=0.25),
        dict(focal_plane='FFP', h_click_size=1, v_click_size=2),
        dict(focal_plane='FFP', h_click_size=True, v_click_size=1.0),
        dict(focal_plane='FFP', h_click_size=Unit.MOA(0.25), v_click_size=Unit.Mil(0.1)),
        dict(focal_plane='FFP', scale_factor=Unit.Meter(100), h_click_size=Unit.CmPer100m(1), v_click_size=Unit.InchesPer100Yd(0.5)),
        dict(focal_plane='SFP', h_click_size=0.25, v_click_size=0.25),
        dict(focal_plane='SFP', scale_factor=0, h_click_size=0.25, v_click_size=0.25),
        dict(focal_plane='SFP', scale_factor=0.0, h_click_size=0.25, v_click_size=0.25),
        dict(focal_plane='SFP', scale_factor=None, h_click_size=None, v_click_size=None),
        dict(focal_plane='SFP', scale_factor=Unit.Meter(0), h_click_size=0.25, v_click_size=0.25),
        dict(focal_plane='SFP', scale_factor=100, h_click_size=0.25, v_click_size=0.25),
        dict(focal_plane='SFP', scale_factor=Unit.Meter(100), h_click_size=Unit.Degree(0.01), v_click_size=Unit.Thousandth(0.5)),
        dict(focal_plane='LWIR', h_click_size=0.25, v_click_size=0.25),
        dict(focal_plane='LWIR', scale_factor=Unit.Foot(300), h_click_size=Unit.MRad(0.1), v_click_size=Unit.MRad(0.2)),
        dict(focal_plane='XXX', h_click_size=0.25, v_click_size=0.25),
        dict(focal_plane='XXX'),
        dict(focal_plane='ffp', h_click_size=0.25, v_click_size=0.25),
        dict(focal_plane=None, scale_factor=None, h_click_size=0.25, v_click_size=0.25),
        dict(focal_plane=['FFP'], h_click_size=0.25, v_click_size=0.25),
        dict(focal_plane='SFP', scale_factor=None, h_click_size='a', v_click_size=0.25),
        dict(focal_plane='FFP', h_click_size=0.25),
        dict(focal_plane='FFP', v_click_size=0.25),
        dict(focal_plane='FFP', h_click_size='0.25', v_click_size=0.25),
        dict(focal_plane='FFP', h_click_size=0.25, v_click_size=Unit.Meter(1)),
        dict(focal_plane='FFP', h_click_size=0, v_click_size=0.25),
        dict(focal_plane='FFP', h_click_size=0.25, v_click_size=0),
        dict(focal_plane='FFP', h_click_size=-0.25, v_click_size=0.25),
        dict(focal_plane='FFP', h_click_size=0.25, v_click_size=Unit.Mil(-0.25)),
        dict(focal_plane='FFP', h_click_size=0.0, v_click_size=-0.0),
        dict(focal_plane='FFP', h_click_size=nan, v_click_size=0.25),
        dict(focal_plane='FFP', h_click_size=0.25, v_click_size=nan),
        dict(focal_plane='FFP', h_click_size=nan, v_click_size=-1),
        dict(focal_plane='FFP', h_click_size=float('inf'), v_click_size=1e-300),
        dict(focal_plane='LWIR', h_click_size=Unit.Radian(7), v_click_size=Unit.Degree(400)),
    ]
    for kw in cases:
        label = "Sight(" + ", ".join(f"{k}={dim(v)}" for k, v in kw.items()) + ")"
        try:
            s = Sight(**kw)
        except BaseException as exc:  # pylint: disable=broad-except
            emit(label, "->", "EXC", type(exc).__name__, repr(str(exc)))
        else:
            emit(label, "->", describe(s))
            # the objects handed in are converted in place: show it
            emit("   inputs after:", ", ".join(f"{k}={dim(v)}" for k, v in kw.items()))
    # positional form
    attempt("positional", lambda: describe(Sight('SFP', Unit.Yard(100), Unit.MOA(0.25), Unit.MOA(0.125))))
    shared = Unit.MOA(0.25)
    s = Sight('FFP', None, shared, shared)
    emit("shared click object:", describe(s), s.h_click_size is shared, s.v_click_size is shared)


# --------------------------------------------------------------------------------------
# 2. click counts for explicit corrections
# --------------------------------------------------------------------------------------
def make_sights():
    return [
        ("FFP-mil", Sight('FFP', Unit.Meter(100), Unit.Mil(0.25), Unit.Mil(0.25))),
        ("FFP-mix", Sight('FFP', None, Unit.MOA(0.25), Unit.CmPer100m(1))),
        ("FFP-num", Sight('FFP', 50, 0.1, 1)),
        ("SFP-mil", Sight('SFP', Unit.Meter(100), Unit.Mil(0.25), Unit.Mil(0.25))),
        ("SFP-mix", Sight('SFP', Unit.Yard(100), Unit.MOA(0.25), Unit.InchesPer100Yd(0.5))),
        ("SFP-num", Sight('SFP', 300, 0.3, Unit.MRad(0.1))),
        ("SFP-big", Sight('SFP', Unit.Kilometer(1), Unit.Degree(50), Unit.OClock(5))),
        ("LWIR-mil", Sight('LWIR', Unit.Meter(100), Unit.Mil(0.25), Unit.Mil(0.25))),
        ("LWIR-mix", Sight('LWIR', None, Unit.Thousandth(0.5), Unit.Degree(0.01))),
    ]


def explicit_corrections():
    emit("== explicit corrections")
    distances = [lambda: Unit.Meter(100), lambda: Unit.Meter(50), lambda: Unit.Yard(437.5),
                 lambda: Unit.Foot(1000), lambda: Unit.Kilometer(1.2), lambda: 250, lambda: 33.3]
    mags = [1, 2.5, 10, 0.5, 24, -3]
    corrections = [
        (lambda: Unit.Mil(1), lambda: Unit.Mil(1)),
        (lambda: Unit.Mil(-2.7), lambda: Unit.MOA(3.1)),
        (lambda: Unit.MOA(12.25), lambda: Unit.MRad(-0.4)),
        (lambda: Unit.Radian(0.0), lambda: Unit.Radian(-0.0)),
        (lambda: Unit.Degree(-1.5), lambda: Unit.CmPer100m(-17)),
        (lambda: Unit.InchesPer100Yd(9), lambda: Unit.Thousandth(2)),
        (lambda: Unit.Radian(-1e-7), lambda: Unit.Radian(1e-7)),
    ]
    for name, s in make_sights():
        for di, mk_d in enumerate(distances):
            for mag in mags:
                for ci, (mk_drop, mk_wind) in enumerate(corrections):
                    if (di + ci + mags.index(mag)) % 3:  # thin the grid deterministically
                        continue
                    d, drop, wind = mk_d(), mk_drop(), mk_wind()
                    res = attempt(f"{name} d#{di} mag={mag!r} c#{ci}",
                                  lambda: s.get_adjustment(d, drop, wind, mag))
                    emit("   args after:", dim(d), dim(drop), dim(wind))
                    if res is not None:
                        assert type(res) is SightClicks and type(res.vertical) is float
    # linearity / sign:  k * correction
    emit("-- linearity")
    for name, s in make_sights():
        for k in (1, 2, -1, -3, 0.5):
            res = attempt(f"{name} k={k!r}",
                          lambda: s.get_adjustment(Unit.Meter(300), Unit.Radian(0.001 * k), Unit.Radian(-0.0004 * k), 8))


# --------------------------------------------------------------------------------------
# 3. the SFP reticle step itself
# --------------------------------------------------------------------------------------
def sfp_steps():
    emit("== sfp reticle steps")
    for name, s in make_sights():
        for mk_d, mag in ((lambda: Unit.Meter(200), 10), (lambda: 150, 3), (lambda: Unit.Foot(90), 0.75),
                          (lambda: Unit.Meter(100), 0), (lambda: Unit.Meter(0), 4), (lambda: 0, 4),
                          (lambda: Unit.Meter(-100), 4), (lambda: Unit.Meter(100), -4),
                          (lambda: Unit.Meter(100), 1e6), (lambda: Unit.Meter(100), float('nan'))):
            d = mk_d()
            attempt(f"{name} steps mag={mag!r}", lambda: s._adjust_sfp_reticle_steps(d, mag))
            emit("   distance after:", dim(d))


# --------------------------------------------------------------------------------------
# 4. error paths of get_adjustment
# --------------------------------------------------------------------------------------
def error_paths():
    emit("== error paths")
    for name, s in make_sights():
        attempt(f"{name} mag=0", lambda: s.get_adjustment(Unit.Meter(100), Unit.Mil(1), Unit.Mil(1), 0))
        attempt(f"{name} mag=0.0 zero corr", lambda: s.get_adjustment(Unit.Meter(100), Unit.Mil(0), Unit.Mil(0), 0.0))
        attempt(f"{name} d=0", lambda: s.get_adjustment(Unit.Meter(0), Unit.Mil(1), Unit.Mil(1), 2))
        attempt(f"{name} mag=None", lambda: s.get_adjustment(Unit.Meter(100), Unit.Mil(1), Unit.Mil(1), None))
        attempt(f"{name} mag='2'", lambda: s.get_adjustment(Unit.Meter(100), Unit.Mil(1), Unit.Mil(1), '2'))
        attempt(f"{name} mag=nan", lambda: s.get_adjustment(Unit.Meter(100), Unit.Mil(1), Unit.Mil(1), float('nan')))
        attempt(f"{name} mag=inf", lambda: s.get_adjustment(Unit.Meter(100), Unit.Mil(1), Unit.Mil(1), float('inf')))
        attempt(f"{name} float drop", lambda: s.get_adjustment(Unit.Meter(100), 1.0, Unit.Mil(1), 2))
        attempt(f"{name} float wind", lambda: s.get_adjustment(Unit.Meter(100), Unit.Mil(1), 1.0, 2))
        attempt(f"{name} float drop, mag=0", lambda: s.get_adjustment(Unit.Meter(100), 1.0, Unit.Mil(1), 0))
        attempt(f"{name} float wind, mag=0", lambda: s.get_adjustment(Unit.Meter(100), Unit.Mil(1), 1.0, 0))
        attempt(f"{name} float both, d=0", lambda: s.get_adjustment(0, 1.0, 2.0, 2))
        attempt(f"{name} distance 'x'", lambda: s.get_adjustment('x', Unit.Mil(1), Unit.Mil(1), 2))
        attempt(f"{name} distance None", lambda: s.get_adjustment(None, Unit.Mil(1), Unit.Mil(1), 2))
        attempt(f"{name} Distance corr", lambda: s.get_adjustment(Unit.Meter(100), Unit.Meter(1), Unit.Inch(1), 2))
    # focal plane changed after construction
    for new_fp in ('XXX', None, 'sfp', 'FFP', 'SFP', 'LWIR', 3):
        for name, s in make_sights()[2:5]:
            s.focal_plane = new_fp
            attempt(f"{name} fp:={new_fp!r}", lambda: s.get_adjustment(Unit.Meter(200), Unit.Mil(1), Unit.Mil(-1), 4))
            attempt(f"{name} fp:={new_fp!r} bad args", lambda: s.get_adjustment(None, None, None, None))
            attempt(f"{name} fp:={new_fp!r} steps", lambda: s._adjust_sfp_reticle_steps(Unit.Meter(200), 4))
            attempt(f"{name} fp:={new_fp!r} row", lambda: s.get_trajectory_adjustment(
                SimpleNamespace(distance=Unit.Meter(200), drop_adj=Unit.Mil(1), windage_adj=Unit.Mil(-1)), 4))
    # click sizes / scale factor changed after construction
    name, s = make_sights()[3]
    s.h_click_size = Unit.MOA(1)
    s.v_click_size << Unit.Degree
    attempt("SFP mutated clicks", lambda: s.get_adjustment(Unit.Meter(200), Unit.Mil(1), Unit.Mil(-1), 4))
    s.h_click_size << Unit.Meter  # nonsense display unit: must fail the same way
    attempt("SFP click in metres", lambda: s.get_adjustment(Unit.Meter(200), Unit.Mil(1), Unit.Mil(-1), 4))
    attempt("SFP click in metres, float drop", lambda: s.get_adjustment(Unit.Meter(200), 1.0, Unit.Mil(-1), 4))
    s.h_click_size << Unit.Mil
    s.v_click_size << Unit.Foot
    attempt("SFP v click in feet", lambda: s.get_adjustment(Unit.Meter(200), Unit.Mil(1), Unit.Mil(-1), 4))
    s.v_click_size << Unit.Mil
    s.scale_factor = 100.0
    attempt("SFP float scale", lambda: s.get_adjustment(Unit.Meter(200), Unit.Mil(1), Unit.Mil(-1), 4))
    s.scale_factor = Unit.Meter(100)
    s.v_click_size = 0.25
    attempt("SFP float v click", lambda: s.get_adjustment(Unit.Meter(200), Unit.Mil(1), Unit.Mil(-1), 4))
    name, s = make_sights()[0]
    s.v_click_size = Unit.Mil(0)
    attempt("FFP zero v click", lambda: s.get_adjustment(Unit.Meter(200), Unit.Mil(1), Unit.Mil(-1), 4))
    attempt("FFP zero v click float wind", lambda: s.get_adjustment(Unit.Meter(200), Unit.Mil(1), -1.0, 4))
    s.v_click_size = Unit.Mil(0.25)
    s.h_click_size = Unit.Mil(0)
    attempt("FFP zero h click", lambda: s.get_adjustment(Unit.Meter(200), Unit.Mil(1), Unit.Mil(-1), 4))
    attempt("FFP zero h click float drop", lambda: s.get_adjustment(Unit.Meter(200), 1.0, Unit.Mil(-1), 4))
    name, s = make_sights()[7]
    s.h_click_size = Unit.Mil(0)
    attempt("LWIR zero h click", lambda: s.get_adjustment(Unit.Meter(200), Unit.Mil(1), Unit.Mil(-1), 4))
    s.h_click_size = 0.25
    attempt("LWIR float h click", lambda: s.get_adjustment(Unit.Meter(200), Unit.Mil(1), Unit.Mil(-1), 4))


# --------------------------------------------------------------------------------------
# 5. corrections taken from trajectory rows
# --------------------------------------------------------------------------------------
def trajectory_rows():
    emit("== trajectory rows")
    dm = DragModel(0.223, TableG7, 168, 0.308, 1.282)
    ammo = Ammo(dm, Unit.FPS(2750))
    gun = Weapon(sight_height=Unit.Inch(2), twist=Unit.Inch(12))
    shot = Shot(weapon=gun, ammo=ammo, atmo=Atmo.icao(), winds=[Wind(Unit.MPS(4), Unit.Degree(90))])
    calc = Calculator()
    calc.set_weapon_zero(shot, Unit.Meter(100))
    for name, s in make_sights():
        result = calc.fire(shot, trajectory_range=Unit.Meter(1000), trajectory_step=Unit.Meter(125))
        for i, row in enumerate(result):
            for mag in (1, 6.5):
                attempt(f"{name} row#{i} mag={mag!r}", lambda: s.get_trajectory_adjustment(row, mag))
            emit("   row after:", dim(row.distance), dim(row.drop_adj), dim(row.windage_adj))
        # same numbers through get_adjustment by hand
        row = result[3]
        attempt(f"{name} by hand", lambda: s.get_adjustment(row.distance, row.drop_adj, row.windage_adj, 6.5))
    # hand made rows, negative and mixed-unit corrections
    fake_rows = [
        SimpleNamespace(distance=Unit.Meter(300), drop_adj=Unit.Mil(-3.3), windage_adj=Unit.MOA(-1.25)),
        SimpleNamespace(distance=Unit.Yard(75), drop_adj=Unit.MOA(4), windage_adj=Unit.Radian(0.0)),
        SimpleNamespace(distance=500, drop_adj=Unit.Degree(0.3), windage_adj=Unit.CmPer100m(2.5)),
        SimpleNamespace(distance=Unit.Meter(300), drop_adj=Unit.Mil(-3.3)),
        SimpleNamespace(drop_adj=Unit.Mil(-3.3), windage_adj=Unit.MOA(-1.25)),
        SimpleNamespace(distance=Unit.Meter(0), drop_adj=1.0, windage_adj=None),
        None,
    ]
    for name, s in make_sights():
        for i, row in enumerate(fake_rows):
            attempt(f"{name} fake#{i}", lambda: s.get_trajectory_adjustment(row, 5))
            attempt(f"{name} fake#{i} mag=0", lambda: s.get_trajectory_adjustment(row, 0))


# --------------------------------------------------------------------------------------
# 6. other preferred units (configuration)
# --------------------------------------------------------------------------------------
def other_configuration():
    emit("== other preferred units")
    try:
        PreferredUnits.adjustment = Unit.MOA
        PreferredUnits.distance = Unit.Meter
        s = attempt("ctor", lambda: describe(Sight('SFP', 100, 0.25, Unit.Mil(0.1))))
        for name, s in make_sights():
            emit(name, describe(s))
            d = Unit.Yard(220)
            attempt(f"{name} cfg1", lambda: s.get_adjustment(d, Unit.Mil(-1.5), Unit.MOA(2), 7))
            attempt(f"{name} cfg1 float distance", lambda: s.get_adjustment(220, Unit.Mil(-1.5), Unit.MOA(2), 7))
            emit("   distance after:", dim(d))
            PreferredUnits.distance = Unit.Foot  # changed between construction and use
            attempt(f"{name} cfg2", lambda: s.get_adjustment(220, Unit.Mil(-1.5), Unit.MOA(2), 7))
            attempt(f"{name} cfg2 steps", lambda: s._adjust_sfp_reticle_steps(220, 7))
            PreferredUnits.distance = Unit.Meter
        PreferredUnits.adjustment = Unit.Meter  # nonsense configuration must fail identically
        attempt("ctor nonsense adjustment unit float", lambda: describe(Sight('FFP', 100, 0.25, 0.25)))
        attempt("ctor nonsense adjustment unit Angular",
                lambda: describe(Sight('SFP', 100, Unit.Mil(0.25), Unit.Mil(0.25))))
        s = attempt("use nonsense adjustment unit", lambda: Sight('SFP', 100, Unit.Mil(0.25), Unit.Mil(0.25))
                    .get_adjustment(Unit.Meter(100), Unit.Mil(1), Unit.Mil(1), 3))
        PreferredUnits.adjustment = Unit.Mil
        PreferredUnits.distance = Unit.Mil  # nonsense distance unit
        attempt("ctor nonsense distance unit", lambda: describe(Sight('SFP', 100, 0.25, 0.25)))
        attempt("ctor nonsense distance unit FFP", lambda: describe(Sight('FFP', None, 0.25, 0.25)))
    finally:
        PreferredUnits.defaults()
    emit("defaults restored:", PreferredUnits.adjustment, PreferredUnits.distance)


if __name__ == '__main__':
    construction()
    explicit_corrections()
    sfp_steps()
    error_paths()
    trajectory_rows()
    other_configuration()
    text = "\n".join(OUT)
    print(text)
    import hashlib
    print("lines:", len(OUT), "sha256:", hashlib.sha256(text.encode()).hexdigest())
