"""Equivalence digest for C19 / refactoring 1 (Sight.get_adjustment dispatch).

Prints a deterministic text; must be identical on the clean worktree and with the patch.
"""
import logging
import copy

logging.disable(logging.CRITICAL)

from py_ballisticcalc import (Sight, Unit, PreferredUnits, Calculator, Shot, Weapon, Ammo, Atmo, Wind,
                              DragModel, TableG7)
from py_ballisticcalc.unit import Angular, Distance
from py_ballisticcalc.munition import SightClicks, SightReticleStep


def h(x):
    """bit-exact text of a number"""
    if isinstance(x, float):
        return x.hex()
    return repr(x)


def show(tag, fn):
    try:
        r = fn()
    except BaseException as e:  # noqa
        print(tag, '-> EXC', type(e).__name__, str(e))
        return None
    if isinstance(r, SightClicks):
        print(tag, '->', type(r).__name__, h(r.vertical), h(r.horizontal), h(r[0]), h(r[1]))
    elif isinstance(r, SightReticleStep):
        print(tag, '->', type(r).__name__, h(r.vertical.raw_value), r.vertical.units.name,
              h(r.horizontal.raw_value), r.horizontal.units.name)
    else:
        print(tag, '->', repr(r))
    return r


def sights():
    yield 'sfp_mil', lambda: Sight('SFP', Unit.Meter(100), Unit.Mil(0.25), Unit.Mil(0.25))
    yield 'sfp_moa_hv', lambda: Sight('SFP', Unit.Yard(100), Unit.MOA(0.25), Unit.MOA(0.125))
    yield 'sfp_float', lambda: Sight('SFP', 100, 0.1, 0.2)
    yield 'sfp_in100', lambda: Sight('SFP', Unit.Foot(300), Unit.InchesPer100Yd(0.25), Unit.CmPer100m(1))
    yield 'ffp_mil', lambda: Sight('FFP', None, Unit.Mil(0.25), Unit.Mil(0.1))
    yield 'ffp_moa', lambda: Sight(h_click_size=Unit.MOA(0.25), v_click_size=Unit.MOA(0.5))
    yield 'ffp_rad_int', lambda: Sight('FFP', 0, 1, 2)
    yield 'lwir_mil', lambda: Sight('LWIR', Unit.Meter(100), Unit.Mil(0.25), Unit.Mil(0.3))
    yield 'lwir_thou', lambda: Sight('LWIR', None, Unit.Thousandth(0.5), Unit.MRad(0.1))


def distances():
    yield 'm100', lambda: Unit.Meter(100)
    yield 'm237', lambda: Unit.Meter(237.5)
    yield 'yd50', lambda: Unit.Yard(50)
    yield 'ft1000', lambda: Unit.Foot(1000)
    yield 'f300', lambda: 300
    yield 'f12.5', lambda: 12.5
    yield 'neg', lambda: Unit.Meter(-100)


CORR = [
    ('mil1', lambda: Unit.Mil(1), lambda: Unit.Mil(1)),
    ('neg', lambda: Unit.Mil(-2.3), lambda: Unit.MOA(-0.7)),
    ('mixed', lambda: Unit.MOA(7.25), lambda: Unit.Mil(-0.05)),
    ('zero', lambda: Unit.Radian(0.0), lambda: Unit.Radian(-0.0)),
    ('deg', lambda: Unit.Degree(0.3), lambda: Unit.CmPer100m(12)),
    ('big', lambda: Unit.Degree(400), lambda: Unit.Degree(-400)),
]

MAGS = [1, 2.5, 10, 0.5, 3]


def run_matrix(label):
    print('=== matrix', label, 'adjustment', PreferredUnits.adjustment.name, 'distance', PreferredUnits.distance.name)
    for sname, smk in sights():
        s = smk()
        print('sight', sname, s.focal_plane, h(s.scale_factor.raw_value), s.scale_factor.units.name,
              h(s.h_click_size.raw_value), s.h_click_size.units.name,
              h(s.v_click_size.raw_value), s.v_click_size.units.name)
        for dname, dmk in distances():
            for cname, vmk, hmk in CORR:
                for mag in MAGS:
                    td = dmk()
                    drop, wind = vmk(), hmk()
                    show(f'{sname}/{dname}/{cname}/x{mag}',
                         lambda: s.get_adjustment(td, drop, wind, mag))
                    # side effects on the arguments (units of a Distance argument may be re-labelled)
                    if isinstance(td, Distance):
                        print('   td after', td.units.name, h(td.raw_value),
                              'drop', drop.units.name, 'wind', wind.units.name)
        # linearity / sign probe
        a = s.get_adjustment(Unit.Meter(150), Unit.Mil(1.5), Unit.Mil(0.5), 4)
        b = s.get_adjustment(Unit.Meter(150), Unit.Mil(-1.5), Unit.Mil(-0.5), 4)
        print('   sign', h(a.vertical), h(b.vertical), h(a.horizontal), h(b.horizontal))
        # keyword call
        show(f'{sname}/kw', lambda: s.get_adjustment(magnification=6, windage_adj=Unit.MOA(1),
                                                     drop_adj=Unit.MOA(-3), target_distance=Unit.Yard(333)))


def run_errors():
    print('=== errors')
    sfp = Sight('SFP', Unit.Meter(100), Unit.Mil(0.25), Unit.Mil(0.25))
    ffp = Sight('FFP', None, Unit.Mil(0.25), Unit.Mil(0.25))
    lwir = Sight('LWIR', None, Unit.Mil(0.25), Unit.Mil(0.25))
    show('sfp td0', lambda: sfp.get_adjustment(Unit.Meter(0), Unit.Mil(1), Unit.Mil(1), 1))
    show('sfp mag0', lambda: sfp.get_adjustment(Unit.Meter(100), Unit.Mil(1), Unit.Mil(1), 0))
    show('sfp mag0.0', lambda: sfp.get_adjustment(Unit.Meter(100), Unit.Mil(1), Unit.Mil(1), 0.0))
    show('sfp mag neg', lambda: sfp.get_adjustment(Unit.Meter(100), Unit.Mil(1), Unit.Mil(1), -2))
    show('sfp mag inf', lambda: sfp.get_adjustment(Unit.Meter(100), Unit.Mil(1), Unit.Mil(1), float('inf')))
    show('sfp mag nan', lambda: sfp.get_adjustment(Unit.Meter(100), Unit.Mil(1), Unit.Mil(1), float('nan')))
    show('sfp td str', lambda: sfp.get_adjustment('100m', Unit.Mil(1), Unit.Mil(1), 1))
    show('sfp td None', lambda: sfp.get_adjustment(None, Unit.Mil(1), Unit.Mil(1), 1))
    show('sfp drop float', lambda: sfp.get_adjustment(Unit.Meter(100), 1.0, Unit.Mil(1), 1))
    show('sfp wind float', lambda: sfp.get_adjustment(Unit.Meter(100), Unit.Mil(1), 1.0, 1))
    show('sfp td0 + drop float', lambda: sfp.get_adjustment(Unit.Meter(0), 1.0, Unit.Mil(1), 1))
    show('sfp mag str', lambda: sfp.get_adjustment(Unit.Meter(100), Unit.Mil(1), Unit.Mil(1), 'x'))
    show('ffp drop float', lambda: ffp.get_adjustment(Unit.Meter(100), 1.0, Unit.Mil(1), 1))
    show('ffp wind None', lambda: ffp.get_adjustment(Unit.Meter(100), Unit.Mil(1), None, 1))
    show('ffp td junk', lambda: ffp.get_adjustment(object, Unit.Mil(1), Unit.Mil(1), None))
    show('lwir mag0', lambda: lwir.get_adjustment(Unit.Meter(100), Unit.Mil(1), Unit.Mil(1), 0))
    show('lwir mag None', lambda: lwir.get_adjustment(Unit.Meter(100), Unit.Mil(1), Unit.Mil(1), None))
    show('lwir mag neg', lambda: lwir.get_adjustment(Unit.Meter(100), Unit.Mil(1), Unit.Mil(1), -4))
    show('lwir mag inf', lambda: lwir.get_adjustment(Unit.Meter(100), Unit.Mil(1), Unit.Mil(1), float('inf')))
    show('lwir drop float', lambda: lwir.get_adjustment(Unit.Meter(100), 2.0, Unit.Mil(1), 0))
    show('missing args', lambda: ffp.get_adjustment(Unit.Meter(100), Unit.Mil(1), Unit.Mil(1)))

    # focal plane tampered with after construction
    class Weird:
        def __init__(self, hits):
            self.hits, self.log = hits, []

        def __eq__(self, other):
            self.log.append(other)
            return other in self.hits

        __hash__ = None

    for bad in ('XXX', 'sfp', None, 7, ['SFP'], {'FFP': 1}, ('LWIR',)):
        s = Sight('FFP', None, Unit.Mil(0.25), Unit.Mil(0.25))
        s.focal_plane = bad
        show(f'tampered {bad!r}', lambda: s.get_adjustment(Unit.Meter(100), Unit.Mil(1), Unit.Mil(1), 2))
    for hits in ((), ('SFP',), ('FFP',), ('LWIR',), ('FFP', 'LWIR'), ('SFP', 'LWIR')):
        s = Sight('SFP', Unit.Meter(100), Unit.Mil(0.25), Unit.Mil(0.5))
        w = Weird(hits)
        s.focal_plane = w
        show(f'weird {hits!r}', lambda: s.get_adjustment(Unit.Meter(200), Unit.Mil(1), Unit.Mil(1), 2))
        print('   compared with', w.log)
    # switch plane on a live object
    s = Sight('SFP', Unit.Meter(100), Unit.Mil(0.25), Unit.Mil(0.5))
    for fp in ('FFP', 'LWIR', 'SFP', 'FFP'):
        s.focal_plane = fp
        show(f'switched {fp}', lambda: s.get_adjustment(Unit.Meter(200), Unit.Mil(1), Unit.Mil(-1), 3))
    # click size re-labelled / replaced after construction
    s = Sight('SFP', Unit.Meter(100), Unit.Mil(0.25), Unit.Mil(0.5))
    s.h_click_size << Unit.MOA
    s.v_click_size = Unit.InchesPer100Yd(0.5)
    s.scale_factor = Unit.Yard(50)
    show('relabelled sfp', lambda: s.get_adjustment(Unit.Meter(200), Unit.Mil(1), Unit.Mil(-1), 3))
    show('relabelled step', lambda: s._adjust_sfp_reticle_steps(Unit.Meter(200), 3))
    s.focal_plane = 'LWIR'
    show('relabelled lwir', lambda: s.get_adjustment(Unit.Meter(200), Unit.Mil(1), Unit.Mil(-1), 3))
    s.v_click_size = Unit.Mil(0)
    show('zero click ffp', lambda: (setattr(s, 'focal_plane', 'FFP'),
                                    s.get_adjustment(Unit.Meter(200), Unit.Mil(1), Unit.Mil(-1), 3))[1])
    show('zero click lwir', lambda: (setattr(s, 'focal_plane', 'LWIR'),
                                     s.get_adjustment(Unit.Meter(200), Unit.Mil(1), Unit.Mil(-1), 3))[1])
    show('zero click sfp', lambda: (setattr(s, 'focal_plane', 'SFP'),
                                    s.get_adjustment(Unit.Meter(200), Unit.Mil(1), Unit.Mil(-1), 3))[1])

    # subclass overriding the SFP step hook is still honoured
    class MySight(Sight):
        def _adjust_sfp_reticle_steps(self, target_distance, magnification):
            print('   hook called', repr(target_distance), magnification)
            return SightReticleStep(Unit.Mil(2), Unit.Mil(4))

    ms = MySight('SFP', Unit.Meter(100), Unit.Mil(0.25), Unit.Mil(0.5))
    show('subclass sfp', lambda: ms.get_adjustment('anything', Unit.Mil(1), Unit.Mil(-1), 3))
    ms.focal_plane = 'FFP'
    show('subclass ffp', lambda: ms.get_adjustment('anything', Unit.Mil(1), Unit.Mil(-1), 3))

    print('=== construction')
    show('bad plane', lambda: Sight('XFP', Unit.Meter(100), Unit.Mil(1), Unit.Mil(1)))
    show('sfp no scale', lambda: Sight('SFP', None, Unit.Mil(1), Unit.Mil(1)))
    show('sfp scale 0', lambda: Sight('SFP', 0, Unit.Mil(1), Unit.Mil(1)))
    show('no clicks', lambda: Sight('FFP'))
    show('h str', lambda: Sight('FFP', None, '1mil', Unit.Mil(1)))
    show('v zero', lambda: Sight('FFP', None, Unit.Mil(1), Unit.Mil(0)))
    show('h neg', lambda: Sight('LWIR', None, -1.0, Unit.Mil(1)))
    show('ok repr', lambda: Sight('LWIR', None, 1.0, Unit.Mil(1)))
    show('eq', lambda: Sight('FFP', None, 1.0, 1.0) == Sight('FFP', None, 1.0, 1.0))


def run_trajectory():
    print('=== trajectory rows')
    dm = DragModel(0.22, TableG7, 168, 0.308, 1.22)
    ammo = Ammo(dm, Unit.FPS(2600))
    calc = Calculator()
    for fp in ('FFP', 'SFP', 'LWIR'):
        sight = Sight(fp, Unit.Meter(100), Unit.Mil(0.1), Unit.MOA(0.25))
        weapon = Weapon(Unit.Inch(2.5), Unit.Inch(11.25), sight=sight)
        shot = Shot(weapon=weapon, ammo=ammo, atmo=Atmo.icao(),
                    winds=[Wind(Unit.MPH(7), Unit.OClock(3.5), Unit.Meter(2000))])
        calc.set_weapon_zero(shot, Unit.Meter(100))
        res = calc.fire(shot, Unit.Meter(900), Unit.Meter(150))
        for row in res.trajectory:
            for mag in (1, 8.5):
                before = row.distance.units.name
                if row.distance.raw_value == 0 and fp == 'SFP':
                    show(f'{fp} row0 x{mag}', lambda: sight.get_trajectory_adjustment(row, mag))
                    continue
                c = show(f'{fp} row {h(row.distance.raw_value)} x{mag}',
                         lambda: sight.get_trajectory_adjustment(row, mag))
                d = sight.get_adjustment(row.distance, row.drop_adj, row.windage_adj, mag)
                print('   same as direct', c == d, 'units', before, '->', row.distance.units.name,
                      h(row.drop_adj.raw_value), h(row.windage_adj.raw_value))
        show(f'{fp} row kw', lambda: sight.get_trajectory_adjustment(magnification=2,
                                                                      trajectory_point=res.trajectory[3]))
        show(f'{fp} bad row', lambda: sight.get_trajectory_adjustment(object(), 2))


if __name__ == '__main__':
    PreferredUnits.defaults()
    run_matrix('defaults')
    PreferredUnits.set(adjustment=Unit.MOA, distance=Unit.Meter)
    run_matrix('moa/meter')
    PreferredUnits.set(adjustment='cm/100m', distance='ft')
    run_matrix('cm100m/foot')
    PreferredUnits.defaults()
    run_errors()
    run_trajectory()
