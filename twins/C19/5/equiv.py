"""Equivalence digest for C19 / refactoring 2 (Unit.__call__: range ladder -> decade table).

Prints a deterministic text; must be identical on the clean worktree and with the patch.
"""
import logging
import sys

logging.disable(logging.CRITICAL)

from py_ballisticcalc import Sight, Unit, PreferredUnits
from py_ballisticcalc.unit import (AbstractDimension, Angular, Distance, Energy, Pressure, Temperature,
                                   Velocity, Weight)
from py_ballisticcalc.munition import SightClicks, SightReticleStep


def h(x):
    if isinstance(x, float):
        return x.hex()
    return repr(x)


def desc(r):
    if isinstance(r, SightClicks):
        return f'SightClicks {h(r.vertical)} {h(r.horizontal)}'
    if isinstance(r, SightReticleStep):
        return f'Step {desc(r.vertical)} | {desc(r.horizontal)}'
    if isinstance(r, AbstractDimension):
        return f'{type(r).__name__} raw={h(r.raw_value)} units={r.units!r}/{type(r.units).__name__}'
    return repr(r)


def show(tag, fn):
    try:
        r = fn()
        text = desc(r)
    except BaseException as e:  # noqa
        print(tag, '-> EXC', type(e).__name__, str(e))
        return None
    print(tag, '->', text)
    return r


VALUES = [0, 1, -1, 2.5, -0.125, 1e-9, 12345.678, True, float('inf'), float('nan'), 7000]


def run_units():
    print('=== every Unit member as a constructor')
    for u in Unit:
        for v in VALUES:
            show(f'{u.name}({v!r})', lambda: u(v))
        show(f'{u.name}(str)', lambda: u('3'))
        show(f'{u.name}(None)', lambda: u(None))
        show(f'{u.name}()', lambda: u())
    print('=== re-labelling an existing dimension (value << unit)')
    samples = [lambda: Angular(1.5, Unit.Mil), lambda: Distance(100, Unit.Meter), lambda: Energy(3, Unit.Joule),
               lambda: Pressure(29.92, Unit.InHg), lambda: Temperature(15, Unit.Celsius),
               lambda: Velocity(800, Unit.MPS), lambda: Weight(168, Unit.Grain)]
    for mk in samples:
        for u in Unit:
            obj = mk()
            r = show(f'{u.name}({type(obj).__name__})', lambda: u(obj))
            print('   same object', r is obj, 'units now', obj.units.name)
            show('   unit_value', lambda: obj.unit_value)
    print('=== Unit.__call__ on things that are not members')
    for raw in (0, 5, 9, 10, 19, 20, 25, 29, 30, 39, 45, 59, 69, 79, 80, 85, 99, 100, 1000, -1, -3, -10, -11,
                5.5, 9.99, 10.0, 29.5, 79.9, 80.0, -0.5, float('nan'), float('inf'), True):
        show(f'Unit.__call__({raw!r}, 1.0)', lambda: Unit.__call__(raw, 1.0))
    # (receivers that are not numbers at all - Unit.__call__('Mil', 1.0) - are left out on purpose: both versions
    #  raise TypeError, but the text names the operator that failed, `<=` before and `//` after; see NOTES.md)
    show('Unit(25)', lambda: Unit(25)(1))
    print('=== preferred units')
    for name in ('angular', 'distance', 'velocity', 'pressure', 'temperature', 'diameter', 'length', 'weight',
                 'adjustment', 'drop', 'energy', 'ogw', 'sight_height', 'target_height', 'twist'):
        show(f'PreferredUnits.{name}(2.5)', lambda: getattr(PreferredUnits, name)(2.5))


def sights():
    yield 'sfp_mil', lambda: Sight('SFP', Unit.Meter(100), Unit.Mil(0.25), Unit.Mil(0.25))
    yield 'sfp_moa_hv', lambda: Sight('SFP', Unit.Yard(100), Unit.MOA(0.25), Unit.MOA(0.125))
    yield 'sfp_float', lambda: Sight('SFP', 100, 0.1, 0.2)
    yield 'sfp_int', lambda: Sight('SFP', 50, 1, 2)
    yield 'sfp_in100', lambda: Sight('SFP', Unit.Foot(300), Unit.InchesPer100Yd(0.25), Unit.CmPer100m(1))
    yield 'ffp_mil', lambda: Sight('FFP', None, Unit.Mil(0.25), Unit.Mil(0.1))
    yield 'ffp_moa', lambda: Sight(h_click_size=Unit.MOA(0.25), v_click_size=Unit.MOA(0.5))
    yield 'lwir_mil', lambda: Sight('LWIR', Unit.Meter(100), Unit.Mil(0.25), Unit.Mil(0.3))
    yield 'lwir_thou', lambda: Sight('LWIR', None, Unit.Thousandth(0.5), Unit.MRad(0.1))


def run_sights(label):
    print('=== sights', label, PreferredUnits.adjustment.name, PreferredUnits.distance.name)
    for sname, smk in sights():
        s = show(f'{sname} new', smk)
        if s is None:
            continue
        show('   parts', lambda: ' | '.join(map(desc, (s.scale_factor, s.h_click_size, s.v_click_size))))
        for td in (lambda: Unit.Meter(100), lambda: Unit.Yard(437), lambda: 250, lambda: 33.3,
                   lambda: Unit.Kilometer(1.2), lambda: Unit.Meter(0)):
            for mag in (1, 4.5, 12):
                for dv, dh in ((Unit.Mil(1), Unit.Mil(1)), (Unit.MOA(-3.25), Unit.Degree(0.05)),
                               (Unit.CmPer100m(-14), Unit.InchesPer100Yd(2)), (Unit.Radian(0), Unit.Mil(-0.0))):
                    t = td()
                    show(f'{sname} {desc(t)} x{mag} {desc(dv)} {desc(dh)}',
                         lambda: s.get_adjustment(t, dv, dh, mag))
                    if isinstance(t, Distance):
                        print('      td units after', t.units.name)
                if s.focal_plane == 'SFP':
                    show(f'{sname} step x{mag}', lambda: s._adjust_sfp_reticle_steps(td(), mag))
    print('--- rejected')
    show('bad plane', lambda: Sight('TFP', Unit.Meter(100), Unit.Mil(1), Unit.Mil(1)))
    show('sfp no scale', lambda: Sight('SFP', None, Unit.Mil(1), Unit.Mil(1)))
    show('sfp scale 0', lambda: Sight('SFP', 0, Unit.Mil(1), Unit.Mil(1)))
    show('no clicks', lambda: Sight('FFP'))
    show('h str', lambda: Sight('FFP', None, '1mil', Unit.Mil(1)))
    show('v zero', lambda: Sight('FFP', None, Unit.Mil(1), Unit.Mil(0)))
    show('v zero int', lambda: Sight('FFP', None, Unit.Mil(1), 0))
    show('h neg', lambda: Sight('LWIR', None, -1.0, Unit.Mil(1)))
    show('h nan', lambda: Sight('LWIR', None, float('nan'), Unit.Mil(1)))
    show('h Distance', lambda: Sight('LWIR', None, Unit.Meter(1), Unit.Mil(1)))
    show('scale Angular', lambda: Sight('SFP', Unit.Mil(1), Unit.Mil(1), Unit.Mil(1)).scale_factor)


if __name__ == '__main__':
    PreferredUnits.defaults()
    run_units()
    run_sights('defaults')
    PreferredUnits.set(adjustment=Unit.MOA, distance=Unit.Meter)
    run_sights('moa/meter')
    PreferredUnits.set(adjustment=Unit.InchesPer100Yd, distance=Unit.Kilometer)
    run_sights('in100/km')
    PreferredUnits.set(adjustment=Unit.Meter, distance=Unit.Mil)   # nonsense configuration, still deterministic
    run_sights('crossed')
    PreferredUnits.defaults()
