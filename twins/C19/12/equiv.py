"""Equivalence digest for C19 (sight clicks = angular correction / effective click).

Prints a deterministic text; it must be byte-identical on the clean worktree and with the patch.
Run:  cd /tmp/wt/C19 && PYTHONPATH=/tmp/wt/C19 /venv/bin/python <this file>
"""
import warnings

warnings.simplefilter("ignore")

from py_ballisticcalc import (Sight, Unit, Angular, Distance, PreferredUnits, Calculator, Shot, Weapon, Ammo,
                              DragModel, TableG7, Atmo, Wind, Velocity)

ANGULAR_UNITS = [Unit.Radian, Unit.Degree, Unit.MOA, Unit.Mil, Unit.MRad, Unit.Thousandth,
                 Unit.InchesPer100Yd, Unit.CmPer100m, Unit.OClock]
DISTANCE_UNITS = [Unit.Inch, Unit.Foot, Unit.Yard, Unit.Meter, Unit.Kilometer, Unit.Line, Unit.Centimeter]


def show(label, fn):
    """print repr of the result, or the exception type and text"""
    try:
        result = repr(fn())
    except Exception as exc:  # pylint: disable=broad-except
        result = f"!{type(exc).__name__}: {exc}"
    print(f"{label} -> {result}")


def state(obj):
    """everything observable of a dimension object"""
    return type(obj).__name__, repr(obj.units), repr(obj.raw_value)


def sight_state(s):
    return (s.focal_plane, state(s.scale_factor), state(s.h_click_size), state(s.v_click_size), repr(s))


# ------------------------------------------------------------------ 1. conversions used by the sight
print("== angular conversions")
for u in ANGULAR_UNITS:
    for v in (0, 1, 0.25, -0.1, 3.75, 59.9, 400.0, 7000, -7000.5, 1e-9, float('inf'), float('nan'), True):
        show(f"to_raw {u!r} {v!r}", lambda: state(Angular(v, u)))
        show(f"call   {u!r} {v!r}", lambda: state(u(v)))
    for raw in (0.0, 2.5e-4, -2.5e-4, 1.0, 1.5707963267948966, 6.0, -100.0, 1):
        a = Angular.Radian(raw)
        show(f"from_raw {u!r} {raw!r}", lambda: (a >> u, a.get_in(u), (a << u).unit_value, str(a), repr(a)))
for bad in (Unit.Meter, Unit.FPS, 3, 3.0, 17, 99, -1, None, 'mil', [3], (3,), True):
    show(f"bad to_raw {bad!r}", lambda: state(Angular(1.5, bad)))
    show(f"bad from_raw {bad!r}", lambda: Angular.Mil(1.5) >> bad)
show("to_raw None", lambda: Angular(None, Unit.Mil))
show("to_raw str", lambda: Angular('1', Unit.MOA))
show("to_raw huge int", lambda: Angular(10 ** 400, Unit.Degree))
show("to_raw huge int rad", lambda: state(Angular(10 ** 400, Unit.Radian)))

# ------------------------------------------------------------------ 2. click counts
print("== click counts")
CLICKS = [(Unit.Mil, 0.25, 0.1), (Unit.MOA, 0.25, 0.5), (Unit.MRad, 0.1, 0.05), (Unit.Degree, 0.01, 0.02),
          (Unit.InchesPer100Yd, 0.25, 1), (Unit.CmPer100m, 1, 0.5), (Unit.Thousandth, 0.5, 0.25),
          (Unit.Radian, 1e-4, 2e-4), (Unit.OClock, 0.001, 0.002)]
TARGETS = [Unit.Meter(100), Unit.Meter(237.5), Unit.Yard(50), Unit.Foot(1000), Unit.Kilometer(1.2), 150, 33.3]
SCALES = [Unit.Meter(100), Unit.Yard(100), 100, Unit.Foot(328.084)]
MAGS = [1, 2, 2.5, 10, 0.5, 24, -3]
CORRECTIONS = [(Unit.Mil(1), Unit.Mil(1)), (Unit.Mil(-2.3), Unit.Mil(0.7)), (Unit.MOA(3.75), Unit.MOA(-1.25)),
               (Unit.Radian(0), Unit.Radian(-0.0)), (Unit.Degree(-0.5), Unit.CmPer100m(12.5)),
               (Unit.InchesPer100Yd(-7), Unit.Thousandth(2)), (Unit.Radian(1), Unit.Radian(-1))]

for plane in ('FFP', 'SFP', 'LWIR'):
    for unit, v_click, h_click in CLICKS:
        for scale in SCALES:
            s = Sight(plane, scale, h_click_size=unit(h_click), v_click_size=unit(v_click))
            print("sight", sight_state(s))
            for td in TARGETS:
                for mag in MAGS:
                    for drop, wind in CORRECTIONS:
                        r = s.get_adjustment(td, drop, wind, mag)
                        print(plane, repr(unit), repr(mag), type(r).__name__, repr(r.vertical), repr(r.horizontal),
                              repr(tuple(r)))
                    if plane == 'SFP':
                        st = s._adjust_sfp_reticle_steps(td, mag)
                        print("  steps", type(st).__name__, state(st.vertical), state(st.horizontal),
                              repr(st.vertical.unit_value), repr(st.horizontal.unit_value), st._fields)
            # the objects handed in are re-labelled (not copied) by the unit coercion: show it
            print("  targets after", [state(t) if isinstance(t, Distance) else t for t in TARGETS])

# linearity and sign on one sight per plane
print("== linearity / sign")
for plane in ('FFP', 'SFP', 'LWIR'):
    s = Sight(plane, Unit.Meter(100), Unit.MOA(0.25), Unit.Mil(0.1))
    for k in (-3, -1, -0.5, 0, 0.5, 1, 2, 7.25):
        r = s.get_adjustment(Unit.Meter(350), Unit.Mil(k), Unit.MOA(k), 6)
        print(plane, k, repr(r.vertical), repr(r.horizontal))

# ------------------------------------------------------------------ 3. constructor: accepted and rejected
print("== constructor")
show("defaults", lambda: Sight())
show("no clicks ffp", lambda: Sight('FFP'))
show("float clicks", lambda: sight_state(Sight('FFP', None, 0.25, 0.5)))
show("int clicks", lambda: sight_state(Sight('LWIR', 7, 1, 2)))
show("bool clicks", lambda: sight_state(Sight('LWIR', 7, True, True)))
show("unknown plane", lambda: Sight('XFP', 100, 0.1, 0.1))
show("plane None", lambda: Sight(None, 100, 0.1, 0.1))
show("plane lower", lambda: Sight('ffp', 100, 0.1, 0.1))
show("plane list", lambda: Sight(['FFP'], 100, 0.1, 0.1))
show("sfp no scale", lambda: Sight('SFP', None, 0.1, 0.1))
show("sfp zero scale", lambda: Sight('SFP', 0, 0.1, 0.1))
show("sfp zero Distance scale", lambda: sight_state(Sight('SFP', Unit.Meter(0), 0.1, 0.1)))
show("sfp no scale, bad clicks", lambda: Sight('SFP', None, None, None))
show("bad plane, no scale", lambda: Sight('???', None, None, None))
show("ffp no scale", lambda: sight_state(Sight('FFP', None, 0.1, 0.1)))
show("ffp zero scale", lambda: sight_state(Sight('FFP', 0, 0.1, 0.1)))
show("h None", lambda: Sight('FFP', 100, None, 0.1))
show("v None", lambda: Sight('FFP', 100, 0.1, None))
show("h str", lambda: Sight('FFP', 100, '0.1', 0.1))
show("v Distance", lambda: Sight('FFP', 100, 0.1, Unit.Meter(1)))
show("h zero", lambda: Sight('FFP', 100, 0, 0.1))
show("v zero", lambda: Sight('FFP', 100, 0.1, 0.0))
show("h negative", lambda: Sight('SFP', 100, Unit.Mil(-0.1), Unit.Mil(0.1)))
show("v negative", lambda: Sight('LWIR', 100, Unit.Mil(0.1), Unit.MOA(-0.1)))
show("both bad type + negative", lambda: Sight('FFP', 100, -1, None))
show("nan click", lambda: sight_state(Sight('FFP', 100, float('nan'), 0.1)))
show("inf click", lambda: sight_state(Sight('FFP', 100, float('inf'), 0.1)))
show("huge int click", lambda: Sight('FFP', 100, 0.1, 10 ** 400))
show("wrapped click", lambda: sight_state(Sight('FFP', 100, Unit.Degree(400), Unit.OClock(13))))
show("scale str", lambda: Sight('SFP', '100', 0.1, 0.1))
same = Unit.MOA(0.25)
s = Sight('SFP', Unit.Yard(100), same, same)
show("shared click object", lambda: (sight_state(s), s.h_click_size is same, s.v_click_size is same, state(same)))
sf = Unit.Meter(100)
s = Sight('SFP', sf, 0.1, 0.2)
show("scale object kept", lambda: (s.scale_factor is sf, state(sf)))
show("eq", lambda: (Sight('FFP', 1, 0.1, 0.1) == Sight('FFP', 1, 0.1, 0.1), Sight('FFP', 1, 0.1, 0.1) == Sight('FFP', 1, 0.1, 0.2)))

# ------------------------------------------------------------------ 4. failure paths of the adjustment
print("== adjustment failures")
for plane in ('FFP', 'SFP', 'LWIR'):
    s = Sight(plane, Unit.Meter(100), Unit.Mil(0.2), Unit.Mil(0.1))
    show(f"{plane} td 0", lambda: s.get_adjustment(Unit.Meter(0), Unit.Mil(1), Unit.Mil(1), 4))
    show(f"{plane} td 0.0 float", lambda: s.get_adjustment(0.0, Unit.Mil(1), Unit.Mil(1), 4))
    show(f"{plane} td None", lambda: s.get_adjustment(None, Unit.Mil(1), Unit.Mil(1), 4))
    show(f"{plane} td str", lambda: s.get_adjustment('100', Unit.Mil(1), Unit.Mil(1), 4))
    show(f"{plane} mag 0", lambda: s.get_adjustment(Unit.Meter(100), Unit.Mil(1), Unit.Mil(1), 0))
    show(f"{plane} mag None", lambda: s.get_adjustment(Unit.Meter(100), Unit.Mil(1), Unit.Mil(1), None))
    show(f"{plane} mag inf", lambda: s.get_adjustment(Unit.Meter(100), Unit.Mil(1), Unit.Mil(1), float('inf')))
    show(f"{plane} mag nan", lambda: s.get_adjustment(Unit.Meter(100), Unit.Mil(1), Unit.Mil(1), float('nan')))
    show(f"{plane} drop None", lambda: s.get_adjustment(Unit.Meter(100), None, Unit.Mil(1), 4))
    show(f"{plane} wind None", lambda: s.get_adjustment(Unit.Meter(100), Unit.Mil(1), None, 4))
    show(f"{plane} drop None td 0", lambda: s.get_adjustment(Unit.Meter(0), None, None, 4))
    show(f"{plane} drop None mag 0", lambda: s.get_adjustment(Unit.Meter(100), None, None, 0))
    show(f"{plane} wind None mag 0", lambda: s.get_adjustment(Unit.Meter(100), Unit.Mil(1), None, 0))
    show(f"{plane} drop float", lambda: s.get_adjustment(Unit.Meter(100), 1.0, 1.0, 4))
    show(f"{plane} distance corrections", lambda: s.get_adjustment(Unit.Meter(100), Unit.Inch(1), Unit.Foot(-1), 4))
    show(f"{plane} huge mag", lambda: s.get_adjustment(Unit.Meter(100), Unit.Mil(1), Unit.Mil(1), 1e300))
    show(f"{plane} tiny td", lambda: s.get_adjustment(Unit.Meter(1e-300), Unit.Mil(1), Unit.Mil(1), 1e10))
    show(f"{plane} sfp steps", lambda: s._adjust_sfp_reticle_steps(Unit.Meter(100), 2))
    show(f"{plane} row None", lambda: s.get_trajectory_adjustment(None, 2))
    # focal plane changed after construction
    s.focal_plane = 'XFP'
    show(f"{plane}->XFP", lambda: s.get_adjustment(Unit.Meter(100), Unit.Mil(1), Unit.Mil(1), 4))
    show(f"{plane}->XFP drop None", lambda: s.get_adjustment(None, None, None, None))
    show(f"{plane}->XFP steps", lambda: s._adjust_sfp_reticle_steps(Unit.Meter(100), 2))
    s.focal_plane = 'SFP'
    show(f"{plane}->SFP", lambda: s.get_adjustment(Unit.Meter(200), Unit.Mil(1), Unit.Mil(-1), 4))
    s.focal_plane = 'LWIR'
    show(f"{plane}->LWIR", lambda: s.get_adjustment(Unit.Meter(200), Unit.Mil(1), Unit.Mil(-1), 4))
    # click sizes / scale replaced after construction
    s.focal_plane = plane
    s.v_click_size = Unit.MOA(1)
    s.h_click_size = Unit.Radian(0)
    show(f"{plane} zero h click later", lambda: s.get_adjustment(Unit.Meter(200), Unit.Mil(1), Unit.Mil(-1), 4))
    s.h_click_size = Unit.InchesPer100Yd(0.5)
    s.scale_factor = Unit.Yard(0)
    show(f"{plane} zero scale later", lambda: s.get_adjustment(Unit.Meter(200), Unit.Mil(1), Unit.Mil(-1), 4))
    s.scale_factor = None
    show(f"{plane} no scale later", lambda: s.get_adjustment(Unit.Meter(200), Unit.Mil(1), Unit.Mil(-1), 4))
    s.scale_factor = Unit.Yard(200)
    s.v_click_size = Unit.Meter(1)
    show(f"{plane} distance click later", lambda: s.get_adjustment(Unit.Meter(200), Unit.Mil(1), Unit.Mil(-1), 4))
    s.v_click_size = 0.1
    show(f"{plane} float click later", lambda: s.get_adjustment(Unit.Meter(200), Unit.Mil(1), Unit.Mil(-1), 4))

# ------------------------------------------------------------------ 5. other preferred units
print("== preferred units")
for adj_unit, dist_unit in ((Unit.MOA, Unit.Meter), (Unit.InchesPer100Yd, Unit.Foot), (Unit.Radian, Unit.Inch),
                            (Unit.Inch, Unit.Mil)):
    PreferredUnits.adjustment = adj_unit
    PreferredUnits.distance = dist_unit
    for plane in ('FFP', 'SFP', 'LWIR'):
        click = Unit.Mil(0.1)
        show(f"{adj_unit!r}/{dist_unit!r} {plane} floats", lambda: sight_state(Sight(plane, 100, 0.25, 0.5)))

        def run():
            s = Sight(plane, 100, click, 0.5)
            td = Unit.Yard(300)
            out = [sight_state(s), state(click)]
            out.append(s.get_adjustment(td, Unit.Mil(1.5), Unit.Mil(-0.5), 3))
            out.append(s.get_adjustment(250, Unit.Mil(1.5), Unit.Mil(-0.5), 3))
            out.append(state(td))
            return out
        show(f"{adj_unit!r}/{dist_unit!r} {plane} run", run)
    PreferredUnits.defaults()
PreferredUnits.defaults()


# preferred units changed between construction and use: float distances are read in the unit preferred NOW
print("== preferred units changed after construction")
for plane in ('FFP', 'SFP', 'LWIR'):
    s = Sight(plane, 100, 0.25, 0.5)
    print(plane, sight_state(s))
    for dist_unit, adj_unit in ((Unit.Meter, Unit.MOA), (Unit.Foot, Unit.Radian), (Unit.Yard, Unit.Mil)):
        PreferredUnits.distance = dist_unit
        PreferredUnits.adjustment = adj_unit
        td = Unit.Meter(300)
        show(f"{plane} {dist_unit!r} float td", lambda: s.get_adjustment(300, Unit.Mil(1.5), Unit.Mil(-0.5), 3))
        show(f"{plane} {dist_unit!r} object td", lambda: (s.get_adjustment(td, Unit.Mil(1.5), Unit.Mil(-0.5), 3), state(td)))
        show(f"{plane} {dist_unit!r} sight", lambda: sight_state(s))
        if plane == 'SFP':
            show(f"{plane} {dist_unit!r} steps", lambda: [state(x) for x in s._adjust_sfp_reticle_steps(300, 3)])
        show(f"{plane} {dist_unit!r} new sight", lambda: sight_state(Sight(plane, 100, 0.25, Unit.Mil(0.5))))
    PreferredUnits.defaults()
PreferredUnits.defaults()

# ------------------------------------------------------------------ 6. corrections taken from trajectory rows
print("== trajectory rows")
dm = DragModel(0.223, TableG7, 168, 0.308, 1.282)
calc = Calculator()
for plane, click in (('FFP', Unit.Mil(0.1)), ('SFP', Unit.MOA(0.25)), ('LWIR', Unit.CmPer100m(1))):
    sight = Sight(plane, Unit.Meter(100), click, click)
    weapon = Weapon(Unit.Inch(2), Unit.Inch(11.24), sight=sight)
    shot = Shot(weapon=weapon, ammo=Ammo(dm, Unit.FPS(2750)), atmo=Atmo.icao(),
                winds=[Wind(Velocity.MPH(7), Angular.OClock(9))])
    calc.set_weapon_zero(shot, Unit.Meter(100))
    rows = calc.fire(shot, Unit.Meter(800), Unit.Meter(100)).trajectory
    for row in rows[1:]:
        for mag in (1, 4.5, 12):
            r = shot.weapon.sight.get_trajectory_adjustment(row, mag)
            r2 = shot.weapon.sight.get_adjustment(row.distance, row.drop_adj, row.windage_adj, mag)
            print(plane, mag, state(row.distance), state(row.drop_adj), state(row.windage_adj),
                  repr(r.vertical), repr(r.horizontal), r == r2)
print("done")
