"""Equivalence digest for property C19 (Sight click counts).

Prints a deterministic text; it must be identical on the clean worktree and with the patch applied.
"""
import copy

from py_ballisticcalc import (Sight, Unit, PreferredUnits, Distance, Angular, Calculator, DragModel, Ammo,
                              Weapon, Shot, Atmo, TableG7, Velocity, SightClicks, SightReticleStep)


def show(label, fn):
    """Print repr of the result or the exception type + message."""
    try:
        res = fn()
    except BaseException as exc:  # pylint: disable=broad-except
        print(label, '-> EXC', type(exc).__name__, repr(str(exc)))
        return None
    print(label, '->', type(res).__name__, repr(res))
    return res


def dim(d):
    """Exact description of a dimension object."""
    return (type(d).__name__, int(d.units), repr(d.raw_value), repr(d.unit_value))


def sight_state(s):
    return (s.focal_plane, dim(s.scale_factor), dim(s.h_click_size), dim(s.v_click_size))


PreferredUnits.defaults()

# ---------------------------------------------------------------- construction
print('== construction')
ctor_cases = [
    dict(),
    dict(focal_plane='FFP'),
    dict(focal_plane='XYZ', h_click_size=0.1, v_click_size=0.1),
    dict(focal_plane='XYZ'),
    dict(focal_plane=None, scale_factor=None),
    dict(focal_plane='SFP', h_click_size=0.1, v_click_size=0.1),
    dict(focal_plane='SFP', scale_factor=0, h_click_size=0.1, v_click_size=0.1),
    dict(focal_plane='SFP', scale_factor=0.0, h_click_size=Unit.Mil(0.1), v_click_size=Unit.Mil(0.1)),
    dict(focal_plane='SFP', scale_factor=Unit.Meter(0), h_click_size=0.1, v_click_size=0.1),
    dict(focal_plane='SFP'),
    dict(focal_plane='SFP', scale_factor=100),
    dict(focal_plane='SFP', scale_factor=100, h_click_size='0.1', v_click_size=0.1),
    dict(focal_plane='SFP', scale_factor=100, h_click_size=0.1, v_click_size=None),
    dict(focal_plane='FFP', h_click_size=None, v_click_size=0.1),
    dict(focal_plane='FFP', h_click_size=0.1, v_click_size='x'),
    dict(focal_plane='FFP', h_click_size=Unit.Meter(1), v_click_size=0.1),
    dict(focal_plane='FFP', h_click_size=0.1, v_click_size=Unit.Meter(1)),
    dict(focal_plane='FFP', h_click_size=0, v_click_size=0.1),
    dict(focal_plane='FFP', h_click_size=0.1, v_click_size=0),
    dict(focal_plane='FFP', h_click_size=0.0, v_click_size=0.0),
    dict(focal_plane='FFP', h_click_size=-0.1, v_click_size=0.1),
    dict(focal_plane='FFP', h_click_size=0.1, v_click_size=Unit.MOA(-0.25)),
    dict(focal_plane='LWIR', h_click_size=float('nan'), v_click_size=0.1),
    dict(focal_plane='LWIR', h_click_size=True, v_click_size=2),
    dict(focal_plane='FFP', scale_factor=50, h_click_size=1, v_click_size=2),
    dict(focal_plane='FFP', scale_factor=Unit.Meter(100), h_click_size=Unit.MOA(0.25), v_click_size=Unit.Mil(0.1)),
    dict(focal_plane='SFP', scale_factor=Unit.Meter(100), h_click_size=Unit.MOA(0.25),
         v_click_size=Unit.InchesPer100Yd(0.5)),
    dict(focal_plane='LWIR', scale_factor=Unit.Foot(300), h_click_size=Unit.CmPer100m(1.0),
         v_click_size=Unit.Thousandth(0.5)),
    dict(focal_plane='LWIR', h_click_size=Unit.Degree(400), v_click_size=Unit.Degree(0.01)),
]
for i, kw in enumerate(ctor_cases):
    s = show(f'ctor[{i}] {sorted(kw)}', lambda: Sight(**kw))
    if s is not None:
        print('   state', sight_state(s))

# positional form
s = show('ctor positional', lambda: Sight('SFP', Unit.Yard(100), Unit.Mil(0.2), Unit.Mil(0.1)))
print('   state', sight_state(s))

# side effect on the objects handed in: they are re-tagged (same object kept) with the preferred unit
click = Unit.MOA(0.25)
sf = Unit.Meter(100)
s = Sight('SFP', sf, click, click)
print('shared click', s.h_click_size is click, s.v_click_size is click, s.scale_factor is sf, dim(click), dim(sf))
# rejected sights still re-tag nothing / something?  observe the objects after a failed construction
click2 = Unit.MOA(-0.25)
good = Unit.MOA(0.5)
show('neg click', lambda: Sight('FFP', None, good, click2))
print('   after failed ctor', dim(good), dim(click2))
bad_type_v = Unit.MOA(0.5)
show('type error', lambda: Sight('FFP', None, bad_type_v, 'q'))
print('   after type error', dim(bad_type_v))
sf3 = Unit.Meter(10)
show('wrong plane', lambda: Sight('ffp', sf3, good, good))
print('   after wrong plane', dim(sf3), dim(good))

# preferred units read at construction time
PreferredUnits.adjustment = Unit.MOA
PreferredUnits.distance = Unit.Meter
s = show('ctor preferred MOA/Meter', lambda: Sight('SFP', 100, 0.25, 0.5))
print('   state', sight_state(s))
PreferredUnits.defaults()

# dataclass-generated behaviour is still driven by the same four fields
a = Sight('FFP', 100, 0.1, 0.2)
b = Sight('FFP', 100, 0.1, 0.2)
c = Sight('LWIR', 100, 0.1, 0.2)
print('eq', a == b, a == c, repr(a))
print('fields', [f for f in Sight.__dataclass_fields__])
cc = copy.copy(a)
print('copy', cc == a, sight_state(cc))

# ---------------------------------------------------------------- get_adjustment
print('== get_adjustment')
sights = {
    'FFP': Sight('FFP', Unit.Meter(100), Unit.Mil(0.25), Unit.Mil(0.1)),
    'SFP': Sight('SFP', Unit.Meter(100), Unit.Mil(0.25), Unit.Mil(0.1)),
    'LWIR': Sight('LWIR', Unit.Meter(100), Unit.Mil(0.25), Unit.Mil(0.1)),
    'FFP-moa': Sight('FFP', None, Unit.MOA(0.25), Unit.MOA(0.125)),
    'SFP-moa': Sight('SFP', Unit.Yard(100), Unit.MOA(0.25), Unit.InchesPer100Yd(0.5)),
    'LWIR-cm': Sight('LWIR', None, Unit.CmPer100m(1), Unit.Thousandth(0.3)),
    'SFP-float': Sight('SFP', 123.4, 0.17, 0.33),
}
distances = [Unit.Meter(100), Unit.Meter(200), Unit.Yard(50), Unit.Foot(1000), Unit.Kilometer(1.5),
             Unit.Meter(0.001), 100, 250.5]
corrections = [(Unit.Mil(1), Unit.Mil(1)), (Unit.Mil(-1), Unit.Mil(2.5)), (Unit.MOA(3.3), Unit.MOA(-0.7)),
               (Unit.Radian(0), Unit.Radian(-0.0)), (Unit.Degree(-0.5), Unit.CmPer100m(12)),
               (Unit.InchesPer100Yd(7), Unit.Thousandth(-3)), (Unit.Radian(1e-9), Unit.Radian(-1e9))]
magnifications = [1, 2, 10, 0.5, 3.7, 24.0, -4]
for name, s in sights.items():
    for td in distances:
        for (d, w) in corrections:
            for mag in magnifications:
                td_ = copy.copy(td)
                try:
                    r = s.get_adjustment(td_, d, w, mag)
                    out = (type(r).__name__, repr(r.vertical), repr(r.horizontal), repr(tuple(r)))
                except BaseException as exc:  # pylint: disable=broad-except
                    out = ('EXC', type(exc).__name__, str(exc))
                tdd = dim(td_) if isinstance(td_, Distance) else repr(td_)
                print(name, tdd, dim(d)[1:3], dim(w)[1:3], repr(mag), out)

# linearity / sign (exact statements on the returned floats)
for name, s in sights.items():
    r1 = s.get_adjustment(Unit.Meter(300), Unit.Mil(1.5), Unit.Mil(-0.5), 4)
    r2 = s.get_adjustment(Unit.Meter(300), Unit.Mil(-1.5), Unit.Mil(0.5), 4)
    r3 = s.get_adjustment(Unit.Meter(300), Unit.Mil(3.0), Unit.Mil(-1.0), 4)
    print('lin', name, repr(r1), repr(r2), repr(r3), r1.vertical == -r2.vertical, r1.horizontal == -r2.horizontal)

# keyword form
print('kw', repr(sights['SFP'].get_adjustment(target_distance=Unit.Meter(150), drop_adj=Unit.Mil(2),
                                             windage_adj=Unit.Mil(-1), magnification=6)))

# ---------------------------------------------------------------- error paths / edge cases
print('== edge cases')
sfp, ffp, lwir = sights['SFP'], sights['FFP'], sights['LWIR']
show('sfp td=0', lambda: sfp.get_adjustment(Unit.Meter(0), Unit.Mil(1), Unit.Mil(1), 1))
show('sfp td=0 float', lambda: sfp.get_adjustment(0, Unit.Mil(1), Unit.Mil(1), 1))
show('sfp mag=0', lambda: sfp.get_adjustment(Unit.Meter(100), Unit.Mil(1), Unit.Mil(1), 0))
show('sfp mag=0.0 zero corr', lambda: sfp.get_adjustment(Unit.Meter(100), Unit.Mil(0), Unit.Mil(0), 0.0))
show('sfp mag=None', lambda: sfp.get_adjustment(Unit.Meter(100), Unit.Mil(1), Unit.Mil(1), None))
show('sfp mag=str', lambda: sfp.get_adjustment(Unit.Meter(100), Unit.Mil(1), Unit.Mil(1), '2'))
show('sfp td=None', lambda: sfp.get_adjustment(None, Unit.Mil(1), Unit.Mil(1), 1))
show('sfp td=Angular', lambda: sfp.get_adjustment(Unit.Mil(1), Unit.Mil(1), Unit.Mil(1), 1))
show('sfp drop float', lambda: sfp.get_adjustment(Unit.Meter(100), 1.0, Unit.Mil(1), 1))
show('sfp wind float', lambda: sfp.get_adjustment(Unit.Meter(100), Unit.Mil(1), 1.0, 1))
show('sfp huge mag (wraps 2pi)', lambda: sfp.get_adjustment(Unit.Meter(100), Unit.Mil(1), Unit.Mil(1), 1e6))
show('sfp inf mag', lambda: sfp.get_adjustment(Unit.Meter(100), Unit.Mil(1), Unit.Mil(1), float('inf')))
show('sfp nan mag', lambda: sfp.get_adjustment(Unit.Meter(100), Unit.Mil(1), Unit.Mil(1), float('nan')))
show('ffp td=None mag=None', lambda: ffp.get_adjustment(None, Unit.Mil(1), Unit.Mil(1), None))
show('ffp drop float', lambda: ffp.get_adjustment(Unit.Meter(100), 1.0, Unit.Mil(1), 1))
show('ffp wind None', lambda: ffp.get_adjustment(Unit.Meter(100), Unit.Mil(1), None, 1))
show('lwir mag=0', lambda: lwir.get_adjustment(Unit.Meter(100), Unit.Mil(1), Unit.Mil(1), 0))
show('lwir mag=0 drop float', lambda: lwir.get_adjustment(Unit.Meter(100), 1.0, Unit.Mil(1), 0))
show('lwir mag=None', lambda: lwir.get_adjustment(Unit.Meter(100), Unit.Mil(1), Unit.Mil(1), None))
show('lwir td=None', lambda: lwir.get_adjustment(None, Unit.Mil(1), Unit.Mil(1), 2))
show('lwir wind float', lambda: lwir.get_adjustment(Unit.Meter(100), Unit.Mil(1), 2.0, 2))
show('lwir inf mag', lambda: lwir.get_adjustment(Unit.Meter(100), Unit.Mil(1), Unit.Mil(1), float('inf')))

# the SFP path re-tags the distance object it is given with the preferred distance unit; FFP / LWIR do not
for name in ('SFP', 'FFP', 'LWIR'):
    td = Unit.Meter(321)
    sights[name].get_adjustment(td, Unit.Mil(1), Unit.Mil(1), 3)
    print('retag', name, dim(td))
PreferredUnits.distance = Unit.Foot
td = Unit.Meter(321)
print('retag Foot', repr(sfp.get_adjustment(td, Unit.Mil(1), Unit.Mil(1), 3)), dim(td))
print('float td in Foot', repr(sfp.get_adjustment(321, Unit.Mil(1), Unit.Mil(1), 3)))
PreferredUnits.defaults()

# SFP reticle steps (used directly by the shipped tests)
for td, mag in [(Unit.Meter(100), 1), (Unit.Meter(200), 10), (Unit.Yard(50), 2.5), (77, 3)]:
    st = show(f'steps {td!r} {mag!r}', lambda: sfp._adjust_sfp_reticle_steps(td, mag))
    print('   ', type(st).__name__, st._fields, dim(st.vertical), dim(st.horizontal), st[0] is st.vertical)
show('steps on FFP', lambda: ffp._adjust_sfp_reticle_steps(Unit.Meter(100), 1))
show('steps on LWIR', lambda: lwir._adjust_sfp_reticle_steps(Unit.Meter(100), 1))
st = sights['SFP-moa']._adjust_sfp_reticle_steps(Unit.Yard(250), 7)
print('steps moa', dim(st.vertical), dim(st.horizontal))

# sight whose definition was changed after construction
m = Sight('FFP', Unit.Meter(100), Unit.Mil(0.25), Unit.Mil(0.1))
for plane in ('SFP', 'LWIR', 'FFP', 'ffp', None, 'XXX', ['SFP'], 3):
    m.focal_plane = plane
    show(f'mutated plane {plane!r}', lambda: m.get_adjustment(Unit.Meter(200), Unit.Mil(1), Unit.Mil(-2), 5))
m.focal_plane = 'SFP'
m.scale_factor = Unit.Yard(200)
m.h_click_size = Unit.MOA(1)
m.v_click_size = Unit.Degree(0.1)
show('mutated fields', lambda: m.get_adjustment(Unit.Meter(200), Unit.Mil(1), Unit.Mil(-2), 5))
m.v_click_size = Unit.Radian(0)
show('mutated zero v click sfp', lambda: m.get_adjustment(Unit.Meter(200), Unit.Mil(1), Unit.Mil(-2), 5))
m.focal_plane = 'FFP'
show('mutated zero v click ffp', lambda: m.get_adjustment(Unit.Meter(200), Unit.Mil(1), Unit.Mil(-2), 5))
m.focal_plane = 'LWIR'
show('mutated zero v click lwir', lambda: m.get_adjustment(Unit.Meter(200), Unit.Mil(1), Unit.Mil(-2), 5))
m.v_click_size = None
for plane in ('SFP', 'FFP', 'LWIR'):
    m.focal_plane = plane
    show(f'mutated None v click {plane}', lambda: m.get_adjustment(Unit.Meter(200), Unit.Mil(1), Unit.Mil(-2), 5))

# ---------------------------------------------------------------- trajectory rows
print('== get_trajectory_adjustment')
dm = DragModel(0.22, TableG7, 168, 0.308, 1.22)
for plane in ('FFP', 'SFP', 'LWIR'):
    sight = Sight(plane, Unit.Meter(100), Unit.Mil(0.2), Unit.MOA(0.25))
    weapon = Weapon(Unit.Inch(2), Unit.Inch(12), sight=sight)
    shot = Shot(weapon=weapon, ammo=Ammo(dm, Velocity.FPS(2600)), atmo=Atmo.icao())
    calc = Calculator()
    calc.set_weapon_zero(shot, Unit.Meter(100))
    hit = calc.fire(shot, trajectory_range=Unit.Meter(800), trajectory_step=Unit.Meter(100))
    for row in hit.trajectory:
        for mag in (1, 8, 2.5):
            label = f'{plane} row {row.distance.raw_value!r} mag {mag!r}'
            r = show(label, lambda: shot.weapon.sight.get_trajectory_adjustment(row, mag))
            direct = show(label + ' direct',
                          lambda: sight.get_adjustment(row.distance, row.drop_adj, row.windage_adj, mag))
            print('   same', r == direct, dim(row.distance)[1])
show('traj None', lambda: sights['FFP'].get_trajectory_adjustment(None, 1))
show('traj tuple', lambda: sights['SFP'].get_trajectory_adjustment((1, 2, 3), 1))


class Row:  # duck-typed row: only the three attributes are needed
    def __init__(self, **kw):
        self.__dict__.update(kw)


show('traj duck', lambda: sights['LWIR'].get_trajectory_adjustment(
    Row(distance=Unit.Meter(10), drop_adj=Unit.Mil(-3), windage_adj=Unit.Mil(4)), 2))
show('traj duck missing windage', lambda: sights['LWIR'].get_trajectory_adjustment(
    Row(distance=Unit.Meter(10), drop_adj=Unit.Mil(-3)), 2))
show('traj duck missing distance+drop', lambda: sights['FFP'].get_trajectory_adjustment(
    Row(windage_adj=Unit.Mil(-3)), 2))
print('types', SightClicks._fields, SightReticleStep._fields)
