"""Equivalence digest for C19 / refactoring 3 (Angular / Distance conversion ladders).

Prints a deterministic text; must be identical on the clean worktree and with the patch.
"""
import logging
from math import pi

logging.disable(logging.CRITICAL)

from py_ballisticcalc import Sight, Unit, PreferredUnits
from py_ballisticcalc.unit import AbstractDimension, Angular, Distance
from py_ballisticcalc.munition import SightClicks, SightReticleStep


def h(x):
    if isinstance(x, float):
        return x.hex()
    return repr(x)


def desc(r):
    if isinstance(r, SightClicks):
        return f'SightClicks {h(r.vertical)} {h(r.horizontal)}'
    if isinstance(r, SightReticleStep):
        return f'Step {desc(r.vertical)} | {desc(r.horizontal)}'
    if isinstance(r, AbstractDimension):
        return f'{type(r).__name__} raw={h(r.raw_value)} units={r.units!r}'
    return h(r)


def show(tag, fn):
    try:
        r = fn()
        text = desc(r)
    except BaseException as e:  # noqa
        print(tag, '-> EXC', type(e).__name__, str(e))
        return None
    print(tag, '->', text)
    return r


ANG_UNITS = [u for u in Unit if 0 <= u < 10]
DIST_UNITS = [u for u in Unit if 10 <= u < 20]
ANG_VALUES = [0, 0.0, -0.0, 1, -1, 0.25, 0.1, -2.3, 7.25, 359.9, 360, 361, 400, -400, 6400, 6401, 21600.5,
              2 * pi, 2 * pi + 1e-12, 6.283185307179587, 7.0, 100000.0, 1e-300, 1e300, True,
              float('inf'), float('-inf'), float('nan'), 12, 13, 3600 * 1e6, 6283.2, 6000, 6001]
DIST_VALUES = [0, 0.0, -0.0, 1, -1, 100, 100.0, 0.1, 237.5, -50, 1e-300, 1e300, True,
               float('inf'), float('nan'), 12, 36, 25.4, 914.4]
RAW_ANGLES = [0.0, -0.0, 1e-4, -1e-4, 0.001, 0.5, 1.0, pi / 2, 1.5707963267948966, 2.0, pi, -pi, 2 * pi, 7.0,
              -7.0, 100.0, 1e-300, float('inf'), float('nan')]


def run_conversions():
    print('=== Angular.to_raw / from_raw')
    for u in ANG_UNITS:
        for v in ANG_VALUES:
            a = show(f'Angular({v!r}, {u.name})', lambda: Angular(v, u))
            if a is None:
                continue
            show('   unit_value', lambda: a.unit_value)
            show('   str', lambda: str(a))
        show(f'Angular(str, {u.name})', lambda: Angular('1', u))
        show(f'Angular(None, {u.name})', lambda: Angular(None, u))
    for raw in RAW_ANGLES:
        a = Angular(raw, Unit.Radian)
        print('raw', h(a.raw_value))
        for u in ANG_UNITS:
            show(f'   >> {u.name}', lambda: a >> u)
            show(f'   get_in {u.name}', lambda: a.get_in(u))
            show(f'   from_raw {u.name}', lambda: a.from_raw(raw, u))
    print('=== Distance.to_raw / from_raw')
    for u in DIST_UNITS:
        for v in DIST_VALUES:
            d = show(f'Distance({v!r}, {u.name})', lambda: Distance(v, u))
            if d is None:
                continue
            show('   unit_value', lambda: d.unit_value)
            show('   str', lambda: str(d))
            for u2 in DIST_UNITS:
                show(f'   >> {u2.name}', lambda: d >> u2)
        show(f'Distance(str, {u.name})', lambda: Distance('1', u))
        show(f'Distance(None, {u.name})', lambda: Distance(None, u))
    print('=== wrong units')
    for cls in (Angular, Distance):
        for bad in (Unit.Meter, Unit.Mil, Unit.FPS, Unit.Grain, 'mil', None, 3, 17, 3.0, 17.0, 25, [3], (17,)):
            show(f'{cls.__name__}(1.5, {bad!r})', lambda: cls(1.5, bad))
            show(f'{cls.__name__} >> {bad!r}', lambda: cls(1.5, cls.Radian if cls is Angular else cls.Inch) >> bad)
            show(f'{cls.__name__} to_raw {bad!r}',
                 lambda: cls(1.5, cls.Radian if cls is Angular else cls.Inch).to_raw(2.5, bad))
            show(f'{cls.__name__} from_raw {bad!r}',
                 lambda: cls(1.5, cls.Radian if cls is Angular else cls.Inch).from_raw(2.5, bad))
    print('=== subclass falling through to its own units')

    class MyAngular(Angular):
        def to_raw(self, value, units):
            print('      MyAngular.to_raw', value, units)
            return super().to_raw(value, units)

        def from_raw(self, value, units):
            print('      MyAngular.from_raw', value, units)
            return super().from_raw(value, units)

    show('MyAngular mil', lambda: MyAngular(9000, Unit.Mil))
    show('MyAngular mil value', lambda: MyAngular(9000, Unit.Mil).unit_value)
    show('MyAngular bad', lambda: MyAngular(1, Unit.Meter))


def sights():
    for i, u in enumerate(ANG_UNITS):
        v = u
        hu = ANG_UNITS[(i + 3) % len(ANG_UNITS)]
        du = DIST_UNITS[i % len(DIST_UNITS)]
        yield f'sfp_{v.name}_{hu.name}_{du.name}', (lambda v=v, hu=hu, du=du:
                                                    Sight('SFP', du(100), hu(0.25), v(0.125)))
        yield f'ffp_{v.name}_{hu.name}', (lambda v=v, hu=hu: Sight('FFP', None, hu(0.25), v(0.125)))
        yield f'lwir_{v.name}_{hu.name}', (lambda v=v, hu=hu: Sight('LWIR', None, hu(0.25), v(0.125)))
    yield 'sfp_float', lambda: Sight('SFP', 100, 0.1, 0.2)
    yield 'sfp_bigclick', lambda: Sight('SFP', Unit.Meter(100), Unit.Degree(200), Unit.Degree(100))
    yield 'ffp_wrapclick', lambda: Sight('FFP', None, Unit.Degree(365), Unit.Mil(6500))


def run_sights(label):
    print('=== sights', label, PreferredUnits.adjustment.name, PreferredUnits.distance.name)
    for sname, smk in sights():
        s = show(f'{sname} new', smk)
        if s is None:
            continue
        show('   parts', lambda: ' | '.join(map(desc, (s.scale_factor, s.h_click_size, s.v_click_size))))
        for j, td in enumerate((lambda: Unit.Meter(100), lambda: Unit.Yard(437), lambda: 250,
                                lambda: Unit.Kilometer(1.2), lambda: Unit.Line(5000), lambda: Unit.Meter(0))):
            for mag in (1, 4.5, 12, 40):
                for dv, dh in ((Unit.Mil(1), Unit.Mil(1)), (Unit.MOA(-3.25), Unit.Degree(0.05)),
                               (Unit.CmPer100m(-14), Unit.InchesPer100Yd(2)), (Unit.OClock(0.01), Unit.Thousandth(-3)),
                               (Unit.Radian(0), Unit.MRad(-0.0))):
                    t = td()
                    show(f'{sname} td{j} x{mag} {desc(dv)} {desc(dh)}',
                         lambda: s.get_adjustment(t, dv, dh, mag))
                if s.focal_plane == 'SFP':
                    show(f'{sname} td{j} step x{mag}', lambda: s._adjust_sfp_reticle_steps(td(), mag))
    print('--- rejected')
    show('bad plane', lambda: Sight('TFP', Unit.Meter(100), Unit.Mil(1), Unit.Mil(1)))
    show('sfp no scale', lambda: Sight('SFP', None, Unit.Mil(1), Unit.Mil(1)))
    show('no clicks', lambda: Sight('FFP'))
    show('v zero', lambda: Sight('FFP', None, Unit.Mil(1), Unit.Mil(0)))
    show('v zero moa', lambda: Sight('FFP', None, Unit.Mil(1), Unit.MOA(-0.0)))
    show('h neg', lambda: Sight('LWIR', None, -1.0, Unit.Mil(1)))
    show('h neg deg', lambda: Sight('LWIR', None, Unit.Degree(-1), Unit.Mil(1)))
    show('h nan', lambda: Sight('LWIR', None, float('nan'), Unit.Mil(1)))


if __name__ == '__main__':
    PreferredUnits.defaults()
    run_conversions()
    run_sights('defaults')
    PreferredUnits.set(adjustment=Unit.MOA, distance=Unit.Meter)
    run_sights('moa/meter')
    PreferredUnits.set(adjustment=Unit.CmPer100m, distance=Unit.Line)
    run_sights('cm100m/line')
    PreferredUnits.defaults()
