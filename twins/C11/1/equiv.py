"""Equivalence driver for C11 refactoring 1 (should_record split into helpers + _lerp).

Prints a deterministic digest (repr of raw floats) of
  A. Calculator.fire rows for many (range, step, time_step, extra_data) requests on varied shots,
  B. direct _TrajectoryDataFilter.should_record call histories incl. edge cases
     (several record distances skipped in one step, no forward progress, backwards motion,
      range_step == 0 or < 0, time_step only, zero/mach crossings on top of a range row),
  C. _WindSock call histories,
  D. the debug-log messages of should_record and the iteration count logged by _integrate.
Must print exactly the same text on the clean worktree and with the patch applied.
"""
import logging
import math
import warnings

warnings.simplefilter("ignore")

from py_ballisticcalc import (Calculator, Shot, Weapon, Ammo, Atmo, Wind, DragModel, TableG1, TableG7,
                              RangeError, InterfaceConfigDict)
from py_ballisticcalc.unit import Distance, Velocity, Angular, Weight, Temperature, Pressure
from py_ballisticcalc.trajectory_calc import _TrajectoryDataFilter, _WindSock
from py_ballisticcalc.trajectory_data import TrajFlag
from py_ballisticcalc.vector import Vector


def row_digest(r):
    return (r.time, r.distance.raw_value, r.velocity.raw_value, r.mach, r.height.raw_value,
            r.target_drop.raw_value, r.drop_adj.raw_value, r.windage.raw_value, r.windage_adj.raw_value,
            r.look_distance.raw_value, r.angle.raw_value, r.density_factor, r.drag,
            r.energy.raw_value, r.ogw.raw_value, int(r.flag))


def fire(calc, shot, rng, step, extra, tstep, label):
    try:
        hit = calc.fire(shot, rng, step, extra_data=extra, time_step=tstep)
        rows, err = hit.trajectory, None
    except RangeError as e:
        rows, err = e.incomplete_trajectory, e.reason
    except Exception as e:  # any other exception type must also be identical
        rows, err = [], f"{type(e).__name__}: {e}"
    print(f"## {label} range={rng!r} step={step!r} extra={extra} time_step={tstep} -> n={len(rows)} err={err}")
    for r in rows:
        print(repr(row_digest(r)))


def shots():
    dm7 = DragModel(0.22, TableG7, 168, 0.308, 1.22)
    dm1 = DragModel(0.759, TableG1, Weight.Gram(108), Distance.Millimeter(23), Distance.Millimeter(108.2))
    out = []
    # 1 flat baseline, sea level
    out.append(("flat", Calculator(), Shot(weapon=Weapon(4, 12), ammo=Ammo(dm7, Velocity.FPS(2600)),
                                           atmo=Atmo.icao())))
    # 2 zeroed, winds in several segments, look angle, cant
    calc = Calculator()
    w = Weapon(Distance.Inch(2), Distance.Inch(-9))
    s = Shot(weapon=w, ammo=Ammo(dm7, Velocity.FPS(2750)), atmo=Atmo.icao(),
             winds=[Wind(Velocity.MPH(8), Angular.Degree(90), Distance.Yard(200)),
                    Wind(Velocity.MPH(12), Angular.Degree(250), Distance.Yard(450)),
                    Wind(Velocity.MPH(4), Angular.Degree(30), Distance.Yard(700))])
    calc.set_weapon_zero(s, Distance.Yard(100))
    s.look_angle = Angular.Degree(5)
    s.cant_angle = Angular.Degree(7)
    out.append(("zeroed+winds+look+cant", calc, s))
    # 3 high angle lob: ZERO_UP / ZERO_DOWN / MACH events and time_step rows
    calc = Calculator(_config=InterfaceConfigDict(cMinimumVelocity=0))
    s = Shot(weapon=Weapon(), ammo=Ammo(dm1, Velocity.MPS(930)))
    s.relative_angle = Angular.Degree(60)
    out.append(("lob60", calc, s))
    # 4 downward look angle, barrel below sight line at start, altitude
    calc = Calculator()
    s = Shot(weapon=Weapon(Distance.Inch(3), 10), ammo=Ammo(dm7, Velocity.FPS(2400)),
             atmo=Atmo(altitude=Distance.Foot(5000), temperature=Temperature.Fahrenheit(40),
                       pressure=Pressure.InHg(24.9), humidity=0.3),
             look_angle=Angular.Degree(-4), relative_angle=Angular.Degree(-5))
    out.append(("downhill", calc, s))
    # 5 coarse integration step config
    calc = Calculator(_config=InterfaceConfigDict(max_calc_step_size_feet=2.0))
    s = Shot(weapon=Weapon(0, 8), ammo=Ammo(dm7, Velocity.FPS(3000)), atmo=Atmo.icao(),
             winds=[Wind(Velocity.MPH(10), Angular.Degree(135))])
    s.relative_angle = Angular.Mil(3)
    out.append(("coarse", calc, s))
    # 6 early termination configs (drop / altitude / velocity)
    calc = Calculator(_config=InterfaceConfigDict(cMinimumVelocity=0, cMinimumAltitude=Distance.Meter(0),
                                                  cMaximumDrop=Distance.Meter(0)))
    s = Shot(weapon=Weapon(), ammo=Ammo(dm1, Velocity.MPS(930)))
    s.relative_angle = Angular.Degree(2)
    out.append(("ground0", calc, s))
    calc = Calculator(_config=InterfaceConfigDict(cMinimumVelocity=1500))
    s = Shot(weapon=Weapon(2, 12), ammo=Ammo(dm7, Velocity.FPS(2600)), atmo=Atmo.icao())
    out.append(("minvel1500", calc, s))
    return out


REQUESTS = [
    (Distance.Yard(1000), Distance.Yard(100), False, 0.0),
    (Distance.Yard(500), Distance.Yard(100), False, 0.0),
    (Distance.Yard(1000), Distance.Yard(50), False, 0.0),
    (Distance.Yard(1000), Distance.Yard(100), True, 0.0),
    (Distance.Yard(700), Distance.Yard(100), True, 0.05),
    (Distance.Yard(1000), Distance.Yard(100), False, 0.25),
    (Distance.Yard(300), 0, False, 0.0),                      # default step = range / 10
    (Distance.Foot(20), Distance.Foot(0.1), False, 0.0),      # record step smaller than calc step
    (Distance.Foot(20), Distance.Foot(0.1), True, 0.0),
    (Distance.Yard(400), Distance.Yard(400), False, 0.0),     # single step == range
    (Distance.Yard(100), Distance.Yard(1000), True, 0.0),     # step beyond range
    (Distance.Foot(0), Distance.Foot(10), False, 0.0),        # zero range
    (Distance.Foot(-10), Distance.Foot(10), False, 0.0),      # negative range (loop never runs)
    (Distance.Meter(3000), Distance.Meter(250), True, 0.5),
]


def part_a():
    for name, calc, shot in shots():
        for rng, step, extra, tstep in REQUESTS:
            fire(calc, shot, rng, step, extra, tstep, name)


def bt(d):
    if d is None:
        return None
    return (d.time, tuple(d.position), tuple(d.velocity), d.mach)


def drive_filter(label, flt, points):
    print(f"## filter {label}")
    for (pos, vel, mach, t) in points:
        flt.clear_current_flag()
        d = flt.should_record(pos, vel, mach, t)
        print(repr((bt(d), int(flt.current_flag), int(flt.seen_zero), flt.next_record_distance,
                    flt.time_of_last_record, flt.previous_time, tuple(flt.previous_position),
                    tuple(flt.previous_velocity), flt.previous_mach, flt.previous_v_mach)))


P0 = Vector(0.0, -0.2, 0.0)
V0 = Vector(2500.0, 30.0, 0.0)
PTS = [
    (P0, V0, 1116.0, 0.0),
    (Vector(0.9, -0.19, 0.001), Vector(2490.0, 29.0, 0.1), 1116.1, 0.00036),
    (Vector(3.7, -0.1, 0.004), Vector(2400.0, 25.0, 0.2), 1116.2, 0.0015),      # skips several distances
    (Vector(3.7, -0.05, 0.004), Vector(2400.0, 20.0, 0.2), 1116.2, 0.0019),     # no forward progress
    (Vector(3.2, 0.05, 0.004), Vector(-100.0, 10.0, 0.2), 1116.3, 0.0069),      # moved backwards
    (Vector(4.000000000000001, 0.3, 0.01), Vector(1200.0, 1.0, 0.2), 1116.4, 0.0079),
    (Vector(5.0, 0.2, 0.01), Vector(1100.0, -5.0, 0.3), 1116.5, 0.0089),        # mach crossing + range
    (Vector(6.3, -0.3, 0.02), Vector(1000.0, -9.0, 0.3), 1116.6, 0.0102),       # zero down
    (Vector(6.4, -0.9, 0.02), Vector(900.0, -19.0, 0.3), 1116.7, 0.7),          # time step
    (Vector(60.4, -9.9, 0.5), Vector(800.0, -29.0, 0.3), 1116.8, 0.9),          # long jump
]


def part_b():
    p0, v0, pts = P0, V0, PTS
    for flags in (TrajFlag.RANGE, TrajFlag.ALL, TrajFlag.ZERO, TrajFlag.NONE, TrajFlag.MACH | TrajFlag.RANGE):
        for rstep, tstep in ((1.0, 0.0), (0.5, 0.0), (0.3, 0.001), (0.0, 0.0005), (0.0, 0.0), (100.0, 0.0),
                             (-1.0, 0.002)):
            for look, elev in ((0.0, 0.01), (0.02, 0.01), (-0.05, 0.0)):
                flt = _TrajectoryDataFilter(flags, rstep, p0, v0, tstep)
                flt.setup_seen_zero(p0.y, elev, look)
                drive_filter(f"flags={int(flags)} rstep={rstep} tstep={tstep} look={look} elev={elev}", flt, pts)
    # muzzle above the sight line
    flt = _TrajectoryDataFilter(TrajFlag.ALL, 1.0, Vector(0.0, 0.0, 0.0), v0, 0.0)
    flt.setup_seen_zero(0.0, 0.0, 0.0)
    drive_filter("height0", flt, [(Vector(p.x, p.y + 0.2, p.z), v, m, t) for (p, v, m, t) in pts])


def part_d():
    """Debug-logging branches: messages go to the library logger; capture and print them."""
    from py_ballisticcalc.logger import logger, set_debug
    records = []

    class H(logging.Handler):
        def emit(self, record):
            records.append(record.getMessage())

    h = H()
    h.setLevel(logging.DEBUG)
    logger.addHandler(h)
    set_debug(True)
    try:
        flt = _TrajectoryDataFilter(TrajFlag.ALL, 1.0, P0, V0, 0.0)
        flt.setup_seen_zero(P0.y, 0.01, 0.0)
        drive_filter("debug", flt, PTS[:5])
        name, calc, shot = shots()[1]
        fire(calc, shot, Distance.Foot(6), Distance.Foot(2), True, 0.0, name + "/debug")
        fire(calc, shot, Distance.Yard(300), Distance.Yard(100), False, 0.0, name + "/debug")
    finally:
        set_debug(False)
        logger.removeHandler(h)
    print("## debug log")
    for m in records:
        if m.startswith("should_record") or m.startswith("euler"):
            print(m)


def part_c():
    print("## windsock")
    winds = (Wind(Velocity.FPS(10), Angular.Degree(90), Distance.Foot(100)),
             Wind(Velocity.FPS(5), Angular.Degree(200), Distance.Foot(300)))
    for ws_winds in (winds, (), None, winds[:1]):
        ws = _WindSock(ws_winds)
        print(repr((tuple(ws.current_vector()), ws.next_range, ws.current)))
        for x in (0.0, 50.0, 100.0, 100.0, 250.0, 300.0, 1e9, 5.0):
            v = ws.vector_for_range(x)
            print(repr((x, tuple(v), ws.next_range, ws.current)))


if __name__ == "__main__":
    part_a()
    part_b()
    part_c()
    part_d()
