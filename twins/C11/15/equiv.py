"""Deterministic digest of Calculator.fire / zeroing results over varied requests.

Run:  cd /tmp/wt/t5_C11 && PYTHONPATH=/tmp/wt/t5_C11 /venv/bin/python <this file>
Must print the same text on the clean worktree and with the patch applied.
"""
import hashlib
import io
import logging
import warnings

warnings.simplefilter("ignore")

from py_ballisticcalc import (DragModel, Ammo, Weapon, Calculator, Shot, Wind, Atmo,
                              TableG7, TableG1, RangeError)
from py_ballisticcalc.unit import Distance, Velocity, Angular, Temperature, Unit, PreferredUnits
from py_ballisticcalc.trajectory_calc import _TrajectoryDataFilter
from py_ballisticcalc.trajectory_data import TrajFlag
from py_ballisticcalc.vector import Vector
from py_ballisticcalc import logger as _logger_mod
from py_ballisticcalc.logger import logger, set_debug

PreferredUnits.distance = Unit.Foot
PreferredUnits.velocity = Unit.FPS

LINES = []


def out(text):
    LINES.append(text)


def row_repr(r):
    return repr((r.time, r.distance.raw_value, r.velocity.raw_value, r.mach, r.height.raw_value,
                 r.target_drop.raw_value, r.drop_adj.raw_value, r.windage.raw_value,
                 r.windage_adj.raw_value, r.look_distance.raw_value, r.angle.raw_value,
                 r.density_factor, r.drag, r.energy.raw_value, r.ogw.raw_value, int(r.flag)))


def dump(label, rows):
    h = hashlib.sha256()
    for r in rows:
        h.update(row_repr(r).encode())
    out(f"{label}: n={len(rows)} sha={h.hexdigest()[:24]}")
    if rows:
        out("   first " + row_repr(rows[0]))
        out("   last  " + row_repr(rows[-1]))
    flagged = [(repr(r.distance.raw_value), int(r.flag)) for r in rows if int(r.flag) & ~TrajFlag.RANGE]
    out("   events " + repr(flagged))


def fire(label, calc, shot, rng, step, extra=False, time_step=0.0):
    try:
        hit = calc.fire(shot, Distance.Foot(rng), Distance.Foot(step) if step else 0,
                        extra_data=extra, time_step=time_step)
        dump(label, list(hit.trajectory))
    except RangeError as e:
        out(f"{label}: RangeError reason={e.reason!r} last={e.last_distance!r}")
        dump(label + " (incomplete)", list(e.incomplete_trajectory))
    except Exception as e:  # pylint: disable=broad-except
        out(f"{label}: {type(e).__name__}: {e}")


def shots():
    dm7 = DragModel(0.22, TableG7, 168, 0.308, 1.22)
    dm1 = DragModel(0.223, TableG1, 168, 0.308, 1.282)
    w = Weapon(Distance.Inch(4), Distance.Inch(12))
    res = {}
    res["flat"] = Shot(weapon=w, ammo=Ammo(dm7, Velocity.FPS(2600)), atmo=Atmo.icao())
    res["zeroed"] = Shot(weapon=Weapon(Distance.Inch(2), Distance.Inch(-9)),
                         ammo=Ammo(dm1, Velocity.FPS(2750)),
                         atmo=Atmo(altitude=Distance.Foot(1500), temperature=Temperature.Fahrenheit(40)),
                         winds=[Wind(Velocity.MPH(7), Angular.OClock(3), Distance.Foot(600)),
                                Wind(Velocity.MPH(12), Angular.OClock(10), Distance.Foot(1500))])
    res["uphill"] = Shot(weapon=Weapon(Distance.Inch(3), Distance.Inch(10)),
                         ammo=Ammo(dm7, Velocity.FPS(2900)), atmo=Atmo.icao(),
                         look_angle=Angular.Degree(12), cant_angle=Angular.Degree(7),
                         winds=[Wind(Velocity.MPH(5), Angular.OClock(9))])
    res["below"] = Shot(weapon=Weapon(Distance.Inch(-2), Distance.Inch(12)),  # barrel above the sight line
                        ammo=Ammo(dm7, Velocity.FPS(2600)), atmo=Atmo.icao())
    res["lob"] = Shot(weapon=Weapon(Distance.Inch(2), Distance.Inch(12)),
                      ammo=Ammo(dm1, Velocity.FPS(1100)), atmo=Atmo.icao(),
                      relative_angle=Angular.Degree(35))
    res["steep"] = Shot(weapon=Weapon(Distance.Inch(2), Distance.Inch(12)),
                        ammo=Ammo(dm7, Velocity.FPS(2600)), atmo=Atmo.icao(),
                        relative_angle=Angular.Degree(89.5))
    return res


def main():
    calc = Calculator()
    all_shots = shots()
    calc.set_weapon_zero(all_shots["zeroed"], Distance.Foot(300))
    out("zero zeroed " + repr(all_shots["zeroed"].weapon.zero_elevation.raw_value))
    calc.set_weapon_zero(all_shots["uphill"], Distance.Foot(600))
    out("zero uphill " + repr(all_shots["uphill"].weapon.zero_elevation.raw_value))
    out("elev below " + repr(calc.barrel_elevation_for_target(all_shots["below"], Distance.Foot(450)).raw_value))

    requests = [
        (3000, 300, False, 0.0),
        (1500, 300, False, 0.0),
        (3000, 100, False, 0.0),
        (3000, 300, True, 0.0),
        (1500, 100, True, 0.0),
        (3000, 300, False, 0.05),
        (3000, 300, True, 0.05),
        (900, 0, False, 0.0),       # default step = range / 10
        (600, 0.1, False, 0.0),     # record step smaller than the calculation step
        (600, 0.1, True, 0.0),
        (10, 1000, False, 0.0),     # step larger than the range
        (0, 100, False, 0.0),       # zero range
        (0.3, 0.3, True, 0.0),
        (-10, 1, False, 0.0),       # negative range: the integration loop is never entered
        (-0.2, 100, True, 0.0),     # negative range, but within the end tolerance of the loop
    ]
    for name in ("flat", "zeroed", "uphill", "below"):
        for rng, step, extra, ts in requests:
            fire(f"{name} r={rng} s={step} x={int(extra)} t={ts}", calc, all_shots[name], rng, step, extra, ts)

    # slow high-angle shots: time based records, early termination
    for rng, step, extra, ts in [(6000, 500, False, 0.0), (6000, 500, True, 0.0),
                                 (6000, 500, False, 0.5), (6000, 250, True, 0.5)]:
        fire(f"lob r={rng} s={step} x={int(extra)} t={ts}", calc, all_shots["lob"], rng, step, extra, ts)
    for rng, step, extra, ts in [(2000, 500, False, 0.0), (2000, 500, False, 1.0), (2000, 200, True, 1.0)]:
        fire(f"steep r={rng} s={step} x={int(extra)} t={ts}", calc, all_shots["steep"], rng, step, extra, ts)

    # other configurations: coarse / fine integration step and early-termination limits
    for cfg in ({"max_calc_step_size_feet": 1.0}, {"max_calc_step_size_feet": 0.1},
                {"cMinimumVelocity": 1500.0}, {"cMaximumDrop": -20.0}, {"cMinimumAltitude": -3.0},
                {"cMinimumVelocity": 1500.0, "cMaximumDrop": -2.0, "cMinimumAltitude": -1.0}):
        c2 = Calculator(_config=cfg)
        for rng, step, extra, ts in [(3000, 300, False, 0.0), (3000, 150, True, 0.0), (1200, 300, False, 0.02)]:
            fire(f"cfg={sorted(cfg.items())} flat r={rng} s={step} x={int(extra)} t={ts}",
                 c2, all_shots["flat"], rng, step, extra, ts)

    # the observer driven directly (it is exported by the package)
    for flags, rstep, tstep in [(TrajFlag.RANGE, 1.0, 0.0), (TrajFlag.ALL, 1.0, 0.0), (TrajFlag.ALL, 0.0, 0.01),
                                (TrajFlag.RANGE, 0.25, 0.0), (TrajFlag.NONE, 1.0, 0.0), (TrajFlag.MACH, 2.5, 0.004)]:
        pos = Vector(0.0, -0.2, 0.0)
        vel = Vector(1300.0, 30.0, 0.5)
        f = _TrajectoryDataFilter(flags, rstep, pos, vel, tstep)
        f.setup_seen_zero(pos.y, 0.02, 0.001)
        t = 0.0
        acc = []
        for i in range(60):
            f.clear_current_flag()
            d = f.should_record(pos, vel, 1116.0 + 0.01 * i, t)
            acc.append((None if d is None else (d.time, tuple(d.position), tuple(d.velocity), d.mach),
                        int(f.current_flag), int(f.seen_zero), f.next_record_distance,
                        f.time_of_last_record, f.previous_v_mach))
            dt = 0.0005 * (1 + (i % 7))
            vel = Vector(vel.x - 12.0 * (1 + (i % 3)), vel.y - 3.0, vel.z)
            # now and then the point does not advance, or moves back, or jumps several record steps
            dx = vel.x * dt if i % 11 else (0.0 if i % 2 else -0.05)
            if i % 13 == 5:
                dx = 4.7
            pos = Vector(pos.x + dx, pos.y + vel.y * dt, pos.z + 0.001)
            t += dt
        out(f"filter flags={int(flags)} rs={rstep} ts={tstep} sha="
            + hashlib.sha256(repr(acc).encode()).hexdigest()[:24])
        out("   tail " + repr(acc[-1]))

    # debug trace (messages of the observer and of the integrator)
    buf = io.StringIO()
    handler = logging.StreamHandler(buf)
    handler.setLevel(logging.DEBUG)
    handler.setFormatter(logging.Formatter("%(levelname)s:%(message)s"))
    logger.addHandler(handler)
    for h in list(logger.handlers):
        if h is not handler:
            logger.removeHandler(h)
    set_debug(True)
    try:
        fire("debug flat", calc, all_shots["flat"], 12, 3, True, 0.0)
        fire("debug uphill", calc, all_shots["uphill"], 9, 2, False, 0.001)
    finally:
        set_debug(False)
        logger.removeHandler(handler)
    text = buf.getvalue()
    out(f"debug log: lines={text.count(chr(10))} sha={hashlib.sha256(text.encode()).hexdigest()[:24]}")

    print("\n".join(LINES))
    print("TOTAL", hashlib.sha256("\n".join(LINES).encode()).hexdigest())


if __name__ == "__main__":
    main()
