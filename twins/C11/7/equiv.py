"""Equivalence digest for property C11 (what is recorded never changes what is computed).

Runs a set of varied shots / requests through the public API and prints, for every request,
the number of rows and a sha256 over repr() of every number in every row (so any one-ulp
change anywhere shows up), plus a few rows in clear text.
Must print exactly the same text on the clean worktree and with the patch applied.
"""
import hashlib
import logging
import warnings

warnings.simplefilter("ignore")

from py_ballisticcalc import (Calculator, DragModel, Ammo, Weapon, Shot, Wind, Atmo, Vacuum,  # noqa: E402
                              TableG1, TableG7, RangeError)
from py_ballisticcalc.exceptions import ZeroFindingError  # noqa: E402
from py_ballisticcalc.unit import Distance, Velocity, Angular, Temperature, Pressure, Weight  # noqa: E402
from py_ballisticcalc.trajectory_calc import TrajectoryCalc  # noqa: E402
from py_ballisticcalc.interface_config import create_interface_config  # noqa: E402
from py_ballisticcalc.logger import logger  # noqa: E402

logger.setLevel(logging.ERROR)


def row_numbers(r):
    return (r.time, r.distance.raw_value, r.velocity.raw_value, r.mach, r.height.raw_value,
            r.target_drop.raw_value, r.drop_adj.raw_value, r.windage.raw_value, r.windage_adj.raw_value,
            r.look_distance.raw_value, r.angle.raw_value, r.density_factor, r.drag,
            r.energy.raw_value, r.ogw.raw_value, int(r.flag))


def digest(rows):
    h = hashlib.sha256()
    for r in rows:
        h.update(repr(row_numbers(r)).encode())
        h.update(b"\n")
    return h.hexdigest()


def show(label, rows, verbose=False):
    print(f"{label}: n={len(rows)} sha={digest(rows)} flags={[int(r.flag) for r in rows][:40]}")
    if rows:
        print("   first", repr(row_numbers(rows[0])))
        print("   last ", repr(row_numbers(rows[-1])))
    if verbose:
        for r in rows:
            print("   ", repr(row_numbers(r)))


def fire(label, calc, shot, rng, step=0, extra=False, time_step=0.0, verbose=False):
    try:
        hit = calc.fire(shot, rng, step, extra_data=extra, time_step=time_step)
        show(label, hit.trajectory, verbose)
    except RangeError as e:
        print(f"{label}: RangeError reason={e.reason!r} last_distance="
              f"{None if e.last_distance is None else repr(e.last_distance.raw_value)}")
        show(label + " [incomplete]", e.incomplete_trajectory, verbose)
    except ZeroFindingError as e:
        print(f"{label}: ZeroFindingError {e.zero_finding_error!r} {e.iterations_count!r} "
              f"{e.last_barrel_elevation.raw_value!r}")
    except Exception as e:  # pylint: disable=broad-except
        print(f"{label}: {type(e).__name__}: {e}")


def zero(label, calc, shot, dist):
    try:
        a = calc.set_weapon_zero(shot, dist)
        print(f"{label}: zero_elevation={a.raw_value!r}")
    except RangeError as e:
        print(f"{label}: RangeError reason={e.reason!r}")
        show(label + " [incomplete]", e.incomplete_trajectory)
    except ZeroFindingError as e:
        print(f"{label}: ZeroFindingError {e.zero_finding_error!r} {e.iterations_count!r} "
              f"{e.last_barrel_elevation.raw_value!r}")
    except Exception as e:  # pylint: disable=broad-except
        print(f"{label}: {type(e).__name__}: {e}")


def main():
    calc = Calculator()

    # ---- 1. ordinary rifle shot, many (range, step, extra, time_step) requests -------------------
    dm7 = DragModel(0.223, TableG7, Weight.Grain(168), Distance.Inch(0.308), Distance.Inch(1.282))
    shot = Shot(weapon=Weapon(Distance.Inch(2), Distance.Inch(11.24)),
                ammo=Ammo(dm7, Velocity.FPS(2750), Temperature.Celsius(15)),
                atmo=Atmo.icao(),
                winds=[Wind(Velocity.MPH(10), Angular.OClock(3), Distance.Yard(300)),
                       Wind(Velocity.MPH(6), Angular.OClock(8), Distance.Yard(700)),
                       Wind(Velocity.MPH(12), Angular.OClock(11))])
    zero("rifle zero 100yd", calc, shot, Distance.Yard(100))
    for rng, step in ((1000, 100), (500, 100), (1000, 50), (1000, 200), (300, 25), (1000, 0), (1000, 1000)):
        for extra in (False, True):
            for ts in (0.0, 0.05):
                fire(f"rifle r={rng} s={step} x={int(extra)} ts={ts}", calc, shot,
                     Distance.Yard(rng), Distance.Yard(step) if step else 0, extra, ts)
    fire("rifle verbose r=400 s=100 x=1", calc, shot, Distance.Yard(400), Distance.Yard(100), True, 0.0, verbose=True)
    # record step smaller than the calculation step
    fire("rifle tiny step", calc, shot, Distance.Foot(3), Distance.Foot(0.1), False)
    fire("rifle tiny step extra", calc, shot, Distance.Foot(3), Distance.Foot(0.1), True)
    # range shorter than the step, zero range, negative range
    fire("rifle r<step", calc, shot, Distance.Yard(10), Distance.Yard(100), False)
    fire("rifle r=0 default step", calc, shot, Distance.Yard(0), 0, False)
    fire("rifle r=0 extra", calc, shot, Distance.Yard(0), Distance.Yard(10), True)
    fire("rifle negative range", calc, shot, Distance.Yard(-10), Distance.Yard(10), False)
    fire("rifle negative range extra", calc, shot, Distance.Yard(-10), Distance.Yard(10), True)
    fire("rifle float args (preferred units)", calc, shot, 600, 150, True, 0.1)

    # ---- 2. look angle, cant, left twist, subsonic transition (G1 pistol-like) ------------------
    dm1 = DragModel(0.15, TableG1, Weight.Grain(124), Distance.Inch(0.355), Distance.Inch(0.6))
    shot2 = Shot(weapon=Weapon(Distance.Inch(1.5), Distance.Inch(-10)),
                 ammo=Ammo(dm1, Velocity.FPS(1250)),
                 look_angle=Angular.Degree(7), cant_angle=Angular.Degree(12),
                 relative_angle=Angular.MOA(3),
                 atmo=Atmo(Distance.Foot(4500), Pressure.InHg(25.1), Temperature.Fahrenheit(88), 63),
                 winds=[Wind(Velocity.FPS(15), Angular.Degree(45), Distance.Yard(50)),
                        Wind(Velocity.FPS(5), Angular.Degree(270), Distance.Yard(60))])
    zero("pistol zero 25yd", calc, shot2, Distance.Yard(25))
    for rng, step, extra, ts in ((300, 50, False, 0.0), (300, 50, True, 0.0), (300, 25, True, 0.2),
                                 (150, 50, False, 0.0), (900, 150, True, 0.0), (900, 150, False, 0.5)):
        fire(f"pistol r={rng} s={step} x={int(extra)} ts={ts}", calc, shot2,
             Distance.Yard(rng), Distance.Yard(step), extra, ts)

    # ---- 3. high-angle shot: altitude band of the atmosphere is left, time-step rows, limits ----
    shot3 = Shot(weapon=Weapon(Distance.Inch(0), Distance.Inch(0)),
                 ammo=Ammo(DragModel(0.3, TableG7), Velocity.FPS(2900)),
                 relative_angle=Angular.Degree(75),
                 atmo=Atmo.icao(Distance.Foot(1000)),
                 winds=[Wind(Velocity.MPH(20), Angular.Degree(90), Distance.Yard(100))])
    fire("lob r=2000 s=500 plain", calc, shot3, Distance.Yard(2000), Distance.Yard(500), False)
    fire("lob r=2000 s=500 extra ts=1", calc, shot3, Distance.Yard(2000), Distance.Yard(500), True, 1.0)
    fire("lob r=4000 s=1000 plain ts=2", calc, shot3, Distance.Yard(4000), Distance.Yard(1000), False, 2.0)
    shot3b = Shot(weapon=Weapon(), ammo=Ammo(DragModel(0.3, TableG7), Velocity.FPS(2900)),
                  relative_angle=Angular.Degree(-60), atmo=Atmo.icao())
    fire("dive (min altitude)", calc, shot3b, Distance.Yard(2000), Distance.Yard(100), True)
    calc_drop = Calculator(_config={'cMaximumDrop': -100.0, 'cMinimumVelocity': 10.0})
    fire("maximum drop -100ft", calc_drop, shot, Distance.Yard(2000), Distance.Yard(250), False)
    calc_vel = Calculator(_config={'cMinimumVelocity': 1500.0})
    fire("minimum velocity 1500", calc_vel, shot, Distance.Yard(2000), Distance.Yard(250), True)
    fire("minimum velocity 1500 plain", calc_vel, shot, Distance.Yard(2000), Distance.Yard(250), False)

    # ---- 4. vacuum, no wind, other calc step ---------------------------------------------------
    shot4 = Shot(weapon=Weapon(Distance.Inch(2), Distance.Inch(9)),
                 ammo=Ammo(DragModel(0.4, TableG1, 150, 0.308, 1.1), Velocity.MPS(800)),
                 relative_angle=Angular.Degree(1), atmo=Vacuum())
    fire("vacuum r=800m s=100m", calc, shot4, Distance.Meter(800), Distance.Meter(100), True)
    calc_fine = Calculator(_config={'max_calc_step_size_feet': 0.25})
    calc_coarse = Calculator(_config={'max_calc_step_size_feet': 4.0})
    for name, c in (("fine", calc_fine), ("coarse", calc_coarse)):
        fire(f"{name} r=600 s=100 plain", c, shot, Distance.Yard(600), Distance.Yard(100), False)
        fire(f"{name} r=600 s=1 extra", c, shot, Distance.Yard(600), Distance.Yard(1), True, 0.01)

    # ---- 5. zero finding: ordinary, degenerate configurations, failures ------------------------
    for d in (50, 100, 300, 800):
        s = Shot(weapon=Weapon(Distance.Inch(2.5), Distance.Inch(8)),
                 ammo=Ammo(dm7, Velocity.FPS(2600)), look_angle=Angular.Degree(d / 100.0), atmo=Atmo.icao())
        zero(f"zero {d}yd", calc, s, Distance.Yard(d))
        fire(f"zeroed {d}yd r=900 s=300 extra", calc, s, Distance.Yard(900), Distance.Yard(300), True)
    for cfg in ({'cMaxIterations': 0}, {'cMaxIterations': 1}, {'cMaxIterations': 3},
                {'cZeroFindingAccuracy': 0.0}, {'cZeroFindingAccuracy': -1.0},
                {'cZeroFindingAccuracy': 0.5}, {'cZeroFindingAccuracy': 1e-12, 'cMaxIterations': 4},
                {'cMaxIterations': 2.5}):
        s = Shot(weapon=Weapon(Distance.Inch(2), Distance.Inch(12)), ammo=Ammo(dm7, Velocity.FPS(2750)))
        zero(f"zero cfg={sorted(cfg.items())}", Calculator(_config=cfg), s, Distance.Yard(200))
    s = Shot(weapon=Weapon(Distance.Inch(2), Distance.Inch(12)), ammo=Ammo(dm1, Velocity.FPS(900)))
    zero("zero unreachable 3000yd", calc, s, Distance.Yard(3000))
    zero("zero at 0", calc, s, Distance.Yard(0))

    # ---- 6. the engine object directly (public class TrajectoryCalc) ---------------------------
    tc = TrajectoryCalc(create_interface_config(None))
    for extra in (False, True):
        rows = tc.trajectory(shot, Distance.Yard(350), Distance.Yard(70), extra_data=extra, time_step=0.03)
        show(f"TrajectoryCalc.trajectory extra={int(extra)}", rows)
    print("zero_angle direct:", repr(tc.zero_angle(shot, Distance.Yard(250)).raw_value))
    print("cdm points:", len(tc.table_data))


if __name__ == '__main__':
    main()
