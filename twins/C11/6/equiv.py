"""Equivalence digest for C11 refactorings (pure-python backend).

Run:  cd /tmp/wt/C11 && PYTHONPATH=/tmp/wt/C11 /venv/bin/python /tmp/twins2/C11/<k>/equiv.py
Prints a deterministic text digest: for every (shot, config, request) the number of rows,
a sha256 over the exact (hex) value of every field of every row, and a few rows in clear.
"""
import hashlib
import io
import logging
import warnings

warnings.simplefilter("ignore")

from py_ballisticcalc import (  # noqa: E402
    Calculator, DragModel, Ammo, Weapon, Shot, Wind, Atmo, TableG7, TableG1,
    RangeError, InterfaceConfigDict, HitResult,
)
from py_ballisticcalc.unit import (  # noqa: E402
    Distance, Velocity, Angular, Weight, Temperature, Pressure,
)
from py_ballisticcalc.trajectory_data import TrajFlag  # noqa: E402
from py_ballisticcalc.vector import Vector  # noqa: E402
from py_ballisticcalc import trajectory_calc as tc  # noqa: E402
from py_ballisticcalc.logger import logger as bc_log, set_debug  # noqa: E402


def fx(v):
    """exact text of a number"""
    if isinstance(v, float):
        return v.hex()
    if hasattr(v, "raw_value"):
        raw = v.raw_value
        return "%s[%s:%s]" % (type(v).__name__, raw.hex() if isinstance(raw, float) else repr(raw),
                              v.units.name if hasattr(v.units, "name") else v.units)
    return repr(v)


def rowsig(row):
    return "(" + ", ".join(fx(f) for f in row) + ")"


def digest(rows):
    h = hashlib.sha256()
    for r in rows:
        h.update(rowsig(r).encode())
        h.update(b"\n")
    return h.hexdigest()


def show(label, rows, clear=(0, 1, -1)):
    print("%s: n=%d sha=%s" % (label, len(rows), digest(rows)))
    print("   flags=%s" % ",".join(str(int(r.flag)) for r in rows if int(r.flag) != 8)[:400])
    for i in clear:
        if -len(rows) <= i < len(rows):
            r = rows[i]
            print("   [%d] t=%s x=%s y=%s v=%s flag=%r" % (
                i, fx(r.time), fx(r.distance), fx(r.height), fx(r.velocity), int(r.flag)))


def fire(calc, shot, rng, step=0, extra=False, time_step=0.0):
    try:
        res = calc.fire(shot, rng, step, extra, time_step)
        return "ok", list(res.trajectory)
    except RangeError as e:
        return "RangeError(%s; last=%s)" % (e.reason, fx(e.last_distance)), list(e.incomplete_trajectory)
    except Exception as e:  # pylint: disable=broad-except
        return "%s(%s)" % (type(e).__name__, e), []


# --------------------------------------------------------------------------- shots
def shots():
    dm7 = DragModel(0.22, TableG7, 168, 0.308, 1.22)
    dm1 = DragModel(0.759, TableG1, Weight.Gram(108), Distance.Millimeter(23), Distance.Millimeter(108.2))
    out = {}
    w = Weapon(Distance.Inch(2), Distance.Inch(12))
    out["g7_zero100"] = (Shot(weapon=w, ammo=Ammo(dm7, Velocity.FPS(2600)), atmo=Atmo.icao()), 100)
    out["g7_winds"] = (Shot(weapon=Weapon(Distance.Inch(2), Distance.Inch(-10)), ammo=Ammo(dm7, Velocity.FPS(2750)),
                            atmo=Atmo(altitude=Distance.Foot(3000), temperature=Temperature.Fahrenheit(40),
                                      pressure=Pressure.InHg(27.1), humidity=0.3),
                            winds=[Wind(Velocity.MPH(10), Angular.Degree(90), Distance.Yard(200)),
                                   Wind(Velocity.MPH(7), Angular.Degree(-45), Distance.Yard(450)),
                                   Wind(Velocity.MPH(15), Angular.Degree(170), Distance.Yard(700))]), 200)
    out["g7_look10_cant"] = (Shot(weapon=Weapon(Distance.Inch(3), Distance.Inch(9)),
                                  ammo=Ammo(dm7, Velocity.FPS(2900)), look_angle=Angular.Degree(10),
                                  cant_angle=Angular.Degree(7),
                                  winds=[Wind(Velocity.MPH(5), Angular.Degree(60))]), 300)
    out["g7_lookdown"] = (Shot(weapon=Weapon(Distance.Inch(1.5), 0), ammo=Ammo(dm7, Velocity.FPS(2400)),
                               look_angle=Angular.Degree(-6)), 150)
    out["g1_nosight_hi"] = (Shot(weapon=Weapon(), ammo=Ammo(dm1, Velocity.MPS(930)),
                                 relative_angle=Angular.Degree(33)), None)
    out["g1_neg_sight"] = (Shot(weapon=Weapon(Distance.Inch(-2), Distance.Inch(12)),
                                ammo=Ammo(dm1, Velocity.MPS(600)), relative_angle=Angular.Mil(3)), None)
    out["g1_barrel_down"] = (Shot(weapon=Weapon(Distance.Inch(2), Distance.Inch(12)),
                                  ammo=Ammo(dm1, Velocity.MPS(800)), relative_angle=Angular.Degree(-1)), None)
    out["g1_vertical"] = (Shot(weapon=Weapon(), ammo=Ammo(dm1, Velocity.MPS(300)),
                               relative_angle=Angular.Degree(90)), None)
    out["g7_subsonic"] = (Shot(weapon=Weapon(Distance.Inch(2), Distance.Inch(8)),
                               ammo=Ammo(dm7, Velocity.FPS(1250)), relative_angle=Angular.Mil(6)), None)
    return out


def main():
    all_shots = shots()
    default_calc = Calculator()
    for name, (shot, zero) in all_shots.items():
        if zero is not None:
            el = default_calc.set_weapon_zero(shot, Distance.Yard(zero))
            print("zero %s -> %s" % (name, fx(el)))

    configs = {
        "default": None,
        "step1.0": InterfaceConfigDict(max_calc_step_size_feet=1.0),
        "step0.2": InterfaceConfigDict(max_calc_step_size_feet=0.2),
    }
    requests = [
        # (range, step, extra, time_step)
        (Distance.Yard(300), Distance.Yard(100), False, 0.0),
        (Distance.Yard(600), Distance.Yard(100), False, 0.0),
        (Distance.Yard(600), Distance.Yard(50), False, 0.0),
        (Distance.Yard(600), Distance.Yard(100), True, 0.0),
        (Distance.Yard(600), Distance.Yard(100), False, 0.05),
        (Distance.Yard(600), Distance.Yard(100), True, 0.013),
        (Distance.Yard(600), 0, False, 0.0),
        (Distance.Yard(600), 0, True, 0.0),
        (Distance.Meter(1200), Distance.Meter(37.5), True, 0.0),
        (Distance.Foot(40), Distance.Foot(0.1), False, 0.0),   # record step smaller than the calc step
        (Distance.Foot(40), Distance.Foot(0.1), True, 0.0),
        (Distance.Foot(30), Distance.Foot(45), False, 0.0),    # record step larger than the range
        (Distance.Foot(0.1), Distance.Foot(0.1), False, 0.0),  # almost no range
        (Distance.Foot(-5), Distance.Foot(1), True, 0.0),      # loop body never runs
    ]
    for cname, cfg in configs.items():
        calc = Calculator(_config=cfg)
        for sname, (shot, _) in all_shots.items():
            if cname != "default" and sname not in ("g7_winds", "g7_look10_cant"):
                continue
            for ri, (rng, step, extra, ts) in enumerate(requests):
                if cname != "default" and ri not in (1, 3, 5, 7, 10):
                    continue
                status, rows = fire(calc, shot, rng, step, extra, ts)
                show("%s|%s|r=%s s=%s x=%d ts=%s|%s" % (cname, sname, rng, step, extra, ts, status), rows)

    # ---- incomplete shots: every RangeError reason, with and without extra data
    limits = {
        "ground": InterfaceConfigDict(cMinimumVelocity=0, cMinimumAltitude=Distance.Meter(0),
                                      cMaximumDrop=Distance.Meter(0)),
        "drop-20ft": InterfaceConfigDict(cMaximumDrop=-20.0),
        "minalt": InterfaceConfigDict(cMinimumAltitude=-5.0, cMaximumDrop=-1e9),
        "minvel1500": InterfaceConfigDict(cMinimumVelocity=1500.0),
        "minvel0": InterfaceConfigDict(cMinimumVelocity=0),
    }
    for lname, cfg in limits.items():
        calc = Calculator(_config=cfg)
        for sname in ("g7_zero100", "g1_nosight_hi", "g1_vertical", "g1_barrel_down", "g7_lookdown"):
            shot = all_shots[sname][0]
            for (rng, step, extra, ts) in [
                (Distance.Meter(7000), Distance.Meter(500), False, 0.0),
                (Distance.Meter(7000), Distance.Meter(500), True, 0.0),
                (Distance.Meter(7000), Distance.Meter(7000), False, 0.0),
                (Distance.Meter(10), Distance.Meter(1), True, 0.5),
                (Distance.Meter(10), Distance.Meter(1), False, 1.0),
            ]:
                if sname == "g1_vertical" and rng > Distance.Meter(100) and lname not in ("ground",):
                    continue
                status, rows = fire(calc, shot, rng, step, extra, ts)
                show("%s|%s|r=%s s=%s x=%d ts=%s|%s" % (lname, sname, rng, step, extra, ts, status), rows)

    # ---- the property itself, observed: rows at common distances agree across requests
    calc = Calculator()
    shot = all_shots["g7_winds"][0]
    long_fine = {r.distance.raw_value.hex(): rowsig(r[:-1]) for r in
                 calc.fire(shot, Distance.Yard(800), Distance.Yard(25), True, 0.01).trajectory
                 if r.flag & TrajFlag.RANGE}
    for (rng, step, extra, ts) in [(Distance.Yard(400), Distance.Yard(100), False, 0.0),
                                   (Distance.Yard(800), Distance.Yard(200), False, 0.0),
                                   (Distance.Yard(500), Distance.Yard(50), True, 0.0)]:
        rows = calc.fire(shot, rng, step, extra, ts).trajectory
        same = sum(1 for r in rows if long_fine.get(r.distance.raw_value.hex()) == rowsig(r[:-1]))
        print("subset r=%s s=%s x=%d: %d rows, %d found identical in the long/fine/rich request" % (
            rng, step, extra, len(rows), same))

    # ---- zero finding uses the integration loop with filter_flags == NONE
    for sname in ("g7_zero100", "g7_look10_cant", "g7_winds"):
        shot = all_shots[sname][0]
        for d in (Distance.Yard(50), Distance.Meter(431), Distance.Yard(1000)):
            try:
                print("zero_angle %s %s -> %s" % (sname, d, fx(calc.barrel_elevation_for_target(shot, d))))
            except Exception as e:  # pylint: disable=broad-except
                print("zero_angle %s %s -> %s %s" % (sname, d, type(e).__name__, e))

    # ---- direct use of the exported internals
    extra_internals()

    # ---- debug log text of one short shot (messages come from should_record and _integrate)
    stream = io.StringIO()
    handler = logging.StreamHandler(stream)
    handler.setLevel(logging.DEBUG)
    bc_log.addHandler(handler)
    set_debug(True)
    try:
        status, rows = fire(Calculator(), all_shots["g7_look10_cant"][0], Distance.Foot(12), Distance.Foot(3), True, 0.0)
    finally:
        set_debug(False)
        bc_log.removeHandler(handler)
    text = stream.getvalue()
    print("debug log: %d lines sha=%s" % (text.count("\n"), hashlib.sha256(text.encode()).hexdigest()))
    show("debug shot|" + status, rows)


def extra_internals():
    """Overridden/extended per refactoring"""
    # the filter driven by hand, including a backwards step, a multi-step jump, nan and time steps
    for (flags, rstep, tstep, la, h, be) in [
        (TrajFlag.ALL, 10.0, 0.0, 0.0, -0.2, 0.01),
        (TrajFlag.RANGE, 10.0, 0.0, 0.0, -0.2, 0.01),
        (TrajFlag.ALL, 0.0, 0.004, 0.05, 0.0, 0.0),
        (TrajFlag.ALL, 3.0, 0.002, -0.02, -0.1, -0.05),
        (TrajFlag.ZERO | TrajFlag.MACH, 7.0, 0.0, 0.02, -0.1, 0.02),
        (TrajFlag.ALL, 5.0, 0.0, 0.0, float("nan"), 0.0),
    ]:
        p0, v0 = Vector(0.0, h if h == h else 0.0, 0.0), Vector(1200.0, 30.0, 0.0)
        f = tc._TrajectoryDataFilter(flags, rstep, p0, v0, tstep)
        f.setup_seen_zero(h, be, la)
        out = []
        pts = [(0.0, h if h == h else 0.0, 1200.0, 0.0), (4.0, 0.05, 1190.0, 0.0033), (9.5, 0.11, 1170.0, 0.008),
               (9.5, 0.12, 1165.0, 0.0081), (9.0, 0.13, 1160.0, 0.009), (31.0, 0.2, 1125.0, 0.03),
               (33.0, -0.5, 1119.0, 0.032), (40.0, -1.5, 1100.0, 0.04), (float("nan"), -1.6, 1090.0, 0.05),
               (55.0, 3.5, 1080.0, 0.06), (60.0, -9.0, 1070.0, 0.07)]
        for (x, y, v, t) in pts:
            f.clear_current_flag()
            d = f.should_record(Vector(x, y, 0.1 * x), Vector(v, 30.0 - 400 * t, 1.0), 1120.0, t)
            out.append("%s/%d" % ("-" if d is None else "t=%s p=%s v=%s m=%s" % (
                fx(d.time), [fx(c) for c in d.position], [fx(c) for c in d.velocity], fx(d.mach)),
                int(f.current_flag)))
        print("filter", int(flags), rstep, tstep, la, hashlib.sha256("|".join(out).encode()).hexdigest(),
              [o.rsplit("/", 1)[1] for o in out])

    # rows made by hand
    for args in [
        (0.0, Vector(0.0, -0.2, 0.0), Vector(2600.0, 3.0, 0.0), 2600.0, 1116.4, 0.0, 0.0, 1.0, 0.0, 168.0, 8),
        (0.5, Vector(900.0, -3.2, 0.7), Vector(1900.0, -12.0, 2.0), 1900.04, 1110.0, 0.02, 0.17, 0.97, 0.4, 168.0, 12),
        (1.5, Vector(-3.0, 5.0, -0.7), Vector(-10.0, 12.0, 2.0), 15.7, 1100.0, 0, -0.1, 1.02, 0.1, 55.0, 0),
    ]:
        print("row", rowsig(tc.create_trajectory_row(*args)))
    print("corr", [fx(tc.get_correction(d, o)) for d, o in [(0, 1.0), (0.0, 0.0), (100.0, -2.5), (-5.0, 1.0)]])
    print("e/ogw", fx(tc.calculate_energy(168.0, 2600.0)), fx(tc.calculate_ogw(168.0, 2600.0)))

    # row builder at its edges: which exception, and every field, for awkward arguments
    inf, nan = float("inf"), float("nan")
    V = Vector
    for label, args in [
        ("mach0", (0.1, V(10.0, 1.0, 0.0), V(900.0, 1.0, 0.0), 900.0, 0.0, 0.0, 0.1, 1.0, 0.1, 168.0, 8)),
        ("look_inf", (0.1, V(10.0, 1.0, 0.0), V(900.0, 1.0, 0.0), 900.0, 1116.0, 0.0, inf, 1.0, 0.1, 168.0, 8)),
        ("mach0+look_inf", (0.1, V(10.0, 1.0, 0.0), V(900.0, 1.0, 0.0), 900.0, 0.0, 0.0, inf, 1.0, 0.1, 168.0, 8)),
        ("look_inf+v_huge", (0.1, V(10.0, 1.0, 0.0), V(900.0, 1.0, 0.0), 1e200, 1116.0, 0.0, -inf, 1.0, 0.1, 168.0, 8)),
        ("v_huge", (0.1, V(10.0, 1.0, 0.0), V(900.0, 1.0, 0.0), 1e200, 1116.0, 0.0, 0.2, 1.0, 0.1, 168.0, 8)),
        ("v_huge_ogw", (0.1, V(10.0, 1.0, 0.0), V(900.0, 1.0, 0.0), 1e120, 1116.0, 0.0, 0.2, 1.0, 0.1, 168.0, 8)),
        ("x0_look", (0.0, V(0.0, -0.25, 0.0), V(900.0, 1.0, 0.0), 900.0, 1116.0, 0, 0.2, 1.0, 0.0, 168.0, 8)),
        ("x-0_look", (0.0, V(-0.0, -0.25, 0.0), V(900.0, 1.0, 0.0), 900.0, 1116.0, 0, 0.2, 1.0, 0.0, 168.0, 0)),
        ("nan_x", (0.3, V(nan, -0.25, 0.1), V(900.0, 1.0, 0.0), 900.0, 1116.0, 0.01, 0.2, 1.0, 0.0, 168.0, 9)),
        ("nan_look", (0.3, V(50.0, -0.25, 0.1), V(900.0, 1.0, 0.0), 900.0, 1116.0, 0.01, nan, 1.0, 0.0, 168.0, 9)),
        ("look_halfpi", (0.3, V(50.0, -0.25, 0.1), V(-900.0, -1.0, 0.0), 900.0, 1116.0, -0.01, 1.5707963267948966, 0.9, 0.0, 55.0, 31)),
        ("ints", (1, V(50, -1, 2), V(900, 1, 0), 900, 1116, 0, 0, 1, 0, 168, 8)),
        ("none_velocity", (0.1, V(10.0, 1.0, 0.0), V(900.0, 1.0, 0.0), None, 1116.0, 0.0, 0.1, 1.0, 0.1, 168.0, 8)),
        ("none_density", (0.1, V(10.0, 1.0, 0.0), V(900.0, 1.0, 0.0), 1e200, 1116.0, 0.0, 0.1, None, 0.1, 168.0, 8)),
    ]:
        try:
            print("row-edge", label, rowsig(tc.create_trajectory_row(*args)))
        except Exception as e:  # pylint: disable=broad-except
            print("row-edge", label, type(e).__name__, e)
    for d, o in [(0, 5), (-0.0, 5.0), (nan, 1.0), (1.0, nan), (inf, 1.0), (1e-320, 1.0), (3, 4), (True, 1.0),
                 (Distance.Foot(0), 1.0), (Distance.Foot(1), 1.0), (None, 1.0)]:
        try:
            r = tc.get_correction(d, o)
            print("corr-edge", repr(d), repr(o), type(r).__name__, fx(r))
        except Exception as e:  # pylint: disable=broad-except
            print("corr-edge", repr(d), repr(o), type(e).__name__, e)
    for v in (0.0, -0.0, 1.5, nan, inf, 7, None):
        for fn in ("_new_feet", "_new_fps", "_new_rad", "_new_ft_lb", "_new_lb"):
            try:
                u = getattr(tc._trajectory_calc, fn)(v)
                print("unit-edge", fn, repr(v), type(u).__name__, fx(u), sorted(vars(u)))
            except Exception as e:  # pylint: disable=broad-except
                print("unit-edge", fn, repr(v), type(e).__name__, e)

    # extra_data given as something merely truthy / falsy
    shot = shots()["g7_subsonic"][0]
    calc = Calculator()
    for extra in (True, False, 1, 0, "yes", "", [0], None, 2.5):
        res = calc._calc.trajectory(shot, Distance.Yard(400), Distance.Yard(100), extra)
        show("extra=%r" % (extra,), list(res))
    res = calc._calc.trajectory(shot, Distance.Yard(400), Distance.Yard(100))
    show("extra default", list(res))

    # wind sock by hand
    ws = tc._WindSock((Wind(Velocity.FPS(10), Angular.Degree(90), Distance.Foot(100)),
                       Wind(Velocity.FPS(5), Angular.Degree(0), Distance.Foot(250))))
    seq = []
    for x in (0.0, 99.9, 100.0, 100.0, 249.0, 250.0, 1e9, 5.0):
        seq.append((fx(ws.next_range), [fx(c) for c in ws.vector_for_range(x)], ws.current))
    print("windsock", hashlib.sha256(repr(seq).encode()).hexdigest(), [s[2] for s in seq])
    print("windsock none", [fx(c) for c in tc._WindSock(None).vector_for_range(10.0)])

    # calc step
    c = tc.TrajectoryCalc(tc.Config(0.5, 0.2, 5e-6, 50.0, -15000, 20, -32.17405, -1410.748))
    print("calc_step", [fx(c.get_calc_step(s)) for s in (0, 0.0, -0.0, False, 0.1, 0.5, 0.50000001, 3.0, -1.0, 1,
                                                         float("nan"), float("inf"))], fx(c.get_calc_step()))
    for bad in (None, "a"):
        try:
            print("calc_step", repr(bad), fx(c.get_calc_step(bad)))
        except Exception as e:  # pylint: disable=broad-except
            print("calc_step", repr(bad), type(e).__name__, e)


if __name__ == "__main__":
    main()
