"""Equivalence digest for the C11 twins.

Prints a deterministic text; it has to be byte-identical on the clean worktree and with the patch applied.
Run:  cd /tmp/wt/C11 && PYTHONPATH=/tmp/wt/C11 /venv/bin/python <this file>
"""
import hashlib
import math
import warnings

warnings.simplefilter("ignore")

from py_ballisticcalc import (  # noqa: E402
    DragModel, Ammo, Weapon, Calculator, Shot, Wind, Atmo, TableG7, TableG1, RangeError, TrajFlag,
)
from py_ballisticcalc.unit import Distance, Velocity, Angular, Temperature, Pressure, Unit  # noqa: E402
from py_ballisticcalc.exceptions import ZeroFindingError  # noqa: E402
from py_ballisticcalc.vector import Vector  # noqa: E402
from py_ballisticcalc.trajectory_calc import _TrajectoryDataFilter, _WindSock  # noqa: E402
from py_ballisticcalc.trajectory_calc import _trajectory_calc as tc  # noqa: E402


def row_repr(r):
    return repr((
        r.time, r.distance.raw_value, r.velocity.raw_value, r.mach, r.height.raw_value,
        r.target_drop.raw_value, r.drop_adj.raw_value, r.windage.raw_value, r.windage_adj.raw_value,
        r.look_distance.raw_value, r.angle.raw_value, r.density_factor, r.drag,
        r.energy.raw_value, r.ogw.raw_value, int(r.flag),
        type(r.distance).__name__, r.distance.units.name, r.velocity.units.name, r.ogw.units.name,
    ))


def digest(rows):
    h = hashlib.sha256()
    for r in rows:
        h.update(row_repr(r).encode())
        h.update(b"\n")
    return h.hexdigest()


def report(name, fn):
    try:
        res = fn()
        rows = list(res)
        tag = "ok"
    except RangeError as e:
        rows = e.incomplete_trajectory
        tag = f"RangeError[{e.reason}] last={e.last_distance.raw_value if e.last_distance else None!r}"
    except Exception as e:  # pylint: disable=broad-except
        print(f"{name}: EXC {type(e).__name__}: {e}")
        return
    print(f"{name}: {tag} n={len(rows)} sha={digest(rows)}")
    if rows:
        print("   first", row_repr(rows[0]))
        print("   last ", row_repr(rows[-1]))
        print("   flags", [int(r.flag) for r in rows][:60])
        print("   dist ", [r.distance.raw_value for r in rows][:12])


def mk_shot(bc=0.22, table=TableG7, mv=2600, weapon=None, **kw):
    dm = DragModel(bc, table, 168, 0.308, 1.22)
    ammo = Ammo(dm, Velocity.FPS(mv))
    weapon = weapon or Weapon(Distance.Inch(4), Distance.Inch(12))
    return Shot(weapon=weapon, ammo=ammo, **kw)


calc = Calculator()

# ---- 1. baseline, zeroed, many request shapes --------------------------------------------------
shot = mk_shot(atmo=Atmo.icao())
zero = calc.set_weapon_zero(shot, Distance.Yard(100))
print("zero elevation", repr(zero.raw_value), repr(shot.weapon.zero_elevation.raw_value))
for rng, step, extra, tstep in [
    (1000, 100, False, 0.0), (1000, 100, True, 0.0), (500, 100, False, 0.0), (1000, 50, False, 0.0),
    (1000, 0, False, 0.0), (1000, 100, False, 0.05), (1000, 100, True, 0.05), (300, 1, False, 0.0),
    (20, Distance.Inch(1), True, 0.0), (20, Distance.Inch(1), False, 0.0), (0, 0, False, 0.0), (0, 10, True, 0.0),
    (-50, 10, False, 0.0), (-50, 10, True, 0.0), (1000, 1000, False, 0.0), (1000, 2000, True, 0.0),
    (1, 100, False, 0.0), (1000, -100, False, 0.0), (1000, -100, True, 0.3),
]:
    report(f"base rng={rng} step={step} extra={extra} t={tstep}",
           lambda: calc.fire(shot, Distance.Yard(rng), step if isinstance(step, Distance) else Distance.Yard(step),
                             extra, tstep))

# ---- 2. look angle, cant, winds ----------------------------------------------------------------
winds = [Wind(Velocity.MPH(10), Angular.Degree(90), Distance.Yard(300)),
         Wind(Velocity.MPH(5), Angular.Degree(-45), Distance.Yard(150)),
         Wind(Velocity.MPH(15), Angular.Degree(200), Distance.Yard(600))]
shot2 = mk_shot(bc=0.25, mv=2750, look_angle=Angular.Degree(5), cant_angle=Angular.Degree(7),
                atmo=Atmo(Distance.Foot(3000), Pressure.InHg(27.0), Temperature.Fahrenheit(85), 0.6), winds=winds)
calc.set_weapon_zero(shot2, Distance.Yard(200))
print("zero2", repr(shot2.weapon.zero_elevation.raw_value))
for rng, step, extra, tstep in [(900, 100, False, 0.0), (900, 100, True, 0.0), (450, 150, True, 0.0),
                                (900, 25, False, 0.2), (900, 300, True, 0.01)]:
    report(f"angled rng={rng} step={step} extra={extra} t={tstep}",
           lambda: calc.fire(shot2, Distance.Yard(rng), Distance.Yard(step), extra, tstep))

# downhill, barrel below look line (ZERO_DOWN pre-seen), left twist
shot3 = mk_shot(bc=0.3, table=TableG1, mv=1200, weapon=Weapon(Distance.Inch(2), Distance.Inch(-9)),
                look_angle=Angular.Degree(-10), relative_angle=Angular.Mil(-3),
                winds=[Wind(Velocity.FPS(20), Angular.Degree(270))])
for rng, step, extra, tstep in [(600, 100, False, 0.0), (600, 100, True, 0.0), (600, 60, True, 0.1)]:
    report(f"downhill/subsonic rng={rng} step={step} extra={extra} t={tstep}",
           lambda: calc.fire(shot3, Distance.Yard(rng), Distance.Yard(step), extra, tstep))

# ---- 3. incomplete shots: the three stop reasons -----------------------------------------------
shot4 = mk_shot(relative_angle=Angular.Degree(30))
report("lob min-velocity/drop", lambda: calc.fire(shot4, Distance.Yard(20000), Distance.Yard(1000), False))
report("lob extra", lambda: calc.fire(shot4, Distance.Yard(20000), Distance.Yard(1000), True, 1.0))
calc_alt = Calculator(_config={"cMinimumAltitude": -10.0, "cMaximumDrop": -1e9})
report("min altitude", lambda: calc_alt.fire(mk_shot(relative_angle=Angular.Degree(-5)), Distance.Yard(2000),
                                             Distance.Yard(50), True))
calc_drop = Calculator(_config={"cMaximumDrop": -5.0})
report("max drop", lambda: calc_drop.fire(mk_shot(relative_angle=Angular.Degree(-2)), Distance.Yard(2000),
                                          Distance.Yard(50), False))
calc_vel = Calculator(_config={"cMinimumVelocity": 2000.0})
report("min velocity", lambda: calc_vel.fire(mk_shot(), Distance.Yard(2000), Distance.Yard(100), True))
report("vertical", lambda: calc.fire(mk_shot(relative_angle=Angular.Degree(90)), Distance.Yard(100),
                                     Distance.Yard(10), True, 0.5))

# ---- 4. other step sizes, custom (tiny / unsorted) drag tables ----------------------------------
calc_fine = Calculator(_config={"max_calc_step_size_feet": 0.1})
calc_coarse = Calculator(_config={"max_calc_step_size_feet": 5.0})
for nm, c in (("fine", calc_fine), ("coarse", calc_coarse)):
    report(f"{nm} 400/100", lambda: c.fire(shot, Distance.Yard(400), Distance.Yard(100), False))
    report(f"{nm} 400/100 extra", lambda: c.fire(shot, Distance.Yard(400), Distance.Yard(100), True))
    report(f"{nm} 30ft/1ft", lambda: c.fire(shot, Distance.Foot(30), Distance.Foot(1), True))
for nm, tbl in (
    ("two", [{'Mach': 0.0, 'CD': 0.3}, {'Mach': 5.0, 'CD': 0.2}]),
    ("three", [{'Mach': 0.0, 'CD': 0.3}, {'Mach': 1.0, 'CD': 0.5}, {'Mach': 5.0, 'CD': 0.2}]),
    ("four", [{'Mach': 0.0, 'CD': 0.3}, {'Mach': 0.9, 'CD': 0.35}, {'Mach': 1.1, 'CD': 0.5}, {'Mach': 5.0, 'CD': 0.2}]),
    ("unsorted", [{'Mach': 0.0, 'CD': 0.3}, {'Mach': 2.0, 'CD': 0.35}, {'Mach': 1.1, 'CD': 0.5}, {'Mach': 0.7, 'CD': 0.4},
                  {'Mach': 3.0, 'CD': 0.25}, {'Mach': 2.5, 'CD': 0.3}, {'Mach': 5.0, 'CD': 0.2}]),
    ("one", [{'Mach': 1.0, 'CD': 0.3}]),
    ("dup", [{'Mach': 0.0, 'CD': 0.3}, {'Mach': 1.0, 'CD': 0.5}, {'Mach': 1.0, 'CD': 0.6}, {'Mach': 5.0, 'CD': 0.2}]),
):
    report(f"custom table {nm}", lambda: calc.fire(mk_shot(bc=0.4, table=tbl), Distance.Yard(500), Distance.Yard(100), True))

# zero finding failures / successes
for d in (50, 300, 1000, 3000):
    try:
        print("zero", d, repr(calc.barrel_elevation_for_target(mk_shot(look_angle=Angular.Degree(2)), Distance.Yard(d)).raw_value))
    except (ZeroFindingError, RangeError) as e:
        print("zero", d, type(e).__name__, e)

# ---- 5. exported helpers driven directly --------------------------------------------------------
def drive_filter(flags, range_step, time_step, pts, seen=(-0.2, 0.01, 0.0)):
    f = _TrajectoryDataFilter(flags, range_step, Vector(*pts[0][0]), Vector(*pts[0][1]), time_step)
    f.setup_seen_zero(*seen)
    out = []
    for pos, vel, mach, t in pts:
        f.clear_current_flag()
        d = f.should_record(Vector(*pos), Vector(*vel), mach, t)
        out.append((None if d is None else (d.time, tuple(d.position), tuple(d.velocity), d.mach),
                    int(f.current_flag), int(f.seen_zero), f.next_record_distance, f.time_of_last_record,
                    f.previous_v_mach))
    return out


pts = []
x, y, vx, t = 0.0, -0.2, 1300.0, 0.0
for i in range(40):
    pts.append(((x, y, 0.01 * i), (vx, 3.0 - 0.4 * i, 0.1), 1116.0, t))
    x += 0.9 + 0.11 * i
    y += 0.05 - 0.004 * i
    vx -= 12.0
    t += 0.0007 * (i + 1)
for flags in (TrajFlag.NONE, TrajFlag.RANGE, TrajFlag.ALL, TrajFlag.ZERO | TrajFlag.MACH):
    for rs, ts in ((0.0, 0.0), (5.0, 0.0), (0.25, 0.0), (50.0, 0.003), (0.0, 0.002), (-1.0, 0.0)):
        for seen in ((-0.2, 0.01, 0.0), (0.1, 0.0, 0.0), (-0.2, -0.01, 0.0), (float('nan'), 0.0, 0.1)):
            print("filter", int(flags), rs, ts, seen[:2],
                  hashlib.sha256(repr(drive_filter(flags, rs, ts, pts, seen)).encode()).hexdigest())
print("filter sample", drive_filter(TrajFlag.ALL, 5.0, 0.0, pts)[:8])

for ws_in in (None, (), tuple(winds), (Wind(),), sorted(winds, key=lambda w: w.until_distance.raw_value)):
    ws = _WindSock(ws_in)
    seq = [(tuple(ws.current_vector()), ws.current, ws.next_range)]
    for r in (0.0, 100.0, 449.9, 450.0, 460.0, 900.0, 905.0, 1800.0, 1801.0, 1e9, 5.0):
        v = ws.vector_for_range(r)
        seq.append((r, tuple(v), ws.current, ws.next_range))
    print("windsock", seq)

dps = shot.ammo.dm.drag_table
curve = tc.calculate_curve(dps)
print("curve", len(curve), hashlib.sha256(repr([tuple(c) for c in curve]).encode()).hexdigest(), tuple(curve[0]), tuple(curve[-1]))
ml = tc._get_only_mach_data(dps)
print("machlist", type(ml).__name__, hashlib.sha256(repr(ml).encode()).hexdigest())
print("cd", [tc._calculate_by_curve_and_mach_list(ml, curve, m) for m in
             (-1.0, 0.0, 0.3, 0.7999, 0.8, 0.925, 1.0, 1.01, 2.33, 4.99, 5.0, 7.5, float('inf'))])
print("cd nan", repr(tc._calculate_by_curve_and_mach_list(ml, curve, float('nan'))))
for bad in ([], dps[:1]):
    try:
        print(tc.calculate_curve(bad))
    except Exception as e:  # pylint: disable=broad-except
        print("curve exc", type(e).__name__, e)
print("curve2", [tuple(c) for c in tc.calculate_curve(dps[:2])], [tuple(c) for c in tc.calculate_curve(dps[:3])])
print("curve tuple-in", [tuple(c) for c in tc.calculate_curve(tuple(dps[:4]))])

c = calc._calc
c._init_trajectory(shot)
print("drag_by_mach", [c.drag_by_mach(m) for m in (0.1, 0.9, 1.0, 1.2, 2.5, 6.0)])
print("spin_drift", [c.spin_drift(t) for t in (0.0, 0.1, 1.0, 2.5)], repr(c.stability_coefficient), repr(c.calc_step))
c._init_trajectory(shot3)
print("spin_drift left", [c.spin_drift(t) for t in (0.0, 0.1, 1.0, 2.5)], repr(c.stability_coefficient))
print("calc steps", [c.get_calc_step(s) for s in (0, 0.1, 0.5, 3, -1)])
