"""Equivalence digest for refactoring 1 (TrajectoryData row construction, RangeError reason selection).

Run:  cd /tmp/wt/C10 && PYTHONPATH=/tmp/wt/C10 /venv/bin/python /tmp/twins3/C10/1/equiv.py
Prints a deterministic text; it has to be the same with and without the patch.
"""
import math
import warnings

warnings.simplefilter("ignore")

from py_ballisticcalc import (Calculator, Shot, Weapon, Ammo, Atmo, Wind, DragModel, TableG7, TableG1,
                              RangeError, ZeroFindingError, TrajFlag, HitResult)
from py_ballisticcalc.unit import (AbstractDimension, Distance, Velocity, Angular, Temperature, Pressure,
                                   Weight, Unit)
from py_ballisticcalc.vector import Vector
from py_ballisticcalc.trajectory_calc import create_trajectory_row, get_correction, calculate_energy, \
    calculate_ogw


def dim(d):
    if isinstance(d, AbstractDimension):
        return type(d).__name__, repr(d.raw_value), int(d.units)
    return repr(d)


def row(r):
    return tuple(dim(v) for v in r)


def rows(result):
    return [row(r) for r in result]


def snapshot(shot):
    """every field of everything a shot refers to"""
    dm = shot.ammo.dm
    return (
        dim(shot.look_angle), dim(shot.relative_angle), dim(shot.cant_angle),
        dim(shot.weapon.sight_height), dim(shot.weapon.twist), dim(shot.weapon.zero_elevation),
        repr(shot.weapon.sight),
        dim(shot.ammo.mv), dim(shot.ammo.powder_temp), repr(shot.ammo.temp_modifier),
        repr(shot.ammo.use_powder_sensitivity),
        repr(dm.BC), dim(dm.weight), dim(dm.diameter), dim(dm.length),
        tuple((repr(p.Mach), repr(p.CD)) for p in dm.drag_table),
        tuple(sorted((k, dim(v)) for k, v in vars(shot.atmo).items())),
        tuple((dim(w.velocity), dim(w.direction_from), dim(w.until_distance), repr(w.MAX_DISTANCE_FEET))
              for w in shot._winds),
    )


def show(title, value):
    print(f"== {title}")
    if isinstance(value, list):
        for v in value:
            print("  ", v)
    else:
        print("  ", value)


def make_shots():
    dm7 = DragModel(0.223, TableG7, Weight.Grain(168), Distance.Inch(0.308), Distance.Inch(1.282))
    dm1 = DragModel(0.365, TableG1)  # no weight/diameter/length: no spin drift
    a = Shot(weapon=Weapon(Distance.Inch(2), Distance.Inch(12)),
             ammo=Ammo(dm7, Velocity.FPS(2750)),
             atmo=Atmo.icao())
    b = Shot(weapon=Weapon(Distance.Centimeter(9), Distance.Inch(-9), Angular.Mil(1.5)),
             ammo=Ammo(dm7, Velocity.MPS(800), Temperature.Celsius(15), 1.2, True),
             look_angle=Angular.Degree(5), relative_angle=Angular.MOA(3), cant_angle=Angular.Degree(10),
             atmo=Atmo(Distance.Meter(1500), Pressure.hPa(850), Temperature.Celsius(-5), 60,
                       Temperature.Celsius(25)),
             winds=[Wind(Velocity.MPS(6), Angular.OClock(9), Distance.Meter(600)),
                    Wind(Velocity.MPS(3), Angular.OClock(2), Distance.Meter(200)),
                    Wind(Velocity.MPS(8), Angular.Degree(270), Distance.Meter(400))])
    c = Shot(weapon=Weapon(0, 0), ammo=Ammo(dm1, Velocity.FPS(1100)),
             look_angle=Angular.Degree(-12), atmo=Atmo.icao(Distance.Foot(-1000)))
    steep = Shot(weapon=Weapon(Distance.Inch(1.5), Distance.Inch(8)), ammo=Ammo(dm7, Velocity.FPS(2600)),
                 relative_angle=Angular.Degree(40), atmo=Atmo.icao())
    return a, b, c, steep


def attempt(fn):
    """result of an operation, whichever way it ends"""
    try:
        r = fn()
    except RangeError as e:
        return ["RangeError", e.reason, str(e), dim(e.last_distance)] + rows(e.incomplete_trajectory)
    except ZeroFindingError as e:
        return ["ZeroFindingError", repr(e.zero_finding_error), e.iterations_count,
                dim(e.last_barrel_elevation), str(e)]
    except Exception as e:  # pylint: disable=broad-except
        return [type(e).__name__, str(e)]
    if isinstance(r, HitResult):
        return rows(r)
    return [dim(r)]


def main():
    a, b, c, steep = make_shots()
    before = [snapshot(s) for s in (a, b, c, steep)]

    calc = Calculator()
    low_drop = Calculator(_config={'cMaximumDrop': -8.0})
    high_floor = Calculator(_config={'cMinimumAltitude': -1030.0})
    fast_only = Calculator(_config={'cMinimumVelocity': 1800.0})
    all_three = Calculator(_config={'cMinimumVelocity': 2000.0, 'cMaximumDrop': -2.0, 'cMinimumAltitude': -2.0})
    coarse = Calculator(_config={'max_calc_step_size_feet': 2.0})

    ops = [
        ("zero a 100yd", lambda: calc.set_weapon_zero(a, Distance.Yard(100))),
        ("fire a 1000yd/100", lambda: calc.fire(a, Distance.Yard(1000), Distance.Yard(100))),
        ("fire a extra", lambda: calc.fire(a, Distance.Yard(400), Distance.Yard(100), extra_data=True)),
        ("zero b 300m", lambda: calc.set_weapon_zero(b, Distance.Meter(300))),
        ("fire b 900m/75 extra", lambda: calc.fire(b, Distance.Meter(900), Distance.Meter(75), extra_data=True)),
        ("fire b time_step", lambda: calc.fire(b, Distance.Meter(300), Distance.Meter(100), time_step=0.05)),
        ("fire c down-hill subsonic", lambda: calc.fire(c, Distance.Yard(500), Distance.Yard(50), extra_data=True)),
        ("fire c: minimum altitude", lambda: high_floor.fire(c, Distance.Yard(800), Distance.Yard(100))),
        ("fire a: maximum drop", lambda: low_drop.fire(a, Distance.Yard(1500), Distance.Yard(250))),
        ("fire a: minimum velocity", lambda: fast_only.fire(a, Distance.Yard(1500), Distance.Yard(250))),
        ("fire a: all limits at once", lambda: all_three.fire(a, Distance.Yard(1500), Distance.Yard(250))),
        ("fire c: drop and altitude at once",
         lambda: Calculator(_config={'cMaximumDrop': -1.0, 'cMinimumAltitude': -1001.0}).fire(
             c, Distance.Yard(800), Distance.Yard(100))),
        ("fire steep 40deg falls to the ground", lambda: calc.fire(steep, Distance.Yard(9000), Distance.Yard(1000))),
        ("zero steep impossible", lambda: calc.barrel_elevation_for_target(steep, Distance.Yard(9000))),
        ("fire a default step", lambda: calc.fire(a, Distance.Yard(300))),
        ("fire a one row only", lambda: calc.fire(a, Distance.Foot(1), Distance.Foot(10))),
        ("fire a coarse", lambda: coarse.fire(a, Distance.Yard(600), Distance.Yard(200), extra_data=True)),
        ("danger space a", lambda: [repr(calc.fire(a, Distance.Yard(600), Distance.Yard(10), extra_data=True)
                                         .danger_space(Distance.Yard(400), Distance.Meter(1.5)))]),
    ]
    first = {}
    for title, op in ops:
        first[title] = attempt(op)
        show(title, first[title])

    # the same operations again, in another order, after the ones that raised: nothing may have changed
    # (set_weapon_zero is left out: it starts from the zero that is already stored)
    for title, op in reversed(ops):
        if title.startswith("zero a") or title.startswith("zero b"):
            continue
        again = attempt(op)
        print(f"again {title}: {'same' if again == first[title] else 'DIFFERENT'}")
        if again != first[title]:
            show(title + " (2nd)", again)

    after_zero = [snapshot(s) for s in (a, b, c, steep)]
    for name, s0, s1 in zip("abcs", before, after_zero):
        changed = [i for i, (x, y) in enumerate(zip(s0, s1)) if x != y]
        print(f"fields of shot {name} that differ from the initial ones: {changed}")
    show("snapshots", [repr(s) for s in after_zero])

    # the row functions themselves
    direct = []
    for args in [
        (0.0, Vector(0.0, -0.2, 0.0), Vector(2600.0, 10.0, 0.0), 2600.0, 1116.0, 0.0, 0.0, 1.0, 0.0, 168.0, 0),
        (0.5, Vector(1200.0, -3.5, 0.7), Vector(2000.0, -30.0, 2.0), 2000.3, 1100.0, 0.02, 0.1, 0.9, 0.7, 175.0,
         TrajFlag.RANGE),
        (1.5, Vector(-5.0, 2.0, -1.0), Vector(-100.0, 5.0, 0.0), 100.1, 1116.0, -0.3, -0.4, 1.1, 0.01, 55.0,
         TrajFlag.ZERO_UP | TrajFlag.MACH),
        (2.0, Vector(3000.0, -100.0, 4.0), Vector(900.0, -60.0, 1.0), 902.0, 1050.0, 0.5, math.pi / 3, 0.8, 0.3,
         0.0, TrajFlag.ALL),
    ]:
        direct.append(row(create_trajectory_row(*args)))
    for bad in [
        (1.0, Vector(10.0, 1.0, 0.0), Vector(1.0, 0.0, 0.0), 1.0, 0.0, 0.0, 0.0, 1.0, 0.0, 168.0, 0),  # mach 0
        (1.0, Vector(10.0, 1.0, 0.0), Vector(1.0, 0.0, 0.0), 1.0, 0.0, 0.0, math.inf, 1.0, 0.0, 168.0, 0),
        (1.0, Vector(10.0, 1.0, 0.0), Vector(1.0, 0.0, 0.0), 1e200, 1000.0, 0.0, math.inf, 1.0, 0.0, 168.0, 0),
        (1.0, Vector(10.0, 1.0, 0.0), Vector(1.0, 0.0, 0.0), 1e200, 1000.0, 0.0, 0.1, 1.0, 0.0, 168.0, 0),
        (1.0, Vector(10.0, 1.0, 0.0), Vector(1.0, 0.0, 0.0), 1e120, 1000.0, 0.0, 0.1, 1.0, 0.0, 168.0, 0),
    ]:
        try:
            direct.append(row(create_trajectory_row(*bad)))
        except Exception as e:  # pylint: disable=broad-except
            direct.append((type(e).__name__, str(e)))
    show("create_trajectory_row", direct)
    show("get_correction", [repr(get_correction(d, o)) for d, o in
                            [(0, 5.0), (0.0, -1.0), (-0.0, 1.0), (100.0, 2.5), (-3.0, 1.0), (1e-320, 1.0),
                             (math.inf, math.inf), (math.nan, 1.0), (5, 0)]])
    show("energy/ogw", [(repr(calculate_energy(w, v)), repr(calculate_ogw(w, v)))
                        for w, v in [(168.0, 2750.0), (0.0, 100.0), (55, 3200), (300.5, 0.0)]])


main()
