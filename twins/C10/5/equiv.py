"""Equivalence probe for C10 / refactoring 2 (drag-curve state: calculate_curve, mach list, lookup, drag_by_mach).

Prints a deterministic digest; the text must be identical on the clean worktree and with the patch.
Run:  cd /tmp/wt/C10 && PYTHONPATH=/tmp/wt/C10 /venv/bin/python /tmp/twins2/C10/2/equiv.py
"""
import hashlib
import math
import sys
import threading
import warnings

warnings.filterwarnings("ignore")

from py_ballisticcalc import (Calculator, Shot, Weapon, Ammo, DragModel, Atmo, Vacuum, Wind,
                              TableG7, TableG1, RangeError)
from py_ballisticcalc.exceptions import ZeroFindingError
from py_ballisticcalc.unit import Distance, Velocity, Angular, Temperature, Pressure, Weight
from py_ballisticcalc.trajectory_calc import _TrajectoryDataFilter, _WindSock, TrajectoryCalc
from py_ballisticcalc.trajectory_data import TrajFlag
from py_ballisticcalc.vector import Vector
from py_ballisticcalc.interface_config import create_interface_config


# ---------------------------------------------------------------- digest helpers
def dim(v):
    return (type(v).__name__, repr(v.raw_value), v.units.name)


def row(r):
    out = []
    for v in r:
        out.append(dim(v) if hasattr(v, 'raw_value') else repr(v))
    return tuple(out)


def rows(traj):
    return [row(r) for r in traj]


def sha(obj):
    return hashlib.sha256(repr(obj).encode()).hexdigest()[:20]


def snap_obj(o, depth=0):
    """deep, order-stable snapshot of an argument object"""
    if hasattr(o, 'raw_value') and hasattr(o, 'units'):
        return dim(o)
    if isinstance(o, (int, float, str, bool, type(None))):
        return repr(o)
    if isinstance(o, (list, tuple)):
        return [snap_obj(i, depth + 1) for i in o]
    if isinstance(o, dict):
        return [(k, snap_obj(v, depth + 1)) for k, v in sorted(o.items())]
    d = {}
    if hasattr(o, '__dict__'):
        d.update(vars(o))
    for s in getattr(type(o), '__slots__', ()):
        if hasattr(o, s):
            d[s] = getattr(o, s)
    return (type(o).__name__, [(k, snap_obj(v, depth + 1)) for k, v in sorted(d.items())])


def snap(shot):
    return sha(snap_obj(shot))


def fire(calc, shot, *a, **kw):
    """returns a printable, hashable description of the outcome of Calculator.fire"""
    try:
        hr = calc.fire(shot, *a, **kw)
        return ('ok', rows(hr.trajectory))
    except RangeError as e:
        return ('RangeError', e.reason, rows(e.incomplete_trajectory))
    except Exception as e:  # pylint: disable=broad-except
        return (type(e).__name__, str(e))


def zero(calc, shot, dist):
    try:
        return ('ok', dim(calc.set_weapon_zero(shot, dist)))
    except ZeroFindingError as e:
        return ('ZeroFindingError', repr(e.zero_finding_error), e.iterations_count, dim(e.last_barrel_elevation))
    except RangeError as e:
        return ('RangeError', e.reason, rows(e.incomplete_trajectory))
    except Exception as e:  # pylint: disable=broad-except
        return (type(e).__name__, str(e))


def show(label, outcome):
    kind = outcome[0]
    body = outcome[-1]
    n = len(body) if isinstance(body, list) else '-'
    print(f"{label}: {kind} n={n} sha={sha(outcome)}")
    if isinstance(body, list) and body:
        print("   first", body[0])
        print("   last ", body[-1])
        print("   flags", [r[-1] for r in body if r[-1] != '8'][:12])
    else:
        print("   ", outcome)



from py_ballisticcalc import DragModelMultiBC, BCPoint, TableG2, TableG8, TableRA4
from py_ballisticcalc.drag_model import DragDataPoint
from py_ballisticcalc.trajectory_calc import _trajectory_calc as tcmod


# ---------------------------------------------------------------- drag models
def table_two():
    return [{'Mach': 0.0, 'CD': 0.25}, {'Mach': 5.0, 'CD': 0.45}]


def table_three():
    return [DragDataPoint(0.0, 0.2), DragDataPoint(1.0, 0.4), DragDataPoint(3.0, 0.25)]


def table_four():
    return [{'Mach': 0.5, 'CD': 0.2}, {'Mach': 0.9, 'CD': 0.25}, {'Mach': 1.1, 'CD': 0.42}, {'Mach': 2.5, 'CD': 0.3}]


def table_unsorted():
    t = [dict(p) for p in TableG7[:40]]
    t[5], t[17] = t[17], t[5]
    t[30], t[31] = t[31], t[30]
    return t


def table_duplicate_mach():
    t = [dict(p) for p in TableG1[:30]]
    t[12] = {'Mach': t[11]['Mach'], 'CD': t[12]['CD']}
    return t


def table_duplicate_first():
    return [{'Mach': 0.5, 'CD': 0.2}, {'Mach': 0.5, 'CD': 0.25}, {'Mach': 1.1, 'CD': 0.42}]


def table_duplicate_last():
    return [{'Mach': 0.5, 'CD': 0.2}, {'Mach': 0.9, 'CD': 0.25}, {'Mach': 1.1, 'CD': 0.42}, {'Mach': 1.1, 'CD': 0.3}]


def table_one():
    return [{'Mach': 1.0, 'CD': 0.3}]


def mbc():
    return DragModelMultiBC([BCPoint(0.275, V=Velocity.MPS(800)), BCPoint(0.255, V=Velocity.MPS(500)),
                             BCPoint(0.26, V=Velocity.MPS(700))], TableG7, weight=178, diameter=.308, length=1.3)


models = {
    'G7': lambda: DragModel(0.22, TableG7, 168, 0.308, 1.22),
    'G1': lambda: DragModel(0.45, TableG1, 150, 0.308, 1.1),
    'G2': lambda: DragModel(0.3, TableG2),
    'G8': lambda: DragModel(0.35, TableG8, 200, 0.338, 1.5),
    'RA4': lambda: DragModel(0.12, TableRA4, 40, 0.224, 0.5),
    'mbc': mbc,
    'two': lambda: DragModel(0.3, table_two(), 100, 0.3, 1.0),
    'three': lambda: DragModel(0.3, table_three(), 100, 0.3, 1.0),
    'four': lambda: DragModel(0.25, table_four()),
    'unsorted': lambda: DragModel(0.22, table_unsorted(), 168, 0.308, 1.22),
    'dup': lambda: DragModel(0.4, table_duplicate_mach()),
    'dup first': lambda: DragModel(0.4, table_duplicate_first()),
    'dup last': lambda: DragModel(0.4, table_duplicate_last()),
    'one': lambda: DragModel(0.4, table_one()),
}


def shot_for(name, mv=2700, **kw):
    return Shot(weapon=Weapon(Distance.Inch(2), Distance.Inch(11)), ammo=Ammo(models[name](), Velocity.FPS(mv)),
                winds=[Wind(Velocity.MPH(7), Angular.OClock(4))], **kw)


# ---------------------------------------------------------------- 1. the module level functions
print("== 1. calculate_curve / mach list / lookup")
machs = [-1.0, 0.0, 0.1, 0.4999, 0.5, 0.7, 0.9, 0.925, 0.95, 1.0, 1.0125, 1.025, 1.1, 1.8, 2.5, 3.0, 4.9, 5.0, 7.5, 100.0,
         float('inf'), float('-inf'), float('nan')]
for name, make in models.items():
    try:
        table = make().drag_table
        curve = tcmod.calculate_curve(table)
        ml = tcmod._get_only_mach_data(table)
        # every table point itself, the middle between neighbours (ties), and a spread of other values
        probe = list(machs) + ml + [(u + v) / 2 for u, v in zip(ml, ml[1:])]
        vals = [repr(tcmod._calculate_by_curve_and_mach_list(ml, curve, m)) for m in probe]
        print(name, len(curve), type(curve).__name__, type(curve[0]).__name__, type(ml).__name__,
              sha([tuple(map(repr, c)) for c in curve]), sha(list(map(repr, ml))), sha(vals))
        print("    ", tuple(map(repr, curve[0])), tuple(map(repr, curve[-1])), vals[:6])
    except Exception as e:  # pylint: disable=broad-except
        print(name, '->', type(e).__name__, e)

for bad in ([], (), [DragDataPoint(1.0, 0.3)], [{'Mach': 1, 'CD': 2}, {'Mach': 2, 'CD': 2}],
            [DragDataPoint(1.0, 0.3), {'Mach': 2, 'CD': 2}], [{'Mach': 1, 'CD': 2}, DragDataPoint(1.0, 0.3)],
            [DragDataPoint(1.0, 0.3), DragDataPoint(2.0, 0.3), None],
            tuple(table_three()), None):
    try:
        print('curve of', type(bad).__name__, '->', [tuple(map(repr, c)) for c in tcmod.calculate_curve(bad)])
    except Exception as e:  # pylint: disable=broad-except
        print('curve of', repr(bad)[:60], '->', type(e).__name__, e)
    try:
        print('machs of', type(bad).__name__, '->', tcmod._get_only_mach_data(bad))
    except Exception as e:  # pylint: disable=broad-except
        print('machs of', repr(bad)[:60], '->', type(e).__name__, e)

# ---------------------------------------------------------------- 2. through the calculator
print("== 2. fire / zero")
calc = Calculator()
for name in models:
    s = shot_for(name)
    before = snap(s)
    show(f"{name} fire", fire(calc, s, Distance.Yard(900), Distance.Yard(90), extra_data=True))
    print(f"{name} zero:", zero(calc, s, Distance.Yard(200))[:2])
    show(f"{name} fire zeroed", fire(calc, s, Distance.Yard(500), Distance.Yard(100)))
    try:
        cdm = calc.cdm
        print("    cdm", len(cdm), cdm is s.ammo.dm.drag_table, sha([(repr(p.Mach), repr(p.CD)) for p in cdm]))
    except Exception as e:  # pylint: disable=broad-except
        print("    cdm ->", type(e).__name__)
    zeroed = s.weapon.zero_elevation
    s.weapon.zero_elevation = Shot(Weapon(), s.ammo).weapon.zero_elevation
    print("    args unchanged apart from zero:", before == snap(s), dim(zeroed)[1])

# slow and fast ends of the table, vacuum, high altitude
show("G1 slow", fire(calc, shot_for('G1', mv=600), Distance.Yard(600), Distance.Yard(100), extra_data=True))
show("G7 fast", fire(calc, shot_for('G7', mv=5500), Distance.Yard(600), Distance.Yard(100), extra_data=True))
show("four beyond table", fire(calc, shot_for('four', mv=3400), Distance.Yard(1200), Distance.Yard(100), extra_data=True))
show("two high", fire(calc, shot_for('two', atmo=Atmo.icao(Distance.Foot(9000))), Distance.Yard(800), Distance.Yard(100)))

# ---------------------------------------------------------------- 3. TrajectoryCalc.drag_by_mach after each kind of call
print("== 3. drag_by_mach on a long-used solver")
tc = TrajectoryCalc(create_interface_config(None))
for name in ('G7', 'two', 'dup', 'mbc', 'one', 'G1', 'unsorted', 'three'):
    s = shot_for(name)
    try:
        tc.trajectory(s, Distance.Yard(100), Distance.Yard(50))
        outcome = 'ok'
    except Exception as e:  # pylint: disable=broad-except
        outcome = type(e).__name__
    try:
        vals = [repr(tc.drag_by_mach(m)) for m in machs]
        print(name, outcome, tc.table_data is s.ammo.dm.drag_table, sha(vals), vals[2:5])
    except Exception as e:  # pylint: disable=broad-except
        print(name, outcome, 'drag_by_mach ->', type(e).__name__)
    try:
        za = tc.zero_angle(s, Distance.Yard(150))
        print("    zero_angle", dim(za), [repr(tc.drag_by_mach(m)) for m in (0.5, 1.0, 2.0)])
    except Exception as e:  # pylint: disable=broad-except
        print("    zero_angle ->", type(e).__name__)

# ---------------------------------------------------------------- 4. histories
print("== 4. histories")
names = list(models)
requests = [
    (Distance.Yard(700), Distance.Yard(70), False, 0.0),
    (Distance.Yard(350), Distance.Yard(35), True, 0.0),
]


def run_all(c, order):
    out = {}
    for n in order:
        sh = shot_for(n)
        b = snap(sh)
        stored_zero = sh.weapon.zero_elevation
        for j, (rng, stp, extra, ts) in enumerate(requests):
            out[(n, j)] = sha(fire(c, sh, rng, stp, extra_data=extra, time_step=ts))
        out[(n, 'z')] = sha(zero(c, sh, Distance.Yard(150)))
        out[(n, 'after zero')] = sha(fire(c, sh, Distance.Yard(300), Distance.Yard(50), extra_data=True))
        sh.weapon.zero_elevation = stored_zero  # undo the only permitted change
        out[(n, 'args')] = (b == snap(sh))
    return out


fresh = {}
for n in names:
    fresh.update(run_all(Calculator(), [n]))
used = Calculator()
forward = run_all(used, names)
backward = run_all(used, list(reversed(names)))
print("fresh == long-used forward :", fresh == forward)
print("fresh == long-used backward:", fresh == backward)
print("all args unchanged:", all(v for k, v in fresh.items() if k[1] == 'args'))
print("history digest", sha(sorted(fresh.items(), key=repr)))

results = {}


def worker(name, order):
    results[name] = run_all(Calculator(), order)


old = sys.getswitchinterval()
sys.setswitchinterval(1e-5)
try:
    threads = [threading.Thread(target=worker, args=(k, order)) for k, order in
               (("a", names[:5]), ("b", list(reversed(names[:7]))), ("c", names[5:]))]
    for t in threads:
        t.start()
    for t in threads:
        t.join()
finally:
    sys.setswitchinterval(old)
for k in sorted(results):
    print("thread", k, "matches serial:", all(fresh[key] == v for key, v in results[k].items()))
print("warnings.filters head:", [(f[0], f[2].__name__) for f in warnings.filters[:2]])
