"""Equivalence probe for C10 / refactoring 3 (library globals -> Config -> solver entry points, spin drift).

Prints a deterministic digest; the text must be identical on the clean worktree and with the patch.
Run:  cd /tmp/wt/C10 && PYTHONPATH=/tmp/wt/C10 /venv/bin/python /tmp/twins2/C10/3/equiv.py
"""
import hashlib
import math
import sys
import threading
import warnings

warnings.filterwarnings("ignore")

from py_ballisticcalc import (Calculator, Shot, Weapon, Ammo, DragModel, Atmo, Vacuum, Wind,
                              TableG7, TableG1, RangeError)
from py_ballisticcalc.exceptions import ZeroFindingError
from py_ballisticcalc.unit import Distance, Velocity, Angular, Temperature, Pressure, Weight
from py_ballisticcalc.trajectory_calc import _TrajectoryDataFilter, _WindSock, TrajectoryCalc
from py_ballisticcalc.trajectory_data import TrajFlag
from py_ballisticcalc.vector import Vector
from py_ballisticcalc.interface_config import create_interface_config


# ---------------------------------------------------------------- digest helpers
def dim(v):
    return (type(v).__name__, repr(v.raw_value), v.units.name)


def row(r):
    out = []
    for v in r:
        out.append(dim(v) if hasattr(v, 'raw_value') else repr(v))
    return tuple(out)


def rows(traj):
    return [row(r) for r in traj]


def sha(obj):
    return hashlib.sha256(repr(obj).encode()).hexdigest()[:20]


def snap_obj(o, depth=0):
    """deep, order-stable snapshot of an argument object"""
    if hasattr(o, 'raw_value') and hasattr(o, 'units'):
        return dim(o)
    if isinstance(o, (int, float, str, bool, type(None))):
        return repr(o)
    if isinstance(o, (list, tuple)):
        return [snap_obj(i, depth + 1) for i in o]
    if isinstance(o, dict):
        return [(k, snap_obj(v, depth + 1)) for k, v in sorted(o.items())]
    d = {}
    if hasattr(o, '__dict__'):
        d.update(vars(o))
    for s in getattr(type(o), '__slots__', ()):
        if hasattr(o, s):
            d[s] = getattr(o, s)
    return (type(o).__name__, [(k, snap_obj(v, depth + 1)) for k, v in sorted(d.items())])


def snap(shot):
    return sha(snap_obj(shot))


def fire(calc, shot, *a, **kw):
    """returns a printable, hashable description of the outcome of Calculator.fire"""
    try:
        hr = calc.fire(shot, *a, **kw)
        return ('ok', rows(hr.trajectory))
    except RangeError as e:
        return ('RangeError', e.reason, rows(e.incomplete_trajectory))
    except Exception as e:  # pylint: disable=broad-except
        return (type(e).__name__, str(e))


def zero(calc, shot, dist):
    try:
        return ('ok', dim(calc.set_weapon_zero(shot, dist)))
    except ZeroFindingError as e:
        return ('ZeroFindingError', repr(e.zero_finding_error), e.iterations_count, dim(e.last_barrel_elevation))
    except RangeError as e:
        return ('RangeError', e.reason, rows(e.incomplete_trajectory))
    except Exception as e:  # pylint: disable=broad-except
        return (type(e).__name__, str(e))


def show(label, outcome):
    kind = outcome[0]
    body = outcome[-1]
    n = len(body) if isinstance(body, list) else '-'
    print(f"{label}: {kind} n={n} sha={sha(outcome)}")
    if isinstance(body, list) and body:
        print("   first", body[0])
        print("   last ", body[-1])
        print("   flags", [r[-1] for r in body if r[-1] != '8'][:12])
    else:
        print("   ", outcome)



from py_ballisticcalc import (get_global_max_calc_step_size, set_global_max_calc_step_size, reset_globals,
                              PreferredUnits)
from py_ballisticcalc import trajectory_calc as tcpkg
from py_ballisticcalc.interface_config import Config


# ---------------------------------------------------------------- shots
def dm308():
    return DragModel(0.22, TableG7, 168, 0.308, 1.22)


def shot_twist(twist, **kw):
    return Shot(weapon=Weapon(Distance.Inch(2), Distance.Inch(twist)), ammo=Ammo(dm308(), Velocity.FPS(2600)),
                winds=[Wind(Velocity.MPH(6), Angular.OClock(3), Distance.Yard(400))], **kw)


def shot_no_dimensions():
    # no weight / diameter / length: stability coefficient 0, no spin drift
    return Shot(weapon=Weapon(Distance.Inch(2), Distance.Inch(9)), ammo=Ammo(DragModel(0.3, TableG1), Velocity.FPS(2900)),
                relative_angle=Angular.Mil(2))


def shot_no_length():
    return Shot(weapon=Weapon(Distance.Inch(2), Distance.Inch(9)),
                ammo=Ammo(DragModel(0.3, TableG1, 150, 0.308), Velocity.FPS(2900)))


def shot_vacuum():
    return Shot(weapon=Weapon(Distance.Inch(0), Distance.Inch(12)), ammo=Ammo(dm308(), Velocity.FPS(2000)),
                atmo=Vacuum(), relative_angle=Angular.Degree(3))


def shot_powder():
    ammo = Ammo(dm308(), Velocity.MPS(800), Temperature.Celsius(15), use_powder_sensitivity=True)
    ammo.calc_powder_sens(Velocity.MPS(780), Temperature.Celsius(-10))
    return Shot(weapon=Weapon(Distance.Inch(3), Distance.Inch(-10)), ammo=ammo, look_angle=Angular.Degree(-4),
                cant_angle=Angular.Degree(15),
                atmo=Atmo(altitude=Distance.Meter(1500), pressure=Pressure.hPa(850), temperature=Temperature.Celsius(-5),
                          humidity=60, powder_t=Temperature.Celsius(-20)))


makers = {
    'rh twist': lambda: shot_twist(12),
    'lh twist': lambda: shot_twist(-12),
    'no twist': lambda: shot_twist(0),
    'no dims': shot_no_dimensions,
    'no length': shot_no_length,
    'vacuum': shot_vacuum,
    'powder': shot_powder,
}


def cfg(c):
    return tuple((k, repr(v)) for k, v in c._calc._config._asdict().items())


# ---------------------------------------------------------------- 1. configuration
print("== 1. create_interface_config / Calculator construction")
reset_globals()
print("defaults       ", tuple((k, repr(v)) for k, v in create_interface_config()._asdict().items()))
print("None           ", create_interface_config(None) == create_interface_config())
print("empty dict     ", create_interface_config({}) == create_interface_config())
partial = {'cMaxIterations': 7, 'max_calc_step_size_feet': 1.5, 'cGravityConstant': -32.0}
print("partial        ", tuple((k, repr(v)) for k, v in create_interface_config(partial)._asdict().items()))
print("partial intact ", partial)
full = dict(create_interface_config()._asdict(), cMinimumVelocity=10.0)
print("full           ", tuple(create_interface_config(full)))
for bad in ({'nonsense': 1}, {'cMaxIterations': 3, 'zzz': 2, 'aaa': 1}):
    try:
        create_interface_config(bad)
    except TypeError as e:
        print("unknown key    ", type(e).__name__, e)
for ignored in ([('cMaxIterations', 3)], (), 0, 'cMaxIterations', create_interface_config(), 3.5):
    print("not a dict     ", type(ignored).__name__, create_interface_config(ignored) == create_interface_config())
print("type           ", type(create_interface_config()).__name__, isinstance(create_interface_config(), Config))

print("-- globals are read when the calculator is built, and only then")
c_before = Calculator()
print("global step    ", dim(get_global_max_calc_step_size()), repr(tcpkg._globalMaxCalcStepSizeFeet))
set_global_max_calc_step_size(Distance.Foot(2))
c_two_feet = Calculator()
set_global_max_calc_step_size(Distance.Meter(0.1))
c_ten_cm = Calculator()
print("global step    ", dim(get_global_max_calc_step_size()), repr(tcpkg._globalMaxCalcStepSizeFeet))
set_global_max_calc_step_size(3)   # plain number: preferred distance unit
print("global step    ", dim(get_global_max_calc_step_size()), repr(tcpkg._globalMaxCalcStepSizeFeet), PreferredUnits.distance.name)
c_override = Calculator(_config={'max_calc_step_size_feet': 0.25})
for bad in (0, -1, Distance.Foot(0), Distance.Meter(-3)):
    try:
        set_global_max_calc_step_size(bad)
    except ValueError as e:
        print("rejected       ", repr(bad), type(e).__name__, e, repr(tcpkg._globalMaxCalcStepSizeFeet))
try:
    set_global_max_calc_step_size(Velocity.FPS(3))
except Exception as e:  # pylint: disable=broad-except
    print("wrong dimension", type(e).__name__, repr(tcpkg._globalMaxCalcStepSizeFeet))
tcpkg._globalUsePowderSensitivity = True
reset_globals()
print("after reset    ", dim(get_global_max_calc_step_size()), repr(tcpkg._globalMaxCalcStepSizeFeet),
      repr(tcpkg._globalUsePowderSensitivity), repr(tcpkg._globalChartResolution))
c_after = Calculator()
for label, c in (("before", c_before), ("two feet", c_two_feet), ("ten cm", c_ten_cm), ("override", c_override),
                 ("after", c_after)):
    print(label, cfg(c)[0], repr(c._calc.get_calc_step()), tuple(map(repr, c._calc.gravity_vector)))
    show(f"   {label} fire", fire(c, makers['rh twist'](), Distance.Yard(500), Distance.Yard(100)))
print("before == after:", sha(fire(c_before, makers['rh twist'](), Distance.Yard(500), Distance.Yard(100)))
      == sha(fire(c_after, makers['rh twist'](), Distance.Yard(500), Distance.Yard(100))))

# ---------------------------------------------------------------- 2. solver entry points
print("== 2. get_calc_step / trajectory / spin drift / stability")
tc = TrajectoryCalc(create_interface_config({'max_calc_step_size_feet': 0.8}))
for step in (0, 0.0, -0.0, 0.1, 0.8, 5, -1, float('nan'), float('inf'), True, False):
    print("get_calc_step", repr(step), repr(tc.get_calc_step(step)))
print("get_calc_step default", repr(tc.get_calc_step()))

for name, make in makers.items():
    s = make()
    before = snap(s)
    tc2 = TrajectoryCalc(create_interface_config(None))
    outs = []
    for extra in (False, True, 0, 1, None, "yes", [], [0]):
        try:
            r = ('ok', rows(tc2.trajectory(s, Distance.Yard(300), Distance.Yard(100), extra)))
        except RangeError as e:
            r = ('RangeError', e.reason, rows(e.incomplete_trajectory))
        outs.append((repr(extra), len(r[-1]), sha(r)))
    print(name, outs)
    print("    stability", repr(tc2.stability_coefficient), type(tc2.stability_coefficient).__name__,
          [repr(tc2.spin_drift(t)) for t in (0, 0.0, 0.5, 1.0, 2.75)],
          repr(tc2.calc_stability_coefficient(Atmo.icao(Distance.Foot(5000)))),
          repr(tc2.calc_stability_coefficient(Vacuum())))
    try:
        tc2.spin_drift(-1.0)
        print("    negative time ok")
    except ValueError as e:
        print("    negative time", type(e).__name__, e)
    print("    args unchanged:", before == snap(s))

# keyword / positional forms of the public call
c = Calculator()
s = makers['powder']()
show("powder kw", fire(c, s, trajectory_range=Distance.Meter(900), trajectory_step=Distance.Meter(100), extra_data=True,
                       time_step=0.2))
show("powder default step", fire(c, s, 1000))
show("powder numbers", fire(c, s, 1000, 250, True))
print("zero powder:", zero(c, s, Distance.Meter(300)))
show("powder zeroed", fire(c, s, Distance.Meter(900), Distance.Meter(100), extra_data=True))
try:
    c._calc.trajectory(s, 100, Distance.Yard(10))
except Exception as e:  # pylint: disable=broad-except
    print("range without unit ->", type(e).__name__, dim(Angular.Radian(c._calc.barrel_elevation)))
try:
    c._calc.trajectory(makers['rh twist'](), Distance.Yard(100), 10)
except Exception as e:  # pylint: disable=broad-except
    print("step without unit ->", type(e).__name__, dim(Angular.Radian(c._calc.barrel_elevation)), repr(c._calc.twist))

# ---------------------------------------------------------------- 3. histories
print("== 3. histories")
names = list(makers)
requests = [
    (Distance.Yard(700), Distance.Yard(70), False, 0.0),
    (Distance.Yard(350), Distance.Yard(35), True, 0.0),
    (Distance.Yard(200), Distance.Yard(100), True, 0.05),
]
configs = [None, {'max_calc_step_size_feet': 1.0}, {'cMinimumVelocity': 1500.0}, {'cZeroFindingAccuracy': 0.5, 'cMaxIterations': 2}]


def run_all(c, order):
    out = {}
    for n in order:
        sh = makers[n]()
        b = snap(sh)
        stored_zero = sh.weapon.zero_elevation
        for j, (rng, stp, extra, ts) in enumerate(requests):
            out[(n, j)] = sha(fire(c, sh, rng, stp, extra_data=extra, time_step=ts))
        out[(n, 'z')] = sha(zero(c, sh, Distance.Yard(150)))
        out[(n, 'after zero')] = sha(fire(c, sh, Distance.Yard(300), Distance.Yard(50), extra_data=True))
        sh.weapon.zero_elevation = stored_zero  # undo the only permitted change
        out[(n, 'args')] = (b == snap(sh))
    return out


for k, conf in enumerate(configs):
    fresh = {}
    for n in names:
        fresh.update(run_all(Calculator(_config=conf), [n]))
    used = Calculator(_config=conf)
    forward = run_all(used, names)
    # the global changes while the calculator is in use: its own Config must not follow
    set_global_max_calc_step_size(Distance.Foot(0.05 * (k + 1)))
    backward = run_all(used, list(reversed(names)))
    reset_globals()
    print("config", k, "fresh == forward:", fresh == forward, " fresh == backward:", fresh == backward,
          " args unchanged:", all(v for key, v in fresh.items() if key[1] == 'args'),
          " digest", sha(sorted(fresh.items(), key=repr)))
    if k == 0:
        serial = fresh

results = {}


def worker(name, order):
    results[name] = run_all(Calculator(), order)


old = sys.getswitchinterval()
sys.setswitchinterval(1e-5)
try:
    threads = [threading.Thread(target=worker, args=(k, order)) for k, order in
               (("a", names[:4]), ("b", list(reversed(names))), ("c", names[3:]))]
    for t in threads:
        t.start()
    for t in threads:
        t.join()
finally:
    sys.setswitchinterval(old)
for k in sorted(results):
    print("thread", k, "matches serial:", all(serial[key] == v for key, v in results[k].items()))
print("warnings.filters head:", [(f[0], f[2].__name__) for f in warnings.filters[:2]])
print("globals at exit:", repr(tcpkg._globalMaxCalcStepSizeFeet), repr(tcpkg._globalUsePowderSensitivity))
