"""Equivalence probe for C10 / refactoring 1 (_TrajectoryDataFilter and _WindSock).

Prints a deterministic digest; the text must be identical on the clean worktree and with the patch.
Run:  cd /tmp/wt/C10 && PYTHONPATH=/tmp/wt/C10 /venv/bin/python /tmp/twins2/C10/1/equiv.py
"""
import hashlib
import math
import sys
import threading
import warnings

warnings.filterwarnings("ignore")

from py_ballisticcalc import (Calculator, Shot, Weapon, Ammo, DragModel, Atmo, Vacuum, Wind,
                              TableG7, TableG1, RangeError)
from py_ballisticcalc.exceptions import ZeroFindingError
from py_ballisticcalc.unit import Distance, Velocity, Angular, Temperature, Pressure, Weight
from py_ballisticcalc.trajectory_calc import _TrajectoryDataFilter, _WindSock, TrajectoryCalc
from py_ballisticcalc.trajectory_data import TrajFlag
from py_ballisticcalc.vector import Vector
from py_ballisticcalc.interface_config import create_interface_config


# ---------------------------------------------------------------- digest helpers
def dim(v):
    return (type(v).__name__, repr(v.raw_value), v.units.name)


def row(r):
    out = []
    for v in r:
        out.append(dim(v) if hasattr(v, 'raw_value') else repr(v))
    return tuple(out)


def rows(traj):
    return [row(r) for r in traj]


def sha(obj):
    return hashlib.sha256(repr(obj).encode()).hexdigest()[:20]


def snap_obj(o, depth=0):
    """deep, order-stable snapshot of an argument object"""
    if hasattr(o, 'raw_value') and hasattr(o, 'units'):
        return dim(o)
    if isinstance(o, (int, float, str, bool, type(None))):
        return repr(o)
    if isinstance(o, (list, tuple)):
        return [snap_obj(i, depth + 1) for i in o]
    if isinstance(o, dict):
        return [(k, snap_obj(v, depth + 1)) for k, v in sorted(o.items())]
    d = {}
    if hasattr(o, '__dict__'):
        d.update(vars(o))
    for s in getattr(type(o), '__slots__', ()):
        if hasattr(o, s):
            d[s] = getattr(o, s)
    return (type(o).__name__, [(k, snap_obj(v, depth + 1)) for k, v in sorted(d.items())])


def snap(shot):
    return sha(snap_obj(shot))


def fire(calc, shot, *a, **kw):
    """returns a printable, hashable description of the outcome of Calculator.fire"""
    try:
        hr = calc.fire(shot, *a, **kw)
        return ('ok', rows(hr.trajectory))
    except RangeError as e:
        return ('RangeError', e.reason, rows(e.incomplete_trajectory))
    except Exception as e:  # pylint: disable=broad-except
        return (type(e).__name__, str(e))


def zero(calc, shot, dist):
    try:
        return ('ok', dim(calc.set_weapon_zero(shot, dist)))
    except ZeroFindingError as e:
        return ('ZeroFindingError', repr(e.zero_finding_error), e.iterations_count, dim(e.last_barrel_elevation))
    except RangeError as e:
        return ('RangeError', e.reason, rows(e.incomplete_trajectory))
    except Exception as e:  # pylint: disable=broad-except
        return (type(e).__name__, str(e))


def show(label, outcome):
    kind = outcome[0]
    body = outcome[-1]
    n = len(body) if isinstance(body, list) else '-'
    print(f"{label}: {kind} n={n} sha={sha(outcome)}")
    if isinstance(body, list) and body:
        print("   first", body[0])
        print("   last ", body[-1])
        print("   flags", [r[-1] for r in body if r[-1] != '8'][:12])
    else:
        print("   ", outcome)


# ---------------------------------------------------------------- shots
def dm308():
    return DragModel(0.22, TableG7, 168, 0.308, 1.22)


def shot_base(**kw):
    return Shot(weapon=Weapon(Distance.Inch(2), Distance.Inch(12)), ammo=Ammo(dm308(), Velocity.FPS(2600)),
                atmo=Atmo.icao(), **kw)


def shot_winds():
    # deliberately not sorted, last wind ends before the end of the trajectory
    winds = [
        Wind(Velocity.MPH(8), Angular.OClock(9), Distance.Yard(500)),
        Wind(Velocity.MPH(5), Angular.OClock(3), Distance.Yard(200)),
        Wind(Velocity.MPH(12), Angular.Degree(45), Distance.Yard(800)),
    ]
    return shot_base(winds=winds)


def shot_look():
    return Shot(weapon=Weapon(Distance.Inch(2.5), Distance.Inch(-9)), ammo=Ammo(dm308(), Velocity.FPS(2750)),
                look_angle=Angular.Degree(10), cant_angle=Angular.Degree(5),
                atmo=Atmo(altitude=Distance.Foot(4000), temperature=Temperature.Fahrenheit(30), humidity=40),
                winds=[Wind(Velocity.MPH(10), Angular.OClock(2))])


def shot_sight_below():
    # sight below the bore and barrel pointing below the sight line: setup_seen_zero's ZERO_DOWN branch
    return Shot(weapon=Weapon(Distance.Inch(-3), Distance.Inch(10)), ammo=Ammo(dm308(), Velocity.FPS(2400)),
                relative_angle=Angular.Degree(-0.5), look_angle=Angular.Degree(1))


def shot_sight_below_up():
    # sight below the bore, barrel pointing above the sight line: neither flag preset
    return Shot(weapon=Weapon(Distance.Inch(-3), Distance.Inch(10)), ammo=Ammo(dm308(), Velocity.FPS(2400)),
                relative_angle=Angular.Degree(0.2))


def shot_steep():
    return Shot(weapon=Weapon(Distance.Inch(2), Distance.Inch(12)),
                ammo=Ammo(DragModel(0.3, TableG1, 150, 0.308, 1.1), Velocity.FPS(1200)),
                relative_angle=Angular.Degree(85),
                winds=[Wind(Velocity.MPH(20), Angular.OClock(12), Distance.Foot(40)),
                       Wind(Velocity.MPH(3), Angular.OClock(6), Distance.Foot(90))])


def shot_slow():
    return Shot(weapon=Weapon(Distance.Inch(2), 0), ammo=Ammo(DragModel(0.1, TableG1), Velocity.FPS(900)),
                relative_angle=Angular.Degree(2))


def shot_vacuum():
    return Shot(weapon=Weapon(Distance.Inch(0), Distance.Inch(12)), ammo=Ammo(dm308(), Velocity.FPS(2000)),
                atmo=Vacuum(), relative_angle=Angular.Degree(3))


# ---------------------------------------------------------------- 1. public API scenarios
print("== 1. fire / zero through Calculator")
calc = Calculator()
s = shot_base()
before = snap(s)
show("base 1000yd/100", fire(calc, s, Distance.Yard(1000), Distance.Yard(100)))
show("base default step", fire(calc, s, Distance.Yard(600)))
print("   args unchanged:", before == snap(s))

s = shot_winds()
before = snap(s)
show("winds 1000yd extra", fire(calc, s, Distance.Yard(1000), Distance.Yard(50), extra_data=True))
show("winds 1000yd", fire(calc, s, Distance.Yard(1000), Distance.Yard(100)))
show("winds short 150yd", fire(calc, s, Distance.Yard(150), Distance.Yard(25)))
print("   args unchanged:", before == snap(s), [dim(w.until_distance)[1] for w in s._winds])

# record step smaller than the integration step: several record distances per step
s = shot_base()
show("tiny step 0.1ft", fire(calc, s, Distance.Foot(20), Distance.Foot(0.1)))
show("tiny step 0.07ft extra", fire(calc, s, Distance.Foot(12), Distance.Foot(0.07), extra_data=True))
show("step > range", fire(calc, s, Distance.Yard(100), Distance.Yard(300)))

# time_step
show("time step", fire(calc, shot_base(), Distance.Yard(400), Distance.Yard(200), time_step=0.05))
show("steep time step", fire(calc, shot_steep(), Distance.Foot(150), Distance.Foot(50), extra_data=True, time_step=0.25))
show("steep no time step", fire(calc, shot_steep(), Distance.Foot(150), Distance.Foot(50)))

# zero crossings with look angle, mach crossing
s = shot_look()
before_w = snap(s.weapon)
print("zero look:", zero(calc, s, Distance.Yard(300)))
show("look extra", fire(calc, s, Distance.Yard(1500), Distance.Yard(100), extra_data=True))
show("look plain", fire(calc, s, Distance.Yard(1500), Distance.Yard(100)))
print("   weapon changed only by zero:", before_w != snap(s.weapon), dim(s.weapon.zero_elevation))

s = shot_sight_below()
show("sight below, barrel down extra", fire(calc, s, Distance.Yard(300), Distance.Yard(30), extra_data=True))
s = shot_sight_below_up()
show("sight below, barrel up extra", fire(calc, s, Distance.Yard(600), Distance.Yard(30), extra_data=True))
print("zero sight below:", zero(calc, s, Distance.Yard(100)))
show("sight below zeroed extra", fire(calc, s, Distance.Yard(600), Distance.Yard(30), extra_data=True))

# incomplete shots
show("slow min velocity", fire(calc, shot_slow(), Distance.Yard(3000), Distance.Yard(100), extra_data=True))
show("steep max range", fire(calc, shot_steep(), Distance.Yard(3000), Distance.Yard(100)))
cfg_calc = Calculator(_config={'cMaximumDrop': -20.0, 'cMinimumVelocity': 0.0})
show("max drop", fire(cfg_calc, shot_base(), Distance.Yard(2000), Distance.Yard(100), extra_data=True))
cfg_calc2 = Calculator(_config={'cMinimumAltitude': -5.0, 'cMaximumDrop': -1e9, 'cMinimumVelocity': 0.0})
show("min altitude", fire(cfg_calc2, shot_base(), Distance.Yard(2000), Distance.Yard(100)))
show("vacuum", fire(calc, shot_vacuum(), Distance.Yard(500), Distance.Yard(50), extra_data=True))
print("zero impossible:", zero(calc, shot_slow(), Distance.Yard(5000)))

# range step of zero goes through TrajectoryCalc directly (time based recording only)
tc = TrajectoryCalc(create_interface_config(None))
for ts in (0.0, 0.1):
    try:
        r = ('ok', rows(tc.trajectory(shot_base(), Distance.Yard(200), Distance.Foot(0), True, ts)))
    except RangeError as e:
        r = ('RangeError', e.reason, rows(e.incomplete_trajectory))
    show(f"zero range step ts={ts}", r)

# ---------------------------------------------------------------- 2. _WindSock driven directly
print("== 2. _WindSock")


def sock_state(ws):
    return (ws.current, repr(ws.next_range), tuple(repr(c) for c in ws.current_vector()))


for label, winds in (("None", None), ("empty", ()), ("one default", (Wind(),)),
                     ("three", shot_winds().winds),
                     ("custom max", (Wind(Velocity.FPS(10), Angular.Degree(90), Distance.Foot(100), max_distance_feet=500.0),))):
    ws = _WindSock(winds)
    trace = [sock_state(ws)]
    for x in (0.0, 10.0, 100.0, 599.99, 600.0, 600.0, 1500.0, 2400.0, 2400.0, 1e8, 1e8, 5.0, float('nan'), 2e8):
        v = ws.vector_for_range(x)
        trace.append((repr(x), sock_state(ws), v is ws.current_vector()))
    print(label, sha(trace))
    print("   ", trace[0], trace[-1])

# ---------------------------------------------------------------- 3. _TrajectoryDataFilter driven directly
print("== 3. _TrajectoryDataFilter")


def drive(filter_flags, range_step, time_step, seen, points):
    f = _TrajectoryDataFilter(filter_flags, range_step, points[0][0], points[0][1], time_step)
    f.setup_seen_zero(*seen)
    trace = []
    t = 0.0
    for pos, vel, mach in points:
        f.clear_current_flag()
        d = f.should_record(pos, vel, mach, t)
        trace.append((None if d is None else (repr(d.time), tuple(map(repr, d.position)),
                                              tuple(map(repr, d.velocity)), repr(d.mach)),
                      f.current_flag, f.seen_zero, repr(f.next_record_distance), repr(f.time_of_last_record),
                      repr(f.previous_v_mach), repr(f.previous_time), tuple(map(repr, f.previous_position))))
        t += 0.013
    return trace


def synth(n, dx, y0, vy, v0, mach=1116.0, wobble=False):
    pts = []
    x, y = 0.0, y0
    v = v0
    for i in range(n):
        pts.append((Vector(x, y, 0.01 * i), Vector(v, vy - 0.4 * i, 0.3), mach - (0.05 * i if wobble else 0.0)))
        x += dx * (1.0 if not wobble or i % 7 else -0.3)   # occasionally moves backwards
        y += (vy - 0.4 * i) * 0.01
        v *= 0.985
    return pts


nan = float('nan')
cases = {
    "range all": (TrajFlag.ALL, 3.0, 0.0, (-0.2, 0.002, 0.0), synth(120, 1.1, -0.2, 6.0, 1400.0)),
    "range only": (TrajFlag.RANGE, 3.0, 0.0, (-0.2, 0.002, 0.0), synth(120, 1.1, -0.2, 6.0, 1400.0)),
    "big steps": (TrajFlag.ALL, 0.3, 0.0, (0.0, 0.0, 0.0), synth(60, 1.7, 0.0, 2.0, 1200.0)),
    "time": (TrajFlag.ALL, 0.0, 0.05, (-0.1, -0.01, 0.0), synth(80, 0.9, -0.1, 1.0, 1130.0)),
    "range+time": (TrajFlag.RANGE, 25.0, 0.04, (-0.1, 0.001, 0.02), synth(80, 0.9, -0.1, 3.0, 1130.0)),
    "backwards": (TrajFlag.ALL, 2.0, 0.03, (-0.1, 0.001, 0.0), synth(90, 0.8, -0.1, 3.0, 1150.0, wobble=True)),
    "zero down preset": (TrajFlag.ZERO, 5.0, 0.0, (-0.3, -0.01, 0.01), synth(60, 1.0, -0.3, 1.0, 900.0)),
    "mach only": (TrajFlag.MACH, 5.0, 0.0, (0.2, 0.0, 0.0), synth(100, 1.0, 0.2, 0.5, 1200.0)),
    "nan x": (TrajFlag.ALL, 2.0, 0.0, (0.0, 0.0, 0.0),
              [(Vector(0.0, 0.0, 0.0), Vector(1000.0, 0.0, 0.0), 1116.0),
               (Vector(nan, 1.0, 0.0), Vector(1000.0, 1.0, 0.0), 1116.0),
               (Vector(3.0, nan, 0.0), Vector(nan, 1.0, 0.0), 1116.0),
               (Vector(5.0, 1.0, 0.0), Vector(900.0, 1.0, 0.0), nan),
               (Vector(9.0, -1.0, 0.0), Vector(800.0, 1.0, 0.0), 1116.0)]),
    "nan height": (TrajFlag.ALL, 2.0, 0.0, (nan, 0.0, 0.1), synth(20, 1.0, 0.0, 1.0, 1300.0)),
}
for label, args in cases.items():
    tr = drive(*args)
    print(label, len(tr), sha(tr))
    print("    hits", [(i, t[1]) for i, t in enumerate(tr) if t[0] is not None][:10])
    print("    last", tr[-1])

try:
    drive(TrajFlag.ALL, 1.0, 0.0, (0.0, 0.0, 0.0), [(Vector(0.0, 0.0, 0.0), Vector(1.0, 0.0, 0.0), 0.0)])
except ZeroDivisionError as e:
    print("mach zero ->", type(e).__name__, e)
try:
    drive(TrajFlag.ALL, 1.0, 0.0, (0.0, 0.0, math.inf), [(Vector(0.0, 0.0, 0.0), Vector(1.0, 0.0, 0.0), 1.0),
                                                        (Vector(1.0, 0.0, 0.0), Vector(1.0, 0.0, 0.0), 1.0)])
except ValueError as e:
    print("inf look angle ->", type(e).__name__, e)

# ---------------------------------------------------------------- 4. histories, exceptions, threads, arguments
print("== 4. histories")
makers = [shot_base, shot_winds, shot_look, shot_sight_below, shot_steep, shot_slow, shot_vacuum]
requests = [
    (Distance.Yard(700), Distance.Yard(70), False, 0.0),
    (Distance.Yard(400), Distance.Yard(33), True, 0.0),
    (Distance.Foot(90), Distance.Foot(0.2), True, 0.02),
]


def run_all(c, order):
    out = {}
    for i in order:
        sh = makers[i]()
        b = snap(sh)
        stored_zero = sh.weapon.zero_elevation
        for j, (rng, stp, extra, ts) in enumerate(requests):
            out[(i, j)] = sha(fire(c, sh, rng, stp, extra_data=extra, time_step=ts))
        out[(i, 'z')] = sha(zero(c, sh, Distance.Yard(150)))
        out[(i, 'after zero')] = sha(fire(c, sh, Distance.Yard(300), Distance.Yard(50), extra_data=True))
        sh.weapon.zero_elevation = stored_zero  # undo the only permitted change
        out[(i, 'args')] = (b == snap(sh))
    return out


fresh = {}
for i in range(len(makers)):
    fresh.update(run_all(Calculator(), [i]))
used = Calculator()
forward = run_all(used, list(range(len(makers))))
backward = run_all(used, list(reversed(range(len(makers)))))
print("fresh == long-used forward :", fresh == forward)
print("fresh == long-used backward:", fresh == backward)
print("all args unchanged:", all(v for k, v in fresh.items() if k[1] == 'args'))
print("history digest", sha(sorted(fresh.items(), key=repr)))

results = {}


def worker(name, order):
    results[name] = run_all(Calculator(), order)


old = sys.getswitchinterval()
sys.setswitchinterval(1e-5)
try:
    threads = [threading.Thread(target=worker, args=(k, order)) for k, order in
               (("a", [0, 1, 2, 3]), ("b", [3, 2, 1, 0]), ("c", [4, 5, 6, 1]))]
    for t in threads:
        t.start()
    for t in threads:
        t.join()
finally:
    sys.setswitchinterval(old)
for k in sorted(results):
    print("thread", k, "matches serial:", all(fresh[key] == v for key, v in results[k].items()))
print("warnings.filters head:", [(f[0], f[2].__name__) for f in warnings.filters[:2]])
