"""Equivalence digest for refactoring 3 (drag_model.py: BCPoint, DragModelMultiBC, linear_interpolation).

Run:  cd /tmp/wt/C10 && PYTHONPATH=/tmp/wt/C10 /venv/bin/python /tmp/twins3/C10/3/equiv.py
Prints a deterministic text; it has to be the same with and without the patch.
"""
import copy
import math
import sys
import threading
import warnings

warnings.simplefilter("ignore")

from py_ballisticcalc import (Calculator, Shot, Weapon, Ammo, Atmo, Wind, DragModel, DragModelMultiBC, BCPoint,
                              DragDataPoint, TableG7, TableG1, RangeError, ZeroFindingError, HitResult)
from py_ballisticcalc.drag_model import linear_interpolation
from py_ballisticcalc.unit import AbstractDimension, Distance, Velocity, Angular, Temperature, Weight


def dim(d):
    if isinstance(d, AbstractDimension):
        return type(d).__name__, repr(d.raw_value), int(d.units)
    return repr(d)


def rows(result):
    return [tuple(dim(v) for v in r) for r in result]


def show(title, value):
    print(f"== {title}")
    if isinstance(value, list):
        for v in value:
            print("  ", v)
    else:
        print("  ", value)


def bcp(p):
    return repr(p.BC), repr(p.Mach), dim(p.V)


def model(dm):
    return (repr(dm.BC), dim(dm.weight), dim(dm.diameter), dim(dm.length),
            repr(getattr(dm, 'sectional_density', 'absent')), repr(getattr(dm, 'form_factor', 'absent')),
            len(dm.drag_table), tuple((repr(p.Mach), repr(p.CD)) for p in dm.drag_table), repr(dm))


def attempt(fn, fmt=repr):
    try:
        r = fn()
    except RangeError as e:
        return ["RangeError", e.reason, str(e), dim(e.last_distance)] + rows(e.incomplete_trajectory)
    except ZeroFindingError as e:
        return ["ZeroFindingError", repr(e.zero_finding_error), e.iterations_count,
                dim(e.last_barrel_elevation), str(e)]
    except Exception as e:  # pylint: disable=broad-except
        return [type(e).__name__, str(e)]
    if isinstance(r, HitResult):
        return rows(r)
    if isinstance(r, AbstractDimension):
        return [dim(r)]
    return [fmt(r)]


def table_digest(table):
    return tuple((repr(p['Mach']), repr(p['CD'])) if isinstance(p, dict) else (repr(p.Mach), repr(p.CD))
                 for p in table)


def main():
    # ---- linear_interpolation
    xp = [0.5, 1.0, 1.5, 2.5, 4.0]
    yp = [10.0, 12.0, 11.0, 20.0, 5.0]
    cases = [
        ("inside / knots / outside", ([-1.0, 0.5, 0.50001, 0.75, 1.0, 1.2, 1.5, 2.0, 2.4999, 2.5, 3.3, 4.0, 9.0], xp, yp)),
        ("tuples", ((0.6, 3.9), tuple(xp), tuple(yp))),
        ("ints", ([0, 1, 2, 3, 4, 5], [1, 2, 4], [10, 20, 40])),
        ("single point", ([0.0, 1.0, 2.0, math.nan], [1.0], [7.0])),
        ("two points", ([0.0, 1.0, 1.25, 1.9999999, 2.0, 3.0], [1.0, 2.0], [7.0, -9.0])),
        ("duplicate knots", ([0.9, 1.0, 1.5, 2.0, 2.5, 3.0, 3.5], [1.0, 2.0, 2.0, 2.0, 3.0], [1.0, 2.0, 5.0, 8.0, 9.0])),
        ("all knots equal", ([0.0, 2.0, 3.0], [2.0, 2.0, 2.0], [1.0, 2.0, 3.0])),
        ("nan in x", ([math.nan, 1.2, math.nan], xp, yp)),
        ("nan in xp", ([0.7, 1.2, 2.0, 3.0], [0.5, 1.0, math.nan, 2.5, 4.0], yp)),
        ("inf", ([-math.inf, math.inf, 1e308], xp, yp)),
        ("not sorted xp", ([0.6, 0.8, 1.2, 1.7, 2.2, 2.7, 3.2], [0.5, 3.0, 1.0, 2.0, 1.5, 2.5, 3.5],
                           [1.0, 2.0, 3.0, 4.0, 5.0, 6.0, 7.0])),
        ("descending xp", ([1.5, 2.5, 3.5], [4.0, 3.0, 2.0, 1.0], [1.0, 2.0, 3.0, 4.0])),
        ("long table", ([i / 7.0 for i in range(0, 80)], [float(i) for i in range(1, 11)],
                        [math.sin(i) for i in range(1, 11)])),
        ("empty x", ([], xp, yp)),
        ("empty xp", ([1.0], [], [])),
        ("empty x and xp", ([], [], [])),
        ("different lengths", ([1.0], [1.0, 2.0], [1.0])),
        ("generator x", ((v for v in (0.7, 1.7, 2.7)), xp, yp)),
        ("strings in x", ([0.7, "a"], xp, yp)),
        ("zero-width by subnormals", ([5e-324], [0.0, 5e-324, 1e-323], [1.0, 2.0, 3.0])),
    ]
    for title, args in cases:
        show("linear_interpolation " + title, attempt(lambda: linear_interpolation(*args),
                                                      lambda r: (type(r).__name__, [repr(v) for v in r])))

    # ---- BCPoint
    v0 = Velocity.FPS(0)
    v1 = Velocity.FPS(2500)
    points = [
        ("BC, Mach", lambda: BCPoint(0.275, 2.0)),
        ("BC, Mach int", lambda: BCPoint(1, 3)),
        ("BC, V float", lambda: BCPoint(0.27, V=800.0)),
        ("BC, V unit", lambda: BCPoint(0.27, V=v1)),
        ("BC, V zero unit", lambda: BCPoint(0.27, V=v0)),
        ("BC, Mach + zero unit", lambda: BCPoint(0.27, 1.0, v0)),
        ("both", lambda: BCPoint(0.27, 2.0, 600.0)),
        ("neither", lambda: BCPoint(0.27)),
        ("zeros", lambda: BCPoint(0.27, 0, 0)),
        ("Mach 0.0 only", lambda: BCPoint(0.27, Mach=0.0)),
        ("Mach nan", lambda: BCPoint(0.27, Mach=math.nan)),
        ("BC zero", lambda: BCPoint(0.0, 1.0)),
        ("BC negative and both", lambda: BCPoint(-1, 1.0, 5.0)),
        ("BC None", lambda: BCPoint(None, 1.0)),
        ("Mach 0, V float", lambda: BCPoint(0.3, 0, 700)),
        ("Mach negative", lambda: BCPoint(0.3, -1.5)),
    ]
    for title, make in points:
        show("BCPoint " + title, attempt(make, bcp))
    show("velocity arguments after use", [dim(v0), dim(v1)])
    pts = [BCPoint(0.3, 2.0), BCPoint(0.2, 1.0), BCPoint(0.25, V=Velocity.MPS(500)), BCPoint(0.21, 1.0)]
    show("BCPoint ordering", [[bcp(p) for p in sorted(pts)], repr(pts[1] == pts[3]), repr(pts[0] > pts[2]),
                              repr(pts[2])])

    # ---- DragModelMultiBC: what it returns; what it leaves alone
    g7_before = table_digest(TableG7)
    g1_before = table_digest(TableG1)
    own_table = [DragDataPoint(p['Mach'], p['CD']) for p in TableG7][::3]
    own_before = table_digest(own_table)
    own_ids = [id(p) for p in own_table]
    w, d, ln = Weight.Gram(11.3), Distance.Millimeter(7.82), Distance.Millimeter(32.0)
    bc_lists = {
        "three, unsorted": [BCPoint(0.275, V=Velocity.MPS(800)), BCPoint(0.255, V=Velocity.MPS(500)),
                            BCPoint(0.26, V=Velocity.MPS(700))],
        "single": [BCPoint(0.22, Mach=1.0)],
        "equal Mach": [BCPoint(0.3, 2.0), BCPoint(0.2, 1.0), BCPoint(0.25, 2.0), BCPoint(0.21, 1.0)],
        "wide": [BCPoint(0.5, Mach=0.0001), BCPoint(0.1, Mach=9.0)],
    }
    bc_before = {k: [bcp(p) for p in v] for k, v in bc_lists.items()}
    makers = [
        ("G7 dicts, bullet known", lambda: DragModelMultiBC(bc_lists["three, unsorted"], TableG7, w, d, ln)),
        ("G7 dicts, bullet unknown", lambda: DragModelMultiBC(bc_lists["three, unsorted"], TableG7)),
        ("G1 numbers", lambda: DragModelMultiBC(bc_lists["equal Mach"], TableG1, 168, 0.308, 1.2)),
        ("own points", lambda: DragModelMultiBC(bc_lists["wide"], own_table, Weight.Grain(175), Distance.Inch(0.308))),
        ("single bc", lambda: DragModelMultiBC(bc_lists["single"], TableG7, 0, 0.308)),
        ("weight only", lambda: DragModelMultiBC(bc_lists["single"], own_table, Weight.Grain(100))),
        ("no bc points", lambda: DragModelMultiBC([], TableG7)),
        ("empty table", lambda: DragModelMultiBC(bc_lists["single"], [])),
        ("bad table", lambda: DragModelMultiBC(bc_lists["single"], [{'Mach': 1.0}])),
        ("bad table 2", lambda: DragModelMultiBC(bc_lists["single"], [1.0, 2.0])),
        ("text CD", lambda: DragModelMultiBC(bc_lists["single"], [{'Mach': 1.0, 'CD': 'x'}])),
        ("negative weight", lambda: DragModelMultiBC(bc_lists["wide"], TableG7, -5, 0.3)),
        ("tuple of points", lambda: DragModelMultiBC(tuple(bc_lists["equal Mach"]), tuple(own_table), 150, 0.3)),
    ]
    models = {}
    for title, make in makers:
        out = attempt(make, lambda r: r)
        if isinstance(out[0], DragModel):
            models[title] = out[0]
            out = [model(out[0])]
        show("DragModelMultiBC " + title, out)
    print("TableG7 unchanged:", table_digest(TableG7) == g7_before, " TableG1 unchanged:", table_digest(TableG1) == g1_before)
    print("own table unchanged:", table_digest(own_table) == own_before, [id(p) for p in own_table] == own_ids)
    print("bc lists unchanged:", {k: [bcp(p) for p in v] == bc_before[k] for k, v in bc_lists.items()})
    print("models do not share points with the input:",
          all(p is not q for m in models.values() for p in m.drag_table for q in own_table))
    show("bullet arguments after use", [dim(w), dim(d), dim(ln)])
    # the same construction again gives an equal, independent model
    again = DragModelMultiBC(bc_lists["three, unsorted"], TableG7, w, d, ln)
    print("constructed again equal:", model(again) == model(models["G7 dicts, bullet known"]),
          all(p is not q for p, q in zip(again.drag_table, models["G7 dicts, bullet known"].drag_table)))
    show("plain DragModel", [attempt(lambda: DragModel(0.3, own_table, 150, 0.3, 1.1), model),
                             attempt(lambda: DragModel(0.3, TableG1), model),
                             attempt(lambda: DragModel(0, TableG1), model),
                             attempt(lambda: DragModel(0.3, []), model)])

    # ---- trajectories with such models: histories, nothing changes
    def build():
        m1 = DragModelMultiBC(bc_lists["three, unsorted"], TableG7, w, d, ln)
        m2 = DragModelMultiBC(bc_lists["equal Mach"], own_table)
        m3 = DragModel(0.223, TableG7, Weight.Grain(168), Distance.Inch(0.308), Distance.Inch(1.282))
        s1 = Shot(weapon=Weapon(Distance.Inch(2), Distance.Inch(11)), ammo=Ammo(m1, Velocity.MPS(820)))
        s2 = Shot(weapon=Weapon(Distance.Inch(3), 0), ammo=Ammo(m2, Velocity.FPS(3000)),
                  look_angle=Angular.Degree(3), winds=[Wind(Velocity.MPS(5), Angular.OClock(4))])
        s3 = Shot(weapon=Weapon(Distance.Inch(2), Distance.Inch(12)), ammo=Ammo(m3, Velocity.FPS(2750)),
                  atmo=Atmo.icao(Distance.Foot(3000)))
        return s1, s2, s3

    s1, s2, s3 = build()
    snap = lambda s: (model(s.ammo.dm), dim(s.ammo.mv), dim(s.weapon.zero_elevation), dim(s.weapon.twist),
                      dim(s.look_angle), tuple(sorted((k, dim(v)) for k, v in vars(s.atmo).items())))
    before = [snap(s) for s in (s1, s2, s3)]
    calc = Calculator()
    ops = [
        ("zero s1", lambda: calc.set_weapon_zero(s1, Distance.Meter(100))),
        ("fire s1", lambda: calc.fire(s1, Distance.Meter(1000), Distance.Meter(100), extra_data=True)),
        ("cdm after s1", lambda: [table_digest(calc.cdm)]),
        ("fire s2", lambda: calc.fire(s2, Distance.Yard(700), Distance.Yard(100))),
        ("fire s2 too far", lambda: calc.fire(s2, Distance.Yard(9000), Distance.Yard(1500))),
        ("zero s3", lambda: calc.set_weapon_zero(s3, Distance.Yard(200))),
        ("fire s3", lambda: calc.fire(s3, Distance.Yard(600), Distance.Yard(100))),
    ]
    first = {}
    for title, op in ops:
        first[title] = attempt(op)
        show(title, first[title])
    for title, op in reversed(ops):
        if title.startswith("zero") or title.startswith("cdm"):
            continue
        print(f"again {title}: {'same' if attempt(op) == first[title] else 'DIFFERENT'}")
    after = [snap(s) for s in (s1, s2, s3)]
    for name, x, y in zip(("s1", "s2", "s3"), before, after):
        print(f"fields of {name} that differ from the initial ones: "
              f"{[i for i, (p, q) in enumerate(zip(x, y)) if p != q]}")
    print("tables still unchanged:", table_digest(TableG7) == g7_before, table_digest(own_table) == own_before)

    # other calculators, in threads, with models built inside the threads from the shared inputs
    sys.setswitchinterval(1e-5)
    results = {}

    def work(n):
        u1, u2, u3 = build()
        u1.weapon.zero_elevation = copy.copy(s1.weapon.zero_elevation)
        c = Calculator()
        results[n] = [attempt(lambda: c.fire(u1, Distance.Meter(1000), Distance.Meter(100), extra_data=True)),
                      attempt(lambda: c.fire(u2, Distance.Yard(9000), Distance.Yard(1500))),
                      attempt(lambda: c.fire(u2, Distance.Yard(700), Distance.Yard(100)))]

    threads = [threading.Thread(target=work, args=(n,)) for n in range(3)]
    for t in threads:
        t.start()
    for t in threads:
        t.join()
    expected = [first["fire s1"], first["fire s2 too far"], first["fire s2"]]
    print("threads:", [results[n] == expected for n in range(3)])
    print("tables still unchanged:", table_digest(TableG7) == g7_before, table_digest(own_table) == own_before)


main()
