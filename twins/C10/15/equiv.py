"""Equivalence digest for property C10 (results depend only on the arguments).

Exercises the public API (Calculator.set_weapon_zero / barrel_elevation_for_target / fire,
HitResult.danger_space, Calculator.cdm, Shot properties) over a pool of varied shots and
calculators, in several histories (fresh calculator, long-used calculator, after exceptions,
two threads), and prints repr() of every raw number plus deep snapshots of the argument
objects before/after.  The text printed must be identical with and without the patch.
"""
import hashlib
import sys
import threading
import warnings

LINES = []


def out(*parts):
    line = ' '.join(str(p) for p in parts)
    LINES.append(line)
    print(line)


def snap(obj, depth=0):
    """Deep, address-free snapshot of an argument object (all fields, raw magnitudes)."""
    from py_ballisticcalc.unit import AbstractDimension
    if depth > 8:
        return '...'
    if obj is None or isinstance(obj, (bool, int, float, str)):
        return repr(obj)
    if isinstance(obj, AbstractDimension):
        return f'{type(obj).__name__}({obj._value!r},{obj._defined_units!r})'
    if isinstance(obj, (list, tuple)):
        br = '[]' if isinstance(obj, list) else '()'
        return br[0] + ','.join(snap(o, depth + 1) for o in obj) + br[1]
    if isinstance(obj, dict):
        return '{' + ','.join(f'{k!r}:{snap(v, depth + 1)}' for k, v in sorted(obj.items())) + '}'
    if hasattr(obj, '__dict__'):
        return type(obj).__name__ + '{' + ','.join(
            f'{k}={snap(v, depth + 1)}' for k, v in sorted(vars(obj).items())) + '}'
    return repr(obj)


def row(td):
    return '|'.join([
        repr(td.time), repr(td.distance.raw_value), repr(td.velocity.raw_value), repr(td.mach),
        repr(td.height.raw_value), repr(td.target_drop.raw_value), repr(td.drop_adj.raw_value),
        repr(td.windage.raw_value), repr(td.windage_adj.raw_value), repr(td.look_distance.raw_value),
        repr(td.angle.raw_value), repr(td.density_factor), repr(td.drag), repr(td.energy.raw_value),
        repr(td.ogw.raw_value), repr(int(td.flag)), repr(td.distance.units), repr(td.velocity.units),
    ])


def rows_digest(rows):
    h = hashlib.sha256()
    for r in rows:
        h.update(row(r).encode())
        h.update(b'\n')
    return f'n={len(rows)} sha={h.hexdigest()[:24]}'


def build_pool():
    from py_ballisticcalc import (Ammo, Atmo, BCPoint, DragDataPoint, DragModel, DragModelMultiBC, Shot, TableG1,
                                  TableG7, Unit, Vacuum, Weapon, Wind)
    pool = {}

    # 1. plain G7 rifle, no wind, default atmosphere
    pool['g7_plain'] = lambda: Shot(
        weapon=Weapon(Unit.Inch(2), Unit.Inch(12)),
        ammo=Ammo(DragModel(0.223, TableG7, Unit.Grain(168), Unit.Inch(0.308), Unit.Inch(1.282)), Unit.FPS(2750)))

    # 2. G1, several winds given in UNSORTED order (one tie), cant, look angle, powder sensitivity, altitude
    def g1_windy():
        ammo = Ammo(DragModel(0.45, TableG1, 155, 0.308, 1.2), Unit.MPS(800), Unit.Celsius(15),
                    use_powder_sensitivity=True)
        ammo.calc_powder_sens(Unit.MPS(815), Unit.Celsius(30))
        return Shot(
            weapon=Weapon(Unit.Centimeter(9), Unit.Inch(-10), Unit.Mil(1.5)),
            ammo=ammo,
            look_angle=Unit.Degree(5), relative_angle=Unit.MOA(3), cant_angle=Unit.Degree(7),
            atmo=Atmo(Unit.Meter(1200), Unit.hPa(880), Unit.Celsius(4), 65, Unit.Celsius(-5)),
            winds=[Wind(Unit.MPS(6), Unit.Degree(270), Unit.Meter(400)),
                   Wind(Unit.MPS(3), Unit.Degree(90), Unit.Meter(100)),
                   Wind(Unit.MPS(9), Unit.Degree(45), Unit.Meter(400)),
                   Wind(Unit.MPS(2), Unit.Degree(180), Unit.Meter(250))])
    pool['g1_windy'] = g1_windy

    # 3. multi-BC model, no twist (no spin drift), humid hot atmosphere, down-hill look angle
    pool['multibc'] = lambda: Shot(
        weapon=Weapon(Unit.Inch(1.5), 0),
        ammo=Ammo(DragModelMultiBC([BCPoint(0.275, V=Unit.MPS(800)), BCPoint(0.255, V=Unit.MPS(500)),
                                    BCPoint(0.26, V=Unit.MPS(700))], TableG7, Unit.Grain(178), Unit.Inch(0.308)),
                  Unit.MPS(830)),
        look_angle=Unit.Degree(-3),
        atmo=Atmo(Unit.Foot(300), Unit.InHg(29.6), Unit.Fahrenheit(95), 90),
        winds=[Wind(Unit.MPH(10), Unit.OClock(3))])

    # 4. custom small drag table handed over as DragDataPoint objects, vacuum-free slow pistol-like load
    pool['custom_tbl'] = lambda: Shot(
        weapon=Weapon(Unit.Inch(0.8), Unit.Inch(16)),
        ammo=Ammo(DragModel(0.15, [DragDataPoint(0.0, 0.23), DragDataPoint(0.5, 0.21), DragDataPoint(0.9, 0.25),
                                   DragDataPoint(1.0, 0.40), DragDataPoint(1.2, 0.48), DragDataPoint(2.0, 0.38),
                                   DragDataPoint(3.0, 0.30)], 124, 0.355, 0.6), Unit.FPS(1150)),
        winds=None)

    # 5. vacuum
    pool['vacuum'] = lambda: Shot(
        weapon=Weapon(Unit.Inch(2), Unit.Inch(9)),
        ammo=Ammo(DragModel(0.3, TableG1, 150, 0.308, 1.1), Unit.FPS(2600)),
        atmo=Vacuum(Unit.Foot(500), Unit.Celsius(10)))
    return pool


CONFIGS = {
    'default': None,
    'coarse': {'max_calc_step_size_feet': 1.0},
    'minvel': {'cMinimumVelocity': 1800.0},
    'fewiter': {'cMaxIterations': 2},
    'zeroacc0': {'cZeroFindingAccuracy': 0.0},
    'noiter': {'cMaxIterations': 0},
}


def do_zero(calc, shot, dist):
    from py_ballisticcalc import ZeroFindingError, RangeError
    try:
        z = calc.set_weapon_zero(shot, dist)
        return f'zero={z.raw_value!r} units={z.units!r} stored={shot.weapon.zero_elevation.raw_value!r}'
    except ZeroFindingError as e:
        return (f'ZeroFindingError err={e.zero_finding_error!r} it={e.iterations_count!r} '
                f'last={e.last_barrel_elevation.raw_value!r} msg={e}')
    except RangeError as e:
        return f'RangeError reason={e.reason!r} {rows_digest(e.incomplete_trajectory)} msg={e}'


def do_fire(calc, shot, *args, **kwargs):
    from py_ballisticcalc import RangeError
    try:
        hit = calc.fire(shot, *args, **kwargs)
        return f'fire {rows_digest(hit.trajectory)} extra={hit.extra!r} same_shot={hit.shot is shot}', hit
    except RangeError as e:
        last = None if e.last_distance is None else e.last_distance.raw_value
        return f'RangeError reason={e.reason!r} {rows_digest(e.incomplete_trajectory)} last={last!r}', None


def battery(calc, shot, tag):
    """One fixed sequence of public calls on (calc, shot); returns list of result lines."""
    from py_ballisticcalc import Unit
    res = []
    res.append(f'{tag} barrel0 el={shot.barrel_elevation.raw_value!r} az={shot.barrel_azimuth.raw_value!r}')
    res.append(f'{tag} ' + do_zero(calc, shot, Unit.Meter(100)))
    res.append(f'{tag} barrel1 el={shot.barrel_elevation.raw_value!r} az={shot.barrel_azimuth.raw_value!r}')
    s, hit = do_fire(calc, shot, Unit.Meter(600), Unit.Meter(50))
    res.append(f'{tag} step50 {s}')
    if hit is not None:
        for r in hit.trajectory[:3] + hit.trajectory[-2:]:
            res.append(f'{tag}   {row(r)}')
    s, hit = do_fire(calc, shot, Unit.Yard(300), Unit.Yard(25), extra_data=True)
    res.append(f'{tag} extra {s}')
    if hit is not None:
        try:
            res.append(f'{tag}   zeros {rows_digest(hit.zeros())}')
        except ArithmeticError as e:
            res.append(f'{tag}   zeros ArithmeticError {e}')
        try:
            ds = hit.danger_space(Unit.Yard(200), Unit.Meter(0.5))
            res.append(f'{tag}   danger {row(ds.begin)} // {row(ds.end)} // {ds.look_angle.raw_value!r}')
        except ArithmeticError as e:
            res.append(f'{tag}   danger ArithmeticError {e}')
    s, hit = do_fire(calc, shot, Unit.Foot(400), 0, time_step=0.05)  # default step = range/10 (raw inches path)
    res.append(f'{tag} defstep {s}')
    s, hit = do_fire(calc, shot, 250)  # plain numbers in PreferredUnits
    res.append(f'{tag} plain {s}')
    stored = shot.weapon.zero_elevation
    try:
        el = calc.barrel_elevation_for_target(shot, Unit.Meter(300))
        res.append(f'{tag} elev300 {el.raw_value!r} zero_untouched={shot.weapon.zero_elevation is stored}')
    except Exception as e:  # ZeroFindingError / RangeError
        res.append(f'{tag} elev300 {type(e).__name__} {e} '
                   f'last={getattr(getattr(e, "last_barrel_elevation", None), "raw_value", None)!r} '
                   f'zero_untouched={shot.weapon.zero_elevation is stored}')
    res.append(f'{tag} cdm n={len(calc.cdm)} first={calc.cdm[0].Mach!r}/{calc.cdm[0].CD!r} '
               f'last={calc.cdm[-1].Mach!r}/{calc.cdm[-1].CD!r} same_table={calc.cdm is shot.ammo.dm.drag_table}')
    return res


def main():
    from py_ballisticcalc import Calculator, Unit, Wind, Shot
    pool = build_pool()

    out('== A. every shot x every configuration on a FRESH calculator; argument snapshots')
    reference = {}
    for sname, mk in pool.items():
        for cname, cfg in CONFIGS.items():
            shot = mk()
            before = snap(shot)
            winds_before = [id(w) for w in shot._winds]
            calc = Calculator(_config=cfg) if cfg is not None else Calculator()
            res = battery(calc, shot, f'{sname}/{cname}')
            reference[(sname, cname)] = res
            for line in res:
                out(line)
            after = snap(shot)
            out(f'{sname}/{cname} snapshot_before sha={hashlib.sha256(before.encode()).hexdigest()[:16]}')
            out(f'{sname}/{cname} snapshot_after  sha={hashlib.sha256(after.encode()).hexdigest()[:16]}')
            # everything except the stored zero elevation must be unchanged
            shot.weapon.zero_elevation = mk().weapon.zero_elevation
            out(f'{sname}/{cname} unchanged_except_zero={snap(shot) == before} '
                f'winds_list_untouched={[id(w) for w in shot._winds] == winds_before}')
        out(f'{sname} full_snapshot {snap(mk())}')

    out('== B. one LONG-USED calculator per configuration, shots interleaved (incl. raising ones)')
    for cname, cfg in CONFIGS.items():
        calc = Calculator(_config=cfg) if cfg is not None else Calculator()
        for rnd in range(2):
            for sname in (list(pool) if rnd == 0 else list(reversed(list(pool)))):
                res = battery(calc, pool[sname](), f'{sname}/{cname}')
                out(f'B {cname} round{rnd} {sname} identical_to_fresh={res == reference[(sname, cname)]}')

    out('== C. repetition on the same shot object (zero already stored): idempotence of fire')
    calc = Calculator()
    for sname, mk in pool.items():
        shot = mk()
        out(f'C {sname} ' + do_zero(calc, shot, Unit.Yard(100)))
        a, _ = do_fire(calc, shot, Unit.Yard(500), Unit.Yard(100))
        try:
            Calculator(_config={'cMinimumVelocity': 5000.0}).fire(pool['g7_plain'](), Unit.Yard(100))
        except Exception as e:  # noqa
            out(f'C {sname} interleaved raise {type(e).__name__} {e}')
        b, _ = do_fire(calc, shot, Unit.Yard(500), Unit.Yard(100))
        out(f'C {sname} {a}')
        out(f'C {sname} repeat_identical={a == b}')

    out('== D. two calculators in two threads, switch interval lowered')
    old = sys.getswitchinterval()
    sys.setswitchinterval(1e-6)
    results = {}

    def worker(key, sname, cname):
        cfg = CONFIGS[cname]
        c = Calculator(_config=cfg) if cfg is not None else Calculator()
        results[key] = [battery(c, pool[sname](), f'{sname}/{cname}') for _ in range(2)]

    threads = [threading.Thread(target=worker, args=(0, 'g1_windy', 'default')),
               threading.Thread(target=worker, args=(1, 'multibc', 'coarse')),
               threading.Thread(target=worker, args=(2, 'g7_plain', 'fewiter'))]
    for t in threads:
        t.start()
    for t in threads:
        t.join()
    sys.setswitchinterval(old)
    for key, (sname, cname) in enumerate([('g1_windy', 'default'), ('multibc', 'coarse'), ('g7_plain', 'fewiter')]):
        out(f'D thread{key} {sname}/{cname} identical_to_fresh='
            f'{[r == reference[(sname, cname)] for r in results[key]]}')

    out('== E. Shot.winds: sorted copy, stable for ties, setter default')
    shot = pool['g1_windy']()
    w = shot.winds
    out('E sorted', [(x.until_distance.raw_value, x.velocity.raw_value) for x in w], type(w).__name__)
    out('E original order kept', [(x.until_distance.raw_value, x.velocity.raw_value) for x in shot._winds])
    out('E new tuple each time', shot.winds is not shot.winds, shot.winds == shot.winds)
    shot.winds = None
    out('E default wind', snap(list(shot.winds)))
    shot.winds = [Wind(5, 90, 100), Wind(5, 90, 100, max_distance_feet=500.0), Wind(1, 0)]
    out('E custom', snap(list(shot.winds)))
    out('E vectors', [tuple(x.vector) for x in shot.winds])

    out('== F. wind sock (exported helper) driven directly')
    from py_ballisticcalc.trajectory_calc import _WindSock
    for winds in (None, (), pool['g1_windy']().winds, (Wind(4, 30, Unit.Foot(10)),)):
        ws = _WindSock(winds)
        seq = [(ws.current, ws.next_range, tuple(ws.current_vector()))]
        for x in (0.0, 5.0, 10.0, 10.0, 400.0, 1312.0, 1312.4, 2000.0, 1e9, 1e9, 5.0):
            v = ws.vector_for_range(x)
            seq.append((x, ws.current, ws.next_range, tuple(v)))
        out('F', repr(seq))

    out('== G. Shot barrel angles for many combinations of look / cant / zero / relative')
    from py_ballisticcalc import Weapon
    base = pool['g7_plain']()
    for look in (0, 5, -12.5, 89.9):
        for cant in (0, 7, -45, 90, 180, 271.3):
            for zero, rel in ((0, 0), (1.5, 0), (0, -2), (3.25, 0.75), (-1e-9, 1e-9)):
                s = Shot(Weapon(Unit.Inch(2), Unit.Inch(12), Unit.Mil(zero)), base.ammo, Unit.Degree(look),
                         Unit.MOA(rel), Unit.Degree(cant))
                out(f'G {look} {cant} {zero} {rel} el={s.barrel_elevation.raw_value!r} az={s.barrel_azimuth.raw_value!r} '
                    f'units={s.barrel_elevation.units!r}/{s.barrel_azimuth.units!r}')

    out('== H. Atmo.get_density_factor_and_mach_for_altitude (near / far / above troposphere / very cold), Vacuum')
    from py_ballisticcalc import Atmo, Vacuum
    atmos = {'icao': Atmo.icao(), 'high': Atmo(Unit.Meter(1200), Unit.hPa(880), Unit.Celsius(4), 65),
             'hot': Atmo(Unit.Foot(300), Unit.InHg(29.6), Unit.Fahrenheit(95), 90),
             'cold': Atmo(Unit.Foot(0), Unit.InHg(29.92), Unit.Fahrenheit(-120), 0),
             'vac': Vacuum(Unit.Foot(500), Unit.Celsius(10))}
    for name, a in atmos.items():
        before = snap(a)
        for alt in (-2000.0, -30.0, -29.999, 0.0, 29.999, 30.0, 270.0, 300.0, 329.9, 330.0, 470.0, 500.0, 530.0, 3907.0,
                    3937.0, 3967.1, 10000.0, 36089.0, 36089.5, 60000.0):
            out(f'H {name} {alt!r} {a.get_density_factor_and_mach_for_altitude(alt)!r}')
        out(f'H {name} untouched={snap(a) == before}')

    out('== I. fire(): spellings of the record step')
    calc = Calculator()
    shot = pool['g1_windy']()
    for label, kwargs in (('omitted', {}), ('zero', {'trajectory_step': 0}), ('zero_float', {'trajectory_step': 0.0}),
                          ('none', {'trajectory_step': None}), ('false', {'trajectory_step': False}),
                          ('number', {'trajectory_step': 40}), ('float', {'trajectory_step': 33.3}),
                          ('distance', {'trajectory_step': Unit.Meter(30)}),
                          ('zero_distance_object', {'trajectory_step': Unit.Meter(0)}),
                          ('tiny', {'trajectory_step': Unit.Inch(1)}),
                          ('bigger_than_range', {'trajectory_step': Unit.Yard(1000)})):
        for rng in (Unit.Yard(200), 150, Unit.Meter(0.2)):
            s, hit = do_fire(calc, shot, rng, **kwargs)
            dists = None if hit is None else [r.distance.raw_value for r in hit.trajectory[:4]]
            out(f'I {label} {snap(rng)} {s} first={dists!r}')

    out('TOTAL', len(LINES), hashlib.sha256('\n'.join(LINES).encode()).hexdigest())


if __name__ == '__main__':
    with warnings.catch_warnings(record=True) as caught:
        warnings.simplefilter('always')
        main()
    msgs = sorted({(w.category.__name__, str(w.message)) for w in caught})
    for m in msgs:
        print('WARNING-SET', m)
