"""Equivalence digest for C10 / refactoring 1 (HitResult look-ups and danger space).

Prints a deterministic text; must be identical on the clean tree and with patch.diff applied.
Run:  cd /tmp/wt/C10 && PYTHONPATH=/tmp/wt/C10 /venv/bin/python /tmp/twins4/C10/1/equiv.py
"""
import warnings

from py_ballisticcalc import (Ammo, Angular, Atmo, Calculator, Distance, DragModel, HitResult, Shot,
                              TableG1, TableG7, Temperature, Unit, Velocity, Weapon, Wind, PreferredUnits)
from py_ballisticcalc.unit import AbstractDimension

warnings.simplefilter("ignore")
PreferredUnits.defaults()


def q(v):
    """repr of a quantity: class, raw value and display unit"""
    if isinstance(v, AbstractDimension):
        return f"{type(v).__name__}({v.raw_value!r},{int(v.units)})"
    return repr(v)


def row_digest(row):
    return "(" + ",".join(q(x) for x in row) + ")"


def row_mag(row):
    """magnitudes only (querying with one of the row's own quantities may re-label its display unit)"""
    return tuple(x.raw_value if isinstance(x, AbstractDimension) else x for x in row)


def ds_digest(ds):
    return "DS[at=%s h=%s begin=%s end=%s la=%s]" % (
        row_digest(ds.at_range), q(ds.target_height), row_digest(ds.begin), row_digest(ds.end), q(ds.look_angle))


def shot_snapshot(shot):
    """every field of the argument objects a computation could touch"""
    dm = shot.ammo.dm
    return (
        q(shot.look_angle), q(shot.relative_angle), q(shot.cant_angle),
        q(shot.weapon.sight_height), q(shot.weapon.twist), q(shot.weapon.zero_elevation),
        q(shot.ammo.mv), q(shot.ammo.powder_temp), repr(shot.ammo.temp_modifier), repr(shot.ammo.use_powder_sensitivity),
        repr(dm.BC), q(dm.weight), q(dm.diameter), q(dm.length), repr([(p.Mach, p.CD) for p in dm.drag_table]),
        q(shot.atmo.altitude), q(shot.atmo.pressure), q(shot.atmo.temperature), q(shot.atmo.powder_temp),
        repr(shot.atmo.humidity), repr(shot.atmo.density_ratio), repr(shot.atmo._mach),
        repr([(q(w.velocity), q(w.direction_from), q(w.until_distance), w.MAX_DISTANCE_FEET) for w in shot._winds]),
    )


def attempt(label, fn):
    try:
        out = fn()
    except Exception as exc:  # pylint: disable=broad-except
        msg = str(exc)
        if "has no extra data" in msg:   # message contains an object address
            msg = "<no extra data>"
        print(label, "RAISED", type(exc).__name__, msg)
        return None
    print(label, out)
    return out


def make_shot(look_deg=0.0, table=TableG7, bc=0.223):
    dm = DragModel(bc, table, 168, 0.308, Distance.Inch(1.282))
    ammo = Ammo(dm, Velocity.FPS(2750), Temperature.Celsius(15))
    ammo.calc_powder_sens(2723, 0)
    return Shot(weapon=Weapon(Unit.Inch(2), Unit.Inch(11.24)), ammo=ammo, look_angle=Unit.Degree(look_deg),
                atmo=Atmo.icao(), winds=[Wind(Unit.MPH(5), Unit.Degree(90), Unit.Yard(400)),
                                         Wind(Unit.MPH(8), Unit.Degree(45), Unit.Yard(200))])


calc = Calculator()

for look in (0.0, 4.0, -3.0):
    shot = make_shot(look)
    calc.set_weapon_zero(shot, Distance.Yard(100))
    before = shot_snapshot(shot)
    hit = calc.fire(shot, Distance.Yard(1000), Distance.Yard(10), extra_data=True)
    rows_before = [row_mag(r) for r in hit.trajectory]
    n = len(hit.trajectory)
    print("look", look, "rows", n)

    # index / row look-ups, including first row, exact hits, beyond the end
    for d in (Distance.Yard(0), Distance.Yard(-5), Distance.Yard(10), Distance.Meter(333.3), Distance.Yard(1000),
              Distance.Yard(1000.0001), Distance.Mile(2), 0.0, 12345.6):
        attempt(f" index_at_distance({q(d)})", lambda d=d: hit.index_at_distance(d))
        attempt(f" get_at_distance({q(d)})", lambda d=d: row_digest(hit.get_at_distance(d)))

    attempt(" zeros", lambda: [row_digest(r) for r in hit.zeros()])

    # danger space: begin of trajectory, middle, last row, unreachable, tiny / huge targets, look-angle override
    for at in (Distance.Yard(0), Distance.Yard(10), Distance.Yard(300), Distance.Meter(500), 700,
               hit.trajectory[-1].distance, Distance.Yard(5000)):
        for h in (Distance.Inch(0), Distance.Inch(0.01), Distance.Inch(10), Distance.Meter(1.5), 1e9, -4):
            for la in (None, Angular.Degree(2.5), 0):
                lab = f" danger_space({q(at)},{q(h)},{q(la)})"
                first = attempt(lab, lambda: ds_digest(hit.danger_space(at, h, la)))
                again = attempt(lab + " again", lambda: ds_digest(hit.danger_space(at, h, la)))
                assert first == again

    # nothing in the hit result or the shot was changed by the queries
    print(" row magnitudes unchanged", rows_before == [row_mag(r) for r in hit.trajectory], len(hit.trajectory) == n)
    print(" shot unchanged", before == shot_snapshot(shot))

    # the same queries on a result without extra data
    plain = calc.fire(shot, Distance.Yard(600), Distance.Yard(100))
    attempt(" plain zeros", lambda: plain.zeros())
    attempt(" plain danger_space", lambda: plain.danger_space(Distance.Yard(300), Distance.Inch(10)))
    attempt(" plain get_at_distance", lambda: row_digest(plain.get_at_distance(Distance.Yard(250))))
    attempt(" plain get_at_distance far", lambda: row_digest(plain.get_at_distance(Distance.Yard(2500))))

# hand-made results: tuple of rows, a single row, no rows, no zero rows
shot = make_shot(0.0, TableG1, 0.45)
full = calc.fire(shot, Distance.Yard(300), Distance.Yard(50), extra_data=True)
as_tuple = HitResult(shot, tuple(full.trajectory), True)
one_row = HitResult(shot, full.trajectory[:1], True)
no_rows = HitResult(shot, [], True)
range_only = HitResult(shot, [r for r in full.trajectory if not r.flag & 3], True)
for name, res in (("tuple", as_tuple), ("one", one_row), ("none", no_rows), ("range_only", range_only)):
    attempt(f"{name} zeros", lambda: [row_digest(r) for r in res.zeros()])
    for at in (Distance.Yard(0), Distance.Yard(120), Distance.Yard(300), Distance.Yard(301)):
        attempt(f"{name} index({q(at)})", lambda: res.index_at_distance(at))
        attempt(f"{name} get({q(at)})", lambda: row_digest(res.get_at_distance(at)))
        attempt(f"{name} ds({q(at)})", lambda: ds_digest(res.danger_space(at, Distance.Inch(8))))
