"""Equivalence digest for C10 / refactoring 2 (Ammo powder-temperature velocity, Ammo construction, Unit factory).

Prints a deterministic text; must be identical on the clean tree and with patch.diff applied.
Run:  cd /tmp/wt/C10 && PYTHONPATH=/tmp/wt/C10 /venv/bin/python /tmp/twins4/C10/2/equiv.py
"""
import warnings

from py_ballisticcalc import (Ammo, Atmo, Calculator, Distance, DragModel, Shot, TableG1, TableG7, Temperature, Unit,
                              Velocity, Weapon, Wind, PreferredUnits, RangeError)
from py_ballisticcalc.unit import AbstractDimension

warnings.simplefilter("ignore")
PreferredUnits.defaults()


def q(v):
    """repr of a quantity: class, raw value and display unit"""
    if isinstance(v, AbstractDimension):
        return f"{type(v).__name__}({v.raw_value!r},{int(v.units)})"
    return repr(v)


def row_digest(row):
    return "(" + ",".join(q(x) for x in row) + ")"


def ammo_snapshot(a):
    return (q(a.mv), q(a.powder_temp), repr(a.temp_modifier), repr(a.use_powder_sensitivity), repr(a.dm.BC))


def shot_snapshot(shot):
    dm = shot.ammo.dm
    return (
        q(shot.look_angle), q(shot.relative_angle), q(shot.cant_angle),
        q(shot.weapon.sight_height), q(shot.weapon.twist), q(shot.weapon.zero_elevation),
        ammo_snapshot(shot.ammo),
        q(dm.weight), q(dm.diameter), q(dm.length), repr([(p.Mach, p.CD) for p in dm.drag_table]),
        q(shot.atmo.altitude), q(shot.atmo.pressure), q(shot.atmo.temperature), q(shot.atmo.powder_temp),
        repr(shot.atmo.humidity), repr(shot.atmo.density_ratio), repr(shot.atmo._mach),
        repr([(q(w.velocity), q(w.direction_from), q(w.until_distance), w.MAX_DISTANCE_FEET) for w in shot._winds]),
    )


def attempt(label, fn):
    try:
        out = fn()
    except Exception as exc:  # pylint: disable=broad-except
        print(label, "RAISED", type(exc).__name__, str(exc)[:200])
        return None
    print(label, out)
    return out


def dm7():
    return DragModel(0.223, TableG7, 168, 0.308, Distance.Inch(1.282))


# ---- 1. the unit factory: every unit with a number, an int, a quantity of the same and of another dimension
for u in Unit:
    attempt(f"Unit {int(u)} (1.25)", lambda: q(u(1.25)))
    attempt(f"Unit {int(u)} (-3)", lambda: q(u(-3)))
    attempt(f"Unit {int(u)} (True)", lambda: q(u(True)))
    attempt(f"Unit {int(u)} ('x')", lambda: q(u('x')))
same = Distance.Meter(3)
out = Unit.Foot(same)
print("re-label same object", out is same, q(same))
other = Velocity.MPS(3)
attempt("re-label other dimension", lambda: q(Unit.Foot(other)))
attempt("raw int as unit 25", lambda: q(Unit.__call__(25, 1.0)))
attempt("raw int as unit 85", lambda: q(Unit.__call__(85, 1.0)))
attempt("raw int as unit 12", lambda: q(Unit.__call__(12, 1.0)))

# ---- 2. Ammo construction
for kwargs in (dict(mv=800), dict(mv=Velocity.MPS(800)), dict(mv=0), dict(mv=None),
               dict(mv=2700, powder_temp=None), dict(mv=2700, powder_temp=0), dict(mv=2700, powder_temp=59.0),
               dict(mv=2700, powder_temp=Temperature.Celsius(-10)), dict(mv=2700, powder_temp=Temperature.Kelvin(300)),
               dict(mv=2700, temp_modifier=None), dict(mv=2700, temp_modifier=1.5, use_powder_sensitivity=True),
               dict(mv="fast"), dict(mv=2700, powder_temp="hot")):
    attempt(f"Ammo({sorted((k, q(v)) for k, v in kwargs.items())})", lambda: ammo_snapshot(Ammo(dm7(), **kwargs)))
a1, a2 = Ammo(dm7(), 2700), Ammo(dm7(), 2700)
print("default powder temps are separate objects", a1.powder_temp is not a2.powder_temp)

# ---- 3. velocity for temperature / powder sensitivity
temps = (Temperature.Celsius(15), Temperature.Celsius(-30), Temperature.Fahrenheit(100), Temperature.Kelvin(250),
         Temperature.Rankin(500), 59, 0, -40.5, 1e6)
for use in (False, True):
    for mv in (Velocity.FPS(2750), Velocity.MPS(0), Velocity.MPS(1e-320), Velocity.MPS(float('inf')), Velocity.KMH(1234.5)):
        for tm in (0, 0.0123, -0.4, 3):
            ammo = Ammo(dm7(), mv, Temperature.Celsius(15), tm, use)
            before = ammo_snapshot(ammo)
            for t in temps:
                lab = f"vel use={use} mv={q(mv)} tm={tm} t={q(t)}"
                r1 = attempt(lab, lambda: q(ammo.get_velocity_for_temp(t)))
                r2 = attempt(lab + " again", lambda: q(ammo.get_velocity_for_temp(t)))
                assert r1 == r2
            print(" ammo unchanged", before == ammo_snapshot(ammo), " returns mv itself:",
                  ammo.get_velocity_for_temp(15) is ammo.mv)
print("temps after", [q(t) for t in temps])

for mv, pt, ov, ot in ((Velocity.FPS(2750), Temperature.Celsius(15), 2723, 0),
                       (Velocity.MPS(800), Temperature.Celsius(15), Velocity.MPS(830), Temperature.Celsius(200)),
                       (Velocity.MPS(800), 59, Velocity.FPS(2600), Temperature.Fahrenheit(-10)),
                       (Velocity.MPS(800), Temperature.Celsius(15), Velocity.MPS(800), Temperature.Celsius(0)),
                       (Velocity.MPS(800), Temperature.Celsius(15), Velocity.MPS(810), Temperature.Celsius(15)),
                       (Velocity.MPS(0), Temperature.Celsius(15), Velocity.MPS(810), Temperature.Celsius(0)),
                       (Velocity.MPS(800), Temperature.Celsius(15), "fast", Temperature.Celsius(0)),
                       (Velocity.MPS(800), Temperature.Celsius(15), 2600, "cold")):
    ammo = Ammo(dm7(), mv, pt)
    attempt(f"sens mv={q(mv)} pt={q(pt)} ov={q(ov)} ot={q(ot)}", lambda: repr(ammo.calc_powder_sens(ov, ot)))
    print(" ->", ammo_snapshot(ammo), q(ov), q(ot))
    ammo.use_powder_sensitivity = True
    attempt("   then velocity at -20C", lambda: q(ammo.get_velocity_for_temp(Temperature.Celsius(-20))))

# ---- 4. whole computations with powder sensitivity, interleaved over shots and calculators, with one that raises
PreferredUnits.defaults()


def make_shot(powder_c, use, tm=0.0123, mv=Velocity.FPS(2750)):
    ammo = Ammo(dm7(), mv, Temperature.Celsius(15), tm, use)
    atmo = Atmo(altitude=Unit.Foot(1500), pressure=Unit.InHg(28.5), temperature=Unit.Celsius(5), humidity=40,
                powder_t=Unit.Celsius(powder_c))
    return Shot(weapon=Weapon(Unit.Inch(2), Unit.Inch(11.24)), ammo=ammo, atmo=atmo,
                winds=[Wind(Unit.MPH(5), Unit.Degree(90))])


def run(calc, shot):
    try:
        zero = calc.set_weapon_zero(shot, Distance.Yard(100))
        hit = calc.fire(shot, Distance.Yard(500), Distance.Yard(100), extra_data=True)
        return q(zero) + " " + " ".join(row_digest(r) for r in hit.trajectory)
    except RangeError as exc:
        return f"RangeError {exc.reason} rows={len(exc.incomplete_trajectory)} " + \
            " ".join(row_digest(r) for r in exc.incomplete_trajectory)
    except Exception as exc:  # pylint: disable=broad-except
        return f"{type(exc).__name__} {exc}"


old_calc, specs = Calculator(), ((35, True), (-25, True), (-25, False), (15, True))
reference = {}
for spec in specs:
    shot = make_shot(*spec)
    before = shot_snapshot(shot)
    reference[spec] = run(Calculator(), shot)
    after = shot_snapshot(shot)
    # only the zero elevation may differ
    print("spec", spec, "changed fields:", [i for i, (b, a) in enumerate(zip(before, after)) if b != a])
    print(reference[spec])
stopped = make_shot(15, True, mv=Velocity.MPS(0))     # stated velocity 0 -> corrected velocity 0 -> error
print("stopped", run(old_calc, stopped))
for spec in specs + specs[::-1]:
    print("after history", spec, run(old_calc, make_shot(*spec)) == reference[spec])
    run(old_calc, stopped)
