"""Equivalence digest for refactoring 2 (Atmo construction / humidity / CIPM-2007 air density, Wind).

Run:  cd /tmp/wt/C10 && PYTHONPATH=/tmp/wt/C10 /venv/bin/python /tmp/twins3/C10/2/equiv.py
Prints a deterministic text; it has to be the same with and without the patch.
"""
import math
import threading
import sys
import warnings

warnings.simplefilter("ignore")

from py_ballisticcalc import (Calculator, Shot, Weapon, Ammo, Atmo, Vacuum, Wind, DragModel, TableG7, TableG1,
                              RangeError, ZeroFindingError, HitResult)
from py_ballisticcalc.unit import (AbstractDimension, Distance, Velocity, Angular, Temperature, Pressure,
                                   Weight)


def dim(d):
    if isinstance(d, AbstractDimension):
        return type(d).__name__, repr(d.raw_value), int(d.units)
    return repr(d)


def row(r):
    return tuple(dim(v) for v in r)


def rows(result):
    return [row(r) for r in result]


def atmo_state(a):
    return (type(a).__name__,) + tuple(sorted((k, dim(v)) for k, v in vars(a).items())) + (
        ("attribute order", tuple(vars(a))),
        ("powder is temperature", a._powder_temp is a._temperature),
        ("class cLowestTempC", repr(type(a).cLowestTempC)),
        ("props", dim(a.altitude), dim(a.pressure), dim(a.temperature), dim(a.powder_temp), dim(a.mach),
         repr(a.density_ratio), repr(a.humidity), repr(a.density_metric), repr(a.density_imperial), str(a)),
    )


def wind_state(w):
    return (dim(w.velocity), dim(w.direction_from), dim(w.until_distance), repr(w.MAX_DISTANCE_FEET),
            tuple(repr(c) for c in w.vector), repr(w))


def snapshot(shot):
    dm = shot.ammo.dm
    return (
        dim(shot.look_angle), dim(shot.relative_angle), dim(shot.cant_angle),
        dim(shot.weapon.sight_height), dim(shot.weapon.twist), dim(shot.weapon.zero_elevation),
        dim(shot.ammo.mv), dim(shot.ammo.powder_temp), repr(shot.ammo.temp_modifier),
        repr(shot.ammo.use_powder_sensitivity),
        repr(dm.BC), dim(dm.weight), dim(dm.diameter), dim(dm.length),
        tuple((repr(p.Mach), repr(p.CD)) for p in dm.drag_table),
        atmo_state(shot.atmo),
        tuple(wind_state(w) for w in shot._winds),
    )


def show(title, value):
    print(f"== {title}")
    if isinstance(value, list):
        for v in value:
            print("  ", v)
    else:
        print("  ", value)


def attempt(fn):
    try:
        r = fn()
    except RangeError as e:
        return ["RangeError", e.reason, str(e), dim(e.last_distance)] + rows(e.incomplete_trajectory)
    except ZeroFindingError as e:
        return ["ZeroFindingError", repr(e.zero_finding_error), e.iterations_count,
                dim(e.last_barrel_elevation), str(e)]
    except Exception as e:  # pylint: disable=broad-except
        return [type(e).__name__, str(e)]
    if isinstance(r, HitResult):
        return rows(r)
    if isinstance(r, (Atmo, )):
        return [atmo_state(r)]
    if isinstance(r, Wind):
        return [wind_state(r)]
    if isinstance(r, AbstractDimension):
        return [dim(r)]
    return [repr(r)]


def main():
    # ---- construction of atmospheres: what is given, what is derived, what happens to the arguments
    alt = Distance.Meter(1234)
    prs = Pressure.MmHg(700)
    tmp = Temperature.Fahrenheit(41)
    pwd = Temperature.Celsius(30)
    atmo_makers = [
        ("Atmo()", lambda: Atmo()),
        ("Atmo(0, 29.92, 59, 0)", lambda: Atmo(0, 29.92, 59, 0)),
        ("Atmo(units..)", lambda: Atmo(alt, prs, tmp, 45, pwd)),
        ("Atmo(altitude only)", lambda: Atmo(Distance.Foot(8000))),
        ("Atmo(altitude, temperature)", lambda: Atmo(Distance.Foot(-300), None, Temperature.Celsius(35))),
        ("Atmo(pressure only)", lambda: Atmo(pressure=Pressure.hPa(950))),
        ("Atmo(powder only)", lambda: Atmo(powder_t=Temperature.Celsius(0))),
        ("Atmo(humidity 0.5)", lambda: Atmo(humidity=0.5)),
        ("Atmo(humidity 1)", lambda: Atmo(humidity=1)),
        ("Atmo(humidity 1.0001)", lambda: Atmo(humidity=1.0001)),
        ("Atmo(humidity 100)", lambda: Atmo(humidity=100)),
        ("Atmo(humidity -0.001)", lambda: Atmo(humidity=-0.001)),
        ("Atmo(humidity 100.5)", lambda: Atmo(humidity=100.5)),
        ("Atmo(humidity nan)", lambda: Atmo(humidity=math.nan)),
        ("Atmo(humidity None)", lambda: Atmo(humidity=None)),
        ("Atmo(bad pressure + bad humidity)", lambda: Atmo(0, "x", 59, 500)),
        ("Atmo(very cold)", lambda: Atmo(0, 29.92, Temperature.Fahrenheit(-500), 10)),
        ("Atmo(absolute zero)", lambda: Atmo(0, 29.92, Temperature.Kelvin(0), 10)),
        ("Atmo(zero pressure)", lambda: Atmo(0, 0, 59, 10)),
        ("Atmo.icao()", lambda: Atmo.icao()),
        ("Atmo.icao(5000ft)", lambda: Atmo.icao(Distance.Foot(5000))),
        ("Atmo.icao(alt, temperature, humidity)", lambda: Atmo.icao(Distance.Meter(2500), Temperature.Celsius(-20), 80)),
        ("Atmo.standard(100)", lambda: Atmo.standard(100)),
        ("Vacuum()", lambda: Vacuum()),
        ("Vacuum(alt, temp)", lambda: Vacuum(Distance.Meter(300), Temperature.Celsius(1))),
        ("Vacuum.icao()", lambda: Vacuum.icao(Distance.Foot(1000))),
    ]
    for title, make in atmo_makers:
        show(title, attempt(make))
    show("arguments after use", [dim(alt), dim(prs), dim(tmp), dim(pwd)])

    # ---- humidity setter on a long-used atmosphere
    a = Atmo(Distance.Foot(1000), Pressure.InHg(28.5), Temperature.Fahrenheit(75), 20)
    trail = [atmo_state(a)]
    for h in (0, 55, 0.55, 1, 1.5, 100, -1, 101, math.nan, "x", 20):
        try:
            a.humidity = h
            trail.append((repr(h), repr(a.humidity), repr(a.density_ratio)))
        except Exception as e:  # pylint: disable=broad-except
            trail.append((repr(h), type(e).__name__, str(e), repr(a.humidity), repr(a.density_ratio)))
    trail.append(atmo_state(a))
    v = Vacuum(Distance.Foot(100))
    v.humidity = 70
    trail.append(atmo_state(v))
    show("humidity setter", trail)

    # ---- the density formula itself
    dens = []
    for args in [(20, 1013, 0), (20, 1013, 1), (15.0, 1013.25, 0.0), (-40.5, 300.0, 0.78), (49.0, 1080.0, 100),
                 (0, 1e-300, 0.5), (-273.15, 1000.0, 0.1), (10.0, 0.0, 0.1), (1e200, 1000.0, 0.0),
                 (-273.15, 0.0, 0.0), (math.nan, 1000.0, 0.5), (math.inf, 1000.0, 0.5), (25, 1000, 0.3)]:
        try:
            dens.append((args, repr(Atmo.calculate_air_density(*args))))
        except Exception as e:  # pylint: disable=broad-except
            dens.append((args, type(e).__name__, str(e)))
    show("calculate_air_density", dens)

    # ---- winds
    far = Distance.Meter(500)
    wind_makers = [
        ("Wind()", lambda: Wind()),
        ("Wind(v, dir)", lambda: Wind(Velocity.MPH(10), Angular.OClock(3))),
        ("Wind(v, dir, until)", lambda: Wind(Velocity.MPS(4), Angular.Degree(135), far)),
        ("Wind(numbers)", lambda: Wind(5, 45, 300)),
        ("Wind(until 0)", lambda: Wind(5, 45, 0)),
        ("Wind(max_distance)", lambda: Wind(Velocity.FPS(12), Angular.Degree(-60), max_distance_feet=2500)),
        ("Wind(max_distance None)", lambda: Wind(Velocity.FPS(12), Angular.Degree(-60), max_distance_feet=None)),
        ("Wind(max_distance 0)", lambda: Wind(Velocity.FPS(12), Angular.Degree(-60), max_distance_feet=0)),
        ("Wind(max_distance bad)", lambda: Wind(Velocity.FPS(12), Angular.Degree(-60), max_distance_feet="far")),
        ("Wind(until + max_distance)", lambda: Wind(3, 200, Distance.Yard(100), max_distance_feet=150.5)),
    ]
    for title, make in wind_makers:
        show(title, attempt(make))
    show("wind argument after use", [dim(far)])

    # ---- shots through such atmospheres and winds; histories; nothing passed in changes
    dm7 = DragModel(0.223, TableG7, Weight.Grain(168), Distance.Inch(0.308), Distance.Inch(1.282))
    dm1 = DragModel(0.365, TableG1)

    def build():
        s1 = Shot(weapon=Weapon(Distance.Inch(2), Distance.Inch(12)), ammo=Ammo(dm7, Velocity.FPS(2750)))
        s2 = Shot(weapon=Weapon(Distance.Centimeter(9), Distance.Inch(-9), Angular.Mil(1.5)),
                  ammo=Ammo(dm7, Velocity.MPS(800), Temperature.Celsius(15), 1.2, True),
                  look_angle=Angular.Degree(4), cant_angle=Angular.Degree(5),
                  atmo=Atmo(Distance.Meter(1500), Pressure.hPa(850), Temperature.Celsius(-5), 60,
                            Temperature.Celsius(25)),
                  winds=[Wind(Velocity.MPS(6), Angular.OClock(9), Distance.Meter(600)),
                         Wind(Velocity.MPS(3), Angular.OClock(2), Distance.Meter(200)),
                         Wind(Velocity.MPS(8), Angular.Degree(270), Distance.Meter(400),
                              max_distance_feet=5000)])
        s3 = Shot(weapon=Weapon(0, 0), ammo=Ammo(dm1, Velocity.FPS(1500)),
                  relative_angle=Angular.Degree(30), atmo=Atmo(Distance.Foot(2000), humidity=0.9),
                  winds=[Wind(Velocity.MPH(15), Angular.Degree(80))])
        s4 = Shot(weapon=Weapon(Distance.Inch(1.5), Distance.Inch(10)), ammo=Ammo(dm7, Velocity.FPS(2600)),
                  relative_angle=Angular.Degree(1), atmo=Vacuum(Distance.Foot(500)))
        return s1, s2, s3, s4

    s1, s2, s3, s4 = build()
    before = [snapshot(s) for s in (s1, s2, s3, s4)]
    calc = Calculator()
    ops = [
        ("zero s1", lambda: calc.set_weapon_zero(s1, Distance.Yard(100))),
        ("fire s1", lambda: calc.fire(s1, Distance.Yard(800), Distance.Yard(100))),
        ("zero s2", lambda: calc.set_weapon_zero(s2, Distance.Meter(300))),
        ("fire s2", lambda: calc.fire(s2, Distance.Meter(1000), Distance.Meter(100), extra_data=True)),
        ("fire s3 (altitude changes a lot)", lambda: calc.fire(s3, Distance.Yard(3000), Distance.Yard(300))),
        ("fire s3 too far", lambda: calc.fire(s3, Distance.Yard(9000), Distance.Yard(1000))),
        ("fire s4 vacuum", lambda: calc.fire(s4, Distance.Yard(1000), Distance.Yard(200))),
    ]
    first = {}
    for title, op in ops:
        first[title] = attempt(op)
        show(title, first[title])
    for title, op in reversed(ops):
        if title.startswith("zero"):
            continue
        print(f"again {title}: {'same' if attempt(op) == first[title] else 'DIFFERENT'}")
    after = [snapshot(s) for s in (s1, s2, s3, s4)]
    for name, x, y in zip(("s1", "s2", "s3", "s4"), before, after):
        print(f"fields of {name} that differ from the initial ones: "
              f"{[i for i, (p, q) in enumerate(zip(x, y)) if p != q]}")

    # fresh calculator, fresh (equal) shots: same numbers as the long-used ones
    t1, t2, t3, t4 = build()
    fresh = Calculator()
    t1.weapon.zero_elevation = s1.weapon.zero_elevation
    t2.weapon.zero_elevation = s2.weapon.zero_elevation
    print("fresh s3:", attempt(lambda: fresh.fire(t3, Distance.Yard(3000), Distance.Yard(300)))
          == first["fire s3 (altitude changes a lot)"])
    print("fresh s2:", attempt(lambda: Calculator().fire(t2, Distance.Meter(1000), Distance.Meter(100),
                                                         extra_data=True)) == first["fire s2"])
    print("fresh s1:", attempt(lambda: Calculator().fire(t1, Distance.Yard(800), Distance.Yard(100)))
          == first["fire s1"])

    # calculators owned by different threads, each with its own (equal) shots
    sys.setswitchinterval(1e-5)
    results = {}

    def work(n):
        u1, u2, u3, u4 = build()
        u2.weapon.zero_elevation = s2.weapon.zero_elevation
        c = Calculator()
        out = []
        for _ in range(2):
            out.append(attempt(lambda: c.fire(u3, Distance.Yard(3000), Distance.Yard(300))))
            out.append(attempt(lambda: c.fire(u2, Distance.Meter(1000), Distance.Meter(100), extra_data=True)))
            out.append(attempt(lambda: c.fire(u4, Distance.Yard(1000), Distance.Yard(200))))
        results[n] = out

    threads = [threading.Thread(target=work, args=(n,)) for n in range(3)]
    for t in threads:
        t.start()
    for t in threads:
        t.join()
    expected = [first["fire s3 (altitude changes a lot)"], first["fire s2"], first["fire s4 vacuum"]] * 2
    print("threads:", [results[n] == expected for n in range(3)])


main()
