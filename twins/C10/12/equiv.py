"""Equivalence digest for C10 / refactoring 3 (Vector arithmetic and the vector updates of the integration step).

Prints a deterministic text; must be identical on the clean tree and with patch.diff applied.
Run:  cd /tmp/wt/C10 && PYTHONPATH=/tmp/wt/C10 /venv/bin/python /tmp/twins4/C10/3/equiv.py
"""
import hashlib
import sys
import threading
import warnings

from py_ballisticcalc import (Ammo, Atmo, Calculator, Distance, DragModel, Shot, TableG1, TableG7, Temperature, Unit,
                              Vacuum, Velocity, Weapon, Wind, PreferredUnits, RangeError)
from py_ballisticcalc.unit import AbstractDimension
from py_ballisticcalc.vector import Vector

warnings.simplefilter("ignore")
PreferredUnits.defaults()
print("Vector implementation:", Vector.__module__)


def q(v):
    if isinstance(v, AbstractDimension):
        return f"{type(v).__name__}({v.raw_value!r},{int(v.units)})"
    return repr(v)


def row_digest(row):
    return "(" + ",".join(q(x) for x in row) + ")"


def attempt(label, fn):
    try:
        out = fn()
    except Exception as exc:  # pylint: disable=broad-except
        print(label, "RAISED", type(exc).__name__, str(exc)[:160])
        return None
    print(label, repr(out), type(out).__name__)
    return out


# ---- 1. Vector arithmetic, value by value
nan, inf = float('nan'), float('inf')
vectors = [Vector(1.0, 2.0, 3.0), Vector(-0.0, 0.0, -0.0), Vector(1e-11, -1e-11, 0.0), Vector(7e-11, 7e-11, 2e-11),
           Vector(1e200, -1e200, 3.0), Vector(nan, 1.0, 2.0), Vector(inf, -inf, 0.0), Vector(1, 2, 3),
           Vector(0.1, 0.2, 0.3), Vector(-2750.123456789, 3.3e-7, 12.000000001), Vector(10 ** 400, 1, 1),
           Vector(5e-324, 5e-324, 5e-324), Vector(True, False, 2.5)]
scalars = [0, 1, -1, 2.5, -0.0, 1e-320, 1e308, nan, inf, True, 10 ** 30, 0.1]
for i, v in enumerate(vectors):
    attempt(f"v{i}.magnitude", v.magnitude)
    attempt(f"v{i}.normalize", v.normalize)
    attempt(f"v{i}.negate", v.negate)
    attempt(f"-v{i}", lambda: -v)
    for s in scalars:
        attempt(f"v{i}.mul_by_const({s!r})", lambda: v.mul_by_const(s))
        attempt(f"v{i}*{s!r}", lambda: v * s)
        attempt(f"{s!r}*v{i}", lambda: s * v)
    for j, w in enumerate(vectors):
        attempt(f"v{i}+v{j}", lambda: v + w)
        attempt(f"v{i}.add(v{j})", lambda: v.add(w))
        attempt(f"v{i}-v{j}", lambda: v - w)
        attempt(f"v{i}.subtract(v{j})", lambda: v.subtract(w))
        attempt(f"v{i}*v{j}", lambda: v * w)
        attempt(f"v{i}.mul_by_vector(v{j})", lambda: v.mul_by_vector(w))

v = Vector(1.0, 2.0, 3.0)
for label, fn in (("v*'a'", lambda: v * 'a'), ("v*None", lambda: v * None), ("v*(1,2,3)", lambda: v * (1, 2, 3)),
                  ("v*1j", lambda: v * 1j), ("'a'*v", lambda: 'a' * v), ("v+3", lambda: v + 3), ("3+v", lambda: 3 + v),
                  ("v-(1,2,3)", lambda: v - (1, 2, 3)), ("(1,2,3)-v", lambda: (1, 2, 3) - v), ("sum", lambda: sum([v, v])),
                  ("sum start", lambda: sum([v, v], Vector(0, 0, 0))), ("v.mul_by_const('ab')", lambda: v.mul_by_const('ab')),
                  ("v.mul_by_const(2)str", lambda: Vector('a', 'b', 'c').mul_by_const(2)),
                  ("strs add", lambda: Vector('a', 'b', 'c') + Vector('d', 'e', 'f')),
                  ("strs mag", lambda: Vector('a', 'b', 'c').magnitude()), ("v.add(None)", lambda: v.add(None)),
                  ("lists neg", lambda: -Vector([1], [2], [3]))):
    attempt(label, fn)

# in-place operators bind a new object and leave every alias alone
a = Vector(1.0, 2.0, 3.0)
alias = a
a += Vector(1.0, 1.0, 1.0)
a -= Vector(0.5, 0.5, 0.5)
a *= 2
print("in-place:", a, alias, a is alias)
a *= a
print("in-place dot:", repr(a))

# ---- 2. whole computations
PreferredUnits.defaults()


def make_shot(kind):
    dm7 = DragModel(0.223, TableG7, 168, 0.308, Distance.Inch(1.282))
    dm1 = DragModel(0.45, TableG1, 55, 0.224, Distance.Inch(0.9))
    if kind == "plain":
        return Shot(weapon=Weapon(Unit.Inch(2), Unit.Inch(11.24)), ammo=Ammo(dm7, Velocity.FPS(2750)))
    if kind == "windy":
        return Shot(weapon=Weapon(Unit.Inch(2.5), Unit.Inch(-9)), ammo=Ammo(dm1, Velocity.MPS(930)),
                    look_angle=Unit.Degree(6), cant_angle=Unit.Degree(12), relative_angle=Unit.Mil(2),
                    atmo=Atmo(Unit.Meter(1200), Unit.hPa(880), Unit.Celsius(-7), 65),
                    winds=[Wind(Unit.MPS(6), Unit.Degree(70), Unit.Meter(150)),
                           Wind(Unit.MPS(9), Unit.Degree(250), Unit.Meter(400)),
                           Wind(Unit.MPS(3), Unit.Degree(180), Unit.Meter(50))])
    if kind == "vacuum":
        return Shot(weapon=Weapon(Unit.Inch(0)), ammo=Ammo(dm7, Velocity.FPS(2000)), atmo=Vacuum(),
                    relative_angle=Unit.Degree(1))
    if kind == "lob":
        return Shot(weapon=Weapon(Unit.Inch(2), Unit.Inch(12)), ammo=Ammo(dm7, Velocity.FPS(1100)),
                    relative_angle=Unit.Degree(55), winds=[Wind(Unit.MPH(20), Unit.Degree(135))])
    if kind == "down":
        return Shot(weapon=Weapon(Unit.Inch(2), Unit.Inch(12)), ammo=Ammo(dm1, Velocity.FPS(3100)),
                    look_angle=Unit.Degree(-25), atmo=Atmo.icao(Unit.Foot(9000)))
    raise ValueError(kind)


def run(calc, kind):
    shot = make_shot(kind)
    out = []
    try:
        if kind in ("plain", "windy", "down"):
            out.append("zero " + q(calc.set_weapon_zero(shot, Distance.Yard(200))))
        rng, step = (Distance.Yard(4000), Distance.Yard(37)) if kind == "lob" else (Distance.Yard(900), Distance.Yard(25))
        hit = calc.fire(shot, rng, step, extra_data=(kind != "lob"), time_step=0.05 if kind == "lob" else 0.0)
        out.extend(row_digest(r) for r in hit.trajectory)
    except RangeError as exc:
        out.append(f"RangeError {exc.reason} {q(exc.last_distance)}")
        out.extend(row_digest(r) for r in exc.incomplete_trajectory)
    except Exception as exc:  # pylint: disable=broad-except
        out.append(f"{type(exc).__name__} {exc}")
    return out


kinds = ("plain", "windy", "vacuum", "lob", "down")
reference = {}
for kind in kinds:
    rows = run(Calculator(), kind)
    reference[kind] = rows
    print(kind, len(rows), hashlib.sha256("\n".join(rows).encode()).hexdigest())
    for line in rows[:2] + rows[len(rows) // 2:len(rows) // 2 + 1] + rows[-2:]:
        print("   ", line)

small_steps = Calculator(_config={"max_calc_step_size_feet": 0.25, "cMinimumVelocity": 900.0})
rows = run(small_steps, "windy")
print("windy small steps", len(rows), hashlib.sha256("\n".join(rows).encode()).hexdigest(), rows[0][:60])

# the same computations after an unrelated history on one long-used calculator
used = Calculator()
for kind in kinds + kinds[::-1]:
    print("after history", kind, run(used, kind) == reference[kind])

# ... and on calculators owned by concurrently running threads
sys.setswitchinterval(1e-5)
results = {}


def worker(kind, n):
    calc = Calculator()
    results[(kind, n)] = [run(calc, kind) == reference[kind] for _ in range(2)]


threads = [threading.Thread(target=worker, args=(k, n)) for k in ("plain", "windy", "vacuum", "down") for n in range(2)]
for t in threads:
    t.start()
for t in threads:
    t.join()
print("threads", sorted(results.items()))
