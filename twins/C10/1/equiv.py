"""Equivalence digest for refactoring 1 (C10).

Exercises _init_trajectory / trajectory / get_calc_step / _WindSock / the mach-list lookup through the
public API (Calculator.fire, set_weapon_zero, barrel_elevation_for_target, cdm, HitResult.danger_space)
over several histories: fresh vs. long-used calculators, interleaving with raising calls, threads.
Prints only deterministic text (repr of floats / sha256 of such reprs).

Run:  cd /tmp/wt/T10 && PYTHONPATH=/tmp/wt/T10 /venv/bin/python /tmp/twins/C10/1/equiv.py
"""
import hashlib
import sys
import threading
import warnings

warnings.simplefilter("ignore")

from py_ballisticcalc import (Calculator, Shot, Weapon, Ammo, Atmo, Vacuum, Wind, DragModel, DragModelMultiBC,
                              BCPoint, DragDataPoint, TableG1, TableG7, RangeError, ZeroFindingError,
                              Distance, Velocity, Angular, Temperature, Pressure, Weight, Unit)
from py_ballisticcalc.trajectory_calc import _WindSock


# ---------------------------------------------------------------- digests
def dim(d):
    return (type(d).__name__, repr(d.raw_value), repr(d.units))


def row_digest(r):
    return (repr(r.time), dim(r.distance), dim(r.velocity), repr(r.mach), dim(r.height), dim(r.target_drop),
            dim(r.drop_adj), dim(r.windage), dim(r.windage_adj), dim(r.look_distance), dim(r.angle),
            repr(r.density_factor), repr(r.drag), dim(r.energy), dim(r.ogw), repr(int(r.flag)))


def rows_digest(rows):
    return [row_digest(r) for r in rows]


def sha(obj):
    return hashlib.sha256(repr(obj).encode()).hexdigest()[:20]


def snapshot(shot):
    """Deep snapshot of everything passed in (raw magnitudes, units, list order, object identity order)."""
    w, a, dm, at = shot.weapon, shot.ammo, shot.ammo.dm, shot.atmo
    return (
        dim(shot.look_angle), dim(shot.relative_angle), dim(shot.cant_angle),
        dim(w.sight_height), dim(w.twist), dim(w.zero_elevation),
        dim(a.mv), dim(a.powder_temp), repr(a.temp_modifier), repr(a.use_powder_sensitivity),
        repr(dm.BC), dim(dm.weight), dim(dm.diameter), dim(dm.length),
        [(repr(p.Mach), repr(p.CD)) for p in dm.drag_table],
        dim(at.altitude), dim(at.pressure), dim(at.temperature), dim(at.powder_temp), repr(at.humidity),
        repr(at.density_ratio), repr(at._mach), repr(at._a0), repr(at._t0), repr(at._p0),
        [(dim(x.velocity), dim(x.direction_from), dim(x.until_distance), repr(x.MAX_DISTANCE_FEET))
         for x in shot._winds],
    )


# ---------------------------------------------------------------- pools
def mk_shots():
    shots = {}
    dm7 = DragModel(0.223, TableG7, 168, 0.308, 1.282)
    shots['g7_plain'] = Shot(Weapon(Distance.Inch(2), Distance.Inch(11.24)), Ammo(dm7, Velocity.FPS(2750)))

    dm1 = DragModel(0.62, TableG1, Weight.Grain(661), Distance.Inch(0.51), Distance.Inch(2.3))
    winds = [Wind(Velocity.MPS(4), Angular.Degree(90), Distance.Meter(400)),
             Wind(Velocity.MPS(6), Angular.Degree(-45), Distance.Meter(150)),
             Wind(Velocity.MPS(2), Angular.Degree(170), Distance.Meter(900)),
             Wind(Velocity.MPS(3), Angular.Degree(20), Distance.Meter(150))]
    shots['g1_winds_cant'] = Shot(
        Weapon(Distance.Centimeter(9), Distance.Inch(-15), Angular.Mil(1.5)),
        Ammo(dm1, Velocity.MPS(900), Temperature.Celsius(15), 0.008, True),
        look_angle=Angular.Degree(6), relative_angle=Angular.Mil(2.5), cant_angle=Angular.Degree(12),
        atmo=Atmo(Distance.Meter(1500), Pressure.hPa(850), Temperature.Celsius(-5), 70, Temperature.Celsius(-20)),
        winds=winds)

    mbc = DragModelMultiBC([BCPoint(0.275, V=Velocity.MPS(800)), BCPoint(0.255, V=Velocity.MPS(500)),
                            BCPoint(0.26, V=Velocity.MPS(700))], TableG7, Weight.Grain(178),
                           Distance.Inch(0.308), Distance.Inch(1.3))
    shots['mbc_down'] = Shot(Weapon(Distance.Inch(1.5), Distance.Inch(10)), Ammo(mbc, Velocity.MPS(830)),
                             look_angle=Angular.Degree(-8), atmo=Atmo.icao(Distance.Foot(3000)),
                             winds=[Wind(Velocity.MPH(10), Angular.OClock(3))])

    custom = [DragDataPoint(0.0, 0.18), DragDataPoint(0.6, 0.17), DragDataPoint(0.9, 0.2),
              DragDataPoint(1.0, 0.38), DragDataPoint(1.2, 0.40), DragDataPoint(2.0, 0.30),
              DragDataPoint(3.0, 0.24), DragDataPoint(5.0, 0.20)]
    shots['custom_notwist'] = Shot(Weapon(Distance.Inch(3)), Ammo(DragModel(0.3, custom), Velocity.FPS(1200)),
                                   atmo=Atmo.icao(), winds=[])

    shots['vacuum_steep'] = Shot(Weapon(Distance.Inch(0), Distance.Inch(8)),
                                 Ammo(DragModel(0.2, TableG7, 100, 0.3, 1.0), Velocity.FPS(900)),
                                 relative_angle=Angular.Degree(30), atmo=Vacuum())

    # drag table with a single point: _init_trajectory fails inside calculate_curve
    shots['bad_table'] = Shot(Weapon(Distance.Inch(2), Distance.Inch(9)),
                              Ammo(DragModel(0.4, [DragDataPoint(1.0, 0.3)], 150, 0.3, 1.1), Velocity.FPS(2500)))
    # negative muzzle velocity: _init_trajectory fails in its very last statement (cube root of negative)
    shots['neg_mv'] = Shot(Weapon(Distance.Inch(2), Distance.Inch(9)),
                           Ammo(DragModel(0.4, TableG1, 150, 0.3, 1.1), Velocity.FPS(-2500)))
    return shots


def op_fire(calc, shot, rng, step=0, extra=False, time_step=0.0):
    try:
        hit = calc.fire(shot, rng, step, extra, time_step)
        return ('ok', rows_digest(hit.trajectory))
    except RangeError as e:
        return ('RangeError', e.reason, str(e), rows_digest(e.incomplete_trajectory),
                None if e.last_distance is None else dim(e.last_distance))
    except Exception as e:  # pylint: disable=broad-except
        return (type(e).__name__, str(e))


def op_zero(calc, shot, dist):
    try:
        return ('ok', dim(calc.set_weapon_zero(shot, dist)), dim(shot.weapon.zero_elevation))
    except ZeroFindingError as e:
        return ('ZeroFindingError', repr(e.zero_finding_error), repr(e.iterations_count),
                dim(e.last_barrel_elevation), str(e))
    except RangeError as e:
        return ('RangeError', e.reason, str(e), rows_digest(e.incomplete_trajectory))
    except Exception as e:  # pylint: disable=broad-except
        return (type(e).__name__, str(e))


def op_elev(calc, shot, dist):
    try:
        return ('ok', dim(calc.barrel_elevation_for_target(shot, dist)))
    except ZeroFindingError as e:
        return ('ZeroFindingError', repr(e.zero_finding_error), repr(e.iterations_count),
                dim(e.last_barrel_elevation))
    except Exception as e:  # pylint: disable=broad-except
        return (type(e).__name__, str(e))


def cdm_digest(calc):
    try:
        return [(repr(p.Mach), repr(p.CD)) for p in calc.cdm][:3] + [len(calc.cdm)]
    except Exception as e:  # pylint: disable=broad-except
        return (type(e).__name__, str(e))


HISTORY = [
    ('zero', 'g7_plain', Distance.Yard(100)),
    ('fire', 'g7_plain', Distance.Yard(1000), Distance.Yard(100), False, 0.0),
    ('fire', 'bad_table', Distance.Yard(300), Distance.Yard(100), False, 0.0),
    ('cdm',),
    ('fire', 'g7_plain', Distance.Yard(1000), Distance.Yard(100), False, 0.0),
    ('zero', 'g1_winds_cant', Distance.Meter(300)),
    ('fire', 'g1_winds_cant', Distance.Meter(1200), Distance.Meter(75), True, 0.0),
    ('fire', 'neg_mv', Distance.Yard(300), Distance.Yard(100), False, 0.0),
    ('cdm',),
    ('elev', 'mbc_down', Distance.Meter(500)),
    ('fire', 'mbc_down', Distance.Meter(800), 0, False, 0.0),
    ('fire', 'custom_notwist', Distance.Yard(9000), Distance.Yard(500), False, 0.0),   # RangeError
    ('fire', 'vacuum_steep', Distance.Foot(30000), Distance.Foot(3000), True, 0.5),    # RangeError (altitude/drop)
    ('fire', 'vacuum_steep', Distance.Foot(2000), Distance.Foot(0.1), False, 0.0),     # step < calc step
    ('zero', 'custom_notwist', Distance.Yard(3000)),                                    # zeroing that raises
    ('fire', 'g1_winds_cant', Distance.Meter(1200), Distance.Meter(75), True, 0.0),
    ('elev', 'g7_plain', Distance.Yard(650)),
    ('fire', 'g7_plain', Distance.Yard(1000), Distance.Yard(100), False, 0.0),
]


def run_history(calc_factory, shots, label):
    """calc_factory() is called for each operation: returns the calculator to use."""
    out = []
    last = None
    for op in HISTORY:
        kind = op[0]
        calc = calc_factory()
        last = calc
        if kind == 'cdm':
            res = cdm_digest(calc)
        else:
            shot = shots[op[1]]
            before = snapshot(shot)
            if kind == 'zero':
                res = op_zero(calc, shot, op[2])
            elif kind == 'elev':
                res = op_elev(calc, shot, op[2])
            else:
                res = op_fire(calc, shot, *op[2:])
            after = snapshot(shot)
            changed = [i for i, (x, y) in enumerate(zip(before, after)) if x != y]
            res = (res, 'changed-fields', changed, 'winds-order',
                   [repr(w.until_distance.raw_value) for w in shot.winds])
        out.append(res)
        print(label, kind, op[1] if len(op) > 1 else '-', res[0][0] if kind != 'cdm' else 'cdm', sha(res))
    return out, last


def main():
    sys.setswitchinterval(1e-5)

    # 1. one long-used calculator vs a fresh calculator per operation, on separately built but equal pools
    long_used = Calculator()
    a, _ = run_history(lambda: long_used, mk_shots(), 'long-used')
    b, _ = run_history(Calculator, mk_shots(), 'fresh')
    print('history positions whose digests differ between long-used and fresh (cdm of a fresh calculator):',
          [i for i, (x, y) in enumerate(zip(a, b)) if x != y])

    # 2. a few raw numbers in clear text
    shots = mk_shots()
    calc = Calculator()
    print('zero g7', op_zero(calc, shots['g7_plain'], Distance.Yard(100)))
    hit = calc.fire(shots['g7_plain'], Distance.Yard(1000), Distance.Yard(100), extra_data=True)
    for r in hit.trajectory[:3] + hit.trajectory[-2:]:
        print('row', row_digest(r))
    ds = hit.danger_space(Distance.Yard(500), Distance.Meter(1.5))
    print('danger', row_digest(ds.begin)[:3], row_digest(ds.end)[:3], dim(ds.look_angle))
    print('cdm', cdm_digest(calc))

    # 3. configurations: step sizes (get_calc_step), zero-finding limits
    for cfg in ({'max_calc_step_size_feet': 0.25}, {'max_calc_step_size_feet': 2.0},
                {'cMaxIterations': 1}, {'cMaxIterations': 0}, {'cZeroFindingAccuracy': 0.0},
                {'cZeroFindingAccuracy': -1.0}, {'cZeroFindingAccuracy': 0.5},
                {'cMinimumVelocity': 1500.0}, {'cMaximumDrop': -2.0}, {'cMinimumAltitude': 4925.0}, {'cMinimumAltitude': -20.0}):
        shots = mk_shots()
        c = Calculator(_config=cfg)
        z = op_zero(c, shots['g1_winds_cant'], Distance.Meter(400))
        f = op_fire(c, shots['g1_winds_cant'], Distance.Meter(700), Distance.Meter(100), True)
        g = op_fire(c, shots['g7_plain'], Distance.Yard(1000), Distance.Yard(100))
        print('cfg', sorted(cfg.items()), z[:4], f[:2] if f[0] != 'ok' else f[0], g[:2] if g[0] != 'ok' else g[0],
              sha((z, f, g)))

    # 4. wind sock directly (exported helper): ordered and out-of-order requests, empty winds
    for winds in (None, (), shots['g1_winds_cant'].winds):
        ws = _WindSock(winds)
        seq = [repr(tuple(ws.current_vector())), repr(ws.next_range)]
        for x in (0.0, 10.0, 492.125984251, 492.2, 100.0, 1400.0, 3000.0, 1e9, 5.0):
            v = ws.vector_for_range(x)
            seq.append((repr(x), repr(tuple(v)), repr(ws.next_range), ws.current))
        print('windsock', sha(seq), seq[-1])

    # 5. threads: each thread owns its calculator and its own pool of shots
    results = {}

    def worker(i):
        mine = Calculator()
        results[i] = run_history_quiet(mine, mk_shots())

    def run_history_quiet(calc, pool):
        out = []
        for op in HISTORY:
            if op[0] == 'cdm':
                out.append(cdm_digest(calc))
            elif op[0] == 'zero':
                out.append(op_zero(calc, pool[op[1]], op[2]))
            elif op[0] == 'elev':
                out.append(op_elev(calc, pool[op[1]], op[2]))
            else:
                out.append(op_fire(calc, pool[op[1]], *op[2:]))
        return out

    threads = [threading.Thread(target=worker, args=(i,)) for i in range(3)]
    for t in threads:
        t.start()
    for t in threads:
        t.join()
    serial = run_history_quiet(Calculator(), mk_shots())
    print('threads', [sha(results[i]) for i in range(3)], 'serial', sha(serial))


if __name__ == '__main__':
    main()
