"""Equivalence digest for refactoring 3 (C10).

Exercises Shot.winds / Shot.barrel_elevation / Shot.barrel_azimuth / Atmo.get_density_factor_and_mach_for_altitude
(conditions.py), Calculator.fire / set_weapon_zero / barrel_elevation_for_target / construction (interface.py) and
make_data_points / DragModelMultiBC (drag_model.py) through the public API over several histories: fresh vs.
long-used calculators, interleaving with raising calls, threads; plus direct calls of the touched public functions
with edge-case arguments (section 6).
Prints only deterministic text (repr of floats / sha256 of such reprs).

Run:  cd /tmp/wt/T10 && PYTHONPATH=/tmp/wt/T10 /venv/bin/python /tmp/twins/C10/3/equiv.py
"""
import hashlib
import sys
import threading
import warnings

warnings.simplefilter("ignore")

from py_ballisticcalc import (Calculator, Shot, Weapon, Ammo, Atmo, Vacuum, Wind, DragModel, DragModelMultiBC,
                              BCPoint, DragDataPoint, TableG1, TableG7, RangeError, ZeroFindingError,
                              Distance, Velocity, Angular, Temperature, Pressure, Weight, Unit)
from py_ballisticcalc.trajectory_calc import _WindSock


# ---------------------------------------------------------------- digests
def dim(d):
    return (type(d).__name__, repr(d.raw_value), repr(d.units))


def row_digest(r):
    return (repr(r.time), dim(r.distance), dim(r.velocity), repr(r.mach), dim(r.height), dim(r.target_drop),
            dim(r.drop_adj), dim(r.windage), dim(r.windage_adj), dim(r.look_distance), dim(r.angle),
            repr(r.density_factor), repr(r.drag), dim(r.energy), dim(r.ogw), repr(int(r.flag)))


def rows_digest(rows):
    return [row_digest(r) for r in rows]


def sha(obj):
    return hashlib.sha256(repr(obj).encode()).hexdigest()[:20]


def snapshot(shot):
    """Deep snapshot of everything passed in (raw magnitudes, units, list order, object identity order)."""
    w, a, dm, at = shot.weapon, shot.ammo, shot.ammo.dm, shot.atmo
    return (
        dim(shot.look_angle), dim(shot.relative_angle), dim(shot.cant_angle),
        dim(w.sight_height), dim(w.twist), dim(w.zero_elevation),
        dim(a.mv), dim(a.powder_temp), repr(a.temp_modifier), repr(a.use_powder_sensitivity),
        repr(dm.BC), dim(dm.weight), dim(dm.diameter), dim(dm.length),
        [(repr(p.Mach), repr(p.CD)) for p in dm.drag_table],
        dim(at.altitude), dim(at.pressure), dim(at.temperature), dim(at.powder_temp), repr(at.humidity),
        repr(at.density_ratio), repr(at._mach), repr(at._a0), repr(at._t0), repr(at._p0),
        [(dim(x.velocity), dim(x.direction_from), dim(x.until_distance), repr(x.MAX_DISTANCE_FEET))
         for x in shot._winds],
    )


# ---------------------------------------------------------------- pools
def mk_shots():
    shots = {}
    dm7 = DragModel(0.223, TableG7, 168, 0.308, 1.282)
    shots['g7_plain'] = Shot(Weapon(Distance.Inch(2), Distance.Inch(11.24)), Ammo(dm7, Velocity.FPS(2750)))

    dm1 = DragModel(0.62, TableG1, Weight.Grain(661), Distance.Inch(0.51), Distance.Inch(2.3))
    winds = [Wind(Velocity.MPS(4), Angular.Degree(90), Distance.Meter(400)),
             Wind(Velocity.MPS(6), Angular.Degree(-45), Distance.Meter(150)),
             Wind(Velocity.MPS(2), Angular.Degree(170), Distance.Meter(900)),
             Wind(Velocity.MPS(3), Angular.Degree(20), Distance.Meter(150))]
    shots['g1_winds_cant'] = Shot(
        Weapon(Distance.Centimeter(9), Distance.Inch(-15), Angular.Mil(1.5)),
        Ammo(dm1, Velocity.MPS(900), Temperature.Celsius(15), 0.008, True),
        look_angle=Angular.Degree(6), relative_angle=Angular.Mil(2.5), cant_angle=Angular.Degree(12),
        atmo=Atmo(Distance.Meter(1500), Pressure.hPa(850), Temperature.Celsius(-5), 70, Temperature.Celsius(-20)),
        winds=winds)

    mbc = DragModelMultiBC([BCPoint(0.275, V=Velocity.MPS(800)), BCPoint(0.255, V=Velocity.MPS(500)),
                            BCPoint(0.26, V=Velocity.MPS(700))], TableG7, Weight.Grain(178),
                           Distance.Inch(0.308), Distance.Inch(1.3))
    shots['mbc_down'] = Shot(Weapon(Distance.Inch(1.5), Distance.Inch(10)), Ammo(mbc, Velocity.MPS(830)),
                             look_angle=Angular.Degree(-8), atmo=Atmo.icao(Distance.Foot(3000)),
                             winds=[Wind(Velocity.MPH(10), Angular.OClock(3))])

    custom = [DragDataPoint(0.0, 0.18), DragDataPoint(0.6, 0.17), DragDataPoint(0.9, 0.2),
              DragDataPoint(1.0, 0.38), DragDataPoint(1.2, 0.40), DragDataPoint(2.0, 0.30),
              DragDataPoint(3.0, 0.24), DragDataPoint(5.0, 0.20)]
    shots['custom_notwist'] = Shot(Weapon(Distance.Inch(3)), Ammo(DragModel(0.3, custom), Velocity.FPS(1200)),
                                   atmo=Atmo.icao(), winds=[])

    shots['vacuum_steep'] = Shot(Weapon(Distance.Inch(0), Distance.Inch(8)),
                                 Ammo(DragModel(0.2, TableG7, 100, 0.3, 1.0), Velocity.FPS(900)),
                                 relative_angle=Angular.Degree(30), atmo=Vacuum())

    # drag table with a single point: _init_trajectory fails inside calculate_curve
    shots['bad_table'] = Shot(Weapon(Distance.Inch(2), Distance.Inch(9)),
                              Ammo(DragModel(0.4, [DragDataPoint(1.0, 0.3)], 150, 0.3, 1.1), Velocity.FPS(2500)))
    # negative muzzle velocity: _init_trajectory fails in its very last statement (cube root of negative)
    shots['neg_mv'] = Shot(Weapon(Distance.Inch(2), Distance.Inch(9)),
                           Ammo(DragModel(0.4, TableG1, 150, 0.3, 1.1), Velocity.FPS(-2500)))
    return shots


def op_fire(calc, shot, rng, step=0, extra=False, time_step=0.0):
    try:
        hit = calc.fire(shot, rng, step, extra, time_step)
        return ('ok', rows_digest(hit.trajectory))
    except RangeError as e:
        return ('RangeError', e.reason, str(e), rows_digest(e.incomplete_trajectory),
                None if e.last_distance is None else dim(e.last_distance))
    except Exception as e:  # pylint: disable=broad-except
        return (type(e).__name__, str(e))


def op_zero(calc, shot, dist):
    try:
        return ('ok', dim(calc.set_weapon_zero(shot, dist)), dim(shot.weapon.zero_elevation))
    except ZeroFindingError as e:
        return ('ZeroFindingError', repr(e.zero_finding_error), repr(e.iterations_count),
                dim(e.last_barrel_elevation), str(e))
    except RangeError as e:
        return ('RangeError', e.reason, str(e), rows_digest(e.incomplete_trajectory))
    except Exception as e:  # pylint: disable=broad-except
        return (type(e).__name__, str(e))


def op_elev(calc, shot, dist):
    try:
        return ('ok', dim(calc.barrel_elevation_for_target(shot, dist)))
    except ZeroFindingError as e:
        return ('ZeroFindingError', repr(e.zero_finding_error), repr(e.iterations_count),
                dim(e.last_barrel_elevation))
    except Exception as e:  # pylint: disable=broad-except
        return (type(e).__name__, str(e))


def cdm_digest(calc):
    try:
        return [(repr(p.Mach), repr(p.CD)) for p in calc.cdm][:3] + [len(calc.cdm)]
    except Exception as e:  # pylint: disable=broad-except
        return (type(e).__name__, str(e))


HISTORY = [
    ('zero', 'g7_plain', Distance.Yard(100)),
    ('fire', 'g7_plain', Distance.Yard(1000), Distance.Yard(100), False, 0.0),
    ('fire', 'bad_table', Distance.Yard(300), Distance.Yard(100), False, 0.0),
    ('cdm',),
    ('fire', 'g7_plain', Distance.Yard(1000), Distance.Yard(100), False, 0.0),
    ('zero', 'g1_winds_cant', Distance.Meter(300)),
    ('fire', 'g1_winds_cant', Distance.Meter(1200), Distance.Meter(75), True, 0.0),
    ('fire', 'neg_mv', Distance.Yard(300), Distance.Yard(100), False, 0.0),
    ('cdm',),
    ('elev', 'mbc_down', Distance.Meter(500)),
    ('fire', 'mbc_down', Distance.Meter(800), 0, False, 0.0),
    ('fire', 'custom_notwist', Distance.Yard(9000), Distance.Yard(500), False, 0.0),   # RangeError
    ('fire', 'vacuum_steep', Distance.Foot(30000), Distance.Foot(3000), True, 0.5),    # RangeError (altitude/drop)
    ('fire', 'vacuum_steep', Distance.Foot(2000), Distance.Foot(0.1), False, 0.0),     # step < calc step
    ('zero', 'custom_notwist', Distance.Yard(3000)),                                    # zeroing that raises
    ('fire', 'g1_winds_cant', Distance.Meter(1200), Distance.Meter(75), True, 0.0),
    ('elev', 'g7_plain', Distance.Yard(650)),
    ('fire', 'g7_plain', Distance.Yard(1000), Distance.Yard(100), False, 0.0),
]


def run_history(calc_factory, shots, label):
    """calc_factory() is called for each operation: returns the calculator to use."""
    out = []
    last = None
    for op in HISTORY:
        kind = op[0]
        calc = calc_factory()
        last = calc
        if kind == 'cdm':
            res = cdm_digest(calc)
        else:
            shot = shots[op[1]]
            before = snapshot(shot)
            if kind == 'zero':
                res = op_zero(calc, shot, op[2])
            elif kind == 'elev':
                res = op_elev(calc, shot, op[2])
            else:
                res = op_fire(calc, shot, *op[2:])
            after = snapshot(shot)
            changed = [i for i, (x, y) in enumerate(zip(before, after)) if x != y]
            res = (res, 'changed-fields', changed, 'winds-order',
                   [repr(w.until_distance.raw_value) for w in shot.winds])
        out.append(res)
        print(label, kind, op[1] if len(op) > 1 else '-', res[0][0] if kind != 'cdm' else 'cdm', sha(res))
    return out, last


def section6():
    """Direct calls of the refactored public functions / properties"""
    from py_ballisticcalc.drag_model import make_data_points, linear_interpolation

    # --- Shot.winds: sorted copy, stable for ties, stored list untouched; setter; empty -> default wind
    w = [Wind(1, 10, Distance.Yard(300)), Wind(2, 20, Distance.Yard(100)), Wind(3, 30, Distance.Yard(300)),
         Wind(4, 40, Distance.Yard(100)), Wind(5, 50)]
    shot = Shot(Weapon(), Ammo(DragModel(0.3, TableG1), 2500), winds=w)
    t1, t2 = shot.winds, shot.winds
    print('winds', type(t1).__name__, [w.index(x) for x in t1], t1 is t2, t1 == t2, shot._winds is w,
          [x.velocity.raw_value for x in w])
    shot.winds = None
    print('winds default', len(shot.winds), dim(shot.winds[0].until_distance), dim(shot.winds[0].velocity))
    shot._winds = [Wind(1, 1, Distance.Yard(5)), object()]
    try:
        print(shot.winds)
    except Exception as e:  # pylint: disable=broad-except
        print('winds bad', type(e).__name__, e)

    # --- barrel elevation / azimuth
    for look, rel, cant, zero in ((0, 0, 0, 0), (5, 0.3, 0, 0.1), (5, 0.3, 37, 0.1), (-12, 1.5, 90, 0.25),
                                  (-12, 1.5, -90, 0.25), (30, -2, 180, 0.4), (0.1, 1e-9, 45, 1e-12),
                                  (89, 10, 270, 3)):
        sh = Shot(Weapon(2, 10, Angular.Degree(zero)), Ammo(DragModel(0.3, TableG1), 2500),
                  look_angle=Angular.Degree(look), relative_angle=Angular.Degree(rel), cant_angle=Angular.Degree(cant))
        before = snapshot(sh)
        print('barrel', look, rel, cant, zero, dim(sh.barrel_elevation), dim(sh.barrel_azimuth),
              snapshot(sh) == before)
    sh.cant_angle = Angular.Radian(float('inf'))
    for prop in ('barrel_elevation', 'barrel_azimuth'):
        try:
            print(getattr(sh, prop))
        except Exception as e:  # pylint: disable=broad-except
            print('barrel inf cant', prop, type(e).__name__, e)
    sh.cant_angle = Angular.Degree(20)
    sh.weapon = None
    for prop in ('barrel_elevation', 'barrel_azimuth'):
        try:
            print(getattr(sh, prop))
        except Exception as e:  # pylint: disable=broad-except
            print('barrel no weapon', prop, type(e).__name__, e)

    # --- atmosphere: in-band / out-of-band / edges / above troposphere / vacuum
    for atmo in (Atmo.icao(), Atmo(Distance.Meter(1500), Pressure.hPa(850), Temperature.Celsius(-5), 70),
                 Atmo.icao(Distance.Foot(36000)), Vacuum(Distance.Foot(1000)), Vacuum()):
        a0 = atmo.altitude >> Distance.Foot
        seq = []
        with warnings.catch_warnings(record=True) as caught:
            warnings.simplefilter("always")
            for d in (0.0, 29.999999, 30.0, -30.0, -29.9999, 30.000001, 100.0, -1000.0, 5000.0, 36089.0 - a0,
                      36090.0 - a0, 60000.0, 250000.0, float('nan')):
                try:
                    r = atmo.get_density_factor_and_mach_for_altitude(a0 + d)
                    seq.append((repr(d), type(r).__name__, repr(r[0]), repr(r[1])))
                except Exception as e:  # pylint: disable=broad-except
                    seq.append((repr(d), type(e).__name__, str(e)))
            seq.append([str(c.message)[:40] for c in caught])
        print('atmo', type(atmo).__name__, repr(a0), sha(seq), seq[1], seq[6], len(seq[-1]))

    # --- make_data_points / DragModel construction: copies, mixed input, invalid input
    src = [DragDataPoint(0.5, 0.2), {'Mach': 1.0, 'CD': 0.4}, DragDataPoint(2.0, 0.3)]
    pts = make_data_points(src)
    print('mdp', type(pts).__name__, [(type(p).__name__, repr(p.Mach), repr(p.CD)) for p in pts],
          [a is b for a, b in zip(src, pts)], src[1])
    for bad in ([{'Mach': 1.0}], [(1.0, 0.3)], [None], 5, [DragDataPoint(1, 2), 'x'], iter([{'Mach': 1, 'CD': 2}]),
                (), [{'Mach': 1.0, 'CD': 0.3, 'extra': 7}]):
        try:
            label = repr(bad)[:40] if isinstance(bad, (list, tuple, int)) else type(bad).__name__
            r = make_data_points(bad)
            print('mdp', label, [(repr(p.Mach), repr(p.CD)) for p in r])
        except Exception as e:  # pylint: disable=broad-except
            print('mdp', label, type(e).__name__, e, '| cause', type(e.__cause__).__name__)
    g7_before = repr(TableG7)
    own = [DragDataPoint(p['Mach'], p['CD']) for p in TableG7]
    for args in (([BCPoint(0.275, V=Velocity.MPS(800)), BCPoint(0.255, V=Velocity.MPS(500)),
                   BCPoint(0.26, V=Velocity.MPS(700))], TableG7, Weight.Grain(178), Distance.Inch(0.308)),
                 ([BCPoint(0.5, Mach=3), BCPoint(0.4, Mach=1)], own),
                 ([BCPoint(0.5, Mach=1.0)], own[10:20], 100, 0.3, 1.1),
                 ([BCPoint(0.5, Mach=0.9), BCPoint(0.45, Mach=0.9)], own[:30]),
                 ([], own),
                 ([BCPoint(0.3, Mach=2)], [])):
        try:
            dm = DragModelMultiBC(*args)
            print('mbc', repr(dm.BC), len(dm.drag_table), sha([(repr(p.Mach), repr(p.CD)) for p in dm.drag_table]),
                  repr(getattr(dm, 'form_factor', None)), dm.drag_table[0] is not args[1][0])
        except Exception as e:  # pylint: disable=broad-except
            print('mbc', type(e).__name__, e)
    print('mbc inputs untouched', repr(TableG7) == g7_before,
          sha([(repr(p.Mach), repr(p.CD)) for p in own]) == sha([(repr(p['Mach']), repr(p['CD'])) for p in TableG7]))
    for x, xp, yp in (([0, 1, 2.5, 3, 9, float('nan')], [1, 2, 3], [10, 20, 40]), ([1.5], [1], [7]),
                      ([0.1 * i for i in range(60)], [0.5, 0.9, 0.9, 2.0, 4.4], [1, 2, 3, 4, 5])):
        y = linear_interpolation(x, xp, yp)
        print('interp', len(x), len(y), sha([repr(v) for v in y]))

    # --- Calculator: construction, fire() step defaults, unit objects of the caller
    c1, c2 = Calculator(), Calculator(_config={'cMinimumVelocity': 10.0})
    print('calc', c1._calc is not c2._calc, c1 == c2, repr(c1)[:40], c1._calc._config == c2._calc._config,
          c1._calc._config, c2._calc._config.cMinimumVelocity)
    sh = mk_shots()['g7_plain']
    for rng, step in ((Distance.Meter(400), 0), (Distance.Meter(400), None), (Distance.Meter(400), Distance.Meter(0)),
                      (400, 50), (400.5, 0.0), (Distance.Foot(900), Distance.Inch(3000)), (Distance.Meter(400), False),
                      (Distance.Meter(40), Distance.Meter(100))):
        u0 = (getattr(rng, 'units', None), getattr(step, 'units', None))
        res = op_fire(c1, sh, rng, step)
        print('fire-step', repr(rng), repr(step), res[0], len(res[1]), sha(res), u0,
              (getattr(rng, 'units', None), getattr(step, 'units', None)),
              repr(getattr(rng, 'raw_value', None)), repr(getattr(step, 'raw_value', None)))
    d = Distance.Meter(200)
    z = c1.set_weapon_zero(sh, d)
    print('zero', dim(z), z is sh.weapon.zero_elevation, dim(d), dim(c2.barrel_elevation_for_target(sh, 250)))


def main():
    sys.setswitchinterval(1e-5)

    # 1. one long-used calculator vs a fresh calculator per operation, on separately built but equal pools
    long_used = Calculator()
    a, _ = run_history(lambda: long_used, mk_shots(), 'long-used')
    b, _ = run_history(Calculator, mk_shots(), 'fresh')
    print('history positions whose digests differ between long-used and fresh (cdm of a fresh calculator):',
          [i for i, (x, y) in enumerate(zip(a, b)) if x != y])

    # 2. a few raw numbers in clear text
    shots = mk_shots()
    calc = Calculator()
    print('zero g7', op_zero(calc, shots['g7_plain'], Distance.Yard(100)))
    hit = calc.fire(shots['g7_plain'], Distance.Yard(1000), Distance.Yard(100), extra_data=True)
    for r in hit.trajectory[:3] + hit.trajectory[-2:]:
        print('row', row_digest(r))
    ds = hit.danger_space(Distance.Yard(500), Distance.Meter(1.5))
    print('danger', row_digest(ds.begin)[:3], row_digest(ds.end)[:3], dim(ds.look_angle))
    print('cdm', cdm_digest(calc))

    # 3. configurations: step sizes (get_calc_step), zero-finding limits
    for cfg in ({'max_calc_step_size_feet': 0.25}, {'max_calc_step_size_feet': 2.0},
                {'cMaxIterations': 1}, {'cMaxIterations': 0}, {'cZeroFindingAccuracy': 0.0},
                {'cZeroFindingAccuracy': -1.0}, {'cZeroFindingAccuracy': 0.5},
                {'cMinimumVelocity': 1500.0}, {'cMaximumDrop': -2.0}, {'cMinimumAltitude': 4925.0}, {'cMinimumAltitude': -20.0}):
        shots = mk_shots()
        c = Calculator(_config=cfg)
        z = op_zero(c, shots['g1_winds_cant'], Distance.Meter(400))
        f = op_fire(c, shots['g1_winds_cant'], Distance.Meter(700), Distance.Meter(100), True)
        g = op_fire(c, shots['g7_plain'], Distance.Yard(1000), Distance.Yard(100))
        print('cfg', sorted(cfg.items()), z[:4], f[:2] if f[0] != 'ok' else f[0], g[:2] if g[0] != 'ok' else g[0],
              sha((z, f, g)))

    # 4. wind sock directly (exported helper): ordered and out-of-order requests, empty winds
    for winds in (None, (), shots['g1_winds_cant'].winds):
        ws = _WindSock(winds)
        seq = [repr(tuple(ws.current_vector())), repr(ws.next_range)]
        for x in (0.0, 10.0, 492.125984251, 492.2, 100.0, 1400.0, 3000.0, 1e9, 5.0):
            v = ws.vector_for_range(x)
            seq.append((repr(x), repr(tuple(v)), repr(ws.next_range), ws.current))
        print('windsock', sha(seq), seq[-1])

    # 5. threads: each thread owns its calculator and its own pool of shots
    results = {}

    def worker(i):
        mine = Calculator()
        results[i] = run_history_quiet(mine, mk_shots())

    def run_history_quiet(calc, pool):
        out = []
        for op in HISTORY:
            if op[0] == 'cdm':
                out.append(cdm_digest(calc))
            elif op[0] == 'zero':
                out.append(op_zero(calc, pool[op[1]], op[2]))
            elif op[0] == 'elev':
                out.append(op_elev(calc, pool[op[1]], op[2]))
            else:
                out.append(op_fire(calc, pool[op[1]], *op[2:]))
        return out

    section6()

    threads = [threading.Thread(target=worker, args=(i,)) for i in range(3)]
    for t in threads:
        t.start()
    for t in threads:
        t.join()
    serial = run_history_quiet(Calculator(), mk_shots())
    print('threads', [sha(results[i]) for i in range(3)], 'serial', sha(serial))


if __name__ == '__main__':
    main()
