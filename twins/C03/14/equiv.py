"""Equivalence digest for refactoring 2 (_TrajectoryDataFilter.should_record split into helpers).
Prints the same text on the clean worktree and with the patch applied."""
import hashlib
import logging
import warnings

warnings.simplefilter("ignore")

from py_ballisticcalc import (Calculator, DragModel, TableG1, TableG7, Weight, Ammo, Velocity, Weapon, Shot,
                              Angular, Distance, Wind, Atmo, InterfaceConfigDict)
from py_ballisticcalc.exceptions import RangeError
from py_ballisticcalc.trajectory_calc import _TrajectoryDataFilter
from py_ballisticcalc.trajectory_data import TrajFlag
from py_ballisticcalc.vector import Vector
from py_ballisticcalc.logger import logger, set_debug

LINES = []


def out(*a):
    LINES.append(" ".join(str(x) for x in a))


def row_repr(r):
    return repr((r.time, r.distance.raw_value, r.velocity.raw_value, r.mach,
                 r.height.raw_value, r.target_drop.raw_value, r.drop_adj.raw_value, r.windage.raw_value,
                 r.windage_adj.raw_value, r.look_distance.raw_value, r.angle.raw_value, r.density_factor,
                 r.drag, r.energy.raw_value, r.ogw.raw_value, int(r.flag)))


def dump(label, rows):
    out("##", label, "rows", len(rows))
    for r in rows:
        out(row_repr(r))


def mk_shot(winds=None, look=0.0, cant=0.0, rel=0.0, g7=False, mv=2750.0, sight=2.0, twist=12.0):
    if g7:
        dm = DragModel(0.223, TableG7, Weight.Grain(168), Distance.Inch(0.308), Distance.Inch(1.282))
    else:
        dm = DragModel(0.365, TableG1, Weight.Grain(150), Distance.Inch(0.308), Distance.Inch(1.1))
    ammo = Ammo(dm, Velocity.FPS(mv))
    weapon = Weapon(Distance.Inch(sight), Distance.Inch(twist))
    return Shot(weapon=weapon, ammo=ammo, look_angle=Angular.Degree(look), relative_angle=Angular.Degree(rel),
                cant_angle=Angular.Degree(cant), atmo=Atmo.icao(), winds=winds)


def fire(label, calc, shot, *args, **kw):
    try:
        res = calc.fire(shot, *args, **kw)
        dump(label, res.trajectory)
    except RangeError as e:
        out("##", label, "RangeError", e.reason, str(e))
        dump(label + " (incomplete)", e.incomplete_trajectory)


# ---------------------------------------------------------------- through the public API
calc = Calculator()
head = [Wind(Velocity.MPH(20), Angular.Degree(180), Distance.Yard(400)),
        Wind(Velocity.MPH(12), Angular.Degree(90), Distance.Yard(900))]
tail = [Wind(Velocity.MPH(35), Angular.Degree(0))]
cross = [Wind(Velocity.FPS(15), Angular.OClock(9))]

s = mk_shot()
calc.set_weapon_zero(s, Distance.Yard(100))
fire("default step", calc, s, 1000)
fire("step 100 yd", calc, s, 1000, 100)
fire("step does not divide", calc, s, 500, 70.0)
fire("head and cross wind, extra", calc, mk_shot(winds=head, rel=0.3, cant=5.0), Distance.Meter(800), extra_data=True)
fire("tail wind", calc, mk_shot(winds=tail, rel=0.2), Distance.Yard(600), Distance.Yard(25))
fire("cross wind, metres", calc, mk_shot(winds=cross, rel=0.1), Distance.Meter(500), Distance.Meter(33))
fire("miles", calc, mk_shot(rel=2.0, g7=True), Distance.Mile(0.75), Distance.Yard(110))
fire("feet", calc, s, Distance.Foot(37.0), Distance.Foot(1.0))
fire("step below the integration step (several distances per step)", calc, s, Distance.Foot(3), Distance.Foot(0.07))
fire("step below the integration step, extra", calc, s, Distance.Foot(2), Distance.Inch(1.3), True)
fire("look angle, extra", calc, mk_shot(look=5.0, rel=0.4), Distance.Yard(300), Distance.Foot(100), True)
fire("time step, steep", calc, mk_shot(rel=30.0, mv=900.0), Distance.Yard(200), Distance.Yard(50), time_step=0.05)
fire("time step, steep, extra", calc, mk_shot(rel=60.0, mv=600.0), Distance.Yard(100), 0, True, 0.1)
fire("time step only matters between range rows", calc, mk_shot(rel=80.0, mv=500.0), Distance.Yard(20),
     Distance.Yard(10), False, 0.25)
fire("vertical shot never advances", calc, mk_shot(rel=90.0, mv=300.0), Distance.Yard(10), Distance.Yard(5), False, 0.5)
fire("range error", calc, mk_shot(mv=800.0), Distance.Yard(2500), Distance.Yard(250))
calc2 = Calculator(_config=InterfaceConfigDict(max_calc_step_size_feet=3.0))
fire("coarse integration 3 ft, step 1 ft", calc2, mk_shot(winds=head, rel=0.2), Distance.Foot(60), Distance.Foot(1))
fire("zero / barrel elevation", calc, mk_shot(look=3.0), Distance.Yard(400), Distance.Yard(100))
out("zero", repr(calc.barrel_elevation_for_target(mk_shot(look=3.0), Distance.Yard(250)).raw_value))


# ---------------------------------------------------------------- the filter itself, fed by hand
def state(f):
    return repr((f.next_record_distance, f.time_of_last_record, int(f.current_flag), int(f.seen_zero),
                 f.previous_time, tuple(f.previous_position), tuple(f.previous_velocity), f.previous_mach,
                 f.previous_v_mach))


def feed(label, flt, points, clear=True):
    out("##", label)
    for (t, pos, vel, mach) in points:
        if clear:
            flt.clear_current_flag()
        try:
            d = flt.should_record(Vector(*pos), Vector(*vel), mach, t)
            out("ret", None if d is None else repr((d.time, tuple(d.position), tuple(d.velocity), d.mach)))
        except Exception as e:  # pylint: disable=broad-except
            out("exc", type(e).__name__, str(e))
        out("st ", state(flt))


def mk_filter(flags, step, tstep=0.0, pos=(0.0, -0.2, 0.0), vel=(2700.0, 10.0, 0.0), look=0.0):
    f = _TrajectoryDataFilter(flags, step, Vector(*pos), Vector(*vel), tstep)
    f.setup_seen_zero(pos[1], 0.003, look)
    return f


nan, inf = float("nan"), float("inf")
pts = [
    (0.0, (0.0, -0.2, 0.0), (2700.0, 10.0, 0.0), 1116.4),
    (0.0003, (0.81, -0.19, 0.0), (2699.0, 9.9, 0.01), 1116.4),
    (0.0006, (1.62, -0.18, 0.001), (2698.0, 9.8, 0.02), 1116.39),
    (0.0020, (5.37, 0.03, 0.002), (2690.0, 9.1, 0.03), 1116.38),   # several distances stepped over
    (0.0021, (5.37, 0.031, 0.002), (2689.0, 9.0, 0.03), 1116.38),  # no advance
    (0.0022, (5.30, 0.032, 0.002), (-10.0, 8.9, 0.03), 1116.37),   # backwards
    (0.0100, (6.0, 0.05, 0.002), (1000.0, 8.0, 0.03), 1116.37),    # exactly on a multiple
    (0.0200, (7.0000000000000001, -0.01, 0.002), (900.0, -8.0, 0.03), 1116.36),
    (0.5, (7.9, -0.5, 0.0), (1100.0, -9.0, 0.0), 1116.3),
    (0.9, (8.0, -0.6, 0.0), (1000.0, -9.0, 0.0), 1116.3),
    (1.5, (1e4, -0.7, 0.0), (900.0, -9.0, 0.0), 1116.2),           # a long catch-up loop
    (1.6, (nan, -0.7, 0.0), (900.0, -9.0, 0.0), 1116.2),
    (1.7, (1e4 + 0.5, -0.8, 0.0), (900.0, -9.0, 0.0), 1116.2),     # previous x is NaN
]
for flags in (TrajFlag.RANGE, TrajFlag.ALL, TrajFlag.NONE, TrajFlag.ZERO | TrajFlag.MACH):
    for step, tstep in ((1.0, 0.0), (0.3, 0.0), (0.1 + 0.2, 0.004), (0.0, 0.004), (0.0, 0.0), (-1.0, 0.3), (2.5, 0.35)):
        feed(f"flags={int(flags)} step={step!r} tstep={tstep!r}", mk_filter(flags, step, tstep), pts)
feed("flag never cleared", mk_filter(TrajFlag.RANGE, 1.0, 0.001), pts, clear=False)
feed("look angle", mk_filter(TrajFlag.ALL, 0.7, 0.0, look=0.05), pts)
feed("muzzle above the sight line", mk_filter(TrajFlag.ALL, 0.7, 0.0, pos=(0.0, 0.1, 0.0)), pts)
feed("integer coordinates", mk_filter(TrajFlag.RANGE, 2, 0),
     [(0, (0, 0, 0), (3, 0, 0), 1100), (1, (3, 0, 0), (3, 0, 0), 1100), (2, (7, 1, 0), (4, 1, 0), 1100), (3, (8, 1, 1), (1, 0, 1), 1100)])
feed("bad mach (division by zero after the range branch)", mk_filter(TrajFlag.RANGE, 1.0),
     [(0.0, (0.0, 0.0, 0.0), (1.0, 0.0, 0.0), 1100.0), (0.1, (3.5, 0.0, 0.0), (1.0, 0.0, 0.0), 0.0),
      (0.2, (4.5, 0.0, 0.0), (1.0, 0.0, 0.0), 1100.0)])

# check_next_time on its own
f = mk_filter(TrajFlag.RANGE, 0.0, 0.25)
for t in (0.0, 0.25, 0.25000000000000006, 0.3, 0.5, 0.55, 0.56, nan, 0.9):
    f.clear_current_flag()
    f.check_next_time(t)
    out("check_next_time", repr(t), int(f.current_flag), repr(f.time_of_last_record))


# ---------------------------------------------------------------- debug log text stays the same
class _Grab(logging.Handler):
    def emit(self, record):
        out("LOG", record.levelname, record.getMessage())


grab = _Grab(level=logging.DEBUG)
logger.addHandler(grab)
set_debug(True)
feed("debug on", mk_filter(TrajFlag.RANGE, 1.0, 0.001), pts[:5])
fire("debug on, fire", calc, s, Distance.Foot(2), Distance.Foot(1))
set_debug(False)
logger.removeHandler(grab)

text = "\n".join(LINES)
print(text)
print("sha256", hashlib.sha256(text.encode()).hexdigest())
