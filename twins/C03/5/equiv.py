"""Equivalence digest for C03 refactoring 2 (hot loop of _integrate: wind lookup, Euler step, muzzle state).

Prints a deterministic text; it must be identical on the clean worktree and with the patch.
"""
import hashlib
import math

from py_ballisticcalc import (Calculator, DragModel, TableG1, TableG7, Ammo, Weapon, Shot, Wind, Atmo,
                              Distance, Velocity, Angular, Unit, RangeError, TrajFlag)
from py_ballisticcalc.trajectory_calc._trajectory_calc import _WindSock, Vector


def row_repr(r):
    return repr((r.time, r.distance.raw_value, r.velocity.raw_value, r.mach, r.height.raw_value,
                 r.target_drop.raw_value, r.drop_adj.raw_value, r.windage.raw_value,
                 r.windage_adj.raw_value, r.look_distance.raw_value, r.angle.raw_value,
                 r.density_factor, r.drag, r.energy.raw_value, r.ogw.raw_value, int(r.flag)))


def digest(rows):
    h = hashlib.sha256()
    for r in rows:
        h.update(row_repr(r).encode())
    return h.hexdigest()


def show(name, rows):
    print(f"{name}: n={len(rows)} sha={digest(rows)}")
    print("   first", row_repr(rows[0]))
    print("   last ", row_repr(rows[-1]))
    print("   dist ", [repr(r.distance.raw_value) for r in rows[:14]])
    print("   time ", [repr(r.time) for r in rows[:14]])


def make_shot(winds=None, look=0.0, cant=0.0, elev=0.001228, table=TableG7, bc=0.223, mv=2750.0):
    dm = DragModel(bc, table, 168, 0.308, 1.282)
    ammo = Ammo(dm, Velocity.FPS(mv))
    weapon = Weapon(Distance.Inch(2), Distance.Inch(11.24), zero_elevation=Angular.Radian(elev))
    return Shot(weapon=weapon, ammo=ammo, look_angle=Angular.Degree(look), cant_angle=Angular.Degree(cant),
                atmo=Atmo.icao(), winds=winds)


def fire(name, shot, rng, step=0, extra=False, time_step=0.0, config=None):
    calc = Calculator(_config=config)
    try:
        rows = calc.fire(shot, rng, step, extra_data=extra, time_step=time_step).trajectory
        show(name, rows)
    except RangeError as e:
        print(f"{name}: RangeError {e.reason}")
        show(name + " (incomplete)", e.incomplete_trajectory)


head = [Wind(Velocity.MPH(20), Angular.OClock(6))]
tail = [Wind(Velocity.MPH(40), Angular.OClock(12))]
cross = [Wind(Velocity.MPH(10), Angular.OClock(3))]
multi = [Wind(Velocity.MPH(5), Angular.OClock(10.5), Distance.Yard(200)),
         Wind(Velocity.MPH(15), Angular.OClock(12), Distance.Yard(450)),
         Wind(Velocity.MPH(8), Angular.OClock(7), Distance.Yard(700))]

fire("default-step 1000yd", make_shot(), Distance.Yard(1000))
fire("100yd steps", make_shot(cross), Distance.Yard(1000), Distance.Yard(100))
fire("non-dividing step 70m over 1000yd", make_shot(head), Distance.Yard(1000), Distance.Meter(70))
fire("float range/step (preferred units)", make_shot(tail), 600, 37.5)
fire("tail wind 40mph 1 mile", make_shot(tail, elev=0.02), Distance.Mile(1), Distance.Yard(160))
fire("multi wind", make_shot(multi, cant=7.0), Distance.Meter(800), Distance.Meter(50))
fire("feet range", make_shot(cross), Distance.Foot(10), Distance.Foot(1))
fire("step == calc step (0.25ft)", make_shot(), Distance.Foot(6), Distance.Foot(0.25))
fire("step below calc step (0.1ft): several record distances per integration step",
     make_shot(head), Distance.Foot(5), Distance.Foot(0.1))
fire("step 1 inch, slow bullet with strong tail wind", make_shot(tail, mv=300.0, elev=0.05),
     Distance.Foot(4), Distance.Inch(1))
fire("look angle 30deg", make_shot(cross, look=30.0, elev=0.0025), Distance.Yard(500), Distance.Yard(50))
fire("extra data", make_shot(cross, elev=0.004), Distance.Yard(900), Distance.Yard(100), extra=True)
fire("extra data + time step", make_shot(multi, elev=0.004), Distance.Yard(400), Distance.Yard(100),
     extra=True, time_step=0.01)
fire("time step only matters (steep shot)", make_shot(head, look=80.0, elev=0.0), Distance.Yard(150),
     Distance.Yard(50), time_step=0.05)
fire("time step small", make_shot(), Distance.Yard(300), Distance.Yard(100), time_step=0.001)
fire("range error (drop)", make_shot(elev=-0.4), Distance.Yard(3000), Distance.Yard(100))
fire("range error (velocity)", make_shot(tail, table=TableG1, bc=0.05, elev=0.3), Distance.Yard(4000),
     Distance.Yard(250), time_step=0.5)
fire("coarse integration step 5ft", make_shot(cross), Distance.Yard(300), Distance.Yard(30),
     config={"max_calc_step_size_feet": 5.0})
fire("zero range", make_shot(), Distance.Yard(0), Distance.Yard(10))

# zeroing first (calls the integrator without a filter), then a range card
shot = make_shot(cross, look=5.0)
calc = Calculator()
print("zero elevation", repr(calc.set_weapon_zero(shot, Distance.Yard(200)).raw_value))
show("after zeroing", calc.fire(shot, Distance.Yard(600), Distance.Yard(60), time_step=0.2).trajectory)

# more wind layouts: the loop's end condition depends on the per-step advance, which depends on the wind
gusty = [Wind(Velocity.MPH(60), Angular.OClock(12), Distance.Yard(50)),      # strong tail wind
         Wind(Velocity.MPH(60), Angular.OClock(6), Distance.Yard(100)),       # strong head wind
         Wind(Velocity.MPH(30), Angular.OClock(9), Distance.Yard(100)),       # same until_distance as previous
         Wind(Velocity.MPH(25), Angular.OClock(1.5), Distance.Yard(333))]     # calm air beyond 333 yd
fire("gusty", make_shot(gusty, cant=-12.0, elev=0.01), Distance.Yard(700), Distance.Yard(35))
fire("gusty extra", make_shot(gusty, cant=30.0, elev=0.01), Distance.Yard(400), Distance.Yard(40), extra=True)
fire("slow bullet, tail wind faster than needed for |v - w| < 1", make_shot(
    [Wind(Velocity.FPS(119.5), Angular.OClock(12))], mv=120.0, elev=0.1), Distance.Foot(30), Distance.Foot(3))
fire("wind ends at muzzle", make_shot([Wind(Velocity.MPH(20), Angular.OClock(3), Distance.Foot(0))]),
     Distance.Yard(200), Distance.Yard(20))
fire("default wind list", make_shot(None, cant=90.0, elev=0.003), Distance.Yard(200), Distance.Yard(20))
fire("steep up", make_shot(cross, look=60.0, elev=0.002, cant=5.0), Distance.Yard(300), Distance.Yard(30),
     time_step=0.1)
fire("downhill", make_shot(tail, look=-25.0, elev=0.002), Distance.Meter(500), Distance.Meter(100))
for dist in (50, 400):
    s = make_shot(gusty, look=3.0, cant=4.0)
    c = Calculator()
    print("zero", dist, repr(c.set_weapon_zero(s, Distance.Yard(dist)).raw_value),
          repr(c.barrel_elevation_for_target(s, Distance.Meter(dist + 10)).raw_value))

# --- the wind sock driven directly ------------------------------------------------------------
print("direct wind sock use")


def sock_state(w):
    return repr((w.current, w.next_range, w._last_vector_cache, w._length))


for winds in (None, (), tuple(sorted(gusty, key=lambda w: w.until_distance.raw_value)),
              (Wind(Velocity.FPS(10), Angular.Degree(45)),),
              (Wind(Velocity.FPS(10), Angular.Degree(45), Distance.Foot(10), max_distance_feet=500.0),
               Wind(Velocity.FPS(0), Angular.Degree(0), Distance.Foot(20)))):
    w = _WindSock(winds)
    print("  new", sock_state(w), repr(w.current_vector()))
    for x in (0.0, 5.0, 10.0, 10.0, 150.0, 150.1, 299.99, 300.0, 300.0, 300.0, 999.0, 1e9, 1e9, float("nan")):
        print("   ", repr(x), repr(w.vector_for_range(x)), sock_state(w))
    w.update_cache()
    print("  upd", sock_state(w))
