"""Equivalence digest for refactoring 2 (C03): bookkeeping of _TrajectoryDataFilter
(next record distance, time-based recording, zero / mach crossing detection).

Prints a deterministic text; it must be identical on the clean tree and with the patch.
"""
import hashlib
import math
import random
import warnings

from py_ballisticcalc import (Calculator, DragModel, Ammo, Weapon, Shot, Wind, Atmo,
                              TableG7, TableG1, RangeError)
from py_ballisticcalc.unit import Distance, Velocity, Angular
from py_ballisticcalc.trajectory_calc import _TrajectoryDataFilter
from py_ballisticcalc.trajectory_data import TrajFlag
from py_ballisticcalc.vector import Vector

warnings.simplefilter("ignore")


def row_repr(r):
    return repr((r.time, r.distance.raw_value, r.velocity.raw_value, r.mach, r.height.raw_value,
                 r.target_drop.raw_value, r.drop_adj.raw_value, r.windage.raw_value,
                 r.windage_adj.raw_value, r.look_distance.raw_value, r.angle.raw_value,
                 r.density_factor, r.drag, r.energy.raw_value, r.ogw.raw_value, int(r.flag)))


def digest_lines(lines):
    h = hashlib.sha256()
    for line in lines:
        h.update(line.encode())
        h.update(b"\n")
    return h.hexdigest()[:20]


def summarize(label, rows):
    print(label, "n=%d" % len(rows), digest_lines(row_repr(r) for r in rows))
    if rows:
        print("   first", row_repr(rows[0]))
        print("   last ", row_repr(rows[-1]))
        print("   dist ", [repr(r.distance >> Distance.Foot) for r in rows[:13]])
        print("   time ", [repr(r.time) for r in rows[:13]])
        print("   flags", [int(r.flag) for r in rows[:40]])


def run(label, calc, shot, rng, step=0, extra=False, time_step=0.0):
    try:
        res = calc.fire(shot, rng, step, extra_data=extra, time_step=time_step)
        summarize(label, res.trajectory)
    except RangeError as e:
        print(label, "RangeError", repr(e.reason))
        summarize(label + " [incomplete]", e.incomplete_trajectory)
    except Exception as e:  # pylint: disable=broad-except
        print(label, "EXC", type(e).__name__, repr(str(e)))


# ------------------------------------------------------------------ through the public API
dm7 = DragModel(0.22, TableG7, 168, 0.308, 1.22)
dm1 = DragModel(0.3, TableG1, 55, 0.224, 0.7)
ammo = Ammo(dm7, Velocity.FPS(2600))
pistol = Ammo(DragModel(0.15, TableG1, 115, 0.355, 0.6), Velocity.FPS(1150))  # goes subsonic early
weapon = Weapon(Distance.Inch(2), 12, Angular.Mil(4))
calc = Calculator()
fine = Calculator(_config={"max_calc_step_size_feet": 0.1})
coarse = Calculator(_config={"max_calc_step_size_feet": 3.0})

flat = Shot(weapon=weapon, ammo=ammo, atmo=Atmo.icao())
run("1000yd/100yd", calc, flat, Distance.Yard(1000), Distance.Yard(100))
run("1000yd default", calc, flat, Distance.Yard(1000))
run("1000yd/100yd extra", calc, flat, Distance.Yard(1000), Distance.Yard(100), extra=True)
run("step does not divide range", calc, flat, Distance.Meter(500), Distance.Meter(70))
run("float step in preferred units", calc, flat, 350, 33.3)
run("step == integration step", calc, flat, Distance.Foot(20), Distance.Foot(0.25))
run("step == 2 integration steps", calc, flat, Distance.Foot(20), Distance.Foot(0.5))
# record step shorter than the integration step: several record distances are passed per step
run("step 0.1ft (shorter than calc step)", calc, flat, Distance.Foot(5), Distance.Foot(0.1))
run("step 0.07ft coarse calc", coarse, flat, Distance.Foot(12), Distance.Foot(0.07))
run("step 1ft coarse calc", coarse, flat, Distance.Foot(40), Distance.Foot(1))
run("fine calc 300yd/25yd", fine, flat, Distance.Yard(300), Distance.Yard(25))
for name, direction, speed in (("head", 180, 40), ("tail", 0, 40), ("left", 90, 15), ("quarter", 225, 60)):
    s = Shot(weapon=weapon, ammo=ammo, atmo=Atmo.icao(), winds=[Wind(Velocity.MPH(speed), Angular.Degree(direction))])
    run("wind %s 800yd/80yd" % name, calc, s, Distance.Yard(800), Distance.Yard(80))
    run("wind %s mile/0.1mile" % name, calc, s, Distance.Mile(1), Distance.Mile(0.1))
# time-based recording
for ts in (0.001, 0.01, 0.1, 0.5, 5.0):
    run("time_step %r, 600yd/200yd" % ts, calc, flat, Distance.Yard(600), Distance.Yard(200), time_step=ts)
lob = Shot(weapon=weapon, ammo=pistol, atmo=Atmo.icao(), relative_angle=Angular.Degree(60))
run("lob time_step 0.25", calc, lob, Distance.Yard(800), Distance.Yard(400), time_step=0.25)
run("lob time_step 0.25 extra", calc, lob, Distance.Yard(800), Distance.Yard(400), extra=True, time_step=0.25)
steep = Shot(weapon=weapon, ammo=pistol, atmo=Atmo.icao(), relative_angle=Angular.Degree(88))
run("steep time_step 1.0", calc, steep, Distance.Yard(300), Distance.Yard(100), time_step=1.0)
run("time_step only matters beyond range", calc, flat, Distance.Foot(3), Distance.Foot(10), time_step=0.0001)
# zero crossings (up then down), look angles up/down, sight below/above bore, mach crossing
for la in (-20, -2, 0, 2, 20, 45):
    s = Shot(weapon=Weapon(Distance.Inch(2), 12), ammo=pistol, atmo=Atmo.icao(), look_angle=Angular.Degree(la))
    try:
        calc.set_weapon_zero(s, Distance.Yard(75))
    except Exception as e:  # pylint: disable=broad-except
        print("zero", la, "EXC", type(e).__name__)
    run("zeroed look %d extra" % la, calc, s, Distance.Yard(400), Distance.Yard(50), extra=True)
    run("zeroed look %d plain" % la, calc, s, Distance.Yard(400), Distance.Yard(50))
neg_sight = Shot(weapon=Weapon(Distance.Inch(-3), 12, Angular.Mil(-2)), ammo=pistol, atmo=Atmo.icao())
run("sight below bore, barrel down, extra", calc, neg_sight, Distance.Yard(200), Distance.Yard(50), extra=True)
neg_sight_up = Shot(weapon=Weapon(Distance.Inch(-3), 12, Angular.Mil(5)), ammo=pistol, atmo=Atmo.icao())
run("sight below bore, barrel up, extra", calc, neg_sight_up, Distance.Yard(200), Distance.Yard(50), extra=True)
canted = Shot(weapon=weapon, ammo=ammo, atmo=Atmo.icao(), cant_angle=Angular.Degree(35))
run("canted extra", calc, canted, Distance.Yard(500), Distance.Yard(125), extra=True)

# ------------------------------------------------------------------ the filter driven directly
def state(f):
    return repr((f.current_flag, f.seen_zero, f.time_of_last_record, f.next_record_distance,
                 f.previous_mach, f.previous_time, tuple(f.previous_position), tuple(f.previous_velocity),
                 f.previous_v_mach, f.look_angle, f.range_step, f.time_step, f.filter))


def drive(label, f, points, clear=True):
    lines = []
    for (t, pos, vel, mach) in points:
        if clear:
            f.clear_current_flag()
        try:
            d = f.should_record(pos, vel, mach, t)
            out = None if d is None else repr((d.time, tuple(d.position), tuple(d.velocity), d.mach))
        except Exception as e:  # pylint: disable=broad-except
            out = "EXC " + type(e).__name__
        lines.append("%s | %s" % (out, state(f)))
    print(label, "n=%d" % len(lines), digest_lines(lines))
    for line in lines[:3] + lines[-2:]:
        print("   ", line[:300])


def ballistic_points(n, dx, v0=2000.0, vy0=30.0, dt=None, mach=1116.0, decay=0.999, x0=0.0, y0=-0.2):
    pts, t, x, y, vx, vy = [], 0.0, x0, y0, v0, vy0
    for _ in range(n):
        pts.append((t, Vector(x, y, 0.01 * x), Vector(vx, vy, 0.3), mach))
        step_t = dt if dt is not None else dx / max(1.0, vx)
        vx *= decay
        vy -= 32.17405 * step_t
        x += vx * step_t
        y += vy * step_t
        t += step_t
    return pts


p0, v0 = Vector(0.0, -0.2, 0.0), Vector(2000.0, 30.0, 0.3)
for flt in (TrajFlag.RANGE, TrajFlag.ALL, TrajFlag.ZERO, TrajFlag.MACH | TrajFlag.RANGE, TrajFlag.NONE):
    for (rs, ts) in ((10.0, 0.0), (0.3, 0.0), (0.11, 0.0), (100.0, 0.002), (0.0, 0.003), (0.0, 0.0),
                     (-5.0, 0.01), (7, 0.0), (1e9, 1e-9)):
        f = _TrajectoryDataFilter(flt, rs, p0, v0, ts)
        f.setup_seen_zero(p0.y, 0.015, 0.0)
        drive("filter=%d step=%r time_step=%r" % (flt, rs, ts), f, ballistic_points(900, 0.5, decay=0.9985))

# look angles, sight above/below the line, barrel below/above look angle
for (h, be, la) in ((-0.2, 0.02, 0.0), (-0.2, -0.02, 0.0), (0.0, 0.02, 0.0), (0.3, 0.0, 0.01), (-0.2, 0.3, 0.28),
                    (-0.2, -0.3, -0.28), (-0.2, -0.31, -0.28), (float("nan"), 0.0, 0.0)):
    f = _TrajectoryDataFilter(TrajFlag.ALL, 25.0, Vector(0.0, h, 0.0), v0, 0.0)
    f.setup_seen_zero(h, be, la)
    pts = ballistic_points(1500, 0.5, v0=1500.0 * math.cos(be), vy0=1500.0 * math.sin(be), y0=h, decay=0.9992)
    drive("zero crossing h=%r be=%r la=%r" % (h, be, la), f, pts)

# mach crossing: speed of sound constant, bullet decelerating through it; also exactly at Mach 1
f = _TrajectoryDataFilter(TrajFlag.ALL, 50.0, p0, Vector(1200.0, 0.0, 0.0), 0.0)
f.setup_seen_zero(p0.y, 0.0, 0.0)
drive("mach crossing", f, ballistic_points(1200, 0.5, v0=1200.0, vy0=0.0, decay=0.9995))
f = _TrajectoryDataFilter(TrajFlag.MACH, 0.0, p0, Vector(1200.0, 0.0, 0.0), 0.0)
pts = [(0.001 * i, Vector(1.0 * i, 0.0, 0.0), Vector(v, 0.0, 0.0), 1000.0)
       for i, v in enumerate((1200.0, 1001.0, 1000.0, 999.0, 1000.0, 1000.5, 1000.0, 1200.0, 900.0))]
drive("mach exactly one", f, pts)
f = _TrajectoryDataFilter(TrajFlag.ALL, 1.0, p0, v0, 0.0)
drive("mach zero -> ZeroDivisionError", f, [(0.0, p0, v0, 0.0), (0.1, Vector(3.0, 0.0, 0.0), v0, 0.0)])

# irregular motion: standing still, moving backwards, jumping over many record distances, NaN / inf
rng = random.Random(20260926)
for trial in range(6):
    x, t, pts = 0.0, 0.0, []
    for i in range(400):
        pts.append((t, Vector(x, rng.uniform(-3, 3), rng.uniform(-1, 1)),
                    Vector(rng.uniform(500, 3000), rng.uniform(-50, 50), 0.0), rng.uniform(1000, 1200)))
        x += rng.choice((0.0, 0.25, 0.25, 0.5, 3.7, -0.4, 12.0, 1e-9))
        t += rng.choice((0.0, 1e-4, 3e-4, 2e-3))
    f = _TrajectoryDataFilter(rng.choice((TrajFlag.RANGE, TrajFlag.ALL)), rng.choice((1.0, 2.5, 0.3)), pts[0][1],
                              pts[0][2], rng.choice((0.0, 0.001)))
    f.setup_seen_zero(pts[0][1].y, rng.uniform(-0.1, 0.1), rng.uniform(-0.1, 0.1))
    drive("irregular %d" % trial, f, pts, clear=bool(trial % 2))
weird = [(0.0, Vector(0.0, 0.0, 0.0), v0, 1100.0), (0.1, Vector(float("nan"), 0.0, 0.0), v0, 1100.0),
         (0.2, Vector(5.0, float("nan"), 0.0), v0, 1100.0), (0.3, Vector(1e6, 1.0, 0.0), v0, 1100.0),
         (0.4, Vector(1e6, 1.0, 0.0), v0, 1100.0), (float("nan"), Vector(1e6 + 7.0, 1.0, 0.0), v0, 1100.0)]
# (an infinite x with a finite step never finishes catching up, before and after the patch alike: not exercised)
for (rs, ts) in ((1.0, 0.0), (1.0, 0.05), (float("inf"), 0.05), (float("nan"), 0.05), (0.0, float("nan"))):
    f = _TrajectoryDataFilter(TrajFlag.ALL, rs, weird[0][1], v0, ts)
    f.setup_seen_zero(0.0, 0.0, 0.0)
    drive("weird step=%r time_step=%r" % (rs, ts), f, weird)
f = _TrajectoryDataFilter(TrajFlag.ALL, float("inf"), weird[0][1], v0, 0.0)
drive("infinite x, infinite step", f, weird[:1] + [(0.3, Vector(float("inf"), 1.0, 0.0), v0, 1100.0),
                                                    (0.4, Vector(float("inf"), 1.0, 0.0), v0, 1100.0)])

# the small checks called on their own
f = _TrajectoryDataFilter(TrajFlag.ALL, 0.0, p0, v0, 0.0)
for (t, ts) in ((0.5, 0.0), (0.5, 0.0), (0.6, 0.2), (0.71, 0.2), (0.0, -1.0), (float("nan"), 0.1)):
    f.time_step = ts
    f.clear_current_flag()
    f.check_next_time(t)
    print("check_next_time", repr(t), repr(ts), state(f))
for (v, m) in ((1200.0, 1000.0), (1000.0, 1000.0), (1000.0, 1000.0), (1200.0, 1000.0), (float("nan"), 1000.0),
               (900.0, 1000.0), (1100.0, 1000.0), (-1100.0, 1000.0)):
    f.clear_current_flag()
    f.check_mach_crossing(v, m)
    print("check_mach_crossing", repr(v), repr(m), state(f))
for la in (0.0, 0.2, -0.2, math.pi / 2):
    f = _TrajectoryDataFilter(TrajFlag.ALL, 0.0, p0, v0, 0.0)
    f.setup_seen_zero(-0.2, 0.0, la)
    for pos in (Vector(0.0, 5.0, 0.0), Vector(-1.0, 5.0, 0.0), Vector(1.0, -1.0, 0.0), Vector(2.0, 2.0 * math.tan(la), 0.0),
                Vector(3.0, 50.0, 0.0), Vector(4.0, 4.0 * math.tan(la), 0.0), Vector(5.0, -50.0, 0.0),
                Vector(6.0, 50.0, 0.0), Vector(7.0, -50.0, 0.0)):
        f.clear_current_flag()
        r = f.check_zero_crossing(pos)
        print("check_zero_crossing", repr(la), tuple(pos), repr(r), state(f))
f = _TrajectoryDataFilter(TrajFlag.ALL, 0.0, p0, v0, 0.0)
f.look_angle = float("inf")
for pos in (Vector(0.0, 1.0, 0.0), Vector(1.0, 1.0, 0.0)):
    try:
        print("check_zero_crossing inf look angle", repr(f.check_zero_crossing(pos)), state(f))
    except Exception as e:  # pylint: disable=broad-except
        print("check_zero_crossing inf look angle EXC", type(e).__name__, state(f))
f.look_angle = 0.0
f.seen_zero = TrajFlag.ZERO_DOWN  # unusual history: only the downward crossing marked as seen
for pos in (Vector(1.0, -1.0, 0.0), Vector(2.0, 1.0, 0.0), Vector(3.0, -1.0, 0.0)):
    f.clear_current_flag()
    f.check_zero_crossing(pos)
    print("check_zero_crossing seen=DOWN only", tuple(pos), state(f))
